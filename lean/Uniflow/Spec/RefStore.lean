/-
Reference store for C10 (`C10.store_refines`): the documents in id order and nothing else – no indexes, no plans, no
scans. Every operation is defined directly from the property statement and DESIGN.md §5 C10:

* `Find`     : a malformed filter is rejected (statically); otherwise the stored documents the reference evaluation
               `refMatch` (Spec/Query.lean) lets through, in id order, then sort / skip / limit;
* `Insert`   : document by document, stopping at the first rejected one – a document without id or with a stored id is
               rejected and leaves no trace;
* `Update`   : the matching documents, each replaced by its patched version (document by document, in id order,
               stopping at the first rejected one); with `upsert` and no match: insert the patched upsert document;
* `Delete`   : remove the matching documents;
* `Index` / `Unindex` (non-unique): no effect.

The document-level functions `patch` (`$set`/`$unset`) and `extract` (upsert document) are those of Model/Store.lean; their
own reference statements are `C10.patch_eq_ref` (proved) and `C10.extract_simple_full` (stated) in Props/C10.lean. Unique indexes (constraints that
reject documents) are not part of this reference: `C10.store_refines` is stated for histories without unique `Index`
operations; that a unique index rejects without trace and keeps its keys unique is C12 (`reject_noop`, `unique_keys`).
Core Lean only.
-/
import Uniflow.Model.Index
import Uniflow.Spec.Query

namespace Uniflow.RefStore
open Uniflow.Value Uniflow.Store Uniflow.Query Uniflow.Index

abbrev Docs := List (Val × PList)

/-- the matching documents, or the static error of a malformed filter -/
def rFind (docs : Docs) : Option Val → Res (List PList)
  | none => .ok (docs.map (·.2))
  | some f =>
    match validate f with
    | some e => .err e
    | none => .ok ((docs.map (·.2)).filter fun d => refMatch (some (.map d)) f)

def rInsertOne (docs : Docs) (d : PList) : Docs × Option (Res Unit) :=
  let id := mget d keyId
  if isNil id then (docs, some (.err .keyMissing))
  else if (getDoc docs id).isSome then (docs, some (.err .keyDuplicate))
  else (putDoc docs id d, none)

def rInsert (docs : Docs) : List PList → Docs × Option (Res Unit)
  | [] => (docs, none)
  | d :: ds =>
    match rInsertOne docs d with
    | (docs', none) => rInsert docs' ds
    | r => r

def rReplaceOne (docs : Docs) (d : PList) : Docs × Option (Res Unit) :=
  let id := mget d keyId
  if isNil id then (docs, some (.err .keyMissing))
  else if (getDoc docs id).isNone then (docs, some (.err .keyNotFound))
  else (putDoc docs id d, none)

def rReplaceAll (docs : Docs) : List PList → Docs × Option (Res Unit)
  | [] => (docs, none)
  | d :: ds =>
    match rReplaceOne docs d with
    | (docs', none) => rReplaceAll docs' ds
    | r => r

def rRemoveOne (docs : Docs) (id : Val) : Docs × Option (Res Unit) :=
  if (getDoc docs id).isNone then (docs, some (.err .keyNotFound)) else (delDoc docs id, none)

def rRemoveAll (docs : Docs) : List PList → Docs × Option (Res Unit)
  | [] => (docs, none)
  | d :: ds =>
    match rRemoveOne docs (mget d keyId) with
    | (docs', none) => rRemoveAll docs' ds
    | r => r

def liftR (m : Docs × Option (Res Unit)) (n : Nat) : Docs × Res Nat :=
  match m with
  | (s, none) => (s, .ok n)
  | (s, some (.err e)) => (s, .err e)
  | (s, some _) => (s, .panic)

def rUpdate (docs : Docs) (filter : Option Val) (u : PList) (upsert : Bool) : Docs × Res Nat :=
  match rFind docs filter with
  | .err e => (docs, .err e)
  | .panic => (docs, .panic)
  | .ok ms =>
    match patch .nil u with
    | .err e => (docs, .err e)
    | .panic => (docs, .panic)
    | .ok _ =>
      if upsert && ms.isEmpty then
        match (match filter with | some f => extract f | none => .ok .nil) with
        | .ok (.map d) =>
          match patch d u with
          | .ok d' => liftR (rInsertOne docs d') 1
          | .err e => (docs, .err e)
          | .panic => (docs, .panic)
        | .ok .nil => (docs, .panic)
        | .ok _ => (docs, .err .unsupportedType)
        | .err e => (docs, .err e)
        | .panic => (docs, .panic)
      else
        match patchAll u ms with
        | .ok ds => liftR (rReplaceAll docs ds) ms.length
        | .err e => (docs, .err e)
        | .panic => (docs, .panic)

def rDelete (docs : Docs) (filter : Option Val) : Docs × Res Nat :=
  match rFind docs filter with
  | .err e => (docs, .err e)
  | .panic => (docs, .panic)
  | .ok ms => liftR (rRemoveAll docs ms) ms.length

/-- `Find`: the matching documents, sorted, then skip / limit (= `Query.refFind` when the filter is well-formed) -/
def rFindAll (docs : Docs) (f : Option Val) (sort : Option PList) (skip limit : Nat) : Res (List PList) :=
  (rFind docs f).bind fun ds =>
    .ok (window skip limit (match sort with | some spec => sortDocs spec ds | none => ds))

def rStep (docs : Docs) : Op → Docs × Out
  | .insert ds => let (d', r) := rInsert docs ds; (d', outOfMut r)
  | .update f u up => let (d', r) := rUpdate docs f u up; (d', outOfN r)
  | .delete f => let (d', r) := rDelete docs f; (d', outOfN r)
  | .find f sort skip limit =>
    match rFindAll docs f sort skip limit with
    | .ok ds => (docs, .docs ds)
    | .err e => (docs, .err e)
    | .panic => (docs, .panic)
  | .index _ _ _ => (docs, .done)
  | .unindex _ => (docs, .done)

/-- the answers of a history, one per operation -/
def rOuts (docs : Docs) : List Op → List Out
  | [] => []
  | op :: ops => (rStep docs op).2 :: rOuts (rStep docs op).1 ops

def rRun (docs : Docs) : List Op → Docs
  | [] => docs
  | op :: ops => rRun (rStep docs op).1 ops

end Uniflow.RefStore
