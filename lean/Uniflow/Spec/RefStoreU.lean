/-
Reference store with unique constraints (C10 `store_refines_unique`, C11 `find_index_independent_unique`): the documents in
id order plus the list of declared *unique constraints* – nothing else, no index structures, no plans.

A unique constraint `c = (keys, filter)` is a predicate on the document set (`Holds`): no two different stored documents
that the filter admits have the same key tuple. An `Insert`/`Update` of a document is rejected (`ErrKeyDuplicate`, no
effect) iff storing it would violate a declared constraint (`violates`: some *other* stored, admitted document has its
tuple); `Index` with `Unique` over documents that already violate the constraint is rejected without effect (`dupScan`);
declaring an index replaces the declarations with the same keys (so a non-unique `Index` or an `Unindex` drops the
constraint with those keys). Everything else is the reference store of Spec/RefStore.lean. The built-in unique index on
`id` is the initial constraint `([id], none)`; it never rejects anything the id check has not rejected already.
Core Lean only.
-/
import Uniflow.Spec.RefStore

namespace Uniflow.RefStoreU
open Uniflow.Value Uniflow.Store Uniflow.Query Uniflow.Index Uniflow.RefStore

/-- a unique constraint: key fields and the filter of a partial index (`none` = every document) -/
structure Cst where
  keys : List Val
  filter : Option Val

def Cst.admits (c : Cst) (d : PList) : Bool :=
  match c.filter with
  | none => true
  | some φ => refMatch (some (.map d)) φ

def Cst.tuple (c : Cst) (d : PList) : List Val := c.keys.map (mget d)

/-- the constraint as a predicate on the document set -/
def Holds (c : Cst) (docs : Docs) : Prop :=
  docs.Pairwise fun a b => c.admits a.2 = true → c.admits b.2 = true → tupCmp (c.tuple a.2) (c.tuple b.2) ≠ 0

/-- storing `d` under its id would violate `c`: another stored document `c` admits has `d`'s key tuple -/
def violates (c : Cst) (docs : Docs) (d : PList) : Bool :=
  c.admits d && docs.any fun p =>
    cmp p.1 (mget d keyId) != 0 && c.admits p.2 && decide (tupCmp (c.tuple p.2) (c.tuple d) = 0)

structure RState where
  docs : Docs
  uniq : List Cst

def rejects (r : RState) (d : PList) : Bool := r.uniq.any fun c => violates c r.docs d

/-- the empty store: the built-in unique index on `id` -/
def rInit : RState := { docs := [], uniq := [{ keys := [keyId], filter := none }] }

def uInsertOne (r : RState) (d : PList) : RState × Option (Res Unit) :=
  let id := mget d keyId
  if isNil id then (r, some (.err .keyMissing))
  else if (getDoc r.docs id).isSome then (r, some (.err .keyDuplicate))
  else if rejects r d then (r, some (.err .keyDuplicate))
  else ({ r with docs := putDoc r.docs id d }, none)

def uInsert (r : RState) : List PList → RState × Option (Res Unit)
  | [] => (r, none)
  | d :: ds =>
    match uInsertOne r d with
    | (r', none) => uInsert r' ds
    | x => x

def uReplaceOne (r : RState) (d : PList) : RState × Option (Res Unit) :=
  let id := mget d keyId
  if isNil id then (r, some (.err .keyMissing))
  else if (getDoc r.docs id).isNone then (r, some (.err .keyNotFound))
  else if rejects r d then (r, some (.err .keyDuplicate))
  else ({ r with docs := putDoc r.docs id d }, none)

def uReplaceAll (r : RState) : List PList → RState × Option (Res Unit)
  | [] => (r, none)
  | d :: ds =>
    match uReplaceOne r d with
    | (r', none) => uReplaceAll r' ds
    | x => x

def uRemoveOne (r : RState) (id : Val) : RState × Option (Res Unit) :=
  if (getDoc r.docs id).isNone then (r, some (.err .keyNotFound)) else ({ r with docs := delDoc r.docs id }, none)

def uRemoveAll (r : RState) : List PList → RState × Option (Res Unit)
  | [] => (r, none)
  | d :: ds =>
    match uRemoveOne r (mget d keyId) with
    | (r', none) => uRemoveAll r' ds
    | x => x

def liftU (m : RState × Option (Res Unit)) (n : Nat) : RState × Res Nat :=
  match m with
  | (s, none) => (s, .ok n)
  | (s, some (.err e)) => (s, .err e)
  | (s, some _) => (s, .panic)

def uUpdate (r : RState) (filter : Option Val) (u : PList) (upsert : Bool) : RState × Res Nat :=
  match rFind r.docs filter with
  | .err e => (r, .err e)
  | .panic => (r, .panic)
  | .ok ms =>
    match patch .nil u with
    | .err e => (r, .err e)
    | .panic => (r, .panic)
    | .ok _ =>
      if upsert && ms.isEmpty then
        match (match filter with | some f => extract f | none => .ok .nil) with
        | .ok (.map d) =>
          match patch d u with
          | .ok d' => liftU (uInsertOne r d') 1
          | .err e => (r, .err e)
          | .panic => (r, .panic)
        | .ok .nil => (r, .panic)
        | .ok _ => (r, .err .unsupportedType)
        | .err e => (r, .err e)
        | .panic => (r, .panic)
      else
        match patchAll u ms with
        | .ok ds => liftU (uReplaceAll r ds) ms.length
        | .err e => (r, .err e)
        | .panic => (r, .panic)

def uDelete (r : RState) (filter : Option Val) : RState × Res Nat :=
  match rFind r.docs filter with
  | .err e => (r, .err e)
  | .panic => (r, .panic)
  | .ok ms => liftU (uRemoveAll r ms) ms.length

/-- scanning the documents in id order: does a document the constraint admits repeat the tuple of an earlier one? -/
def dupScan (c : Cst) (seen : List (List Val)) : Docs → Bool
  | [] => false
  | p :: rest =>
    if c.admits p.2 then
      if seen.any fun t => tupCmp t (c.tuple p.2) = 0 then true else dupScan c (c.tuple p.2 :: seen) rest
    else dupScan c seen rest

/-- `Index(keys, {Unique, Filter})` -/
def uIndex (r : RState) (keys : List Val) (unique : Bool) (filter : Option Val) : RState × Option (Res Unit) :=
  let c : Cst := { keys, filter }
  if unique && !keys.isEmpty && dupScan c [] r.docs then (r, some (.err .keyDuplicate))
  else ({ r with uniq := (r.uniq.filter fun x => !keysEq x.keys keys) ++ (if unique then [c] else []) }, none)

def uUnindex (r : RState) (keys : List Val) : RState :=
  { r with uniq := r.uniq.filter fun x => !keysEq x.keys keys }

def uStep (r : RState) : Op → RState × Out
  | .insert ds => let (r', x) := uInsert r ds; (r', outOfMut x)
  | .update f u up => let (r', x) := uUpdate r f u up; (r', outOfN x)
  | .delete f => let (r', x) := uDelete r f; (r', outOfN x)
  | .find f sort skip limit =>
    match rFindAll r.docs f sort skip limit with
    | .ok ds => (r, .docs ds)
    | .err e => (r, .err e)
    | .panic => (r, .panic)
  | .index keys unique f => let (r', x) := uIndex r keys unique f; (r', outOfMut x)
  | .unindex keys => (uUnindex r keys, .done)

def uOuts (r : RState) : List Op → List Out
  | [] => []
  | op :: ops => (uStep r op).2 :: uOuts (uStep r op).1 ops

def uRun (r : RState) : List Op → RState
  | [] => r
  | op :: ops => uRun (uStep r op).1 ops

end Uniflow.RefStoreU
