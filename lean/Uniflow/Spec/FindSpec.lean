/-
What a (sorted) find must return, as a *property* of the result – independent of any sorting function (C10,
`C10.find_sorted_spec`): the result is a window (skip, then limit) of an arrangement of the matching documents that is
a permutation of them and is ordered by the comparator on the sort fields; documents that tie may come in any order
(Go's `slices.SortFunc` is not stable). Core Lean only.
-/
import Uniflow.Spec.Query

namespace Uniflow.Query
open Uniflow.Value Uniflow.Store

/-- the direction of a sort field: its order operand decoded as a Go `int` by the value codec, `1` when it does not
decode (`Store.dirOf`: integers as they are, unsigned ones in two's complement, floats truncated, numeric strings parsed;
`C10.dirOf_is_int_decoder` ties it to the codec model). Negative = descending, positive = ascending; a direction that
decodes to 0 (`0`, `0.0`, `0.9`, `"0"`) makes every pair tie – excluded by `directed`. -/
def refDirection (v : Val) : Int := dirOf v

/-- the comparator of a sort specification `{field: direction, …}`: the first field on which the two documents differ
decides, by `Compare` of the field values (an absent field compares as nil) times the direction; `≤ 0` = "may come first" -/
def refOrder : PList → PList → PList → Int
  | .nil, _, _ => 0
  | .cons field o rest, x, y =>
    let c := cmp (valOf (mfind x field)) (valOf (mfind y field))
    if c != 0 then c * refDirection o else refOrder rest x y

/-- every direction of the specification is non-zero (a zero direction makes every pair tie on that field while later
fields are ignored – not an order; the property's sorts are on one field with direction ±1) -/
def directed : PList → Bool
  | .nil => true
  | .cons _ o rest => refDirection o != 0 && directed rest

/-- `r` is ordered by the comparator: a document never comes before one that must precede it -/
def OrderedBy (spec : PList) (r : List PList) : Prop := r.Pairwise fun x y => refOrder spec x y ≤ 0

/-- skip, then limit (`limit = 0`: no limit) -/
def refWindow (skip limit : Nat) (l : List PList) : List PList :=
  if limit = 0 then l.drop skip else (l.drop skip).take limit

/-- `res` is an admissible answer of a find whose filter lets through `ms` (in id order) -/
def FindSpec (ms : List PList) (sort : Option PList) (skip limit : Nat) (res : List PList) : Prop :=
  ∃ r, (match sort with
        | none => r = ms
        | some spec => r.Perm ms ∧ OrderedBy spec r) ∧ res = refWindow skip limit r

end Uniflow.Query
