/-
Abstract tracer: the specification of `pkg/packet/tracer.go` as the three node types use it (C02),
to be read without the seven maps.

State: the requests read and not yet answered, in the order read (`reqs`, each tagged with the
reader it was read on), and per writer the queue of packets written to it and not yet answered
(`wq`, oldest first – the C01 contract: the next response on writer `w` belongs to the head).
A request is in one of two shapes:

* `cells cs` – one cell per packet derived from it (`Link`), in link order:
    `linked q`     derived packet `q` is registered, not yet written;
    `written q w`  `q` was accepted by writer `w`, its answer is owed;
    `filled a`     the answer to that derived packet is `a` (or, when nobody accepted the write,
                   the derived packet itself).
  `cells []` = nothing registered yet (the forward goroutine is between `Read` and `Link`/`Write`):
  such a request is **not** complete (this is what the `fix:` commit is about).
* `direct w` – the request packet itself was written to writer `w` (an action returning its input).

A request is complete when it has at least one cell and every cell is filled; its answer is
`Join` of the cells in link order (`reply`).  `flushR r` answers the maximal complete prefix of
reader `r`'s requests – in read order, each exactly once (it leaves the state).
`bad` records a call whose precondition does not hold (e.g. writing a packet that was never linked);
`C02.node_contract` proves the node programs never do that.
-/
import Uniflow.Model.Tracer

namespace Uniflow.ATracer
open Uniflow.Tracer

inductive Cell where
  | linked (q : Pid)
  | written (q : Pid) (w : Wid)
  | filled (a : Ans)

inductive RSt where
  | cells (cs : List Cell)
  | direct (w : Wid)

structure Req where
  p : Pid
  r : Rid
  st : RSt

structure A where
  reqs : List Req := []
  wq : List (Wid × List Pid) := []
  bad : Bool := false

def cellVal : Cell → Option Ans
  | .filled a => some a
  | _ => none

def openIds : List Cell → List Pid
  | [] => []
  | .linked q :: cs => q :: openIds cs
  | .written q _ :: cs => q :: openIds cs
  | .filled _ :: cs => openIds cs

/-- the answer of a complete request -/
def reply : RSt → Option Ans
  | .cells [] => none
  | .cells cs => if hasNil (cs.map cellVal) then none else some (joinCells (cs.map cellVal))
  | .direct _ => none

/-- answer the maximal complete prefix of reader `r`'s requests -/
def flushR (r : Rid) : List Req → List Req × List Ev
  | [] => ([], [])
  | x :: xs =>
    if x.r = r then
      match reply x.st with
      | some a =>
        let (xs', ev) := flushR r xs
        (xs', Ev.reply r a :: ev)
      | none => (x :: xs, [])
    else
      let (xs', ev) := flushR r xs
      (x :: xs', ev)

/-- apply `f` to the state of the request with packet id `p` -/
def updReq (p : Pid) (f : RSt → RSt) : List Req → List Req
  | [] => []
  | x :: xs => if x.p = p then { x with st := f x.st } :: xs else x :: updReq p f xs

def findReq (p : Pid) : List Req → Option Req
  | [] => none
  | x :: xs => if x.p = p then some x else findReq p xs

/-- the request one of whose unanswered derived packets is `k` -/
def ownerOf (k : Pid) : List Req → Option Req
  | [] => none
  | x :: xs =>
    match x.st with
    | .cells cs => if k ∈ openIds cs then some x else ownerOf k xs
    | .direct _ => ownerOf k xs

def fillCell (k : Pid) (a : Ans) : List Cell → List Cell
  | [] => []
  | .linked q :: cs => if q = k then .filled a :: cs else .linked q :: fillCell k a cs
  | .written q w :: cs => if q = k then .filled a :: cs else .written q w :: fillCell k a cs
  | .filled b :: cs => .filled b :: fillCell k a cs

def markWritten (k : Pid) (w : Wid) : List Cell → List Cell
  | [] => []
  | .linked q :: cs => if q = k then .written q w :: cs else .linked q :: markWritten k w cs
  | c :: cs => c :: markWritten k w cs

def isLinked (k : Pid) : List Cell → Bool
  | [] => false
  | .linked q :: cs => q = k || isLinked k cs
  | _ :: cs => isLinked k cs

/-- `Read(reader, pck)` -/
def aread (a : A) (r : Rid) (p : Pid) : A :=
  { a with reqs := a.reqs ++ [⟨p, r, .cells []⟩] }

/-- `Link(source, target)` -/
def alink (a : A) (p q : Pid) : A :=
  if p = q then a else
  match findReq p a.reqs with
  | some ⟨_, _, .cells _⟩ =>
    { a with reqs := updReq p (fun st => match st with | .cells cs => .cells (cs ++ [.linked q]) | s => s) a.reqs }
  | _ => { a with bad := true }

/-- after a cell of request `p` (reader `r`) was filled: answer what is complete, if `p` is -/
def afterFill (a : A) (reqs : List Req) (p : Pid) : A × List Ev :=
  match findReq p reqs with
  | some x =>
    match reply x.st with
    | some _ => let (rs, ev) := flushR x.r reqs; ({ a with reqs := rs }, ev)
    | none => ({ a with reqs := reqs }, [])
  | none => ({ a with bad := true }, [])

def fillSt (k : Pid) (ans : Ans) : RSt → RSt
  | .cells cs => .cells (fillCell k ans cs)
  | s => s

/-- the answer `ans` for packet `k` (a request written directly, or a derived packet) arrives -/
def afill (a : A) (k : Pid) (ans : Ans) : A × List Ev :=
  match findReq k a.reqs with
  | some ⟨_, _, .cells []⟩ => afterFill a (updReq k (fun _ => .cells [.filled ans]) a.reqs) k
  | some ⟨_, _, .direct _⟩ => afterFill a (updReq k (fun _ => .cells [.filled ans]) a.reqs) k
  | some _ => ({ a with bad := true }, [])
  | none =>
    match ownerOf k a.reqs with
    | some x =>
      afterFill a (updReq x.p (fillSt k ans) a.reqs) x.p
    | none => ({ a with bad := true }, [])

/-- `Write(writer, pck)`: `accepted` as in `Uniflow.Tracer.write`; `pay` = `pck` itself -/
def awrite (a : A) (w : Option Wid) (k : Pid) (pay : Ans) (accepted : Bool) : A × List Ev :=
  match w, accepted with
  | some w, true =>
    match findReq k a.reqs with
    | some ⟨_, _, .cells []⟩ =>
      ({ a with reqs := updReq k (fun _ => .direct w) a.reqs, wq := aset a.wq w (getL a.wq w ++ [k]) }, [])
    | some _ => ({ a with bad := true }, [])
    | none =>
      match ownerOf k a.reqs with
      | some ⟨p, _, .cells cs⟩ =>
        if isLinked k cs then
          ({ a with reqs := updReq p (fun st => match st with | .cells cs => .cells (markWritten k w cs) | s => s) a.reqs,
                    wq := aset a.wq w (getL a.wq w ++ [k]) }, [])
        else ({ a with bad := true }, [])
      | _ => ({ a with bad := true }, [])
  | _, _ => afill a k pay

/-- `Receive(writer, pck)` with a non-nil packet -/
def aanswer (a : A) (w : Wid) (ans : Ans) : A × List Ev :=
  match getL a.wq w with
  | [] => (a, [])
  | k :: rest => afill { a with wq := setOrDel a.wq w rest } k ans

def readsOf (a : A) (r : Rid) : List Pid := (a.reqs.filter (fun x => x.r = r)).map (·.p)


/-! ### the call protocol

A node uses its tracer through four calls. `Pre` is the protocol a caller must follow for the
abstract tracer to be meaningful (and for the Go tracer not to misbehave): packets handed to `Read`
are new; `Link(p, q)` names a request that is still being processed and a new packet `q` (or `p`
itself, which Go ignores); `Write` is given either a request for which nothing was registered yet
(an action returning its input, or the echo `Write(nil, in)`) or a packet that was linked and not
written before. -/

inductive Call where
  | read (r : Rid) (p : Pid)
  | link (p q : Pid)
  | write (w : Option Wid) (k : Pid) (pay : Ans) (acc : Bool)
  | answer (w : Wid) (ans : Ans)

def cellsOfSt : RSt → List Cell
  | .cells cs => cs
  | .direct _ => []

/-- the packet ids a request occupies: its own and those of its unanswered derived packets -/
def idsR (x : Req) : List Pid := x.p :: openIds (cellsOfSt x.st)

def ids (rs : List Req) : List Pid := rs.flatMap idsR

def Pre (a : A) : Call → Prop
  | .read _ p => p ∉ ids a.reqs
  | .link p q => p = q ∨ (∃ x cs, findReq p a.reqs = some x ∧ x.st = .cells cs ∧ q ∉ ids a.reqs)
  | .write _ k _ _ =>
    (∃ r, findReq k a.reqs = some ⟨k, r, .cells []⟩) ∨
    (∃ x cs, x ∈ a.reqs ∧ x.st = .cells cs ∧ isLinked k cs = true)
  | .answer _ _ => True

def acall (a : A) : Call → A × List Ev
  | .read r p => (aread a r p, [])
  | .link p q => (alink a p q, [])
  | .write w k pay acc => awrite a w k pay acc
  | .answer w ans => aanswer a w ans

/-- the same call on the tracer model (fixed code) -/
def tcall (t : T) : Call → T × List Ev
  | .read r p => (Tracer.read t r p, [])
  | .link p q => (link t p q, [])
  | .write w k pay acc => write true t w k pay acc
  | .answer w ans => receiveW true t w (some ans)

def arun : A → List Call → A × List Ev
  | a, [] => (a, [])
  | a, c :: cs => let r := acall a c; let r' := arun r.1 cs; (r'.1, r.2 ++ r'.2)

def trun : T → List Call → T × List Ev
  | t, [] => (t, [])
  | t, c :: cs => let r := tcall t c; let r' := trun r.1 cs; (r'.1, r.2 ++ r'.2)

/-- every call satisfies `Pre` in the abstract state in which it is made -/
def Protocol : A → List Call → Prop
  | _, [] => True
  | a, c :: cs => Pre a c ∧ Protocol (acall a c).1 cs

end Uniflow.ATracer
