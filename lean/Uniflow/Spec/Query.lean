/-
Reference evaluation of the store's query language (C10): what a filter, an update, an upsert and a find *mean*,
written from the property statement and DESIGN.md §5 C10, not from helper.go. Core Lean only.

* A value or field may be absent: `Option Val` (`none` = absent). A field of an absent or non-map parent is absent.
* A non-map filter is equality. A map filter is the **conjunction of all its entries** (`refP` folds `&&` over the
  entries – `refP_perm` in Props/C10.lean: any order gives the same result):
  a field entry descends into that field; `$eq/$ne/$gt/$gte/$lt/$lte` compare the value (absent compares as nil) by
  `equal`/`cmp`; `$exists` compares the *presence* of the field with the truthiness of its operand; `$and`/`$or` are
  all/any over a list of filters. An entry that is malformed contributes `false`.
* Malformedness (`wf`: non-string key, unknown `$` operator, non-list under `$and`/`$or`) is a property of the filter
  alone; a malformed filter or update is an error whatever is stored.
* Documents are dictionaries keyed by `equal` (`Uniflow.Dict`): `$set` assigns, `$unset` removes.
* `refFind`: the stored documents in id order that match, sorted on the sort fields (ties: any order – the functions
  here pick the stable one; `C10.sort_sorted`/`sort_perm` state what is required of any implementation), then skip/limit.
-/
import Uniflow.Model.Store
import Uniflow.Spec.Dict

namespace Uniflow.Query
open Uniflow.Value Uniflow.Store

/-- the value an absent field compares as -/
def valOf (d : Option Val) : Val := d.getD .nil

/-- the field `k` of a possibly absent value -/
def field (d : Option Val) (k : Val) : Option Val :=
  match d with
  | some (.map ps) => mfind ps k
  | _ => none

mutual
  /-- does the (possibly absent) value `d` satisfy filter `f`? -/
  def refMatch (d : Option Val) : Val → Bool
    | .map ps => refP d ps
    | f => equal (valOf d) f
  /-- conjunction of all entries -/
  def refP (d : Option Val) : PList → Bool
    | .nil => true
    | .cons k v rest =>
      (match k with
       | .str key =>
         if !dollar key then refMatch (field d k) v
         else if key = opExists then d.isSome == truthy v
         else if key = opAnd then (match v with | .slice xs => refAllL d xs | _ => false)
         else if key = opOr then (match v with | .slice xs => refAnyL d xs | _ => false)
         else (cmpOp key (valOf d) v).getD false
       | _ => false) && refP d rest
  def refAllL (d : Option Val) : VList → Bool
    | .nil => true
    | .cons f fs => refMatch d f && refAllL d fs
  def refAnyL (d : Option Val) : VList → Bool
    | .nil => false
    | .cons f fs => refMatch d f || refAnyL d fs
end

mutual
  /-- well-formed filter -/
  def wf : Val → Bool
    | .map ps => wfP ps
    | _ => true
  def wfP : PList → Bool
    | .nil => true
    | .cons k v rest =>
      (match k with
       | .str key =>
         if !dollar key then wf v
         else if key = opAnd || key = opOr then (match v with | .slice xs => wfL xs | _ => false)
         else key = opExists || (cmpOp key .nil .nil).isSome
       | _ => false) && wfP rest
  def wfL : VList → Bool
    | .nil => true
    | .cons f fs => wf f && wfL fs
end

/-- a stored document matches a filter (`none` = no filter) -/
def refMatchDoc (f : Option Val) (d : PList) : Bool :=
  match f with
  | none => true
  | some f => refMatch (some (.map d)) f

/-! ## updates -/

abbrev Doc := Dict.Dict

def setAll (d : Doc) : PList → Doc
  | .nil => d
  | .cons k v ps => setAll (Dict.set d k v) ps

def unsetAll (d : Doc) : PList → Doc
  | .nil => d
  | .cons k _ ps => unsetAll (Dict.delete d k) ps

/-- a well-formed update: only `$set` / `$unset`, each holding a map -/
def wfUpdate : PList → Bool
  | .nil => true
  | .cons (.str key) (.map _) rest => (key = opSet || key = opUnset) && wfUpdate rest
  | _ => false

/-- apply a well-formed update to a document, entry by entry -/
def refPatch (d : Doc) : PList → Doc
  | .cons (.str key) (.map kv) rest =>
    if key = opSet then refPatch (setAll d kv) rest
    else if key = opUnset then refPatch (unsetAll d kv) rest
    else d
  | _ => d

/-! ## upsert document

Defined for *simple* filters: field conditions that are a value, exactly `{$eq: v}`, a non-empty map of operators
other than `$eq`, `$and`, `$or`, or (recursively) a map of such field conditions. The document holds every field an
equality condition pins to a non-nil value. (For other filters `extract` depends on the order of the filter's keys;
they are outside the generated upsert language – Props/C10.lean.) -/

def fieldKey : Val → Bool
  | .str key => !dollar key
  | _ => false

def plainOp : Val → Bool
  | .str key => dollar key && key != opEq && key != opAnd && key != opOr
  | _ => false

def allKeys (p : Val → Bool) : PList → Bool
  | .nil => true
  | .cons k _ rest => p k && allKeys p rest

mutual
  def simple : Val → Bool
    | .map ps =>
      (allKeys fieldKey ps && simpleP ps)
        || (match ps with | .cons (.str key) _ .nil => key = opEq | _ => false)
        || (match ps with | .nil => false | _ => allKeys plainOp ps)
    | _ => true
  def simpleP : PList → Bool
    | .nil => true
    | .cons _ v rest => simple v && simpleP rest
end

mutual
  /-- the value a simple condition pins (`Val.nil` = none) -/
  def refExtract : Val → Val
    | .map ps =>
      if allKeys fieldKey ps then .map (refExtractP .nil ps)
      else match ps with
        | .cons (.str key) v .nil => if key = opEq then v else .nil
        | _ => .nil
    | v => v
  def refExtractP (doc : PList) : PList → PList
    | .nil => doc
    | .cons k v rest =>
      let c := refExtract v
      refExtractP (if isNil c then doc else mset doc k c) rest
end

/-- the document an upsert inserts for a simple filter (before the update is applied) -/
def refUpsertDoc (f : Val) : Val := refExtract f

/-! ## find -/

/-- `refFind docs filter sort skip limit`: `docs` are the stored documents in id order -/
def refFind (docs : List PList) (f : Option Val) (sort : Option PList) (skip limit : Nat) : List PList :=
  let ms := docs.filter (refMatchDoc f)
  window skip limit (match sort with | some spec => sortDocs spec ms | none => ms)

/-- the outcome class of a find / update / delete filter: `some e` = rejected as malformed -/
def filterOk : Option Val → Bool
  | none => true
  | some f => wf f

end Uniflow.Query
