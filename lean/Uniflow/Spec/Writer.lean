/-
Specification for C01: what a writer owes for every accepted write, keyed by *identities*
(reader ids and write ids) instead of column indices.

* Every accepted write gets the next write id `wid` (0, 1, 2 … in write order) and a pending row:
  one slot per reader linked at that moment, in link order – `some none` (*refused*) for a reader
  that was already closed (it did not accept the write and will never answer it), `none` (owed)
  for a reader that accepted; an accepting reader's slot becomes `some (some a)` once answered.
* A reader answers its requests in FIFO order: `owed r` is the queue of write ids it accepted and
  has not answered yet.  `answer r a` pops the oldest id `w` and puts `a` into r's slot *of row w*
  – if that row is still pending and still has a slot of r (r was not unlinked since).  Closing a
  reader turns each entry of `owed r` into a deferred drop notice; `deliverDrop r` pops one and
  puts `dropped` into r's slot of that row.
* An answer need not reach the writer at once: `pop r a` takes the oldest request off r's queue and
  puts the answer *in flight*, `deliver r k` lets the k-th answer in flight of r arrive – in any
  order, also after r was closed and its drop notices were delivered.  Whenever it arrives it
  belongs to the write whose request was answered.  `answer r a` is `pop` and `deliver` in one step.
* `unlink r` removes r's slot from every pending row.
* After every change complete rows at the head are emitted, in order: the `join` of what the
  ACCEPTING readers that are still linked answered (refused slots contribute nothing), or `dropped`
  when no accepting reader of the write is left.  `closeW` emits `dropped` for every pending row.
* A write with no accepting reader returns 0, gets no id and emits nothing.

`emittedIds` is a ghost log (never read by `step`): the write ids of the emitted responses.
-/
import Uniflow.Model.Writer

namespace Uniflow.WriterSpec
open Uniflow.Writer

structure SRow where
  wid : Nat
  slots : List (RId × Cell)

def SRow.cells (row : SRow) : Row := row.slots.map Prod.snd
def SRow.readers (row : SRow) : List RId := row.slots.map Prod.fst

/-- What the readers that accepted the write and are still linked answered, in link order. -/
def SRow.answers (row : SRow) : List Ans :=
  row.slots.filterMap fun p => match p.2 with
    | some (some a) => some a
    | _ => none

/-- The response to a completed write: `dropped` when no accepting reader is left to answer,
otherwise the join of the answers. -/
def SRow.response (row : SRow) : Resp :=
  if row.answers.isEmpty then .dropped else join row.answers

/-- Row `row` still owes an answer of reader `r`. -/
def SRow.owes (row : SRow) (r : RId) : Bool := row.slots.any fun p => p.1 == r && p.2.isNone

def SRow.fill (row : SRow) (r : RId) (a : Fill) : SRow :=
  { row with slots := row.slots.map fun p => if p.1 = r then (p.1, some a) else p }

def SRow.drop (row : SRow) (r : RId) : SRow :=
  { row with slots := row.slots.filter fun p => p.1 ≠ r }

structure S where
  linked : List RId := []
  rows : List SRow := []
  done : Bool := false
  closed : RId → Bool := fun _ => false
  owed : RId → List Nat := fun _ => []
  /-- answers on their way to the writer: the reader has taken the request of write `w` off its
  queue and answered `a`, the writer has not received it yet -/
  flight : RId → List (Ans × Nat) := fun _ => []
  nextW : Nat := 0
  emittedIds : List Nat := []

def S.init : S := {}

/-- Emit complete rows from the head: `(remaining, responses, their write ids)`. -/
def flush : List SRow → List SRow × List Resp × List Nat
  | [] => ([], [], [])
  | row :: rest =>
    if hasNil row.cells then (row :: rest, [], [])
    else ((flush rest).1, row.response :: (flush rest).2.1, row.wid :: (flush rest).2.2)

/-- Put `a` into r's slot of the row with id `w`; `none` when there is no such owed slot. -/
def credit (w : Nat) (r : RId) (a : Fill) : List SRow → Option (List SRow)
  | [] => none
  | row :: rest =>
    if row.wid = w then (if row.owes r then some (row.fill r a :: rest) else none)
    else (credit w r a rest).map (row :: ·)

/-- An answer (or drop notice) of reader `r` for write `w` arrives. -/
def arrive (s : S) (w : Nat) (r : RId) (a : Ans) : S × Out :=
  if s.done then (s, { ret := .ok false })
  else if r ∉ s.linked then (s, { ret := .ok false })
  else match credit w r (some a) s.rows with
    | none => (s, { ret := .ok false })
    | some rows =>
      ({ s with rows := (flush rows).1, emittedIds := s.emittedIds ++ (flush rows).2.2 },
       { ret := .ok true, emits := (flush rows).2.1 })

def step (s : S) : Step → S × Out
  | .link r =>
    if s.done then (s, { ret := .ok false })
    else if r ∈ s.linked then (s, { ret := .ok false })
    else ({ s with linked := s.linked ++ [r] }, { ret := .ok true })
  | .unlink r =>
    if s.done then (s, { ret := .ok false })
    else if r ∉ s.linked then (s, { ret := .ok false })
    else
      let rows := s.rows.map (·.drop r)
      ({ s with linked := s.linked.filter (· ≠ r), rows := (flush rows).1,
                emittedIds := s.emittedIds ++ (flush rows).2.2 },
       { ret := .ok true, emits := (flush rows).2.1 })
  | .write v =>
    if s.done then (s, { ret := .cnt 0 })
    else
      let acc := accepting s.closed s.linked
      if acc.length > 0 then
        ({ s with rows := s.rows ++ [{ wid := s.nextW,
                                       slots := s.linked.map fun r => (r, if s.closed r then some none else none) }],
                  owed := fun r => if r ∈ acc then s.owed r ++ [s.nextW] else s.owed r,
                  nextW := s.nextW + 1 },
         { ret := .cnt acc.length, deliv := acc.map fun r => (r, v) })
      else (s, { ret := .cnt 0 })
  | .answer r a =>
    if s.closed r then (s, { ret := .ok false })
    else match s.owed r with
      | [] => (s, { ret := .ok false })
      | w :: rest => arrive { s with owed := fun x => if x = r then rest else s.owed x } w r a
  | .pop r a =>
    if s.closed r then (s, { ret := .ok false })
    else match s.owed r with
      | [] => (s, { ret := .ok false })
      | w :: rest =>
        ({ s with owed := fun x => if x = r then rest else s.owed x,
                  flight := fun x => if x = r then s.flight r ++ [(a, w)] else s.flight x },
         { ret := .ok true })
  | .deliver r k =>
    match (s.flight r)[k]? with
    | none => (s, { ret := .skip })
    | some e => arrive { s with flight := fun x => if x = r then (s.flight r).eraseIdx k else s.flight x } e.2 r e.1
  | .closeR r =>
    if s.closed r then (s, { ret := .cnt 0 })
    else ({ s with closed := fun x => if x = r then true else s.closed x }, { ret := .cnt (s.owed r).length })
  | .deliverDrop r =>
    if !s.closed r then (s, { ret := .skip })
    else match s.owed r with
      | [] => (s, { ret := .skip })
      | w :: rest =>
        let p := arrive { s with owed := fun x => if x = r then rest else s.owed x } w r Ans.dropped
        (p.1, { p.2 with ret := .unit })
  | .closeW =>
    if s.done then (s, { ret := .unit })
    else ({ s with done := true, linked := [], rows := [],
                   emittedIds := s.emittedIds ++ s.rows.map (·.wid) },
          { ret := .unit, emits := s.rows.map fun _ => Resp.dropped })

def runFrom (s : S) : List Step → S × List Out
  | [] => (s, [])
  | st :: h => ((runFrom (step s st).1 h).1, (step s st).2 :: (runFrom (step s st).1 h).2)

def run (h : List Step) : S × List Out := runFrom S.init h

/-! ### `Write` with a reader closing inside it

The specification of `writeH v cs` (see `Uniflow.Writer.XStep`): if the write is a request at all
(writer open, some linked reader open) the readers `cs` close first – each exactly as `closeR` –
and then the write happens in the state they left: it is accepted by the readers that are STILL
open, and if none is it reports 0 and leaves no row, no write id, no queue entry behind. -/

def isRequest (s : S) : Bool := !s.done && !(accepting s.closed s.linked).isEmpty

def closeAll (s : S) : List RId → S × Nat
  | [] => (s, 0)
  | r :: rs =>
    let p := step s (.closeR r)
    let q := closeAll p.1 rs
    (q.1, p.2.ret.count + q.2)

def xstep (s : S) : XStep → S × XOut
  | .base st =>
    let p := step s st
    (p.1, { out := p.2, shown := shownOf (isRequest s) st })
  | .writeH v cs =>
    if isRequest s then
      let c := closeAll s cs
      let p := step c.1 (.write v)
      (p.1, { out := p.2, shown := 1, spawned := c.2 })
    else (s, { out := { ret := .cnt 0 } })

def xrunFrom (s : S) : List XStep → S × List XOut
  | [] => (s, [])
  | st :: h => ((xrunFrom (xstep s st).1 h).1, (xstep s st).2 :: (xrunFrom (xstep s st).1 h).2)

def xrun (h : List XStep) : S × List XOut := xrunFrom S.init h

end Uniflow.WriterSpec
