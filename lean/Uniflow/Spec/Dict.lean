/-
Reference dictionary for C15: an association list keyed by value equality (`Uniflow.Value.equal`).
Core Lean only. `Props/C15.lean` states the op-sequence refinement against it (`C15.map_refines_full`).
-/
import Uniflow.Model.Value

namespace Uniflow.Dict
open Uniflow.Value

abbrev Dict := List (Val × Val)

def get : Dict → Val → Option Val
  | [], _ => none
  | (k', v') :: d, k => if equal k' k then some v' else get d k

/-- overwrite keeps the stored key (as `mutableMap.Set` does), a new key is appended -/
def set : Dict → Val → Val → Dict
  | [], k, v => [(k, v)]
  | (k', v') :: d, k, v => if equal k' k then (k', v) :: d else (k', v') :: set d k v

def delete : Dict → Val → Dict
  | [], _ => []
  | (k', v') :: d, k => if equal k' k then d else (k', v') :: delete d k

end Uniflow.Dict

namespace Uniflow.Dict
open Uniflow.Value

/-- operations of a history on one map -/
inductive DOp
  | set (k v : Val) | delete (k : Val) | clear | mutable | immutable

/-- the reference semantics of one step (`isMut`: the map is a mutable one): an immutable map keeps its stored value
when asked to store an Equal one; `Mutable`/`Immutable` do not change the content -/
def step (isMut : Bool) (d : Dict) : DOp → Dict
  | .set k v =>
    if isMut then set d k v
    else
      match get d k with
      | some v0 => if equal v0 v then d else set d k v
      | none => set d k v
  | .delete k => delete d k
  | .clear => []
  | .mutable => d
  | .immutable => d

def kindAfter (isMut : Bool) : DOp → Bool
  | .mutable => true
  | .immutable => false
  | _ => isMut

/-- a whole history from a map of kind `isMut` with content `d` -/
def run (isMut : Bool) (d : Dict) : List DOp → Bool × Dict
  | [] => (isMut, d)
  | op :: rest => run (kindAfter isMut op) (step isMut d op) rest

end Uniflow.Dict
