/-
Reference dictionary for C15: an association list keyed by value equality (`Uniflow.Value.equal`).
Core Lean only. `Props/C15.lean` states the op-sequence refinement against it (`C15.map_refines_full`).
-/
import Uniflow.Model.Value

namespace Uniflow.Dict
open Uniflow.Value

abbrev Dict := List (Val × Val)

def get : Dict → Val → Option Val
  | [], _ => none
  | (k', v') :: d, k => if equal k' k then some v' else get d k

/-- overwrite keeps the stored key (as `mutableMap.Set` does), a new key is appended -/
def set : Dict → Val → Val → Dict
  | [], k, v => [(k, v)]
  | (k', v') :: d, k, v => if equal k' k then (k', v) :: d else (k', v') :: set d k v

def delete : Dict → Val → Dict
  | [], _ => []
  | (k', v') :: d, k => if equal k' k then d else (k', v') :: delete d k

end Uniflow.Dict
