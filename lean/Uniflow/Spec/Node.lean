/-
Specification of a one-to-one node as seen from its in-reader (C02), to be read without the tracer.

State: the requests the forward goroutine has finished emitting and that are not answered yet, in
the order they were read (`reqs`), each either still owed the answer to the packet derived from
it (`written q w`: derived packet `q` was accepted by writer `w`) or complete with its answer
(`done a`); the request the forward goroutine is working on (`cur`); the reader's inbox.

* A request is answered when it is complete **and** every request read before it has been
  answered (`flushS` pops the maximal complete prefix) – exactly once, in arrival order.
* Its answer is the answer the environment gave to the packet derived from it (`markDone`: the
  answer arriving on writer `w` belongs to the oldest unanswered write on `w` – that is the C01
  contract of the writer, taken as the meaning of `Step.answer`), or, when the writer accepted
  nothing (`op _ false`), the derived packet itself.

`step` is total on the same `Uniflow.Node.Step` alphabet as the node model; `none` = not enabled.
-/
import Uniflow.Model.Node

namespace Uniflow.NodeSpec
open Uniflow.Tracer Uniflow.Node

inductive ESt where
  | written (q : Pid) (w : Wid)
  | done (a : Ans)

structure EReq where
  p : Pid
  st : ESt

inductive Cur where
  | idle
  | inAction (p : Pkt)
  | toLink (p q : Pkt) (w : Wid)
  | linked (p q : Pkt) (w : Wid)

structure S where
  inbox : List Pkt := []
  reqs : List EReq := []
  cur : Cur := .idle

/-- answer every leading complete request, in order -/
def flushS : List EReq → List EReq × List Ev
  | ⟨_, .done a⟩ :: rs =>
    let (rs', ev) := flushS rs
    (rs', Ev.reply 0 a :: ev)
  | rs => (rs, [])

/-- the answer `a` arriving on writer `w` completes the oldest request still owed one on `w` -/
def markDone (w : Wid) (a : Ans) : List EReq → Option (List EReq)
  | [] => none
  | ⟨p, .written q w'⟩ :: rs =>
    if w' = w then some (⟨p, .done a⟩ :: rs)
    else match markDone w a rs with
      | some rs' => some (⟨p, .written q w'⟩ :: rs')
      | none => none
  | ⟨p, .done b⟩ :: rs =>
    match markDone w a rs with
    | some rs' => some (⟨p, .done b⟩ :: rs')
    | none => none

def step (s : S) : Step → Option (S × List Ev)
  | .deliver 0 p => some ({ s with inbox := s.inbox ++ [p] }, [])
  | .read 0 =>
    match s.cur, s.inbox with
    | .idle, p :: rest => some ({ s with inbox := rest, cur := .inAction p }, [])
    | _, _ => none
  | .finish 0 (.outs [some q]) =>
    match s.cur with
    | .inAction p => some ({ s with cur := .toLink p q (outW 0) }, [])
    | _ => none
  | .finish 0 (.err q) =>
    match s.cur with
    | .inAction p => some ({ s with cur := .toLink p q errW }, [])
    | _ => none
  | .op 0 acc =>
    match s.cur with
    | .toLink p q w => some ({ s with cur := .linked p q w }, [])
    | .linked p q w =>
      if acc then some ({ s with reqs := s.reqs ++ [⟨p.id, .written q.id w⟩], cur := .idle }, [])
      else
        let (rs, ev) := flushS (s.reqs ++ [⟨p.id, .done (.pay q.pay)⟩])
        some ({ s with reqs := rs, cur := .idle }, ev)
    | _ => none
  | .answer w a =>
    match markDone w a s.reqs with
    | some rs =>
      let (rs', ev) := flushS rs
      some ({ s with reqs := rs' }, ev)
    | none => none
  | _ => none

def run : S → List Step → S × List Ev
  | s, [] => (s, [])
  | s, st :: sts =>
    match step s st with
    | none => run s sts
    | some (s', ev) =>
      let (s'', ev') := run s' sts
      (s'', ev ++ ev')

/-- nothing in flight -/
def quiescent (s : S) : Prop := s.reqs = [] ∧ s.cur = .idle

/-! ### schedules with fresh packet identities

Packet identities are uuid-v7 values in Go: every `packet.New` yields an id never seen before. A
schedule is therefore given without ids (`AStep`) and numbered by a counter (`concr`): the k-th
packet created anywhere (delivered request, packet returned by an action) gets id `k`. -/

inductive AStep where
  | deliver (v : Val)                 -- a request with payload v arrives on the in-port
  | read                              -- the forward goroutine takes the next request and enters the action
  | finishOut (v : Val)               -- the action returns a fresh out packet with payload v
  | finishErr (v : Val)               -- the action returns a fresh error packet with payload v
  | op (acc : Bool)                   -- the forward goroutine's next Link / Write call (acc: writer accepted)
  | answer (w : Wid) (a : Ans)        -- downstream answers the oldest unanswered write on writer w

def concr : Nat → List AStep → List Step
  | _, [] => []
  | nx, .deliver v :: as => .deliver 0 ⟨nx, v⟩ :: concr (nx + 1) as
  | nx, .read :: as => .read 0 :: concr nx as
  | nx, .finishOut v :: as => .finish 0 (.outs [some ⟨nx, v⟩]) :: concr (nx + 1) as
  | nx, .finishErr v :: as => .finish 0 (.err ⟨nx, v⟩) :: concr (nx + 1) as
  | nx, .op acc :: as => .op 0 acc :: concr nx as
  | nx, .answer w a :: as => .answer w a :: concr nx as

end Uniflow.NodeSpec
