/-
RFC 3339 text of an instant, as `time.Time.MarshalText` writes it (`2006-01-02T15:04:05.999999999Z07:00`) and
`time.Parse(time.RFC3339, s)` reads it – the form a `*time.Time` takes in a document (a pointer to a type with a text
marshaler is encoded by the string encoder) and the form the time decoder accepts from a String source.

An instant is `ms` milliseconds since the Unix epoch plus `sub < 10^6` nanoseconds, shown in a zone `off` seconds east
of UTC. The civil date is computed by decomposing the day number (counted from March 1 of year −400, so that leap days
fall at the end of the March-based year and everything stays in `Nat`) into 400-, 100-, 4- and 1-year cycles.
Years 0 … 9999 only (outside it `MarshalText` fails). Core Lean only.
-/
namespace Uniflow.Codec

/-- day number (from March 1 of year −400) ↦ (calendar year + 400, month 1..12, day 1..31) -/
def civilOfDays (D : Nat) : Nat × Nat × Nat :=
  let n400 := D / 146097
  let r := D % 146097
  let n100 := min (r / 36524) 3
  let r2 := r - n100 * 36524
  let n4 := r2 / 1461
  let r3 := r2 % 1461
  let n1 := min (r3 / 365) 3
  let doy := r3 - n1 * 365
  let mp := (5 * doy + 2) / 153
  let day := doy - (153 * mp + 2) / 5 + 1
  let ym := 400 * n400 + 100 * n100 + 4 * n4 + n1
  if mp < 10 then (ym, mp + 3, day) else (ym + 1, mp - 9, day)

/-- the inverse: (calendar year + 400, month, day) ↦ day number -/
def daysOfCivil (y400 m d : Nat) : Nat :=
  let ym := if m ≤ 2 then y400 - 1 else y400
  let mp := if m ≥ 3 then m - 3 else m + 9
  let doy := (153 * mp + 2) / 5 + d - 1
  (ym / 400) * 146097 + (ym % 400 / 100) * 36524 + (ym % 100 / 4) * 1461 + (ym % 4) * 365 + doy

/-- days from March 1 of year −400 to January 1, 1970 -/
def epochShift : Nat := 865565

def dg (x : Nat) : Nat := 48 + x

def undg (c : Nat) : Option Nat := if 48 ≤ c ∧ c ≤ 57 then some (c - 48) else none

/-- `k` decimal digits of `f` (most significant first) -/
def padN : Nat → Nat → List Nat
  | 0, _ => []
  | k + 1, f => padN k (f / 10) ++ [dg (f % 10)]

/-- the fraction digits `.999999999` prints: `k` digits with the trailing zeros dropped -/
def fracDigits : Nat → Nat → List Nat
  | 0, _ => []
  | k + 1, f => if f % 10 = 0 then fracDigits k (f / 10) else padN (k + 1) f

def zoneText (off : Int) : List Nat :=
  if off = 0 then [90]
  else
    let a := off.natAbs
    [if off < 0 then 45 else 43, dg (a / 3600 / 10), dg (a / 3600 % 10), 58, dg (a % 3600 / 60 / 10), dg (a % 3600 / 60 % 10)]

/-- `MarshalText` of the instant (`ms`, `sub`) in the zone `off`; `none` when the year is outside 0 … 9999 -/
def rfc3339 (ms : Int) (sub : Nat) (off : Int) : Option (List Nat) :=
  let L : Int := ms * 1000000 + sub + off * 1000000000
  let secs := L / 1000000000
  let frac := (L % 1000000000).toNat
  let dayZ := secs / 86400
  let sod := (secs % 86400).toNat
  let Di := dayZ + epochShift
  if Di < 0 then none
  else
    let (y400, m, d) := civilOfDays Di.toNat
    if y400 < 400 ∨ y400 > 10399 then none
    else
      let y := y400 - 400
      some ([dg (y / 1000), dg (y / 100 % 10), dg (y / 10 % 10), dg (y % 10), 45, dg (m / 10), dg (m % 10), 45,
             dg (d / 10), dg (d % 10), 84, dg (sod / 3600 / 10), dg (sod / 3600 % 10), 58,
             dg (sod % 3600 / 60 / 10), dg (sod % 3600 / 60 % 10), 58, dg (sod % 60 / 10), dg (sod % 60 % 10)]
            ++ (if frac = 0 then [] else 46 :: fracDigits 9 frac) ++ zoneText off)

/-- leading decimal digits of a text: their value, how many, and the rest -/
def takeDigits : List Nat → Nat × Nat × List Nat
  | [] => (0, 0, [])
  | c :: r =>
    match undg c with
    | none => (0, 0, c :: r)
    | some _ =>
      let (v, n, r') := takeDigits r
      ((c - 48) * 10 ^ n + v, n + 1, r')

def parseZone : List Nat → Option Int
  | [90] => some 0
  | [sg, a, b, 58, c, e] =>
    match undg a, undg b, undg c, undg e with
    | some a, some b, some c, some e =>
      let o : Int := ((a * 10 + b) * 3600 + (c * 10 + e) * 60 : Nat)
      if sg = 43 then some o else if sg = 45 then some (-o) else none
    | _, _, _, _ => none
  | _ => none

/-- `time.Parse(time.RFC3339, s)` for the strict form above: the instant and the zone offset -/
def parseRFC3339 : List Nat → Option (Int × Nat × Int)
  | y0 :: y1 :: y2 :: y3 :: 45 :: m0 :: m1 :: 45 :: d0 :: d1 :: 84 :: h0 :: h1 :: 58 :: n0 :: n1 :: 58 :: s0 :: s1 :: rest =>
    match undg y0, undg y1, undg y2, undg y3, undg m0, undg m1, undg d0, undg d1 with
    | some y0, some y1, some y2, some y3, some m0, some m1, some d0, some d1 =>
      match undg h0, undg h1, undg n0, undg n1, undg s0, undg s1 with
      | some h0, some h1, some n0, some n1, some s0, some s1 =>
        let fz : Option (Nat × List Nat) :=
          if rest.head? = some 46 then
            let tr := takeDigits rest.tail
            if tr.2.1 = 0 ∨ tr.2.1 > 9 then none else some (tr.1 * 10 ^ (9 - tr.2.1), tr.2.2)
          else some (0, rest)
        match fz with
        | none => none
        | some (frac, zr) =>
          match parseZone zr with
          | none => none
          | some off =>
            let y := ((y0 * 10 + y1) * 10 + y2) * 10 + y3
            let m := m0 * 10 + m1
            let d := d0 * 10 + d1
            if m = 0 ∨ m > 12 ∨ d = 0 then none
            else
              let D := daysOfCivil (y + 400) m d
              let secs : Int := ((D : Int) - epochShift) * 86400 + ((h0 * 10 + h1) * 3600 + (n0 * 10 + n1) * 60 + (s0 * 10 + s1) : Nat)
              let T : Int := (secs - off) * 1000000000 + frac
              some (T / 1000000, (T % 1000000).toNat, off)
      | _, _, _, _, _, _ => none
    | _, _, _, _, _, _, _, _ => none
  | _ => none

end Uniflow.Codec
