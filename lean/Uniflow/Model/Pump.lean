/-
Model of the unbounded-buffer goroutine that `NewWriter` (and `NewReader`) start between the
unbuffered channels `in` and `out` (`pkg/packet/writer.go:47`):

    defer close(w.out)
    buffer := make([]*Packet, 0, 2)
    for pck := range w.in {
        select {
        case w.out <- pck:
        default:
            buffer = append(buffer, pck)
            for len(buffer) > 0 {
                select {
                case pck, ok := <-w.in:
                    if !ok { return }              // `in` closed: the buffer is discarded
                    buffer = append(buffer, pck)
                case w.out <- buffer[0]:
                    buffer = buffer[1:]
                }
            }
        }
    }

Steps (one per channel operation the goroutine takes part in):
  `enq a`   a sender hands `a` over on `in` (the writer only sends while not closed, under its lock)
  `deq`     the consumer receives the oldest buffered packet from `out`
  `closeIn` `close(w.in)` (last action of `Writer.Close`)
  `exit`    the goroutine observes the closed `in` and returns – whatever is buffered is dropped;
            while packets are buffered and a consumer is ready, Go's `select` may equally pick
            `deq`, so both orders are possible schedules.
`pushed` and `delivered` are ghost logs.
-/
namespace Uniflow.Pump

inductive Step (α : Type) where
  | enq (a : α)
  | deq
  | closeIn
  | exit
  deriving DecidableEq, Repr

structure P (α : Type) where
  buf : List α := []
  inClosed : Bool := false
  exited : Bool := false
  pushed : List α := []
  delivered : List α := []
  deriving DecidableEq, Repr

def step {α : Type} (p : P α) : Step α → P α
  | .enq a => if p.inClosed then p else { p with buf := p.buf ++ [a], pushed := p.pushed ++ [a] }
  | .deq =>
    match p.buf with
    | [] => p
    | a :: rest => { p with buf := rest, delivered := p.delivered ++ [a] }
  | .closeIn => { p with inClosed := true }
  | .exit => if p.inClosed then { p with exited := true, buf := [] } else p

def run {α : Type} (p : P α) : List (Step α) → P α
  | [] => p
  | s :: h => run (step p s) h

end Uniflow.Pump
