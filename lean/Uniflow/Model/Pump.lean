/-
Model of the unbounded-buffer goroutine that `NewWriter` (and `NewReader`) start between the
unbuffered channels `in` and `out` (`pkg/packet/writer.go:51`):

    defer close(w.out)
    buffer := make([]*Packet, 0, 2)
    for pck := range w.in {
        select {
        case w.out <- pck:
        default:
            buffer = append(buffer, pck)
            for len(buffer) > 0 {
                select {
                case pck, ok := <-w.in:
                    if !ok { return }              // `in` closed: the buffer is discarded
                    buffer = append(buffer, pck)
                case w.out <- buffer[0]:
                    buffer = buffer[1:]
                }
            }
        }
    }

Steps (one per channel operation the goroutine takes part in):
  `enq a`   a sender hands `a` over on `in` (the writer only sends while not closed, under its lock)
  `deq`     the consumer receives the oldest buffered packet from `out`
  `closeIn` `close(w.in)` (last action of `Writer.Close`)
  `exit`    the goroutine returns and `close(w.out)` runs.
            * `step` (rule `discard`) – **the code**: the goroutine returns as soon as it observes the
              closed `in`; whatever is buffered is dropped.  While packets are buffered and a consumer
              is ready, Go's `select` may equally pick `deq`, so both orders are possible schedules.
            * `stepDrain` (rule `drain`) – the repair that was tried for DESIGN.md §7 row 7 and
              **withdrawn**: hand the buffer to `out` before returning (`for _, pck := range buffer
              { w.out <- pck }`).  It loses nothing, but the goroutine can then return only when a
              consumer has read everything – a writer whose consumer abandons its responses keeps the
              goroutine parked for ever after `Close` (C05).  Kept to state both facts as theorems.
`pushed` and `delivered` are ghost logs.  `recv` is what a consumer doing `<-out` sees; with the
code's rule the closed channel stands for the responses that were discarded.
-/
namespace Uniflow.Pump

inductive Step (α : Type) where
  | enq (a : α)
  | deq
  | closeIn
  | exit
  deriving DecidableEq, Repr

structure P (α : Type) where
  buf : List α := []
  inClosed : Bool := false
  exited : Bool := false
  pushed : List α := []
  delivered : List α := []
  deriving DecidableEq, Repr

/-- The exit rule of the goroutine. -/
inductive Rule where
  | discard   -- the code (writer and reader pump): return on the closed `in`, dropping the buffer
  | drain     -- the withdrawn repair: hand the buffer over, then return
  deriving DecidableEq, Repr

def stepR {α : Type} (rule : Rule) (p : P α) : Step α → P α
  | .enq a => if p.inClosed then p else { p with buf := p.buf ++ [a], pushed := p.pushed ++ [a] }
  | .deq =>
    match p.buf with
    | [] => p
    | a :: rest => { p with buf := rest, delivered := p.delivered ++ [a] }
  | .closeIn => { p with inClosed := true }
  | .exit =>
    match rule with
    | .drain => if p.inClosed && p.buf.isEmpty then { p with exited := true } else p
    | .discard => if p.inClosed then { p with exited := true, buf := [] } else p

/-- The pump as it is in the code. -/
def step {α : Type} (p : P α) (s : Step α) : P α := stepR .discard p s

/-- The pump with the withdrawn repair. -/
def stepDrain {α : Type} (p : P α) (s : Step α) : P α := stepR .drain p s

def run {α : Type} (p : P α) : List (Step α) → P α
  | [] => p
  | s :: h => run (step p s) h

def runDrain {α : Type} (p : P α) : List (Step α) → P α
  | [] => p
  | s :: h => runDrain (stepDrain p s) h

/-- What `<-out` gives a consumer in state `p`: the oldest buffered packet, the zero value of
the closed channel once the goroutine has returned, or nothing yet (the consumer stays parked). -/
inductive Recv (α : Type) where
  | got (a : α)
  | closed
  | blocked
  deriving DecidableEq, Repr

def recv {α : Type} (p : P α) : Recv α :=
  match p.buf with
  | a :: _ => .got a
  | [] => if p.exited then .closed else .blocked

end Uniflow.Pump
