/-
Shared value model: uniflow's `types.Value` (pkg/types/*.go) with its `Equal`, `Compare`, `Hash`,
and the wire format by which harnesses send values to the model driver.

Core Lean only (this file is linked into the `drv` executable). Used by C14/C15 (this worker)
and meant to be imported by the store (C10–C13), codec (C16) and template (C18) models.

## What is modelled (after the `fix:` commits of C14, see Props/C14.lean)

Go (pkg/types)                       | here
-------------------------------------|-----------------------------------------------------------
nil `Value`                          | `Val.nil`      (KindOf = KindUnknown, HashOf = 0)
`Binary` (`[]byte`)                  | `Val.bin bs`   bytes as `List Nat`, each `< 256` when well formed
`Boolean`                            | `Val.bool b`
`Error` (compared by `Error()` text) | `Val.err msg`  the message's bytes
`Int, Int8 … Int64`                  | `Val.int w v`  unbounded `Int` + width tag (`Width.native` = Go `int`, 64 bit on amd64)
`Uint, Uint8 … Uint64`               | `Val.uint w v` unbounded `Nat` + width tag
`Float32`, `Float64`                 | `Val.f32 bits`, `Val.f64 bits`: the IEEE-754 **bit pattern** (Lean's `Float` is opaque to the kernel)
`String`                             | `Val.str bs`   the raw bytes (Go strings are byte strings; comparison is bytewise)
`Slice`                              | `Val.slice xs`
`Map` (mutable or immutable view)    | `Val.map ps`   the key/value pairs **in `Range` order**: ascending key hash, and inside one hash
                                     |                bucket the bucket's own order (ascending `Compare` of the keys)

Simplifications (none loses behaviour of `Equal`/`Compare`/`Hash`):
* `map[uint64][][2]Value` is flattened to the pair list in `Range` order. `Hash`, and (after the
  fix) `Equal` and `Compare`, read the map only through that order; buckets are recovered by grouping
  equal key hashes. The bucket/table *sharing* structure matters for C15 only and lives in
  `Model/MapHeap.lean`.
* The mutable and the immutable view of a map are one `Val`: `mutableMap.Equal/Compare/Hash` delegate
  to an immutable view of the same table, and the fixed `immutableMap.Equal/Compare` accept either view.
  (The C14 harness evaluates both views against this one model value.)
* The cached hashes (`binary_.hash`, `_slice.hash`, `immutableMap.hash`, sentinel 0 = "not computed") are
  not modelled: they are recomputed to the same number.
* `Buffer` (an `io.Reader` with pointer identity; hash = address) has no model value; its kind number is
  still in `Generated/Kinds.lean`.
* `int`/`uint` are 64 bit and hashes are taken over little-endian bytes (amd64) – trusted base.

`Val.wf` is the decidable well-formedness predicate (integers within their width, float patterns within 32/64
bits, bytes `< 256`). The parser only produces well-formed values. The C14 theorems happen not to need
it: the definitions below are total and lawful on ill-formed values too.
-/
import Uniflow.Generated.Kinds

namespace Uniflow.Value
open Uniflow.Generated

/-- Byte strings; every element is `< 256` in a well-formed value. -/
abbrev Bytes := List Nat

/-- Width tag of the integer kinds. `native` is Go's `int`/`uint` (64 bit on amd64). -/
inductive Width
  | native | w8 | w16 | w32 | w64
  deriving DecidableEq, Repr, Inhabited

def Width.bits : Width → Nat
  | .native => 64 | .w8 => 8 | .w16 => 16 | .w32 => 32 | .w64 => 64

def Width.bytes : Width → Nat
  | .native => 8 | .w8 => 1 | .w16 => 2 | .w32 => 4 | .w64 => 8

mutual
  inductive Val
    | nil
    | bin (bs : Bytes)
    | bool (b : Bool)
    | err (msg : Bytes)
    | int (w : Width) (v : Int)
    | uint (w : Width) (v : Nat)
    | f32 (bits : Nat)
    | f64 (bits : Nat)
    | str (bs : Bytes)
    | slice (xs : VList)
    | map (ps : PList)
  inductive VList
    | nil
    | cons (x : Val) (xs : VList)
  inductive PList
    | nil
    | cons (k v : Val) (ps : PList)
end

instance : Inhabited Val := ⟨.nil⟩

def VList.toList : VList → List Val
  | .nil => []
  | .cons x xs => x :: xs.toList

def VList.ofList : List Val → VList
  | [] => .nil
  | x :: xs => .cons x (VList.ofList xs)

def PList.toList : PList → List (Val × Val)
  | .nil => []
  | .cons k v ps => (k, v) :: ps.toList

def PList.ofList : List (Val × Val) → PList
  | [] => .nil
  | (k, v) :: ps => .cons k v (PList.ofList ps)

def VList.length : VList → Nat
  | .nil => 0
  | .cons _ xs => xs.length + 1

def PList.length : PList → Nat
  | .nil => 0
  | .cons _ _ ps => ps.length + 1

/-! ## Kinds -/

def intRank : Width → Nat
  | .native => Kinds.int | .w8 => Kinds.int8 | .w16 => Kinds.int16 | .w32 => Kinds.int32 | .w64 => Kinds.int64

def uintRank : Width → Nat
  | .native => Kinds.uint | .w8 => Kinds.uint8 | .w16 => Kinds.uint16 | .w32 => Kinds.uint32 | .w64 => Kinds.uint64

/-- `KindOf(v)` as a number: the Go `Kind` enumeration order (Generated/Kinds.lean). -/
def Val.rank : Val → Nat
  | .nil => Kinds.unknown
  | .bin _ => Kinds.binary
  | .bool _ => Kinds.boolean
  | .err _ => Kinds.error
  | .int w _ => intRank w
  | .uint w _ => uintRank w
  | .f32 _ => Kinds.float32
  | .f64 _ => Kinds.float64
  | .str _ => Kinds.string
  | .slice _ => Kinds.slice
  | .map _ => Kinds.map

abbrev kindRank := Val.rank

/-! ## Three-way comparison helpers

Go's `compare[T ordered]` (value.go; after the fix it is `cmp.Compare`) returns -1, 0 or +1. -/

def cmpNat (a b : Nat) : Int := if a < b then -1 else if a = b then 0 else 1

def cmpInt (a b : Int) : Int := if a < b then -1 else if a = b then 0 else 1

/-- "first difference decides": `x` if it is not 0, else `r` (`if c := …; c != 0 { return c }`). -/
@[macro_inline] def lexStep (x r : Int) : Int := if x = 0 then r else x

/-- `bytes.Compare` / Go's string `<`: lexicographic on unsigned bytes, a proper prefix is smaller. -/
def cmpBytes : Bytes → Bytes → Int
  | [], [] => 0
  | [], _ :: _ => -1
  | _ :: _, [] => 1
  | a :: as, b :: bs => lexStep (cmpNat a b) (cmpBytes as bs)

/-! ## IEEE-754 on bit patterns

A binary32/binary64 pattern is `sign * sb + mag` with `sb = 2^31 / 2^63`; it is a NaN iff `mag` exceeds
the pattern `inf` of +∞. For non-NaN patterns the float order is the order of the sign-magnitude integer
`±mag` (so `-0 = +0`); that is `fkey`. Following Go's `cmp.Compare` (the fixed `compare`), every NaN
equals every NaN and is smaller than any other float: NaNs get the key `-sb`, below every real key
(`|±mag| ≤ inf < sb`). `fcanon` is the pattern the fixed `Float32/Float64.Hash` feed to FNV:
one canonical NaN, `+0` for both zeros, otherwise the pattern itself. -/

def fkey (sb inf bits : Nat) : Int :=
  if bits % sb > inf then -(sb : Int)
  else if (bits / sb) % 2 = 1 then -((bits % sb : Nat) : Int)
  else ((bits % sb : Nat) : Int)

def fcanon (sb inf qnan bits : Nat) : Nat :=
  if bits % sb > inf then qnan
  else if bits % sb = 0 then 0
  else bits % (2 * sb)

def fkey32 (bits : Nat) : Int := fkey 2147483648 2139095040 bits
def fkey64 (bits : Nat) : Int := fkey 9223372036854775808 9218868437227405312 bits
/-- canonical NaN `0x7FC00000` -/
def fcanon32 (bits : Nat) : Nat := fcanon 2147483648 2139095040 2143289344 bits
/-- canonical NaN `0x7FF8000000000001` (= `math.NaN()`) -/
def fcanon64 (bits : Nat) : Nat := fcanon 9223372036854775808 9218868437227405312 9221120237041090561 bits

/-! ## FNV-1a-64 (hash/fnv `New64a`) -/

def fnvOffset : UInt64 := 14695981039346656037
def fnvPrime : UInt64 := 1099511628211

def fnvByte (h : UInt64) (b : Nat) : UInt64 := (h ^^^ UInt64.ofNat b) * fnvPrime

/-- `h.Write(bs)` on a running FNV-1a state. -/
def fnv (h : UInt64) (bs : Bytes) : UInt64 := bs.foldl fnvByte h

/-- the `n` low bytes of `x`, least significant first (`unsafe.Pointer(&value)` on amd64). -/
def leBytes : Nat → Nat → Bytes
  | 0, _ => []
  | n + 1, x => (x % 256) :: leBytes n (x / 256)

/-- `binary.BigEndian.PutUint64` -/
def beBytes8 (x : Nat) : Bytes := (leBytes 8 x).reverse

/-- two's complement of `v` in `w` bits, as a natural number -/
def twos (w : Width) (v : Int) : Nat := (v % (2 : Int) ^ w.bits).toNat

/-! ## Hash -/

mutual
  /-- `types.HashOf` -/
  def hash : Val → UInt64
    | .nil => 0
    | .bin bs => fnv fnvOffset bs
    | .bool b => fnv fnvOffset [if b then 1 else 0]
    | .err m => fnv fnvOffset m
    | .int w v => fnv fnvOffset (leBytes w.bytes (twos w v))
    | .uint w v => fnv fnvOffset (leBytes w.bytes v)
    | .f32 b => fnv fnvOffset (leBytes 4 (fcanon32 b))
    | .f64 b => fnv fnvOffset (leBytes 8 (fcanon64 b))
    | .str bs => fnv fnvOffset bs
    | .slice xs => hashL fnvOffset xs
    | .map ps => hashP fnvOffset ps
  /-- `Slice.Hash`: the big-endian element hashes fed to one FNV state -/
  def hashL (h : UInt64) : VList → UInt64
    | .nil => h
    | .cons x xs => hashL (fnv h (beBytes8 (hash x).toNat)) xs
  /-- `immutableMap.Hash`: key hash then value hash of every pair, in `Range` order -/
  def hashP (h : UInt64) : PList → UInt64
    | .nil => h
    | .cons k v ps => hashP (fnv (fnv h (beBytes8 (hash k).toNat)) (beBytes8 (hash v).toNat)) ps
end

/-! ## Equal

Per kind: the type assertion on `other` fails for another kind (→ false). `Binary`, `Slice` and `Map`
compare their hashes first, exactly as the Go methods do. -/

mutual
  /-- `types.Equal` -/
  def equal : Val → Val → Bool
    | .nil, .nil => true
    | .bin a, .bin b => (fnv fnvOffset a == fnv fnvOffset b) && decide (a = b)
    | .bool a, .bool b => a == b
    | .err a, .err b => decide (a = b)
    | .int w a, .int w' b => decide (w = w') && decide (a = b)
    | .uint w a, .uint w' b => decide (w = w') && decide (a = b)
    | .f32 a, .f32 b => decide (fkey32 a = fkey32 b)
    | .f64 a, .f64 b => decide (fkey64 a = fkey64 b)
    | .str a, .str b => decide (a = b)
    | .slice xs, .slice ys => (hashL fnvOffset xs == hashL fnvOffset ys) && equalL xs ys
    | .map ps, .map qs => (hashP fnvOffset ps == hashP fnvOffset qs) && equalP ps qs
    | _, _ => false
  /-- same length and element-wise `Equal` -/
  def equalL : VList → VList → Bool
    | .nil, .nil => true
    | .cons x xs, .cons y ys => equal x y && equalL xs ys
    | _, _ => false
  /-- same length and pair-wise `Equal` of keys and of values, in `Range` order (fixed `immutableMap.Equal`) -/
  def equalP : PList → PList → Bool
    | .nil, .nil => true
    | .cons k v ps, .cons k' v' qs => equal k k' && equal v v' && equalP ps qs
    | _, _ => false
end

/-! ## Compare

Same kind: the kind's own order. Otherwise `compare(Kind, KindOf(other))` – including against nil
(`types.Compare` returns ∓1 for a nil operand, which is the rank order because `KindUnknown = 0` is the least kind,
see `Kinds.distinct`). -/

mutual
  /-- `types.Compare` -/
  def cmp : Val → Val → Int
    | .nil, .nil => 0
    | .bin a, .bin b => cmpBytes a b
    | .bool a, .bool b => cmpNat a.toNat b.toNat
    | .err a, .err b => cmpBytes a b
    | .int w a, .int w' b => if w = w' then cmpInt a b else cmpNat (intRank w) (intRank w')
    | .uint w a, .uint w' b => if w = w' then cmpNat a b else cmpNat (uintRank w) (uintRank w')
    | .f32 a, .f32 b => cmpInt (fkey32 a) (fkey32 b)
    | .f64 a, .f64 b => cmpInt (fkey64 a) (fkey64 b)
    | .str a, .str b => cmpBytes a b
    | .slice xs, .slice ys => cmpL xs ys
    | .map ps, .map qs => cmpP ps qs
    | a, b => cmpNat a.rank b.rank
  /-- `Slice.Compare`: first differing element, then length -/
  def cmpL : VList → VList → Int
    | .nil, .nil => 0
    | .nil, .cons _ _ => -1
    | .cons _ _, .nil => 1
    | .cons x xs, .cons y ys => lexStep (cmp x y) (cmpL xs ys)
  /-- fixed `immutableMap.Compare`: pairs in `Range` order; key hash, then key, then value; then length -/
  def cmpP : PList → PList → Int
    | .nil, .nil => 0
    | .nil, .cons _ _ _ => -1
    | .cons _ _ _, .nil => 1
    | .cons k v ps, .cons k' v' qs =>
      lexStep (cmpNat (hash k).toNat (hash k').toNat)
        (lexStep (cmp k k') (lexStep (cmp v v') (cmpP ps qs)))
end

/-! ## Well-formedness -/

def bytesOk (bs : Bytes) : Bool := bs.all (· < 256)

mutual
  /-- what Go can represent: integers within their width, float patterns within 32/64 bits, bytes `< 256` -/
  def Val.wf : Val → Bool
    | .nil => true
    | .bin bs => bytesOk bs
    | .bool _ => true
    | .err m => bytesOk m
    | .int w v => decide (-(2 : Int) ^ (w.bits - 1) ≤ v) && decide (v < (2 : Int) ^ (w.bits - 1))
    | .uint w v => decide (v < 2 ^ w.bits)
    | .f32 b => decide (b < 2 ^ 32)
    | .f64 b => decide (b < 2 ^ 64)
    | .str bs => bytesOk bs
    | .slice xs => VList.wf xs
    | .map ps => PList.wf ps
  def VList.wf : VList → Bool
    | .nil => true
    | .cons x xs => x.wf && xs.wf
  def PList.wf : PList → Bool
    | .nil => true
    | .cons k v ps => k.wf && v.wf && ps.wf
end

/-! ## Wire format (harness/lib/valwire.go is the Go mirror)

    n | bin <hex> | true | false | e <hex> | i|i8|i16|i32|i64 <dec> | u|u8|u16|u32|u64 <dec>
      | f32 <bits dec> | f64 <bits dec> | s <hex> | l <n> v… | m <n> (k v)…

`<hex>` is lower-case, two digits per byte, `-` for the empty string. -/

def hexDigit (c : Char) : Option Nat :=
  if '0' ≤ c ∧ c ≤ '9' then some (c.toNat - '0'.toNat)
  else if 'a' ≤ c ∧ c ≤ 'f' then some (c.toNat - 'a'.toNat + 10)
  else none

def unhexChars : List Char → Option Bytes
  | [] => some []
  | [_] => none
  | a :: b :: r =>
    match hexDigit a, hexDigit b, unhexChars r with
    | some x, some y, some bs => some ((x * 16 + y) :: bs)
    | _, _, _ => none

def unhex (s : String) : Option Bytes :=
  if s = "-" then some [] else if s = "" then none else unhexChars s.toList

def hexChar (n : Nat) : Char :=
  if n < 10 then Char.ofNat ('0'.toNat + n) else Char.ofNat ('a'.toNat + (n - 10))

def hexOf (bs : Bytes) : String :=
  if bs.isEmpty then "-" else String.ofList (bs.flatMap fun b => [hexChar (b / 16 % 16), hexChar (b % 16)])

def Width.suffix : Width → String
  | .native => "" | .w8 => "8" | .w16 => "16" | .w32 => "32" | .w64 => "64"

def widthOfSuffix (s : String) : Option Width :=
  if s = "" then some .native else if s = "8" then some .w8 else if s = "16" then some .w16
  else if s = "32" then some .w32 else if s = "64" then some .w64 else none

/-- a well-formed scalar or nothing -/
def okVal (v : Val) : Option Val := if v.wf then some v else none

mutual
  def parseValF : Nat → List String → Option (Val × List String)
    | 0, _ => none
    | fuel + 1, toks =>
      match toks with
      | [] => none
      | [t] =>
        if t = "n" then some (.nil, []) else if t = "true" then some (.bool true, [])
        else if t = "false" then some (.bool false, []) else none
      | t :: a :: r =>
        if t = "n" then some (.nil, a :: r)
        else if t = "true" then some (.bool true, a :: r)
        else if t = "false" then some (.bool false, a :: r)
        else if t = "bin" then (unhex a).bind fun bs => (okVal (.bin bs)).map (·, r)
        else if t = "e" then (unhex a).bind fun bs => (okVal (.err bs)).map (·, r)
        else if t = "s" then (unhex a).bind fun bs => (okVal (.str bs)).map (·, r)
        else if t = "f32" then a.toNat?.bind fun b => (okVal (.f32 b)).map (·, r)
        else if t = "f64" then a.toNat?.bind fun b => (okVal (.f64 b)).map (·, r)
        else if t = "l" then
          match a.toNat? with
          | some n => (parseListF fuel n r).map fun (xs, r') => (.slice xs, r')
          | none => none
        else if t = "m" then
          match a.toNat? with
          | some n => (parsePairsF fuel n r).map fun (ps, r') => (.map ps, r')
          | none => none
        else if t.startsWith "i" then
          match widthOfSuffix (t.drop 1).toString, a.toInt? with
          | some w, some v => (okVal (.int w v)).map (·, r)
          | _, _ => none
        else if t.startsWith "u" then
          match widthOfSuffix (t.drop 1).toString, a.toNat? with
          | some w, some v => (okVal (.uint w v)).map (·, r)
          | _, _ => none
        else none
  def parseListF : Nat → Nat → List String → Option (VList × List String)
    | 0, _, _ => none
    | _ + 1, 0, r => some (.nil, r)
    | fuel + 1, n + 1, r =>
      match parseValF fuel r with
      | some (x, r') =>
        match parseListF fuel n r' with
        | some (xs, r'') => some (.cons x xs, r'')
        | none => none
      | none => none
  def parsePairsF : Nat → Nat → List String → Option (PList × List String)
    | 0, _, _ => none
    | _ + 1, 0, r => some (.nil, r)
    | fuel + 1, n + 1, r =>
      match parseValF fuel r with
      | some (k, r') =>
        match parseValF fuel r' with
        | some (v, r'') =>
          match parsePairsF fuel n r'' with
          | some (ps, r''') => some (.cons k v ps, r''')
          | none => none
        | none => none
      | none => none
end

/-- Parse one value from the front of the token list; total, fuelled by the token count
(every recursive call consumes a token or a unit of nesting, both bounded by the length). -/
def parseVal (toks : List String) : Option (Val × List String) :=
  parseValF (toks.length + 2) toks

mutual
  def printVal : Val → List String
    | .nil => ["n"]
    | .bin bs => ["bin", hexOf bs]
    | .bool b => [if b then "true" else "false"]
    | .err m => ["e", hexOf m]
    | .int w v => ["i" ++ w.suffix, toString v]
    | .uint w v => ["u" ++ w.suffix, toString v]
    | .f32 b => ["f32", toString b]
    | .f64 b => ["f64", toString b]
    | .str bs => ["s", hexOf bs]
    | .slice xs => "l" :: toString xs.length :: printList xs
    | .map ps => "m" :: toString ps.length :: printPairs ps
  def printList : VList → List String
    | .nil => []
    | .cons x xs => printVal x ++ printList xs
  def printPairs : PList → List String
    | .nil => []
    | .cons k v ps => printVal k ++ printVal v ++ printPairs ps
end

end Uniflow.Value
