/-
Small-step model of the per-process endpoint maps of `pkg/port/inport.go` (`InPort.readers`) and
`pkg/port/outport.go` (`OutPort.writers`), with `Process.AddExitHook` / `Process.Exit`.

Go (`InPort.Open`; `OutPort.Open` has the same shape on `writers`, then opens its linked in-ports,
which are further `Open` calls of the same goroutine):

    Open(proc):  if proc.Status() == Terminated { return ClosedReader }          -- (1) status check
                 ⟨yield 11⟩
                 p.mu.RLock(); r, ok := readers[proc]; p.mu.RUnlock(); if ok { return r }
                 ⟨yield 13⟩
                 p.mu.Lock(); r, ok = readers[proc]; if ok { p.mu.Unlock(); return r }
                 r = NewReader(); readers[proc] = r; p.mu.Unlock()                -- (2) insert under the lock
                 ⟨yield 12⟩
                 proc.AddExitHook(func{ p.mu.Lock(); delete(readers, proc); p.mu.Unlock(); r.Close() })   -- (3) outside it
                 openHooks.Open(proc); go listeners.Accept(proc); return r
    Close():     p.mu.Lock(); rs := readers; readers = {}; …; p.mu.Unlock(); closeHooks.Close(); for r in rs { r.Close() }

A port is a number; both kinds of port are "a mutex and a map process ↦ endpoint". Endpoints are
numbered in creation order (`nep`), `eproc e` is the process an endpoint was created for (ghost),
`closed e` says `Close()` was called on it (its pump goroutine ends when it is closed). The exit
hooks of a process are `(port, endpoint)` pairs in run order. As in `Uniflow.Local`, `AddExitHook`
and the flip of `Exit` are single atomic steps, every `Lock` / critical section / gap is its own
step, the port's mutex has an explicit owner.

The window between (1) and (2): a process that terminates after the status check still gets an
endpoint inserted; `AddExitHook` then finds the process terminated and runs the hook at once on
the opening goroutine, which removes the entry and closes the endpoint (theorems
`C05.ports_no_residue`, `C05.ports_endpoints_closed`; `C05.ports_window_transient` shows the
transient entry).
-/
namespace Uniflow.PortMaps

abbrev Tid := Nat
abbrev Pid := Nat
abbrev Port := Nat
abbrev Eid := Nat

def upd {β : Type} (f : Nat → β) (k : Nat) (v : β) : Nat → β := fun i => if i = k then v else f i

/-- What follows an exit hook. -/
inductive Kont where
  | ret                                    -- run at once by `AddExitHook` inside `Open`: return the endpoint
  | exit (rest : List (Port × Eid))        -- run by `Exit`: go on with the remaining hooks
  deriving DecidableEq, Repr

inductive Pc where
  | idle
  | openChk (q : Port) (p : Pid)                 -- about to read `proc.Status()`
  | openRd (q : Port) (p : Pid)                  -- about to look under the read lock
  | openWant (q : Port) (p : Pid)                -- about to `p.mu.Lock()`
  | openHold (q : Port) (p : Pid)                -- holds the port lock
  | openGap (q : Port) (p : Pid) (e : Eid)       -- inserted and unlocked, about to `AddExitHook`
  | hookWant (q : Port) (p : Pid) (e : Eid) (k : Kont)   -- exit hook: about to lock the port
  | hookHold (q : Port) (p : Pid) (e : Eid) (k : Kont)   -- exit hook: holds the port lock
  | hookClose (p : Pid) (e : Eid) (k : Kont)             -- exit hook: about to close the endpoint
  | closeWant (q : Port)
  | closeHold (q : Port)
  | closeAll (es : List Eid)                     -- port `Close`: unlocked, closing what it took, one endpoint per step
  | openHoldE (q : Port) (p : Pid) (e : Eid)     -- only in the variant `stepEarly`: holds the lock with an endpoint allocated before it
  | exitFlip (p : Pid)
  | exitRun (p : Pid) (hs : List (Port × Eid))
  deriving DecidableEq, Repr

structure State where
  thr : Tid → Pc
  pmu : Port → Option Tid
  ents : Port → Pid → Option Eid
  nep : Nat
  eproc : Eid → Pid
  closed : Eid → Bool
  pumps : Nat                  -- running pump goroutines: +1 in `NewReader` / `NewWriter`, -1 when a not yet closed endpoint is closed
  term : Pid → Bool
  hooks : Pid → List (Port × Eid)

def init : State :=
  { thr := fun _ => .idle, pmu := fun _ => none, ents := fun _ _ => none, nep := 0,
    eproc := fun _ => 0, closed := fun _ => false, pumps := 0, term := fun _ => false, hooks := fun _ => [] }

inductive Ev where
  | tau
  | unit                       -- Close / Exit returned
  | sentinel                   -- Open returned ClosedReader / ClosedWriter
  | ep (e : Eid)               -- Open returned endpoint e
  deriving DecidableEq, Repr

inductive Call where
  | open_ (q : Port) (p : Pid)
  | close (q : Port)
  | exit (p : Pid)
  deriving DecidableEq, Repr

def Call.entry : Call → Pc
  | .open_ q p => .openChk q p
  | .close q => .closeWant q
  | .exit p => .exitFlip p

def Kont.next (p : Pid) (e : Eid) : Kont → Pc × Ev
  | .ret => (.idle, .ep e)
  | .exit rest => (.exitRun p rest, .tau)

/-- The endpoints a `Close` of port `q` takes out of the map. -/
def taken (s : State) (q : Port) : List Eid :=
  (List.range s.nep).filter (fun e => s.ents q (s.eproc e) = some e)

/-- `Close()` of endpoint `e`: `if done { return }; …; close(in)` – the pump goroutine of an endpoint
that was not closed before ends. -/
def closePump (s : State) (e : Eid) : Nat := if s.closed e then s.pumps else s.pumps - 1

def step (s : State) (t : Tid) : Option (State × Ev) :=
  match s.thr t with
  | .idle => none
  | .openChk q p =>
    if s.term p then some ({ s with thr := upd s.thr t .idle }, .sentinel)
    else some ({ s with thr := upd s.thr t (.openRd q p) }, .tau)
  | .openRd q p =>
    if s.pmu q = none then
      match s.ents q p with
      | some e => some ({ s with thr := upd s.thr t .idle }, .ep e)
      | none => some ({ s with thr := upd s.thr t (.openWant q p) }, .tau)
    else none
  | .openWant q p =>
    if s.pmu q = none then some ({ s with pmu := upd s.pmu q (some t), thr := upd s.thr t (.openHold q p) }, .tau)
    else none
  | .openHold q p =>
    match s.ents q p with
    | some e => some ({ s with pmu := upd s.pmu q none, thr := upd s.thr t .idle }, .ep e)
    | none =>
      some ({ s with ents := upd s.ents q (upd (s.ents q) p (some s.nep)), nep := s.nep + 1,
                     eproc := upd s.eproc s.nep p, closed := upd s.closed s.nep false, pumps := s.pumps + 1,
                     pmu := upd s.pmu q none, thr := upd s.thr t (.openGap q p s.nep) }, .tau)
  | .openGap q p e =>
    if s.term p then some ({ s with thr := upd s.thr t (.hookWant q p e .ret) }, .tau)
    else some ({ s with hooks := upd s.hooks p ((q, e) :: s.hooks p), thr := upd s.thr t .idle }, .ep e)
  | .hookWant q p e k =>
    if s.pmu q = none then some ({ s with pmu := upd s.pmu q (some t), thr := upd s.thr t (.hookHold q p e k) }, .tau)
    else none
  | .hookHold q p e k =>
    some ({ s with ents := upd s.ents q (upd (s.ents q) p none), pmu := upd s.pmu q none,
                   thr := upd s.thr t (.hookClose p e k) }, .tau)
  | .hookClose p e k =>
    some ({ s with closed := upd s.closed e true, pumps := closePump s e,
                   thr := upd s.thr t (k.next p e).1 }, (k.next p e).2)
  | .closeWant q =>
    if s.pmu q = none then some ({ s with pmu := upd s.pmu q (some t), thr := upd s.thr t (.closeHold q) }, .tau)
    else none
  | .closeHold q =>
    some ({ s with ents := upd s.ents q (fun _ => none), pmu := upd s.pmu q none,
                   thr := upd s.thr t (.closeAll (taken s q)) }, .tau)
  | .closeAll [] => some ({ s with thr := upd s.thr t .idle }, .unit)
  | .closeAll (e :: es) =>
    some ({ s with closed := upd s.closed e true, pumps := closePump s e, thr := upd s.thr t (.closeAll es) }, .tau)
  | .openHoldE _ _ _ => none   -- not a program point of the real code (see `stepEarly`)
  | .exitFlip p =>
    if s.term p then some ({ s with thr := upd s.thr t (.exitRun p []) }, .tau)
    else some ({ s with term := upd s.term p true, hooks := upd s.hooks p [],
                        thr := upd s.thr t (.exitRun p (s.hooks p)) }, .tau)
  | .exitRun _ [] => some ({ s with thr := upd s.thr t .idle }, .unit)
  | .exitRun p ((q, e) :: rest) => some ({ s with thr := upd s.thr t (.hookWant q p e (.exit rest)) }, .tau)

/-- The variant of seeded change c05b: `Open` allocates the endpoint (`NewReader()` starts its pump)
BEFORE taking the write lock; an opener that then finds an entry under the lock returns that entry
and drops its own fresh endpoint without `Close()`. Everything else is `step`. -/
def stepEarly (s : State) (t : Tid) : Option (State × Ev) :=
  match s.thr t with
  | .openWant q p =>
    if s.pmu q = none then
      some ({ s with nep := s.nep + 1, eproc := upd s.eproc s.nep p, closed := upd s.closed s.nep false,
                     pumps := s.pumps + 1, pmu := upd s.pmu q (some t),
                     thr := upd s.thr t (.openHoldE q p s.nep) }, .tau)
    else none
  | .openHoldE q p e =>
    match s.ents q p with
    | some e0 => some ({ s with pmu := upd s.pmu q none, thr := upd s.thr t .idle }, .ep e0)   -- `e` is dropped
    | none =>
      some ({ s with ents := upd s.ents q (upd (s.ents q) p (some e)), pmu := upd s.pmu q none,
                     thr := upd s.thr t (.openGap q p e) }, .tau)
  | _ => step s t

inductive Act where
  | call (t : Tid) (c : Call)
  | step (t : Tid)
  deriving DecidableEq, Repr

def apply (s : State) : Act → State
  | .call t c => if s.thr t = .idle then { s with thr := upd s.thr t c.entry } else s
  | .step t => match step s t with
    | some (s', _) => s'
    | none => s

def run (s : State) : List Act → State
  | [] => s
  | a :: as => run (apply s a) as

def enabled (s : State) (t : Tid) : Bool := (step s t).isSome

def applyEarly (s : State) : Act → State
  | .call t c => if s.thr t = .idle then { s with thr := upd s.thr t c.entry } else s
  | .step t => match stepEarly s t with
    | some (s', _) => s'
    | none => s

def runEarly (s : State) : List Act → State
  | [] => s
  | a :: as => runEarly (applyEarly s a) as

/-! ### macro steps for the driver -/

def yieldSite : Pc → Option Nat
  | .openRd _ _ => some 11
  | .openGap _ _ _ => some 12
  | .openWant _ _ => some 13
  | _ => none

inductive Macro where
  | parked (site : Nat)
  | ret (e : Ev)
  | blocked
  deriving DecidableEq, Repr

def advance : Nat → State → Tid → Ev → State × Macro
  | 0, s, _, _ => (s, .blocked)
  | fuel + 1, s, t, last =>
    if s.thr t = .idle then (s, .ret last)
    else match yieldSite (s.thr t) with
      | some site => (s, .parked site)
      | none =>
        match step s t with
        | none => (s, .blocked)
        | some (s', e) => advance fuel s' t (if e = .tau then last else e)

def release (fuel : Nat) (s : State) (t : Tid) : State × Macro :=
  match step s t with
  | none => (s, .blocked)
  | some (s', e) => advance fuel s' t e

/-- Endpoints among `0..n-1` that are not closed. -/
def openBelow (closed : Eid → Bool) : Nat → Nat
  | 0 => 0
  | n + 1 => openBelow closed n + (if closed n then 0 else 1)

/-- Number of endpoints that were created and not closed yet (each has a running pump goroutine). -/
def openEndpoints (s : State) : Nat := openBelow s.closed s.nep

/-- Number of entries of port `q` among the processes `0..n-1`. -/
def size (s : State) (q : Port) (n : Nat) : Nat :=
  ((List.range n).filter (fun p => (s.ents q p).isSome)).length

end Uniflow.PortMaps
