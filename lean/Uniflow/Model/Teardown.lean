/-
Model for C03 – teardown at any point releases every waiting requester with a real packet.

A *component* (`Comp`) is one `packet.Writer` endpoint: the C01 writer machine with the readers
linked to it (`Uniflow.Writer.W`), the writer's pump goroutine (`Uniflow.Pump.P`, exit rule as a
parameter: `discard` = the code – the goroutine returns on the closed `in` and drops its buffer;
`drain` = the repair that was tried and withdrawn, see `Model/Pump.lean`) and the consumer of
`Receive()` bound to it – a requester thread that does `Write` and then blocks in
`<-w.Receive()` (`packet.Send`, `SendOrFallback`, or a raw `Write` + receive), or a node's
backward loop.

    CStep.w st     one critical section of the writer machine (C01 step alphabet); every packet
                   it emits is handed to the pump (`w.in <- pck` inside the critical section);
                   `closeW` ends with `close(w.in)`.  A `write` that reports ≥ 1 accepting reader
                   makes the consumer owed one more response (`accepted`, ghost).
    CStep.recv     the consumer's `<-w.Receive()`: taken only while a response is owed
                   (`got.length < accepted`); yields the oldest buffered packet, or – if the pump
                   goroutine has returned – the zero value of the closed channel (`.closed`),
                   or nothing yet (the consumer stays parked; no state change).
    CStep.steal    another consumer of the same `Receive()` channel takes a packet it is not owed
                   (only used to show why `Send` needs its own guard).
    CStep.pumpExit the pump goroutine returns (`close(w.out)`), when its exit rule allows it.

`packet.Send`'s result is `sendResult`: `some pck` or the nil packet.  With the code's exit rule the
closed channel *stands for* the `dropped` responses the pump discarded; the fixed `Send` turns it
into a `dropped` packet, and a node's backward loop, when the channel closes, resolves whatever
its tracer still awaits on that writer as `dropped` (`Tracer.Drop`, `bwd` on a closed channel).

The *system* (`Sys`) is a family of components plus the requests a node's in-reader has been
handed and its forward loop has not yet taken.  Its steps are the component steps, the two
loops of a `OneToOneNode` (`fwd`: take a request, write it to the out-writer, or make it its own
answer when nobody accepted – `Tracer.Write`; `bwd`: take a response from the out-writer as the
answer of the oldest request waiting for one – `Tracer.Receive`; both then answer the in-reader
for every request at the head of `reads` whose answer is known – `Tracer.resolve` for one
in/one out; on the closed channel `bwd` is `Tracer.Drop`: every request still waiting gets
`dropped` as its answer; `fwdEnd`: the forward loop ends because its reader is closed – what the
pump still buffered is discarded and, again with `Tracer.Drop`, every request still waiting is
resolved as `dropped`, which only releases the tracer's bookkeeping since a closed reader passes
nothing up), and the teardown actions,
each *defined as the sequence of closes the Go code performs, in the code's order*
(`closes`):

    readerClose w r   (*Reader).Close                      reader.go:120
    writerClose w     (*Writer).Close                      writer.go:216
    inPortClose i     (*InPort).Close: close hooks (they only unlink the port from out-ports – no
                      effect on existing endpoints), then every per-process reader   inport.go:140
    outPortClose o    (*OutPort).Close: every per-process writer                     outport.go:187
    nodeClose n       (*OneToOneNode).Close: inPort.Close, outPort.Close, errPort.Close,
                      tracer.Close – the last answers `dropped` on readers that inPort.Close has
                      just closed (`Reader.Receive` on a closed reader returns false: no-op);
                      the error port has no endpoint in these workflows        onetoone.go:63
    processExit p     (*Process).Exit: the exit hooks `InPort.Open`/`OutPort.Open` registered, in
                      reverse registration order, each closing that process's reader / writer
                                                           process.go:186, inport.go:125, outport.go:170

A reader a harness listener (sink `k`) owns may be linked from several writers (fan-in): it is
then an endpoint `(w, r)` of each of them, all listened to by the same sink; its queue
`Reader.writers` is `Sys.queue k`, fed by every accepted write over any of the endpoints, and
`sinkAnswer k a` is `(*Reader).Receive(a)` by its owner: pop the oldest request, answer the writer
it came from.  `Writer.Close` never touches that queue.

Error ports.  A `OneToOneNode` has a second downstream writer per process, the error writer
(`errPort`), consumed by its `catch` loop, which is the same program as `backward`
(`tracer.Receive` per response, `tracer.Drop` when the channel closes).  The model keeps one
downstream writer per node endpoint (`Listener.node outW`, `Consumer.node`): a node whose action
fails – every request travels on through the error port – is the same machine with the error
writer in that role, and that is how the harness's error-port paths are replayed.  A node that
routes some requests to its out port and others to its error port at the same time is not
modelled (its `reads` entries would have to name the writer they wait for).

A closed in-port.  `InPort.Close` forgets readers and listeners; a later `Open` – e.g. by an
`OutPort.Open` that took its snapshot of the linked in-ports before the close – hands out a fresh
reader.  Since `fix: a closed in-port drops what is still written to it` the port itself listens
on such a reader and answers every packet with the dropped error: in the model that reader is an
endpoint whose listener is a sink that always answers `Ans.dropped` (`sinkAnswer k dropped`).

The static wiring (`Topo`) – which endpoints a port owns (in the order its `Close` ranges over its
map; the theorems hold for every order), which hooks a process holds, who consumes a writer, who
listens on a reader – is a parameter.
-/
import Uniflow.Model.Writer
import Uniflow.Model.Pump

namespace Uniflow.Teardown
open Uniflow.Writer

abbrev WId := Nat

/-- What `packet.Send` / `SendOrFallback` hands to its caller after an accepted write. -/
inductive SendRes where
  | some (pck : Resp)
  | nilPacket
  deriving DecidableEq, Repr

/-- `if pck, ok := <-writer.Receive(); ok { return pck }; return New(ErrDroppedPacket)` (fixed) /
`return <-writer.Receive()` (pinned). `none`: still parked. -/
def sendResult (fixedSend : Bool) : Pump.Recv Resp → Option SendRes
  | .got a => some (.some a)
  | .closed => if fixedSend then some (.some Resp.dropped) else some .nilPacket
  | .blocked => none

structure Comp where
  w : W := {}
  p : Pump.P Resp := {}
  accepted : Nat := 0
  got : List (Pump.Recv Resp) := []

inductive CStep where
  | w (s : Writer.Step)
  | recv
  | steal
  | pumpExit
  deriving DecidableEq, Repr

inductive COut where
  | w (o : Writer.Out)
  | recv (r : Pump.Recv Resp)
  | notOwed
  | unit
  deriving DecidableEq, Repr

/-- `w.in <- pck` for every packet a critical section emits, in order. -/
def enqAll (rule : Pump.Rule) (p : Pump.P Resp) : List Resp → Pump.P Resp
  | [] => p
  | a :: rest => enqAll rule (Pump.stepR rule p (.enq a)) rest

def isClose : Writer.Step → Bool
  | .closeW => true
  | _ => false

/-- The write reported at least one accepting reader. -/
def accepts : Writer.Step → Writer.Out → Bool
  | .write _, o => match o.ret with
    | .cnt (_ + 1) => true
    | _ => false
  | _, _ => false

def applyC (rule : Pump.Rule) (c : Comp) : CStep → Comp × COut
  | .w st =>
    let r := Writer.step c.w st
    let p1 := enqAll rule c.p r.2.emits
    let p2 := if isClose st then Pump.stepR rule p1 .closeIn else p1
    ({ c with w := r.1, p := p2, accepted := c.accepted + (if accepts st r.2 then 1 else 0) }, .w r.2)
  | .recv =>
    if c.got.length < c.accepted then
      match Pump.recv c.p with
      | .got a => ({ c with p := Pump.stepR rule c.p .deq, got := c.got ++ [.got a] }, .recv (.got a))
      | .closed => ({ c with got := c.got ++ [.closed] }, .recv .closed)
      | .blocked => (c, .recv .blocked)
    else (c, .notOwed)
  | .steal => ({ c with p := Pump.stepR rule c.p .deq }, .unit)
  | .pumpExit => ({ c with p := Pump.stepR rule c.p .exit }, .unit)

/-- `l` with its `k`-th element moved to the front. -/
def moveFront {α : Type} (l : List α) (k : Nat) : List α :=
  match l[k]? with
  | some x => x :: l.eraseIdx k
  | none => l

/-- `deliverDropK r k`: the goroutine carrying the `k`-th held-back drop notice of reader `r` runs
(the Go scheduler may run the goroutines `Reader.Close` spawned in any order; the machine's own
step `deliverDrop r` takes the oldest).  It is the step `deliverDrop r` after moving that notice
to the front of `drops r`.  It is not a `CStep` of the machine the theorems quantify over:
`C03.drop_notices_commute` shows that every delivery order leaves the same writer and the same
emitted responses as the oldest-first order, which is what the theorems cover; the driver uses it
to replay the random order in which the harness releases the notices. -/
def deliverDropK (rule : Pump.Rule) (c : Comp) (r : RId) (k : Nat) : Comp × COut :=
  applyC rule { c with w := { c.w with drops := fun x => if x = r then moveFront (c.w.drops r) k else c.w.drops x } }
    (.w (.deliverDrop r))

def runC (rule : Pump.Rule) (c : Comp) : List CStep → Comp
  | [] => c
  | s :: h => runC rule (applyC rule c s).1 h

/-- Responses the consumer is owed and has not received. -/
def Comp.outstanding (c : Comp) : Nat := c.accepted - c.got.length

/-! ### The system -/

inductive Consumer where
  | requester
  | node (upW : WId) (upR : RId)   -- backward loop of a node whose in-reader is `upR` of writer `upW`
  deriving DecidableEq, Repr

inductive Listener where
  | sink (k : Nat)                 -- a harness listener: holds the request until told to answer
  | node (outW : WId)              -- forward loop of a node whose out-writer is `outW`
  deriving DecidableEq, Repr

inductive Close where
  | reader (w : WId) (r : RId)
  | writer (w : WId)
  deriving DecidableEq, Repr

structure Topo where
  consumer : WId → Consumer := fun _ => .requester
  listener : WId → RId → Listener := fun _ _ => .sink 0
  inPorts : List (List (WId × RId)) := []
  outPorts : List (List WId) := []
  nodes : List (Nat × Nat) := []           -- (in-port, out-port)
  procs : List (List Close) := []          -- exit hooks in registration order
  /-- `true`: the code after `fix: a writer stays findable for its listeners …` – the backward
  listener, which obtains its writer with its own `OutPort.Open(proc)`, finds the writer the
  forward loop opened even when the port was closed in between.  `false`: the code before it –
  `OutPort.Close` forgets its writers, a listener that gets to its `Open` only afterwards is handed
  a brand-new writer and watches that one (`bwdLate`). -/
  handOver : Bool := true

inductive Teardown where
  | readerClose (w : WId) (r : RId)
  | writerClose (w : WId)
  | inPortClose (i : Nat)
  | outPortClose (o : Nat)
  | nodeClose (n : Nat)
  | processExit (p : Nat)
  deriving DecidableEq, Repr

def inPortCloses (t : Topo) (i : Nat) : List Close :=
  match t.inPorts[i]? with
  | some rs => rs.map fun p => Close.reader p.1 p.2
  | none => []

def outPortCloses (t : Topo) (o : Nat) : List Close :=
  match t.outPorts[o]? with
  | some ws => ws.map Close.writer
  | none => []

/-- The closes a teardown action performs, in the order of the code. -/
def closes (t : Topo) : Teardown → List Close
  | .readerClose w r => [.reader w r]
  | .writerClose w => [.writer w]
  | .inPortClose i => inPortCloses t i
  | .outPortClose o => outPortCloses t o
  | .nodeClose n =>
    match t.nodes[n]? with
    | some (i, o) => inPortCloses t i ++ outPortCloses t o
    | none => []
  | .processExit p =>
    match t.procs[p]? with
    | some hooks => hooks.reverse
    | none => []

structure Sys where
  comp : WId → Comp := fun _ => {}
  inbox : WId → RId → List Nat := fun _ _ => []
  /-- `Tracer.reads` of the node listening on reader `(w, r)`: the requests its forward loop has
  taken, in order, each with its answer once that is known.  A node answers in the order it
  read (`Tracer.resolve` walks `reads` from the head and stops at the first incomplete one). -/
  reads : WId → RId → List (Nat × Option Ans) := fun _ _ => []
  /-- `Reader.writers` of the reader sink `k` listens on: the requests handed to it and not yet
  answered, oldest first, each with the endpoint `(w, r)` it came over.  One Go reader can be
  linked from several writers (fan-in: two out-ports linked to one in-port, same process): it is
  then reader `r` of writer `w` *and* reader `r'` of writer `w'`, all these endpoints have the same
  sink `k`, and this queue is what interleaves their requests.  `Writer.Close` never touches it;
  the queue of a closed reader is left as it is (each entry is then answered with `false`, as
  `Reader.Receive` on the queue `Reader.Close` emptied is; the endpoints of one Go reader are
  closed together). -/
  queue : Nat → List (WId × RId) := fun _ => []
  /-- the backward loop of the node consuming writer `w` watches another writer (only possible
  with `handOver = false`): it will never see `w`'s responses nor its channel close -/
  detached : WId → Bool := fun _ => false

inductive Step where
  | prim (w : WId) (c : CStep)
  | fwd (w : WId) (r : RId)
  | bwd (w : WId)
  | fwdEnd (w : WId) (r : RId)
  | sinkAnswer (k : Nat) (a : Ans)
  | bwdLate (w : WId)
  | down (t : Teardown)
  deriving DecidableEq, Repr

def setComp (s : Sys) (w : WId) (c : Comp) : Sys :=
  { s with comp := fun x => if x = w then c else s.comp x }

/-- Requests a write hands to node in-readers go to their inboxes (reader pump). -/
def deliver (t : Topo) (w : WId) (inbox : WId → RId → List Nat) : List (RId × Nat) → WId → RId → List Nat
  | [] => inbox
  | (r, v) :: rest =>
    match t.listener w r with
    | .node _ => deliver t w (fun x y => if x = w ∧ y = r then inbox x y ++ [v] else inbox x y) rest
    | .sink _ => deliver t w inbox rest

/-- Requests a write hands to readers that sinks listen on join those readers' queues
(`Reader.write`: `r.writers = append(r.writers, request{writer, link})`). -/
def deliverQ (t : Topo) (w : WId) (queue : Nat → List (WId × RId)) : List (RId × Nat) → Nat → List (WId × RId)
  | [] => queue
  | (r, _) :: rest =>
    match t.listener w r with
    | .sink k => deliverQ t w (fun x => if x = k then queue x ++ [(w, r)] else queue x) rest
    | .node _ => deliverQ t w queue rest

def applyPrim (rule : Pump.Rule) (t : Topo) (s : Sys) (w : WId) (c : CStep) : Sys × COut :=
  let r := applyC rule (s.comp w) c
  let s1 := setComp s w r.1
  match r.2 with
  | .w o => ({ s1 with inbox := deliver t w s1.inbox o.deliv, queue := deliverQ t w s1.queue o.deliv }, r.2)
  | _ => (s1, r.2)

def applyClose (rule : Pump.Rule) (t : Topo) (s : Sys) : Close → Sys
  | .reader w r => (applyPrim rule t s w (.w (.closeR r))).1
  | .writer w => (applyPrim rule t s w (.w .closeW)).1

def applyCloses (rule : Pump.Rule) (t : Topo) (s : Sys) : List Close → Sys
  | [] => s
  | c :: rest => applyCloses rule t (applyClose rule t s c) rest

/-- `Tracer.Drop`: every request that still waits for an answer gets `a`. -/
def fillAll (a : Ans) : List (Nat × Option Ans) → List (Nat × Option Ans)
  | [] => []
  | (v, none) :: rest => (v, some a) :: fillAll a rest
  | e :: rest => e :: fillAll a rest

/-- A response as the answer a node passes upstream (its writers have one reader each in these
workflows, so a response is never a proper join). -/
def toAns : Resp → Ans
  | .none => .none
  | .err (e :: _) => .err e
  | .err [] => .err 0
  | .val v => .val v
  | .vals (v :: _) => .val v
  | .vals [] => .none

inductive Out where
  | c (o : COut)
  | skip
  | unit
  deriving DecidableEq, Repr

/-- Answer, from the head of `reads`, every request whose answer is known; returns the system
and what is left of the list. -/
def flushReads (rule : Pump.Rule) (t : Topo) (w : WId) (r : RId) (s : Sys) : List (Nat × Option Ans) → Sys × List (Nat × Option Ans)
  | (_, some a) :: rest => flushReads rule t w r (applyPrim rule t s w (.w (.answer r a))).1 rest
  | l => (s, l)

def setReads (s : Sys) (w : WId) (r : RId) (l : List (Nat × Option Ans)) : Sys :=
  { s with reads := fun x y => if x = w ∧ y = r then l else s.reads x y }

/-- Record the answer of the oldest request that still waits for one. -/
def fillFirst (a : Ans) : List (Nat × Option Ans) → List (Nat × Option Ans)
  | [] => []
  | (v, none) :: rest => (v, some a) :: rest
  | e :: rest => e :: fillFirst a rest

def step (rule : Pump.Rule) (t : Topo) (s : Sys) : Step → Sys × Out
  | .prim w c => let r := applyPrim rule t s w c; (r.1, .c r.2)
  | .fwd w r =>
    match t.listener w r, s.inbox w r with
    | .node wo, v :: rest =>
      let s1 := { s with inbox := fun x y => if x = w ∧ y = r then rest else s.inbox x y }
      let r2 := applyPrim rule t s1 wo (.w (.write v))
      -- nobody accepted: the request is its own answer (`Tracer.Write`), in read order
      let entry : Nat × Option Ans := match r2.2 with
        | .w o => (match o.ret with | .cnt 0 => (v, some (.val v)) | _ => (v, none))
        | _ => (v, none)
      let f := flushReads rule t w r r2.1 (s.reads w r ++ [entry])
      (setReads f.1 w r f.2, .c r2.2)
    | _, _ => (s, .skip)
  | .bwd wo =>
    if s.detached wo then (s, .skip) else
    match t.consumer wo with
    | .node wi r =>
      match Pump.recv (s.comp wo).p with
      | .got a =>
        let r1 := applyPrim rule t s wo .recv
        let f := flushReads rule t wi r r1.1 (fillFirst (toAns a) (s.reads wi r))
        (setReads f.1 wi r f.2, .c r1.2)
      | .closed =>
        -- the loop ends; `Tracer.Drop(outWriter)`
        let f := flushReads rule t wi r s (fillAll Ans.dropped (s.reads wi r))
        (setReads f.1 wi r f.2, .unit)
      | .blocked => (s, .skip)
    | .requester => (s, .skip)
  | .fwdEnd w r =>
    match t.listener w r with
    | .node _ =>
      if (s.comp w).w.closed r then
        -- the reader's pump has returned (what it buffered is discarded), the forward loop ends;
        -- `Tracer.Drop(outWriter)`
        let s1 := { s with inbox := fun x y => if x = w ∧ y = r then [] else s.inbox x y }
        let f := flushReads rule t w r s1 (fillAll Ans.dropped (s.reads w r))
        (setReads f.1 w r f.2, .unit)
      else (s, .skip)
    | .sink _ => (s, .skip)
  | .sinkAnswer k a =>
    -- `(*Reader).Receive(a)` by the owner of the reader sink `k` listens on: pop the oldest request,
    -- answer the writer it came from
    match s.queue k with
    | (w, r) :: rest =>
      let s1 := { s with queue := fun x => if x = k then rest else s.queue x }
      let p := applyPrim rule t s1 w (.w (.answer r a))
      (p.1, .c p.2)
    | [] => (s, .skip)
  | .bwdLate wo =>
    -- The backward loop is a listener of the out-port: `OutPort.Open` starts it in its own
    -- goroutine (`go listeners.Accept(proc)`) and it obtains its writer with a second `Open(proc)`.
    -- This step is that second `Open` happening only now.  With `handOver` it finds the writer the
    -- forward loop opened, whatever happened in between: nothing to model.  Without, a writer that
    -- has been closed in the meantime (by `OutPort.Close`, which forgets it; the witness
    -- `C03.late_listener_pinned_blocked` closes the out-port) is not found: the loop watches a
    -- brand-new writer for ever.
    if t.handOver then (s, .skip)
    else if (s.comp wo).w.done then ({ s with detached := fun x => if x = wo then true else s.detached x }, .unit)
    else (s, .skip)
  | .down td => (applyCloses rule t s (closes t td), .unit)

def run (rule : Pump.Rule) (t : Topo) (s : Sys) : List Step → Sys
  | [] => s
  | st :: h => run rule t (step rule t s st).1 h

/-- The endpoints a step can change. -/
def closeTarget : Close → WId
  | .reader w _ => w
  | .writer w => w

def footprint (t : Topo) (s : Sys) : Step → List WId
  | .prim w _ => [w]
  | .fwd w r => match t.listener w r with
    | .node wo => [w, wo]
    | .sink _ => []
  | .bwd wo => match t.consumer wo with
    | .node wi _ => [wo, wi]
    | .requester => []
  | .fwdEnd w r => match t.listener w r with
    | .node _ => [w]
    | .sink _ => []
  | .sinkAnswer k _ => match s.queue k with
    | (w, _) :: _ => [w]
    | [] => []
  | .bwdLate _ => []
  | .down td => (closes t td).map closeTarget

end Uniflow.Teardown
