/-
A workflow of `Uniflow.Node`s in one process, for replaying the harness's schedules on the model.

Between the nodes sit the real `packet.Writer`/`packet.Reader` pairs (`pkg/port`: one writer per
out-port and process, linked to the readers of the in-ports the out-port is linked to). They are
another worker's property (C01); here only the part that a never-closed, fully linked writer
exercises is modelled:

    Writer.Write(pck):   no readers → 0; else a new row of nil cells, one per reader, and a fresh
                         packet with the same payload handed to every reader (Reader.write pushes
                         the writer on the reader's `writers` FIFO)
    Reader.Receive(a):   pops the FIFO's head writer w, w.receive(a, reader)
    Writer.receive:      fills the first row whose cell for that reader is nil; if it is row 0 and
                         has no nil left: pop it and emit Join(row) into the writer's pump
    the node's backward goroutine takes emitted answers from the pump one by one (`Node.Step.answer`)

A *step of the schedule* (`send`, `release`, `sinkAnswer`) is followed by `settle`: run every enabled
internal step (forward reads, Link/Write calls, backward deliveries) until none is left – the
harness does the same by waiting for quiescence.  The order chosen here is one fixed order; the
real goroutines may take any (C02.node_contract is the statement that it does not matter).

Refusal: in the real writer a reader that is already closed refuses a write (C01: its cell is the
`refused` marker and does not count as an accepting reader). In this model readers are never closed
and a write to a linked writer is handed to every linked reader (`deliver`), so a link cannot refuse:
every cell of a new row is `none` = owed, and `gWrite` reports "accepted" exactly when the writer has
links. No `refused` marker is needed here.

Write copies: every delivery hands the reader a packet with a NEW id (`deliver` takes `g.next`), as
`Writer.Write` hands every linked reader `New(pck.Payload())` – also when the writer has a single reader.
Packet identity therefore never survives a hop: an action that hands its in packet to several outputs
(`Rel.sames`) that fan in to one in-port, or a client that writes one packet object twice (the driver's
`resend`), produces independent requests downstream (`C02.deliver_copies`). A packet written several
times has the copies of all its writes as children in the ghost tree (`gWrite` appends to `dels`).

Ghost state (never read by the machine itself): `log` records the derivation tree as it unfolds –
which packets an action derived from a request (`acts`), which copies a write handed to the linked
readers (`dels`), which packets were answered with themselves because nobody accepted them (`echo`),
and what each sink answered (`sinkAns`); `roots` are the source's requests, `resp` all responses the
source has received.  `refAns` is the REFERENCE answer of a packet: the join over its derivation
tree as C02 states it.
-/
import Uniflow.Model.Node

namespace Uniflow.Flow
open Uniflow.Tracer Uniflow.Node

inductive Tgt where
  | node (n port : Nat)
  | sink (k : Nat)

def wkey (n w : Nat) : Nat := n * 64 + w
def srcNode : Nat := 1000
def srcKey : Nat := wkey srcNode 1
def rkeyOf : Tgt → Nat
  | .node n port => n * 64 + port
  | .sink k => (2000 + k) * 64

structure Writer where
  rows : List (List (Option Ans)) := []
  queue : List Ans := []

/-- the derivation tree, recorded as the run unfolds (ghost) -/
structure Log where
  acts : List (Pid × List Pid) := []      -- request ↦ the packets its action derived from it, in link order
  dels : List (Pid × List Pid) := []      -- accepted written packet ↦ the copies delivered, in target order
  echo : List (Pid × Val) := []           -- packet nobody accepted (or `Write(nil, in)`): answered with itself
  sinkAns : List (Pid × Ans) := []        -- copy delivered to a sink ↦ the sink's answer
  owner : List (Pid × Nat) := []          -- where a packet lives: copy ↦ key of the reader it was handed to,
                                          -- packet made by an action ↦ `qTag` of the node (never read by `refAns`)

/-- owner tag of the packets the action of node `n` returns -/
def qTag (n : Nat) : Nat := n * 64 + 63

def allSome {α : Type} : List (Option α) → Option (List α)
  | [] => some []
  | none :: _ => none
  | some a :: xs =>
    match allSome xs with
    | some as => some (a :: as)
    | none => none

/-- The reference answer of packet `p`: itself when nobody accepted it; the sink's answer for a copy
delivered to a sink; for an accepted write the `Join` of the answers to its copies (the writer's
contract); for a request the `Join` of the answers to the packets derived from it, in link order.
`none` = some packet below has not been answered yet.  `fuel` bounds the depth (ids grow downwards,
so `g.next` is enough). -/
def refAns (lg : Log) : Nat → Pid → Option Ans
  | 0, _ => none
  | fuel + 1, p =>
    match aget lg.echo p with
    | some v => some (.pay v)
    | none =>
      match aget lg.sinkAns p with
      | some a => some a
      | none =>
        match aget lg.dels p with
        | some cs =>
          match allSome (cs.map (refAns lg fuel)) with
          | some as => some (join as)
          | none => none
        | none =>
          match aget lg.acts p with
          | some qs =>
            match allSome (qs.map (refAns lg fuel)) with
            | some as => some (join as)
            | none => none
          | none => none

structure G where
  nodes : List Node := []
  links : List (Nat × List Tgt) := []
  writers : List (Nat × Writer) := []
  fifo : List (Nat × List Nat) := []
  sinks : List (Nat × List (Pid × Val)) := []
  next : Pid := 1
  log : Log := {}
  roots : List Pid := []
  resp : List Ans := []
  srcOut : List Ans := []
  entered : List (Nat × List Val) := []
  arrived : List (Nat × Val) := []
  bad : Bool := false

def getNode : List Node → Nat → Option Node
  | [], _ => none
  | n :: _, 0 => some n
  | _ :: ns, i + 1 => getNode ns i

def setNode : List Node → Nat → Node → List Node
  | [], _, _ => []
  | _ :: ns, 0, n => n :: ns
  | n' :: ns, i + 1, n => n' :: setNode ns i n

def getWriter (g : G) (key : Nat) : Writer :=
  match aget g.writers key with
  | some w => w
  | none => {}

/-- deliver a fresh copy of the payload to one linked reader -/
def deliver (g : G) (key : Nat) (v : Val) (t : Tgt) : G :=
  let g := { g with fifo := aset g.fifo (rkeyOf t) (getL g.fifo (rkeyOf t) ++ [key]) }
  match t with
  | .sink k =>
    { g with sinks := aset g.sinks k (getL g.sinks k ++ [(g.next, v)]), arrived := g.arrived ++ [(k, v)],
             next := g.next + 1,
             log := { g.log with owner := aset g.log.owner g.next (rkeyOf (.sink k)) } }
  | .node m port =>
    match getNode g.nodes m with
    | none => { g with bad := true }
    | some nd =>
      match step nd (.deliver port { id := g.next, pay := v }) with
      | none => { g with bad := true }
      | some (nd', _) =>
        { g with nodes := setNode g.nodes m nd', next := g.next + 1,
                 log := { g.log with owner := aset g.log.owner g.next (rkeyOf (.node m port)) } }

/-- deliver to every linked reader; returns the ids of the copies (every delivery takes the next id) -/
def deliverAll (key : Nat) (v : Val) : List Tgt → G → G × List Pid
  | [], g => (g, [])
  | t :: ts, g =>
    let c := g.next
    let (g', cs) := deliverAll key v ts (deliver g key v t)
    (g', c :: cs)

/-- `Writer.Write` of packet `qid`: returns whether some reader accepted -/
def gWrite (g : G) (key : Nat) (qid : Pid) (v : Val) : G × Bool :=
  match getL g.links key with
  | [] => (g, false)
  | tgts =>
    let w := getWriter g key
    let g := { g with writers := aset g.writers key { w with rows := w.rows ++ [List.replicate tgts.length none] } }
    let (g, cs) := deliverAll key v tgts g
    -- a packet written once more (an action handing its input packet to several outputs) keeps the
    -- copies of its earlier writes: its answer is the join over all of them
    ({ g with log := { g.log with dels := aset g.log.dels qid (getL g.log.dels qid ++ cs) } }, true)

def logEcho (g : G) (q : Pkt) : G :=
  { g with log := { g.log with echo := aset g.log.echo q.id q.pay } }

def colOf (rk : Nat) : List Tgt → Nat → Option Nat
  | [], _ => none
  | t :: ts, i => if rkeyOf t = rk then some i else colOf rk ts (i + 1)

/-- `Writer.receive`'s row update: fill column `col` of the first row where it is nil; the flag
says whether that row is row 0 -/
def fillCol (col : Nat) (a : Ans) : List (List (Option Ans)) → Bool → Option (List (List (Option Ans)) × Bool)
  | [], _ => none
  | row :: rows, first =>
    if cellFree row col then some (setCell row col a :: rows, first)
    else match fillCol col a rows false with
      | some (rows', f) => some (row :: rows', f)
      | none => none

/-- `Reader.Receive(a)` on the reader with key `rk` -/
def gReply (g : G) (rk : Nat) (a : Ans) : G :=
  match getL g.fifo rk with
  | [] => { g with bad := true }
  | key :: rest =>
    let g := { g with fifo := setOrDel g.fifo rk rest }
    match colOf rk (getL g.links key) 0 with
    | none => { g with bad := true }
    | some col =>
      let w := getWriter g key
      match fillCol col a w.rows true with
      | none => g
      | some (row :: rows', true) =>
        if hasNil row then { g with writers := aset g.writers key { w with rows := row :: rows' } }
        else
          let j := joinCells row
          if key = srcKey then
            { g with writers := aset g.writers key { w with rows := rows' }, srcOut := g.srcOut ++ [j],
                     resp := g.resp ++ [j] }
          else { g with writers := aset g.writers key { rows := rows', queue := w.queue ++ [j] } }
      | some (rows', _) => { g with writers := aset g.writers key { w with rows := rows' } }

def route (g : G) (n : Nat) : List Ev → G
  | [] => g
  | .reply r a :: evs => route (gReply g (rkeyOf (.node n r)) a) n evs
  | .hook _ _ :: evs => route g n evs

def putNode (g : G) (n : Nat) (nd : Node) (ev : List Ev) : G :=
  route { g with nodes := setNode g.nodes n nd } n ev

/-- one enabled internal step of thread `i` of node `n`, if any -/
def threadStep (g : G) (n : Nat) (nd : Node) (i : Nat) : Option G :=
  match getThread nd.threads i with
  | some { inbox := _, pc := .emit (.write (some w) q :: _) } =>
    let (g, acc) := gWrite g (wkey n w) q.id q.pay
    let g := if acc then g else logEcho g q
    -- the node may have received deliveries from its own write only in a cyclic graph; re-read it
    match getNode g.nodes n with
    | none => none
    | some nd =>
      match step nd (.op i acc) with
      | some (nd', ev) => some (putNode g n nd' ev)
      | none => none
  | some { inbox := _, pc := .emit (.write none q :: _) } =>
    match step nd (.op i false) with
    | some (nd', ev) => some (putNode (logEcho g q) n nd' ev)
    | none => none
  | some { inbox := _, pc := .emit (_ :: _) } =>
    match step nd (.op i false) with
    | some (nd', ev) => some (putNode g n nd' ev)
    | none => none
  | some { inbox := _ :: _, pc := .idle } =>
    match step nd (.read i) with
    | some (nd', ev) =>
      let g := putNode g n nd' ev
      match getThread nd'.threads i with
      | some { inbox := _, pc := .action _ grp } => some { g with entered := g.entered ++ [(n, grp.map (·.pay))] }
      | _ => some g
    | none => none
  | _ => none

def backStep (g : G) (n : Nat) (nd : Node) (w : Nat) : Option G :=
  let wr := getWriter g (wkey n w)
  match wr.queue with
  | [] => none
  | a :: rest =>
    let g := { g with writers := aset g.writers (wkey n w) { wr with queue := rest } }
    match step nd (.answer w a) with
    | some (nd', ev) => some (putNode g n nd' ev)
    | none => some { g with bad := true }     -- an answer nobody is waiting for

def maxW : Nat := 64

def nodeStep (g : G) (n : Nat) : Option G :=
  match getNode g.nodes n with
  | none => none
  | some nd =>
    match (List.range nd.threads.length).findSome? (threadStep g n nd) with
    | some g' => some g'
    | none => (List.range maxW).findSome? (backStep g n nd)

def settleStep (g : G) : Option G :=
  (List.range g.nodes.length).findSome? (nodeStep g)

def settle : Nat → G → G
  | 0, g => { g with bad := true }
  | fuel + 1, g =>
    match settleStep g with
    | none => g
    | some g' => settle fuel g'

def settleFuel : Nat := 4000

def clearObs (g : G) : G := { g with srcOut := [], entered := [], arrived := [] }

/-- the source writes a request with payload `v` -/
def send (g : G) (v : Val) : G :=
  let g := clearObs g
  let rid := g.next
  settle settleFuel (gWrite { g with next := rid + 1, roots := g.roots ++ [rid] } srcKey rid v).1

def actionThread : List Thread → Nat → Option (Nat × Pkt)
  | [], _ => none
  | { inbox := _, pc := .action p _ } :: _, i => some (i, p)
  | _ :: ts, i => actionThread ts (i + 1)

/-- what the harness tells an action to return -/
inductive Rel where
  | out (v : Val)                  -- a new packet
  | same                           -- the in packet itself (the node hands its tracer a COPY: `node.derive`)
  | err (v : Val)                  -- a new packet on the error port
  | many (vs : List (Option Val))  -- one-to-many: a new packet per `some`
  | drop                           -- nil / no packets
  | sames (k : Nat)                -- one-to-many: the in packet itself on the outputs 0..k-1 (`[in, in, …]`; copies)
  | mixed (vs : List (Option (Option Val)))   -- one-to-many: per out port nothing (`none`), a new packet
                                              -- (`some (some v)`) or the in packet itself (`some none`; a copy)

def allocOuts : List (Option Val) → Pid → List (Option Pkt) × Pid
  | [], nx => ([], nx)
  | none :: vs, nx => let (qs, nx') := allocOuts vs nx; (none :: qs, nx')
  | some v :: vs, nx => let (qs, nx') := allocOuts vs (nx + 1); (some { id := nx, pay := v } :: qs, nx')

def writeIds : List Op → List Pid
  | [] => []
  | .write _ q :: ops => q.id :: writeIds ops
  | .link _ _ :: ops => writeIds ops

/-- the action running in node `n` returns -/
def release (g : G) (n : Nat) (r : Rel) : Option G :=
  let g := clearObs g
  match getNode g.nodes n with
  | none => none
  | some nd =>
    match actionThread nd.threads 0 with
    | none => none
    | some (i, p) =>
      let (o, nx) : Outcome × Pid := match r with
        | .out v => (.outs [some { id := g.next, pay := v }], g.next + 1)
        | .same => (.outs [some { id := g.next, pay := p.pay }], g.next + 1)
        | .err v => (.err { id := g.next, pay := v }, g.next + 1)
        | .many vs => let (qs, nx) := allocOuts vs g.next; (.outs qs, nx)
        | .drop => (.outs [], g.next)
        | .sames k => let (qs, nx) := allocOuts (List.replicate k (some p.pay)) g.next; (.outs qs, nx)
        | .mixed vs =>
          let (qs, nx) := allocOuts (vs.map (fun x => x.map (fun v => v.getD p.pay))) g.next; (.outs qs, nx)
      match step nd (.finish i o) with
      | none => none
      | some (nd', ev) =>
        let outs := match program nd.kind p o with
          | some ops => (writeIds ops).filter (fun q => q != p.id)
          | none => []
        let lg := match outs with
          | [] => g.log
          | _ :: _ => { g.log with acts := aset g.log.acts p.id outs,
                                   owner := outs.foldl (fun m q => aset m q (qTag n)) g.log.owner }
        some (settle settleFuel (putNode { g with next := nx, log := lg } n nd' ev))

/-- sink `k` answers its oldest request; `a = none` answers with the request packet itself -/
def sinkAnswer (g : G) (k : Nat) (a : Option Ans) : Option G :=
  let g := clearObs g
  match getL g.sinks k with
  | [] => none
  | (c, v) :: rest =>
    let a := match a with
      | some a => a
      | none => Ans.pay v
    let g := { g with sinks := setOrDel g.sinks k rest, log := { g.log with sinkAns := aset g.log.sinkAns c a } }
    some (settle settleFuel (gReply g (rkeyOf (.sink k)) a))

def threadQuiet : Thread → Bool
  | { inbox := [], pc := .idle } => true
  | _ => false

/-- nothing in flight inside the nodes: every tracer map empty, every forward thread idle -/
def quiescentEmpty (g : G) : Bool :=
  g.nodes.all (fun nd => isEmpty nd.tr && nd.threads.all threadQuiet)

/-- the reference answers of the source's requests, in request order (`none`: not all are determined yet) -/
def refAnswers (g : G) : Option (List Ans) := allSome (g.roots.map (refAns g.log (g.next + 1)))

def anyPanic (g : G) : Bool :=
  g.bad || g.nodes.any (fun nd => nd.panic || nd.tr.panic)


/-! ### schedules of the joint model -/

/-- one step of the schedule: the source sends a request, the action running in a node returns, a
sink answers its oldest request.  (A step that is not enabled is skipped.) -/
inductive Ext where
  | send (v : Val)
  | release (n : Nat) (r : Rel)
  | sinkAnswer (k : Nat) (a : Option Ans)

def ext (g : G) : Ext → G
  | .send v => send g v
  | .release n r => match release g n r with | some g' => g' | none => g
  | .sinkAnswer k a => match sinkAnswer g k a with | some g' => g' | none => g

def runExt : G → List Ext → G
  | g, [] => g
  | g, e :: es => runExt (ext g e) es

/-- the action returns new packets (not its input packet) -/
def Ext.fresh : Ext → Bool
  | .release _ .same => false
  | .release _ (.sames _) => false
  | .release _ (.mixed _) => false
  | _ => true

/-- nothing left to do: no sink holds a request, no answer waits in a writer's pump, every tracer is
empty and every forward thread idle with an empty inbox -/
def quiescent (g : G) : Bool :=
  quiescentEmpty g && g.sinks.all (fun s => s.2.isEmpty) && g.writers.all (fun w => w.2.queue.isEmpty)


/-- safety at a prefix (executable): the i-th response received so far is the reference answer of the
i-th request (so it is determined: every packet derived from the request has been answered) -/
def respOK (showA : Ans → String) (g : G) : Bool :=
  g.resp.length ≤ g.roots.length &&
  (List.zip g.resp g.roots).all (fun x =>
    match refAns g.log (g.next + 1) x.2 with
    | some a => showA a == showA x.1
    | none => false)

end Uniflow.Flow
