/-
Model of `pkg/packet/tracer.go` (type `Tracer`) and of `packet.Join` (`pkg/packet/packet.go`).

The seven Go maps are association lists keyed by small naturals (packet / reader / writer
identities are harness- or model-assigned numbers; the Go code only ever compares them):

    hooks    map[uuid][]Hook        ↦ number of registered hooks
    sources  map[uuid][]*Packet     ↦ list of packet ids
    targets  map[uuid][]*Packet     ↦ list of packet ids
    receives map[uuid][]*Packet     ↦ list of cells, `none` = Go `nil` (answer still owed)
    reads    map[*Reader][]*Packet
    writes   map[*Writer][]*Packet
    reader   map[uuid]*Reader

An *answer* packet is only ever inspected by `Join` (pointer comparison with `packet.None`,
payload type switch), so answers are modelled by content: `Ans.empty` (the `None` singleton) or
`Ans.pay v`.  Every public method of the Go type runs under `Tracer.mu`; each is one function here
(`dispatch`, `link`, `read`, `write`, `receiveW`, `dropW`).
`resolve` is recursive in Go (a packet, then its sources); here by fuel, `Uniflow.Tracer.resolve`.
The Go code can index out of range in the slot search of `resolve`; that is `panic := true`.

`strict = true` is the code after the `fix:` commit (a read packet that has no entry in `receives`
yet - `Read` done, `Link`/`Write` not yet - is not complete); `strict = false` is the pinned tree.
-/
namespace Uniflow.Tracer

abbrev Pid := Nat
abbrev Rid := Nat
abbrev Wid := Nat

/-- Payloads (`types.Value`) as far as `Join` distinguishes them. `err ms`: an error value whose
message is the lines `ms` (`errors.Join` concatenates messages with newlines). -/
inductive Val where
  | nil
  | atom (n : Nat)
  | err (ms : List Nat)
  | slice (vs : List Val)

/-- Content of a (non-nil) packet pointer: the `packet.None` singleton or a packet with a payload. -/
inductive Ans where
  | empty
  | pay (v : Val)

/-- errors collected by `Join` (one list of message lines per error payload) -/
def errsOf : List Ans → List (List Nat)
  | [] => []
  | .pay (.err ms) :: as => ms :: errsOf as
  | _ :: as => errsOf as

/-- non-error payloads collected by `Join` -/
def paysOf : List Ans → List Val
  | [] => []
  | .empty :: as => paysOf as
  | .pay (.err _) :: as => paysOf as
  | .pay v :: as => v :: paysOf as

/-- `packet.Join` on non-nil packets. -/
def join : List Ans → Ans
  | [] => .empty
  | [a] => a
  | as =>
    match errsOf as with
    | e :: es => .pay (.err (e :: es).flatten)
    | [] =>
      match paysOf as with
      | [] => .empty
      | [v] => .pay v
      | vs => .pay (.slice vs)

def hasNil {β : Type} : List (Option β) → Bool
  | [] => false
  | none :: _ => true
  | some _ :: cs => hasNil cs

def cellsOf {β : Type} : List (Option β) → List β
  | [] => []
  | none :: cs => cellsOf cs
  | some a :: cs => a :: cellsOf cs

/-- `Join(receives...)` as the tracer and the writer call it: on a row of cells. `Join` skips nil
cells when there are at least two; with exactly one cell the callers have checked it is not nil. -/
def joinCells (cs : List (Option Ans)) : Ans := join (cellsOf cs)

/-! ### association lists -/

def aget {β : Type} : List (Nat × β) → Nat → Option β
  | [], _ => none
  | (k', v) :: m, k => if k = k' then some v else aget m k

def aset {β : Type} : List (Nat × β) → Nat → β → List (Nat × β)
  | [], k, v => [(k, v)]
  | (k', v') :: m, k, v => if k = k' then (k, v) :: m else (k', v') :: aset m k v

def adel {β : Type} : List (Nat × β) → Nat → List (Nat × β)
  | [], _ => []
  | (k', v') :: m, k => if k = k' then adel m k else (k', v') :: adel m k

/-- Go: indexing a map of slices with a missing key yields the nil slice. -/
def getL {β : Type} (m : List (Nat × List β)) (k : Nat) : List β :=
  match aget m k with
  | some l => l
  | none => []

/-- `m[k] = l`, or `delete(m, k)` when `l` is empty (the Go code's `if len(x) > 0 … else delete`). -/
def setOrDel {β : Type} (m : List (Nat × List β)) (k : Nat) (l : List β) : List (Nat × List β) :=
  match l with
  | [] => adel m k
  | _ :: _ => aset m k l

/-! ### the tracer -/

structure T where
  hooks : List (Pid × Nat) := []
  sources : List (Pid × List Pid) := []
  targets : List (Pid × List Pid) := []
  receives : List (Pid × List (Option Ans)) := []
  reads : List (Rid × List Pid) := []
  writes : List (Wid × List Pid) := []
  reader : List (Pid × Rid) := []
  panic : Bool := false

/-- What leaves the tracer: `reader.Receive(join)` and `hooks.Handle(join)`. -/
inductive Ev where
  | reply (r : Rid) (a : Ans)
  | hook (p : Pid) (a : Ans)

def isEmpty (t : T) : Bool :=
  t.hooks.isEmpty && t.sources.isEmpty && t.targets.isEmpty && t.receives.isEmpty &&
  t.reads.isEmpty && t.writes.isEmpty && t.reader.isEmpty

/-- `Dispatch` -/
def dispatch (t : T) (p : Pid) : T :=
  { t with hooks := aset t.hooks p ((match aget t.hooks p with | some n => n | none => 0) + 1) }

/-- `Link(source, target)` (both non-nil) -/
def link (t : T) (src tgt : Pid) : T :=
  if src = tgt then t else
  { t with
    sources := aset t.sources tgt (getL t.sources tgt ++ [src])
    targets := aset t.targets src (getL t.targets src ++ [tgt])
    receives := aset t.receives src (getL t.receives src ++ [none]) }

/-- `Read(reader, pck)` -/
def read (t : T) (r : Rid) (p : Pid) : T :=
  { t with
    reads := aset t.reads r (getL t.reads r ++ [p])
    reader := aset t.reader p r }

/-- the loop of `(*Tracer).receive`: fill the first nil cell, else append -/
def fillFirst : List (Option Ans) → Ans → List (Option Ans)
  | [], a => [some a]
  | none :: cs, a => some a :: cs
  | some b :: cs, a => some b :: fillFirst cs a

/-- `(*Tracer).receive(source, target)` -/
def receive (t : T) (src : Pid) (a : Ans) : T :=
  { t with receives := aset t.receives src (fillFirst (getL t.receives src) a) }

def dropFirstNil : List (Option Ans) → List (Option Ans)
  | [] => []
  | none :: cs => cs
  | some b :: cs => some b :: dropFirstNil cs

/-- `(*Tracer).discard(source)` -/
def discard (t : T) (src : Pid) : T :=
  if hasNil (getL t.receives src) then
    { t with receives := aset t.receives src (dropFirstNil (getL t.receives src)) }
  else t

/-- The slot search of `resolve`'s sources branch:

    offset := 0
    for i := 0; i < len(targets); i++ {
        if receives[i+offset] != nil { i--; offset++; continue }
        if targets[i].ID() == pck.ID() { receives[i+offset] = join; targets = remove(targets, i); break }
    }

as a recursion on the remaining `receives` cells and the remaining targets: the i-th remaining
target is paired with the i-th nil cell. `none` = index out of range (Go panics). -/
def slot (pck : Pid) (j : Ans) : List (Option Ans) → List Pid → Option (List (Option Ans) × List Pid)
  | rs, [] => some (rs, [])
  | [], _ :: _ => none
  | some a :: rs, tg :: tgs =>
    match slot pck j rs (tg :: tgs) with
    | some (rs', tgs') => some (some a :: rs', tgs')
    | none => none
  | none :: rs, tg :: tgs =>
    if tg = pck then some (some j :: rs, tgs)
    else match slot pck j rs tgs with
      | some (rs', tgs') => some (none :: rs', tg :: tgs')
      | none => none

/-- The reader loop of `resolve`:

    for len(reads) > 0 {
        read := reads[0]
        receives, ok := t.receives[read.ID()]
        if !ok || slices.Contains(receives, nil) { break }      // `!ok ||` added by the fix
        reader.Receive(Join(receives...))
        delete(t.reader, read.ID()); delete(t.receives, read.ID())
        reads = reads[1:]
    }

Returns the remaining reads. -/
def flush (strict : Bool) (r : Rid) : List Pid → T → List Pid × T × List Ev
  | [], t => ([], t, [])
  | p :: ps, t =>
    match aget t.receives p with
    | none =>
      if strict then (p :: ps, t, [])
      else
        let (ps', t', ev) := flush strict r ps { t with reader := adel t.reader p, receives := adel t.receives p }
        (ps', t', Ev.reply r (joinCells []) :: ev)
    | some cs =>
      if hasNil cs then (p :: ps, t, [])
      else
        let (ps', t', ev) := flush strict r ps { t with reader := adel t.reader p, receives := adel t.receives p }
        (ps', t', Ev.reply r (joinCells cs) :: ev)

/-- one iteration of `for _, source := range sources` in `resolve`, without the recursive call -/
def fillSource (t : T) (pck : Pid) (j : Ans) (s : Pid) : T :=
  match slot pck j (getL t.receives s) (getL t.targets s) with
  | none => { t with panic := true }
  | some (rs', tgs') =>
    { t with
      -- Go writes `receives[i+offset] = join` into the slice the map entry points at; a missing
      -- entry (nil slice) is never written because the search then matches nothing or panics
      receives := (match aget t.receives s with | some _ => aset t.receives s rs' | none => t.receives)
      targets := setOrDel t.targets s tgs' }

/-- `(*Tracer).resolve(pck)`; `fuel` bounds the recursion `pck → sources of pck → …`. Running out
of fuel is reported as `panic`; for the one-to-one node `C02.node_contract_partial` proves
`panic = false` after every schedule (derivation chains there have depth 1: `resolve_chain` in
Proofs/Node.lean needs fuel 2), so the fuel suffices. -/
def resolve (strict : Bool) : Nat → T → Pid → T × List Ev
  | 0, t, _ => ({ t with panic := true }, [])
  | fuel + 1, t, pck =>
    let cs := getL t.receives pck
    if hasNil cs then (t, []) else
    -- hooks branch
    let (t, ev1) :=
      match aget t.hooks pck with
      | some (_ + 1) =>
        ({ t with hooks := adel t.hooks pck, receives := adel t.receives pck }, [Ev.hook pck (joinCells cs)])
      | _ => (t, [])
    let cs := getL t.receives pck
    if hasNil cs then (t, ev1) else
    -- sources branch
    let (t, ev2) :=
      match aget t.sources pck with
      | none => (t, [])
      | some srcs =>
        let j := joinCells cs
        srcs.foldl (fun (acc : T × List Ev) s =>
          let (t1, e1) := resolve strict fuel (fillSource acc.1 pck j s) s
          (t1, acc.2 ++ e1)) ({ t with sources := adel t.sources pck }, [])
    -- reader branch
    match aget t.reader pck with
    | some r =>
      let (reads', t', ev3) := flush strict r (getL t.reads r) t
      ({ t' with reads := setOrDel t'.reads r reads' }, ev1 ++ ev2 ++ ev3)
    | none => ({ t with receives := adel t.receives pck }, ev1 ++ ev2)

/-- enough for every use in `Uniflow.Node` (derivation chains there have depth ≤ 1, fuel 2 is needed) -/
def defaultFuel : Nat := 8

/-- `Write(writer, pck)`: `accepted` = `writer != nil && writer.Write(pck) > 0` (the writer is the
environment); `pay` is the content of `pck` itself (used by the echo `t.receive(pck, pck)`). -/
def write (strict : Bool) (t : T) (w : Option Wid) (p : Pid) (pay : Ans) (accepted : Bool) : T × List Ev :=
  match w, accepted with
  | some w, true =>
    ({ t with
       writes := aset t.writes w (getL t.writes w ++ [p])
       receives := aset t.receives p (getL t.receives p ++ [none]) }, [])
  | _, _ => resolve strict defaultFuel (receive t p pay) p

/-- `Receive(writer, pck)`; `a = none` is a nil packet (discard). -/
def receiveW (strict : Bool) (t : T) (w : Wid) (a : Option Ans) : T × List Ev :=
  match getL t.writes w with
  | [] => (t, [])
  | p :: rest =>
    let t := { t with writes := setOrDel t.writes w rest }
    let t := match a with
      | some a => receive t p a
      | none => discard t p
    resolve strict defaultFuel t p

/-- `New(ErrDroppedPacket)` as an answer. -/
def Ans.dropped : Ans := .pay (.err [0])

/-- the loop of `Drop`: `for _, write := range writes { t.receive(write, New(ErrDroppedPacket)); t.resolve(write) }` -/
def dropLoop (strict : Bool) : List Pid → T → T × List Ev
  | [], t => (t, [])
  | p :: ps, t =>
    let (t1, e1) := resolve strict defaultFuel (receive t p Ans.dropped) p
    let (t2, e2) := dropLoop strict ps t1
    (t2, e1 ++ e2)

/-- `Drop(writer)`: detach the packets still awaiting a response from `writer` and answer each,
in order, with a dropped packet error – called by the consumers of `writer.Receive()` once that
channel is closed (the closed channel stands for the responses the writer pump discarded), and
by a forward loop for its own writers once its reader is closed. -/
def dropW (strict : Bool) (t : T) (w : Wid) : T × List Ev :=
  dropLoop strict (getL t.writes w) { t with writes := adel t.writes w }

end Uniflow.Tracer
