/-
Model of `pkg/process/process.go` + `pkg/process/exithook.go` as a small-step machine.

Go being modelled (pinned tree; every `mu.Lock … mu.Unlock` section is ONE atomic step):

    func (p *Process) Exit(err error) {
        p.mu.Lock()
        exitHooks := p.exitHooks                    -- read unconditionally
        if p.status != StatusTerminated {
            close(p.done); p.data = make(map); p.status = StatusTerminated
            p.err = err; p.endTime = now; p.exitHooks = nil
        }
        p.mu.Unlock()                               -- == step `exitFlip`
        exitHooks.Exit(err)                         -- for i := len-1 … 0 { h[i].Exit(err) }: one step per hook
    }
    func (p *Process) AddExitHook(hook ExitHook) bool {
        p.mu.Lock()
        if p.status == StatusTerminated { err := p.err; p.mu.Unlock(); hook.Exit(err); return false }
        for _, h := range p.exitHooks { if h == hook { p.mu.Unlock(); return false } }
        p.exitHooks = append(p.exitHooks, hook); p.mu.Unlock(); return true
    }
    func (p *Process) Fork() *Process {             -- (after fix 37f33b8: counter + sync.Cond under p.mu)
        p.mu.Lock(); p.children++; p.mu.Unlock()    -- step `forkAdd`: its own critical section, BEFORE the child exists
        child := &Process{…, exitHooks: [ExitFunc(func(error){     -- the child's wait-done hook:
            p.mu.Lock(); defer p.mu.Unlock()
            if p.children--; p.children == 0 { p.join.Broadcast() } })], parent: p}
        child.join = sync.NewCond(&child.mu)
        p.AddExitHook(child)                        -- step `forkReg` (the child is invisible before it)
        return child
    }
    func (p *Process) Join() {
        p.mu.Lock(); defer p.mu.Unlock()
        for p.children > 0 { p.join.Wait() }        -- step `joinCheck` (one critical section per check):
    }                                                  children > 0 → park in Wait (lock released), else return;
                                                       a parked thread moves again only after a Broadcast
    `children` is a plain Go `int`: a decrement below zero would not panic (it is proved unreachable).
    Not modelled: `id`, `startTime`, `endTime`. (Observation, outside C04: `Fork` builds the child with
    `endTime: time.Now()` and no `startTime` – `New` sets `startTime` – which looks like an upstream slip;
    `Exit` overwrites `endTime` at termination, `StartTime()` of a forked child is the zero time.)
    Value / SetValue / RemoveValue / Keys           -- one step each (the child's lock is held while
                                                       the parent is consulted, so they linearise)

A hook that is a `*Process` (registered by `Fork`) runs as a nested `child.Exit(err)` on the
same goroutine: the thread pushes a new frame. A frame `{proc, rem, err}` is the activation
`exitHooks.Exit(err)`: `rem` is the part of the swapped-out slice not yet run, *in run order*
(`hooks.reverse` at the flip = the `for i := len-1 … 0` loop), `err` the argument it passes on.

Ghost state (not in the Go code, never read by the machine): a fresh registration token per
effective registration (`nextTok`, `Hook.tok`), the token's owner process and whether it was
registered after termination (`owner`, `late`), the run log, per child the tokens of its
registration in the parent and of its wait-done hook (`ctok`, `wtok`).
-/
namespace Uniflow.Process

/- Process ids, thread ids, registration tokens and error values are plain `Nat`s
   (error 0 = `nil`, k > 0 = the harness error #k). -/

inductive HookKind where
  | user (n : Nat)        -- harness `ExitFunc` #n (pointer identity n)
  | child (c : Nat)       -- the `*Process` c registered by `Fork`
  | waitDone (p : Nat)    -- the closure `p.children--; Broadcast at 0` a forked child is born with
  deriving DecidableEq, Repr

structure Hook where
  kind : HookKind
  tok : Nat               -- ghost
  deriving DecidableEq, Repr

structure Proc where
  terminated : Bool := false
  done : Bool := false                 -- `done` channel closed
  err : Nat := 0
  data : List (Nat × Nat) := []        -- Go map: keys unique
  hooks : List Hook := []              -- `exitHooks`, registration order
  children : Int := 0                  -- `children` counter (a Go `int`)
  parent : Option Nat := none
  ctok : Nat := 0                      -- ghost
  wtok : Nat := 0                      -- ghost

structure Frame where
  proc : Nat
  rem : List Hook
  err : Nat

inductive Pc where
  | idle
  | forkReg (p : Nat)     -- between `p.children++` and `p.AddExitHook(child)`
  | joining (p : Nat)     -- in `Join`, about to test `p.children > 0` (at entry, or woken by a Broadcast)
  | waiting (p : Nat)     -- in `Join`, parked in `p.join.Wait()`
  deriving DecidableEq, Repr

structure Thread where
  pc : Pc := .idle
  stack : List Frame := []

structure LogE where
  tok : Nat
  proc : Nat
  kind : HookKind
  err : Nat

structure State where
  np : Nat := 0
  procs : Nat → Proc := fun _ => {}
  nt : Nat
  threads : Nat → Thread := fun _ => {}
  log : List LogE := []            -- ghost, newest first
  nextTok : Nat := 0               -- ghost
  owner : Nat → Nat := fun _ => 0  -- ghost
  late : Nat → Bool := fun _ => false  -- ghost

def init (nt : Nat) : State := { nt := nt }

def upd {α : Type} (m : Nat → α) (i : Nat) (x : α) : Nat → α :=
  fun j => if j = i then x else m j

inductive Op where
  | new
  | exit (p : Nat) (e : Nat)
  | add (p : Nat) (h : Nat)
  | fork (p : Nat)
  | join (p : Nat)
  | setv (p : Nat) (k v : Nat)
  | delv (p : Nat) (k : Nat)
  deriving Repr

inductive Action where
  | start (op : Op)   -- a free thread begins an operation (its first atomic step)
  | cont              -- a thread inside an operation performs its next atomic step
  deriving Repr

def free (s : State) (t : Nat) : Bool :=
  match (s.threads t).pc, (s.threads t).stack with
  | .idle, [] => true
  | _, _ => false

def setProc (s : State) (p : Nat) (pr : Proc) : State := { s with procs := upd s.procs p pr }

def setThread (s : State) (t : Nat) (th : Thread) : State := { s with threads := upd s.threads t th }

/-- ghost: allocate the next registration token for a hook of process `p`. -/
def alloc (s : State) (p : Nat) (late : Bool) : State :=
  { s with nextTok := s.nextTok + 1, owner := upd s.owner s.nextTok p, late := upd s.late s.nextTok late }

def pushFrame (s : State) (t : Nat) (f : Frame) : State :=
  setThread s t { s.threads t with stack := f :: (s.threads t).stack }

/-- The locked section of `Exit(p, e)` on thread `t`, then entry into `exitHooks.Exit(e)`. -/
def exitFlip (s : State) (t : Nat) (p : Nat) (e : Nat) : State :=
  let pr := s.procs p
  let hs := pr.hooks
  let s1 : State :=
    if pr.terminated then s
    else setProc s p { pr with done := true, data := [], terminated := true, err := e, hooks := [] }
  pushFrame s1 t { proc := p, rem := hs.reverse, err := e }

/-- The locked section of `AddExitHook(p, hook)` on thread `t`. -/
def addHook (s : State) (t : Nat) (p : Nat) (k : HookKind) : State :=
  let pr := s.procs p
  let h : Hook := { kind := k, tok := s.nextTok }
  if pr.terminated then
    pushFrame (alloc s p true) t { proc := p, rem := [h], err := pr.err }
  else if pr.hooks.any (fun h => h.kind == k) then s
  else alloc (setProc s p { pr with hooks := pr.hooks ++ [h] }) p false

def setData (d : List (Nat × Nat)) (k v : Nat) : List (Nat × Nat) :=
  match d with
  | [] => [(k, v)]
  | (k', v') :: r => if k' = k then (k, v) :: r else (k', v') :: setData r k v

/-- `RemoveValue`: delete from the nearest process on the parent chain that has the key. -/
def removeValue (fuel : Nat) (procs : Nat → Proc) (p : Nat) (k : Nat) : (Nat → Proc) × Option Nat :=
  match fuel with
  | 0 => (procs, none)
  | fuel + 1 =>
    let pr := procs p
    match pr.data.lookup k with
    | some v => (upd procs p { pr with data := pr.data.filter (fun kv => kv.1 ≠ k) }, some v)
    | none =>
      match pr.parent with
      | some q => removeValue fuel procs q k
      | none => (procs, none)

def value (fuel : Nat) (procs : Nat → Proc) (p : Nat) (k : Nat) : Option Nat :=
  match fuel with
  | 0 => none
  | fuel + 1 =>
    match (procs p).data.lookup k with
    | some v => some v
    | none =>
      match (procs p).parent with
      | some q => value fuel procs q k
      | none => none

def keys (fuel : Nat) (procs : Nat → Proc) (p : Nat) : List Nat :=
  match fuel with
  | 0 => []
  | fuel + 1 =>
    (procs p).data.map (·.1) ++
      (match (procs p).parent with
       | some q => keys fuel procs q
       | none => [])

def startOp (s : State) (t : Nat) : Op → State
  | .new => { setProc s s.np {} with np := s.np + 1 }
  | .exit p e => if p < s.np then exitFlip s t p e else s
  | .add p h => if p < s.np then addHook s t p (.user h) else s
  | .fork p =>
    if p < s.np then
      let pr := s.procs p
      setThread (setProc s p { pr with children := pr.children + 1 }) t { s.threads t with pc := .forkReg p }
    else s
  | .join p =>
    if p < s.np then setThread s t { s.threads t with pc := .joining p } else s
  | .setv p k v =>
    if p < s.np then
      let pr := s.procs p
      setProc s p { pr with data := setData pr.data k v }
    else s
  | .delv p k => if p < s.np then { s with procs := (removeValue s.np s.procs p k).1 } else s

/-- Second half of `Fork`: the child comes into existence (born with its wait-done hook). -/
def mkChild (s : State) (p : Nat) : State :=
  let wd : Hook := { kind := .waitDone p, tok := s.nextTok }
  alloc { setProc s s.np { hooks := [wd], parent := some p, wtok := s.nextTok, ctok := s.nextTok + 1 }
          with np := s.np + 1 } s.np false

/-- … and is registered: `p.AddExitHook(child)`. -/
def forkReg (s : State) (t : Nat) (p : Nat) : State :=
  addHook (mkChild (setThread s t { s.threads t with pc := .idle }) p) t p (.child s.np)

/-- Take the hook `h` from the top frame (`f` with `rem = h :: hs`) of thread `t` and log it. -/
def logMove (s : State) (t : Nat) (f : Frame) (h : Hook) (hs : List Hook) (rest : List Frame) : State :=
  { setThread s t { s.threads t with stack := { f with rem := hs } :: rest } with
    log := { tok := h.tok, proc := f.proc, kind := h.kind, err := f.err } :: s.log }

/-- `p.join.Broadcast()`: every thread parked in `p.join.Wait()` is woken; it re-tests the loop
condition of `Join` at its next step. -/
def broadcast (s : State) (p : Nat) : State :=
  { s with threads := fun t =>
      if (s.threads t).pc = .waiting p then { s.threads t with pc := .joining p } else s.threads t }

/-- the child's wait-done hook: `p.mu.Lock(); if p.children--; p.children == 0 { p.join.Broadcast() }` -/
def waitDone (s : State) (p : Nat) : State :=
  let pr := s.procs p
  let s1 := setProc s p { pr with children := pr.children - 1 }
  if pr.children - 1 = 0 then broadcast s1 p else s1

/-- Run the hook `h` taken from the top frame of thread `t`. -/
def runHook (s : State) (t : Nat) (f : Frame) (h : Hook) (hs : List Hook) (rest : List Frame) : State :=
  let s1 := logMove s t f h hs rest
  match h.kind with
  | .user _ => s1
  | .waitDone p => waitDone s1 p
  | .child c => exitFlip s1 t c f.err

def contStep (s : State) (t : Nat) : State :=
  let th := s.threads t
  match th.pc with
  | .forkReg p => forkReg s t p
  | .joining p =>          -- `for p.children > 0 { p.join.Wait() }`: one test of the loop condition
    if (s.procs p).children > 0 then setThread s t { th with pc := .waiting p }
    else setThread s t { th with pc := .idle }
  | .waiting _ => s        -- parked in `Wait`: only a Broadcast moves it
  | .idle =>
    match th.stack with
    | [] => s
    | f :: rest =>
      match f.rem with
      | [] => setThread s t { th with stack := rest }   -- `Exit` returns
      | h :: hs => runHook s t f h hs rest

/-- One scheduler choice. Choices that are not enabled (unknown thread, `start` on a busy
thread, a thread parked in `Wait`, …) leave the state unchanged, so "all schedules" is
"all lists of choices". -/
def step (s : State) (t : Nat) (a : Action) : State :=
  if t < s.nt then
    match a with
    | .start op => if free s t then startOp s t op else s
    | .cont => contStep s t
  else s

def run (s : State) : List (Nat × Action) → State
  | [] => s
  | (t, a) :: rest => run (step s t a) rest

/-! ### observations -/

/-- `Err()`: the stored error, else `context.Canceled` (encoded as `none`… see driver) once terminated. -/
inductive ErrObs where
  | nil | canceled | err (k : Nat)
  deriving DecidableEq, Repr

def errObs (pr : Proc) : ErrObs :=
  if pr.err ≠ 0 then .err pr.err else if pr.terminated then .canceled else .nil

end Uniflow.Process
