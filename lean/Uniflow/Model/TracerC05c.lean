/-
The tracer variant of seeded change c05c: in the reader loop of `resolve`

    reader.Receive(join)
    delete(t.reader, pck.ID())      -- c05c; the code has `read.ID()`
    delete(t.receives, read.ID())

the `reader` entry that is deleted is that of the packet being resolved, not that of the request
just answered. When a later request of a reader completes before an earlier one, both are answered in
one pass of the loop (triggered by the earlier one) and the later one's `reader` entry stays for ever.
Copies of `flush`, `resolve`, `write`, `receiveW` of `Uniflow.Tracer` with that one change; used only
for the counter-example `C05.tracer_c05c_residue`.
-/
import Uniflow.Model.Tracer

namespace Uniflow.TracerC05c
open Uniflow.Tracer

def flush (pck : Pid) (r : Rid) : List Pid → T → List Pid × T × List Ev
  | [], t => ([], t, [])
  | p :: ps, t =>
    match aget t.receives p with
    | none => (p :: ps, t, [])
    | some cs =>
      if hasNil cs then (p :: ps, t, [])
      else
        let (ps', t', ev) := flush pck r ps { t with reader := adel t.reader pck, receives := adel t.receives p }
        (ps', t', Ev.reply r (joinCells cs) :: ev)

def resolve : Nat → T → Pid → T × List Ev
  | 0, t, _ => ({ t with panic := true }, [])
  | fuel + 1, t, pck =>
    let cs := getL t.receives pck
    if hasNil cs then (t, []) else
    let (t, ev1) :=
      match aget t.hooks pck with
      | some (_ + 1) =>
        ({ t with hooks := adel t.hooks pck, receives := adel t.receives pck }, [Ev.hook pck (joinCells cs)])
      | _ => (t, [])
    let cs := getL t.receives pck
    if hasNil cs then (t, ev1) else
    let (t, ev2) :=
      match aget t.sources pck with
      | none => (t, [])
      | some srcs =>
        let j := joinCells cs
        srcs.foldl (fun (acc : T × List Ev) s =>
          let (t1, e1) := resolve fuel (fillSource acc.1 pck j s) s
          (t1, acc.2 ++ e1)) ({ t with sources := adel t.sources pck }, [])
    match aget t.reader pck with
    | some r =>
      let (reads', t', ev3) := flush pck r (getL t.reads r) t
      ({ t' with reads := setOrDel t'.reads r reads' }, ev1 ++ ev2 ++ ev3)
    | none => ({ t with receives := adel t.receives pck }, ev1 ++ ev2)

def write (t : T) (w : Option Wid) (p : Pid) (pay : Ans) (accepted : Bool) : T × List Ev :=
  match w, accepted with
  | some w, true =>
    ({ t with
       writes := aset t.writes w (getL t.writes w ++ [p])
       receives := aset t.receives p (getL t.receives p ++ [none]) }, [])
  | _, _ => resolve defaultFuel (receive t p pay) p

def receiveW (t : T) (w : Wid) (a : Option Ans) : T × List Ev :=
  match getL t.writes w with
  | [] => (t, [])
  | p :: rest =>
    let t := { t with writes := setOrDel t.writes w rest }
    let t := match a with
      | some a => receive t p a
      | none => discard t p
    resolve defaultFuel t p

end Uniflow.TracerC05c
