/-
Model of `pkg/store/segment.go` (the primary B-tree, secondary indexes and their maintenance, `section.Scan/Range`)
and of the operations of `pkg/store/store.go` (`Index`, `Unindex`, `Insert`, `Update`, `Delete`, `Find`, `find`),
after the fixes of C10–C12. Core Lean only.

Data layout
* `segment.entries` (B-tree of `entry{key: id, value: doc}` ordered by `Compare` on the id) is `docs`, an association
  list kept ascending in `cmp` of the id; `ReplaceOrInsert`/`Get`/`Delete` identify an id by `Compare = 0`.
* an `index` is its `Keys`, `Unique`, its filter *document* (`Filter` is the closure `doc ↦ match(doc, filter)` with an
  error counted as false, `Implied` the closure described in Model/Plan.lean – both are functions of the filter
  document) and `nodes`: a B-tree of `node{key, value: B-tree}` per key level whose last level holds the ids. The nested
  trees are flattened to `entries : List (List Val × Val)` – one `(key tuple, id)` per leaf – kept ascending in the
  lexicographic `Compare` order of tuple then id (`entCmp`), which is the order a depth-first walk of the nested trees
  gives. Inner nodes without any leaf (left behind by a rejected `index`) have no counterpart: `index` treats a missing
  and an empty subtree alike, `Scan`/`Range` collect nothing from them and `unindex` prunes them when it passes.
* B-tree range iteration (`AscendGreaterOrEqual`, `DescendLessOrEqual` with the stop tests of `section.Scan`) is
  modelled by what it computes on a tree ordered by a strict weak order: the keys within the inclusive bounds
  (`Plan.inb`). That `Compare` is such an order is C14; google/btree itself is trusted.

Each store method runs under the store's write lock: one atomic step (`step`). A multi-document call is the sequence
of its per-document segment calls and stops at the first error, keeping what it already did (DESIGN.md §5 C10 (iii)).
Watchers (`emit`) are C13's (Model/Stream.lean); with no stream registered `emit` only checks the id, which the
segment call before it has already checked.
-/
import Uniflow.Model.Plan

namespace Uniflow.Index
open Uniflow.Value Uniflow.Store Uniflow.Plan

structure Index where
  keys : List Val
  unique : Bool
  filter : Option Val
  entries : List (List Val × Val)

structure State where
  docs : List (Val × PList)
  indexes : List Index

/-- `newSegment()`: empty, with the unique index on `id` -/
def init : State :=
  { docs := [], indexes := [{ keys := [keyId], unique := true, filter := none, entries := [] }] }

/-! ## primary tree -/

def getDoc : List (Val × PList) → Val → Option PList
  | [], _ => none
  | (i, d) :: rest, id => if cmp i id = 0 then some d else getDoc rest id

/-- `entries.ReplaceOrInsert(&entry{key: id, value: doc})` -/
def putDoc : List (Val × PList) → Val → PList → List (Val × PList)
  | [], id, d => [(id, d)]
  | (i, e) :: rest, id, d =>
    if cmp i id = 0 then (id, d) :: rest
    else if cmp id i < 0 then (id, d) :: (i, e) :: rest
    else (i, e) :: putDoc rest id d

/-- `entries.Delete(&entry{key: id})` -/
def delDoc : List (Val × PList) → Val → List (Val × PList)
  | [], _ => []
  | (i, e) :: rest, id => if cmp i id = 0 then rest else (i, e) :: delDoc rest id

/-! ## index maintenance -/

/-- lexicographic `Compare` of two key tuples -/
def tupCmp : List Val → List Val → Int
  | [], [] => 0
  | [], _ :: _ => -1
  | _ :: _, [] => 1
  | a :: as, b :: bs => lexStep (cmp a b) (tupCmp as bs)

def entCmp (a b : List Val × Val) : Int := lexStep (tupCmp a.1 b.1) (cmp a.2 b.2)

/-- insert a leaf; an identical leaf is replaced (`ReplaceOrInsert`) -/
def putEnt : List (List Val × Val) → List Val × Val → List (List Val × Val)
  | [], e => [e]
  | x :: xs, e =>
    if entCmp x e = 0 then e :: xs
    else if entCmp e x < 0 then e :: x :: xs
    else x :: putEnt xs e

/-- `idx.Filter == nil || idx.Filter(doc)` -/
def Index.admits (idx : Index) (doc : PList) : Bool :=
  match idx.filter with
  | none => true
  | some φ => holds φ doc

/-- the document's key tuple for the index: `doc.Get(key)` per key -/
def Index.tuple (idx : Index) (doc : PList) : List Val := idx.keys.map (mget doc)

/-- `segment.index(idx, doc)` -/
def index (idx : Index) (doc : PList) : Res Index :=
  let id := mget doc keyId
  if isNil id then .err .keyMissing
  else if !idx.admits doc then .ok idx
  else if idx.keys.isEmpty then .ok idx
  else
    let t := idx.tuple doc
    if idx.unique && idx.entries.any (fun e => tupCmp e.1 t = 0) then .err .keyDuplicate
    else .ok { idx with entries := putEnt idx.entries (t, id) }

/-- `segment.unindex(idx, doc)`: walks to the leaf of the document's tuple (if it exists) and deletes the id -/
def unindex (idx : Index) (doc : PList) : Res Index :=
  let id := mget doc keyId
  if isNil id then .err .keyMissing
  else
    let t := idx.tuple doc
    .ok { idx with entries := idx.entries.filter (fun e => !(tupCmp e.1 t = 0 && cmp e.2 id = 0)) }

/-- `segment.conflict(idx, doc)`: a unique index already holds another id under the document's tuple -/
def conflict (idx : Index) (doc : PList) : Option Err :=
  if !idx.unique || !idx.admits doc then none
  else
    let id := mget doc keyId
    let t := idx.tuple doc
    if idx.entries.any (fun e => tupCmp e.1 t = 0 && cmp e.2 id != 0) then some .keyDuplicate else none

def firstConflict (doc : PList) : List Index → Option Err
  | [] => none
  | idx :: rest =>
    match conflict idx doc with
    | some e => some e
    | none => firstConflict doc rest

/-- apply `f` to every index in order, stopping at the first failure; the indexes already processed keep their new
content (Go mutates in place), `some e` reports the failure -/
def mapIdx (f : Index → Res Index) : List Index → List Index × Option (Res Unit)
  | [] => ([], none)
  | idx :: rest =>
    match f idx with
    | .ok idx' => let (r, e) := mapIdx f rest; (idx' :: r, e)
    | .err e => (idx :: rest, some (.err e))
    | .panic => (idx :: rest, some .panic)

/-- result of a segment/store mutation: the new state and `none` for success -/
abbrev Mut := State × Option (Res Unit)

def failE (s : State) (e : Err) : Mut := (s, some (.err e))

/-- `segment.Store(doc)` -/
def segStore (s : State) (doc : PList) : Mut :=
  let id := mget doc keyId
  if isNil id then failE s .keyMissing
  else if (getDoc s.docs id).isSome then failE s .keyDuplicate
  else
    match firstConflict doc s.indexes with
    | some e => failE s e
    | none =>
      let (idxs, e) := mapIdx (fun idx => index idx doc) s.indexes
      ({ docs := putDoc s.docs id doc, indexes := idxs }, e)

/-- `segment.Swap(doc)` -/
def segSwap (s : State) (doc : PList) : Mut :=
  let id := mget doc keyId
  if isNil id then failE s .keyMissing
  else
    match getDoc s.docs id with
    | none => failE s .keyNotFound
    | some old =>
      match firstConflict doc s.indexes with
      | some e => failE s e
      | none =>
        let (idxs, e) := mapIdx (fun idx => (unindex idx old).bind fun idx' => index idx' doc) s.indexes
        ({ docs := putDoc s.docs id doc, indexes := idxs }, e)

/-- `segment.Delete(id)` -/
def segDelete (s : State) (id : Val) : Mut :=
  match getDoc s.docs id with
  | none => failE s .keyNotFound
  | some old =>
    let (idxs, e) := mapIdx (fun idx => unindex idx old) s.indexes
    ({ docs := delDoc s.docs id, indexes := idxs }, e)

/-- the build loop of `segment.Index`: `s.entries.Ascend(func(e) { err = s.index(idx, e.value); return err == nil })` -/
def build (idx : Index) : List (Val × PList) → Res Index
  | [] => .ok idx
  | (_, d) :: rest => (index idx d).bind fun idx' => build idx' rest

def keysEq : List Val → List Val → Bool
  | [], [] => true
  | a :: as, b :: bs => equal a b && keysEq as bs
  | _, _ => false

/-- `store.Index(keys, {Unique, Filter})`: build the new index over the stored documents; on success drop the indexes
with the same keys that existed before; on failure nothing changes -/
def storeIndex (s : State) (keys : List Val) (unique : Bool) (filter : Option Val) : Mut :=
  match build { keys, unique, filter, entries := [] } s.docs with
  | .ok idx => ({ s with indexes := s.indexes.filter (fun i => !keysEq i.keys keys) ++ [idx] }, none)
  | .err e => failE s e
  | .panic => (s, some .panic)

/-- `store.Unindex(keys)` -/
def storeUnindex (s : State) (keys : List Val) : Mut :=
  ({ s with indexes := s.indexes.filter (fun i => !keysEq i.keys keys) }, none)

/-! ## `section.Scan` / `Range` and `store.find` -/

/-- a `section`: the sub-indexes still in play, each with its remaining keys -/
abbrev Section := List (List Val × List (List Val × Val))

/-- `section.Scan(key, min, max)`: of every sub-index whose first remaining key is `key`, the subtrees of the keys
within the bounds -/
def scanLevel (cur : Section) (l : Level) : Section :=
  cur.filterMap fun (ks, ents) =>
    match ks with
    | k :: ks' =>
      if equal k l.key then
        some (ks', (ents.filter fun e => match e.1 with | x :: _ => inb l.b x | [] => false).map fun e => (e.1.tail, e.2))
      else none
    | [] => none

/-- `section.Range()`: the ids of every remaining leaf, looked up in the primary tree and yielded in id order.
`none` = a leaf names an id that is not stored (Go: a nil entry enters the result tree – nil dereference). -/
def rangeSection (docs : List (Val × PList)) (cur : Section) : Option (List PList) :=
  let ids := cur.flatMap fun (_, ents) => ents.map (·.2)
  if ids.all (fun id => (getDoc docs id).isSome) then
    some ((docs.filter fun (i, _) => ids.any (fun id => cmp id i = 0)).map (·.2))
  else none

def descOf (idx : Index) : Desc := (idx.keys, idx.filter)

/-- residual filter of `find`: `match` on every scanned document, first error aborts -/
def residual (filter : Val) : List PList → Res (List PList)
  | [] => .ok []
  | d :: ds =>
    match matchV (.map d) true filter with
    | .ok b => (residual filter ds).bind fun r => .ok (if b then d :: r else r)
    | .err e => .err e
    | .panic => .panic

/-- `store.find(filter)`; `none` = nil filter -/
def find (s : State) : Option Val → Res (List PList)
  | none => .ok (s.docs.map (·.2))
  | some f =>
    match validate f with
    | some e => .err e
    | none =>
      let p := explain (s.indexes.map descOf) f
      let scanned :=
        if p.isEmpty then some (s.docs.map (·.2))
        else rangeSection s.docs (p.foldl scanLevel (s.indexes.map fun i => (i.keys, i.entries)))
      match scanned with
      | none => .panic
      | some ds => residual f ds

/-- `store.Find(filter, {Limit, Skip, Sort})` -/
def storeFind (s : State) (filter : Option Val) (sort : Option PList) (skip limit : Nat) : Res (List PList) :=
  (find s filter).bind fun ds =>
    .ok (window skip limit (match sort with | some spec => sortDocs spec ds | none => ds))

/-! ## mutations of the store -/

/-- `store.Insert(docs)` -/
def storeInsert (s : State) : List PList → Mut
  | [] => (s, none)
  | d :: ds =>
    match segStore s d with
    | (s', none) => storeInsert s' ds
    | r => r

/-- result of `Update`/`Delete`: state and count or failure -/
abbrev MutN := State × Res Nat

def swapAll (s : State) : List PList → Mut
  | [] => (s, none)
  | d :: ds =>
    match segSwap s d with
    | (s', none) => swapAll s' ds
    | r => r

def patchAll (u : PList) : List PList → Res (List PList)
  | [] => .ok []
  | d :: ds => (patch d u).bind fun d' => (patchAll u ds).bind fun r => .ok (d' :: r)

def liftN (m : Mut) (n : Nat) : MutN :=
  match m with
  | (s, none) => (s, .ok n)
  | (s, some (.err e)) => (s, .err e)
  | (s, some _) => (s, .panic)

/-- `store.Update(filter, update, {Upsert})` -/
def storeUpdate (s : State) (filter : Option Val) (u : PList) (upsert : Bool) : MutN :=
  match find s filter with
  | .err e => (s, .err e)
  | .panic => (s, .panic)
  | .ok docs =>
    match patch .nil u with
    | .err e => (s, .err e)
    | .panic => (s, .panic)
    | .ok _ =>
      if upsert && docs.isEmpty then
        -- doc, err := types.Cast[types.Map](extract(f)): a nil filter or a nil result panics, a non-map is rejected
        match (match filter with | some f => extract f | none => .ok .nil) with
        | .ok (.map d) =>
          match patch d u with
          | .ok d' => liftN (segStore s d') 1
          | .err e => (s, .err e)
          | .panic => (s, .panic)
        | .ok .nil => (s, .panic)
        | .ok _ => (s, .err .unsupportedType)
        | .err e => (s, .err e)
        | .panic => (s, .panic)
      else
        match patchAll u docs with
        | .ok ds => liftN (swapAll s ds) docs.length
        | .err e => (s, .err e)
        | .panic => (s, .panic)

def deleteAll (s : State) : List PList → Mut
  | [] => (s, none)
  | d :: ds =>
    match segDelete s (mget d keyId) with
    | (s', none) => deleteAll s' ds
    | r => r

/-- `store.Delete(filter)` -/
def storeDelete (s : State) (filter : Option Val) : MutN :=
  match find s filter with
  | .err e => (s, .err e)
  | .panic => (s, .panic)
  | .ok docs => liftN (deleteAll s docs) docs.length

/-! ## the store as a state machine -/

inductive Op
  | insert (docs : List PList)
  | update (filter : Option Val) (u : PList) (upsert : Bool)
  | delete (filter : Option Val)
  | find (filter : Option Val) (sort : Option PList) (skip limit : Nat)
  | index (keys : List Val) (unique : Bool) (filter : Option Val)
  | unindex (keys : List Val)

inductive Out
  | done                      -- success of Insert / Index / Unindex
  | count (n : Nat)           -- Update / Delete
  | docs (ds : List PList)    -- Find
  | err (e : Err)
  | panic

def outOfMut : Option (Res Unit) → Out
  | none => .done
  | some (.err e) => .err e
  | some _ => .panic

def outOfN : Res Nat → Out
  | .ok n => .count n
  | .err e => .err e
  | .panic => .panic

def step (s : State) : Op → State × Out
  | .insert ds => let (s', r) := storeInsert s ds; (s', outOfMut r)
  | .update f u up => let (s', r) := storeUpdate s f u up; (s', outOfN r)
  | .delete f => let (s', r) := storeDelete s f; (s', outOfN r)
  | .find f sort skip limit =>
    match storeFind s f sort skip limit with
    | .ok ds => (s, .docs ds)
    | .err e => (s, .err e)
    | .panic => (s, .panic)
  | .index keys unique f => let (s', r) := storeIndex s keys unique f; (s', outOfMut r)
  | .unindex keys => let (s', r) := storeUnindex s keys; (s', outOfMut r)

def run (s : State) : List Op → State
  | [] => s
  | op :: ops => run (step s op).1 ops

end Uniflow.Index
