/-
The tracer variant of seeded change c05h: `(*Tracer).discard` deletes the `receives` key when the
slice becomes empty

    receives = append(receives[:i], receives[i+1:]...)
    if len(receives) > 0 { t.receives[source.ID()] = receives } else { delete(t.receives, source.ID()) }

(the code keeps the key with an empty slice). For a request that was forwarded unchanged
(`Read(r, p); Write(w, p)`: one pending slot) and whose downstream answer is discarded
(`Receive(w, nil)`), the reader loop of `resolve` then finds no `receives` entry, takes the request for
"read, nothing registered yet" and breaks: the requester is never answered and `reads` / `reader`
keep the packet. Copies of `discard` and `receiveW` with that one change.
-/
import Uniflow.Model.Tracer

namespace Uniflow.TracerC05h
open Uniflow.Tracer

def discard (t : T) (src : Pid) : T :=
  if hasNil (getL t.receives src) then
    { t with receives := setOrDel t.receives src (dropFirstNil (getL t.receives src)) }
  else t

def receiveW (t : T) (w : Wid) (a : Option Ans) : T × List Ev :=
  match getL t.writes w with
  | [] => (t, [])
  | p :: rest =>
    let t := { t with writes := setOrDel t.writes w rest }
    let t := match a with
      | some a => receive t p a
      | none => discard t p
    resolve true defaultFuel t p

end Uniflow.TracerC05h
