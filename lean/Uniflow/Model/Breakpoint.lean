/-
Model of `pkg/runtime/breakpoint.go` and of the breakpoint side of `pkg/runtime/debugger.go`:
one `Breakpoint` registered in one `Debugger`, as a small-step machine of threads with explicit
program counters over rendezvous channels and mutexes.

Go (abridged; every blocking point is a program counter below):

    func (b *Breakpoint) OnFrame(frame) {            -- runs on the goroutine of the packet hook
      if b.matches(frame) {
        select { case b.in <- frame: case <-b.done: }         -- HPc.sendIn
        select { case <-b.out:       case <-b.done: } } }     -- HPc.waitOut
    func (b *Breakpoint) Done() bool {
      b.rmu.Lock(); defer b.rmu.Unlock()                       -- Pc.start (programs done/next/dnext)
      if b.current == nil { return true }
      select { case b.out <- b.current: b.current = nil; return true
               case <-b.done: return false } }                 -- Pc.dSel  (holds b.rmu)
    func (b *Breakpoint) Next() bool {
      b.Done()
      b.rmu.Lock(); defer b.rmu.Unlock()                       -- Pc.nLock
      if b.current != nil { return false }
      select { case b.current = <-b.in: return true
               case <-b.done: return false } }                 -- Pc.nSel  (holds b.rmu)
    func (b *Breakpoint) Close() {
      b.wmu.Lock(); defer b.wmu.Unlock()                       -- Pc.start (program close) / Pc.cWmu
      select { case <-b.done: return; default: }
      close(b.done)
      b.rmu.Lock(); defer b.rmu.Unlock()                       -- Pc.cRmu  (holds b.wmu)
      b.current = nil }
    func (d *Debugger) next(bp) {                              -- program dnext (own goroutine)
      if bp.Next() { select { case d.in <- bp: case <-d.done: } } }   -- Pc.xSend
    func (d *Debugger) Pause(ctx) bool {
      d.rmu.Lock(); defer d.rmu.Unlock()                       -- Pc.start (program pause)
      if d.current != nil { return true }
      select { case d.current = <-d.in: return true
               case <-d.done: return false; case <-ctx.Done(): return false } }   -- Pc.pSel (holds d.rmu)
    func (d *Debugger) Step(ctx) bool {
      d.rmu.Lock(); defer d.rmu.Unlock()                       -- Pc.start (program step)
      if d.current != nil { go d.next(d.current) }             --   spawns a dnext thread
      select { … as Pause … } }                                -- Pc.pSel
    func (d *Debugger) RemoveBreakpoint(bp) bool {
      d.wmu.Lock(); defer d.wmu.Unlock()                       -- Pc.start (program remove)
      if bp ∈ d.breakpoints { remove it; d.agent.Unwatch(bp); bp.Close(); return true }  -- Pc.cWmu, Pc.cRmu
      return false }
    func (d *Debugger) Close() {
      d.wmu.Lock(); defer d.wmu.Unlock()                       -- Pc.start (program dclose)
      select { case <-d.done: return; default: }
      close(d.done)
      for _, bp := range d.breakpoints { bp.Close() }          -- Pc.cWmu, Pc.cRmu
      d.breakpoints = nil
      d.rmu.Lock(); defer d.rmu.Unlock()                       -- Pc.qRmu  (holds d.wmu)
      d.current = nil }

Modelling decisions.
* The four mutexes (`b.rmu`, `b.wmu`, `d.rmu`, `d.wmu`) are not stored: a mutex is held exactly
  while some thread is at a program counter inside the critical section it guards (`rmuHeld` …),
  and a `Lock()` step is enabled iff no thread is.
* A lock acquisition followed, without any blocking operation, by the matching release is one
  atomic step (e.g. `Done` finding `current == nil`).
* A `select` with several ready branches may take any of them: the `done` branch is the thread's
  own `tau` action, a rendezvous is a separate action naming both partners.
* `ctx` is never cancelled (the worst case for liveness).
* Hook threads are the goroutines inside `OnFrame` whose frame matches the breakpoint and whose
  snapshot of `a.watchers` contained it; the frame of hook thread `h` is identified with `h`.
  The mutex of the reader / writer the hook runs under is not modelled (a thread waiting for it
  resumes when the holder returns from `OnFrame`).
* `AddBreakpoint` has happened: the breakpoint is registered and its first `d.next` goroutine is
  thread 0 of `St.init`.
-/
import Std.Data.HashSet

namespace Uniflow.Breakpoint

/-- Program counter of a goroutine inside `Breakpoint.OnFrame`. -/
inductive HPc where
  | sendIn | waitOut | returned
  deriving DecidableEq, Repr

/-- What a debugger-side thread executes. -/
inductive Prog where
  | next | done | close        -- Breakpoint.Next / Done / Close called directly
  | dnext                      -- Debugger.next (goroutine)
  | pause | step | remove | dclose
  deriving DecidableEq, Repr

inductive Pc where
  | start
  | dSel | nLock | nSel | xSend
  | cWmu | cRmu
  | pSel | qRmu
  | ret (b : Bool)
  deriving DecidableEq, Repr

structure St where
  nh : Nat                    -- hook threads 0 … nh-1
  hpc : Nat → HPc
  nt : Nat                    -- debugger-side threads 0 … nt-1
  prog : Nat → Prog
  pc : Nat → Pc
  cur : Option Nat            -- b.current
  done : Bool                 -- b.done is closed
  reg : Bool                  -- the breakpoint is in d.breakpoints
  dcur : Bool                 -- d.current != nil
  ddone : Bool                -- d.done is closed

def St.empty : St :=
  { nh := 0, hpc := fun _ => .returned, nt := 0, prog := fun _ => .next, pc := fun _ => .ret false,
    cur := none, done := false, reg := true, dcur := false, ddone := false }

/-- After `NewDebugger`, `NewBreakpoint`, `AddBreakpoint`: registered, one `d.next` goroutine. -/
def St.init : St :=
  { St.empty with nt := 1, prog := fun _ => .dnext, pc := fun _ => .start }

def setf {α : Type} (f : Nat → α) (i : Nat) (v : α) : Nat → α := fun j => if j = i then v else f j

/-- A new packet hook enters `OnFrame`. -/
def St.addHook (s : St) : St := { s with nh := s.nh + 1, hpc := setf s.hpc s.nh .sendIn }

/-- A new debugger-side thread (an API call, or `go d.next`). -/
def St.addThread (s : St) (p : Prog) : St :=
  { s with nt := s.nt + 1, prog := setf s.prog s.nt p, pc := setf s.pc s.nt .start }

/-! Mutexes are not stored: a mutex is held exactly while some thread is at a program counter
inside the critical section it guards (a lock / check / unlock sequence without a blocking
operation in between is a single step and never observed half-way). -/

def anyT (s : St) (p : Nat → Bool) : Bool := (List.range s.nt).any p

/-- `b.rmu`: held inside the selects of `Done` / `Next`. -/
def rmuHeld (s : St) : Bool := anyT s fun t => s.pc t == .dSel || s.pc t == .nSel
/-- `b.wmu`: held by a `Breakpoint.Close` that has closed `done` and waits for `b.rmu`. -/
def wmuHeld (s : St) : Bool := anyT s fun t => s.pc t == .cRmu
/-- `d.rmu`: held inside the select of `Pause` / `Step`. -/
def drmuHeld (s : St) : Bool := anyT s fun t => s.pc t == .pSel
/-- `d.wmu`: held by `RemoveBreakpoint` / `Debugger.Close` from their first step to their return. -/
def dwmuHeld (s : St) : Bool := anyT s fun t =>
  (s.prog t == .remove || s.prog t == .dclose) && (s.pc t == .cWmu || s.pc t == .cRmu || s.pc t == .qRmu)

inductive Act where
  | tau (t : Nat)            -- own step of thread t: a lock acquisition or the `done` branch of its select
  | hdone (h : Nat)          -- hook thread h takes the `<-b.done` branch of its current select
  | recvIn (t h : Nat)       -- b.in:  thread t (Pc.nSel) receives the frame of hook h (HPc.sendIn)
  | sendOut (t h : Nat)      -- b.out: thread t (Pc.dSel) hands b.current to hook h (HPc.waitOut)
  | dRecv (p x : Nat)        -- d.in:  thread p (Pc.pSel) receives the breakpoint from x (Pc.xSend)
  deriving DecidableEq, Repr

/-- Where `Done` continues once it has returned (its result is ignored by `Next`). -/
def afterDone (p : Prog) (r : Bool) : Pc :=
  match p with
  | .done => .ret r
  | _ => .nLock

/-- Where `Next` continues once it has returned `r`. -/
def afterNext (p : Prog) (r : Bool) : Pc :=
  match p with
  | .dnext => if r then .xSend else .ret false
  | _ => .ret r

/-- `tau t`. `none` = not enabled. -/
def tau (s : St) (t : Nat) : Option St :=
  if t < s.nt then
    match s.pc t, s.prog t with
    -- Breakpoint.Done (alone, or as the first call of Next)
    | .start, .next | .start, .done | .start, .dnext =>
      if rmuHeld s then none
      else match s.cur with
        | none => some { s with pc := setf s.pc t (afterDone (s.prog t) true) }
        | some _ => some { s with pc := setf s.pc t .dSel }
    | .dSel, _ =>
      if s.done then some { s with pc := setf s.pc t (afterDone (s.prog t) false) } else none
    | .nLock, _ =>
      if rmuHeld s then none
      else match s.cur with
        | some _ => some { s with pc := setf s.pc t (afterNext (s.prog t) false) }
        | none => some { s with pc := setf s.pc t .nSel }
    | .nSel, _ =>
      if s.done then some { s with pc := setf s.pc t (afterNext (s.prog t) false) } else none
    | .xSend, _ =>
      if s.ddone then some { s with pc := setf s.pc t (.ret false) } else none
    -- Breakpoint.Close called directly
    | .start, .close =>
      if wmuHeld s then none
      else if s.done then some { s with pc := setf s.pc t (.ret true) }
      else some { s with done := true, pc := setf s.pc t .cRmu }
    -- Breakpoint.Close inside RemoveBreakpoint / Debugger.Close (d.wmu held)
    | .cWmu, _ =>
      if wmuHeld s then none
      else if s.done then
        match s.prog t with
        | .dclose => some { s with pc := setf s.pc t .qRmu }
        | _ => some { s with pc := setf s.pc t (.ret true) }
      else some { s with done := true, pc := setf s.pc t .cRmu }
    | .cRmu, _ =>
      if rmuHeld s then none
      else match s.prog t with
        | .dclose => some { s with cur := none, pc := setf s.pc t .qRmu }
        | _ => some { s with cur := none, pc := setf s.pc t (.ret true) }
    -- Debugger.Pause / Step
    | .start, .pause =>
      if drmuHeld s then none
      else if s.dcur then some { s with pc := setf s.pc t (.ret true) }
      else some { s with pc := setf s.pc t .pSel }
    | .start, .step =>
      if drmuHeld s then none
      else
        let s1 := { s with pc := setf s.pc t .pSel }
        some (if s.dcur then s1.addThread .dnext else s1)
    | .pSel, _ =>
      if s.ddone then some { s with pc := setf s.pc t (.ret false) } else none
    -- Debugger.RemoveBreakpoint / Close
    | .start, .remove =>
      if dwmuHeld s then none
      else if s.reg then some { s with reg := false, pc := setf s.pc t .cWmu }
      else some { s with pc := setf s.pc t (.ret false) }
    | .start, .dclose =>
      if dwmuHeld s then none
      else if s.ddone then some { s with pc := setf s.pc t (.ret true) }
      else if s.reg then some { s with ddone := true, reg := false, pc := setf s.pc t .cWmu }
      else some { s with ddone := true, pc := setf s.pc t .qRmu }
    | .qRmu, _ =>
      if drmuHeld s then none
      else some { s with dcur := false, pc := setf s.pc t (.ret true) }
    | .ret _, _ => none
  else none

def step (s : St) : Act → Option St
  | .tau t => tau s t
  | .hdone h =>
    if h < s.nh ∧ s.done then
      match s.hpc h with
      | .sendIn => some { s with hpc := setf s.hpc h .waitOut }
      | .waitOut => some { s with hpc := setf s.hpc h .returned }
      | .returned => none
    else none
  | .recvIn t h =>
    if t < s.nt ∧ h < s.nh ∧ s.pc t = .nSel ∧ s.hpc h = .sendIn then
      some { s with cur := some h, hpc := setf s.hpc h .waitOut,
                    pc := setf s.pc t (afterNext (s.prog t) true) }
    else none
  | .sendOut t h =>
    if t < s.nt ∧ h < s.nh ∧ s.pc t = .dSel ∧ s.hpc h = .waitOut then
      some { s with cur := none, hpc := setf s.hpc h .returned,
                    pc := setf s.pc t (afterDone (s.prog t) true) }
    else none
  | .dRecv p x =>
    if p < s.nt ∧ x < s.nt ∧ s.pc p = .pSel ∧ s.pc x = .xSend then
      some { s with dcur := true, pc := setf (setf s.pc p (.ret true)) x (.ret true) }
    else none

/-- Run a schedule; `none` as soon as a chosen action is not enabled. -/
def run (s : St) : List Act → Option St
  | [] => some s
  | a :: as => match step s a with
    | some s' => run s' as
    | none => none

/-- Every action that could possibly be enabled, in canonical order. -/
def candidates (s : St) : List Act :=
  let ts := List.range s.nt
  let hs := List.range s.nh
  ts.map Act.tau ++ hs.map Act.hdone
    ++ (ts.flatMap fun t => hs.map fun h => Act.recvIn t h)
    ++ (ts.flatMap fun t => hs.map fun h => Act.sendOut t h)
    ++ (ts.flatMap fun p => ts.map fun x => Act.dRecv p x)

def enabled (s : St) : List Act := (candidates s).filter fun a => (step s a).isSome

/-! ### well-formed states -/

/-- Which program counters a program can be at. -/
def okPc : Prog → Pc → Bool
  | _, .ret _ => true
  | _, .start => true
  | .next, .dSel | .next, .nLock | .next, .nSel => true
  | .done, .dSel => true
  | .dnext, .dSel | .dnext, .nLock | .dnext, .nSel | .dnext, .xSend => true
  | .close, .cRmu => true
  | .pause, .pSel | .step, .pSel => true
  | .remove, .cWmu | .remove, .cRmu => true
  | .dclose, .cWmu | .dclose, .cRmu | .dclose, .qRmu => true
  | _, _ => false

/-- Well-formed: every thread is at a program counter of its own program. -/
def WF (s : St) : Prop := ∀ t, t < s.nt → okPc (s.prog t) (s.pc t) = true

/-! ### termination measure -/

def hrank : HPc → Nat
  | .sendIn => 2 | .waitOut => 1 | .returned => 0

def rank : Prog → Pc → Nat
  | _, .ret _ => 0
  | _, .xSend => 1
  | _, .nSel => 2
  | _, .nLock => 3
  | _, .dSel => 4
  | _, .pSel => 1
  | _, .qRmu => 1
  | _, .cRmu => 2
  | _, .cWmu => 3
  | .next, .start => 5 | .done, .start => 5 | .dnext, .start => 5
  | .close, .start => 3
  | .pause, .start => 2
  | .step, .start => 8          -- 1 for itself + its pSel + a whole spawned dnext (5) + 1
  | .remove, .start => 4
  | .dclose, .start => 4

def sumTo (n : Nat) (f : Nat → Nat) : Nat :=
  match n with
  | 0 => 0
  | n + 1 => sumTo n f + f n

/-- Total remaining work: every enabled action makes it strictly smaller. -/
def measure (s : St) : Nat :=
  sumTo s.nh (fun h => hrank (s.hpc h)) + sumTo s.nt (fun t => rank (s.prog t) (s.pc t))

/-! ### observations and printing (driver) -/

def showHPc : HPc → String
  | .sendIn => "i" | .waitOut => "o" | .returned => "r"

def showPc : Pc → String
  | .start => "s" | .dSel => "dS" | .nLock => "nL" | .nSel => "nS" | .xSend => "xS"
  | .cWmu => "cW" | .cRmu => "cR" | .pSel => "pS" | .qRmu => "qR"
  | .ret true => "T" | .ret false => "F"

def showProg : Prog → String
  | .next => "next" | .done => "done" | .close => "close" | .dnext => "dnext"
  | .pause => "pause" | .step => "step" | .remove => "remove" | .dclose => "dclose"

def parseProg : String → Option Prog
  | "next" => some .next | "done" => some .done | "close" => some .close | "dnext" => some .dnext
  | "pause" => some .pause | "step" => some .step | "remove" => some .remove | "dclose" => some .dclose
  | _ => none

def showOptNat : Option Nat → String
  | none => "-" | some n => toString n

def showB (b : Bool) : String := if b then "1" else "0"

/-- Complete canonical rendering of a state (used to de-duplicate during exploration). -/
def showSt (s : St) : String :=
  let hs := (List.range s.nh).map fun h => showHPc (s.hpc h)
  let ts := (List.range s.nt).map fun t => showProg (s.prog t) ++ ":" ++ showPc (s.pc t)
  "h[" ++ ",".intercalate hs ++ "] t[" ++ ",".intercalate ts ++ "] cur=" ++ showOptNat s.cur
    ++ " done=" ++ showB s.done ++ " reg=" ++ showB s.reg ++ " dcur=" ++ showB s.dcur
    ++ " ddone=" ++ showB s.ddone

/-- What the harness can see of a quiescent state: how many hook threads have returned (packets
resumed), and for every API-call thread (not the internal `dnext` goroutines) whether it has
returned and with which result (`b` = still blocked). -/
def observe (s : St) : String :=
  let released := ((List.range s.nh).filter fun h => s.hpc h = .returned).length
  let calls := (List.range s.nt).filterMap fun t =>
    match s.prog t with
    | .dnext => none
    | p => some (showProg p ++ ":" ++ (match s.pc t with
        | .ret true => "T" | .ret false => "F" | _ => "b"))
  "released=" ++ toString released ++ "/" ++ toString s.nh ++ " " ++ " ".intercalate calls

/-- Status of every API-call thread (not the `dnext` goroutines): `T` / `F` returned, `b` blocked. -/
def callStatus (s : St) : List String :=
  (List.range s.nt).filterMap fun t =>
    match s.prog t with
    | .dnext => none
    | _ => some (match s.pc t with | .ret true => "T" | .ret false => "F" | _ => "b")

def releasedCount (s : St) : Nat := ((List.range s.nh).filter fun h => s.hpc h = .returned).length

/-- Every state reachable from the given ones (the given ones included), de-duplicated by
`showSt`. `fuel` bounds the number of expanded states (the machine is finite and acyclic –
`measure` – so a large enough fuel is exact; `none` when it ran out). -/
def closure (fuel : Nat) (work : List St) (seen : Std.HashSet String) (acc : List St) : Option (List St) :=
  match fuel, work with
  | _, [] => some acc
  | 0, _ :: _ => none
  | fuel + 1, s :: work =>
    let key := showSt s
    if seen.contains key then closure fuel work seen acc
    else closure fuel ((enabled s).filterMap (step s) ++ work) (seen.insert key) (s :: acc)

def isTerminal (s : St) : Bool := (enabled s).isEmpty

end Uniflow.Breakpoint
