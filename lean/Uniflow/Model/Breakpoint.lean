/-
Model of `pkg/runtime/breakpoint.go` and of the breakpoint side of `pkg/runtime/debugger.go`:
`nb` `Breakpoint`s registered in one `Debugger`, as a small-step machine of threads with explicit
program counters over rendezvous channels and mutexes.

Go (abridged; every blocking point is a program counter below):

    func (b *Breakpoint) OnFrame(frame) {            -- runs on the goroutine of the packet hook
      if b.matches(frame) {
        select { case b.in <- frame: case <-b.done: }         -- HPc.sendIn
        select { case <-b.out:       case <-b.done: } } }     -- HPc.waitOut
    func (b *Breakpoint) Done() bool {
      b.rmu.Lock(); defer b.rmu.Unlock()                       -- Pc.start (programs done/next/dnext)
      if b.current == nil { return true }
      select { case b.out <- b.current: b.current = nil; return true
               case <-b.done: return false } }                 -- Pc.dSel  (holds b.rmu)
    func (b *Breakpoint) Next() bool {
      b.Done()
      b.rmu.Lock(); defer b.rmu.Unlock()                       -- Pc.nLock
      if b.current != nil { return false }
      select { case b.current = <-b.in: return true
               case <-b.done: return false } }                 -- Pc.nSel  (holds b.rmu)
    func (b *Breakpoint) Close() {
      b.wmu.Lock(); defer b.wmu.Unlock()                       -- Pc.start (program close) / Pc.cWmu
      select { case <-b.done: return; default: }
      close(b.done)
      b.rmu.Lock(); defer b.rmu.Unlock()                       -- Pc.cRmu  (holds b.wmu)
      b.current = nil }
    func (d *Debugger) next(bp) {                              -- program dnext (own goroutine)
      if bp.Next() { select { case d.in <- bp: case <-d.done: } } }   -- Pc.xSend
    func (d *Debugger) Pause(ctx) bool {
      d.rmu.Lock(); defer d.rmu.Unlock()                       -- Pc.start (program pause)
      if d.current != nil { return true }
      select { case d.current = <-d.in: return true
               case <-d.done: return false; case <-ctx.Done(): return false } }   -- Pc.pSel (holds d.rmu)
    func (d *Debugger) Step(ctx) bool {
      d.rmu.Lock(); defer d.rmu.Unlock()                       -- Pc.start (program step)
      if d.current != nil { go d.next(d.current) }             --   spawns a dnext thread
      select { … as Pause … } }                                -- Pc.pSel
    func (d *Debugger) RemoveBreakpoint(bp) bool {
      d.wmu.Lock(); defer d.wmu.Unlock()                       -- Pc.start (program remove)
      if bp ∈ d.breakpoints { remove it; d.agent.Unwatch(bp); bp.Close(); return true }  -- Pc.cWmu, Pc.cRmu
      return false }
    func (d *Debugger) Close() {
      d.wmu.Lock(); defer d.wmu.Unlock()                       -- Pc.start (program dclose)
      select { case <-d.done: return; default: }
      close(d.done)
      for _, bp := range d.breakpoints { bp.Close() }          -- Pc.cWmu, Pc.cRmu
      d.breakpoints = nil
      d.rmu.Lock(); defer d.rmu.Unlock()                       -- Pc.qRmu  (holds d.wmu)
      d.current = nil }

Modelling decisions.
* The four mutexes (`b.rmu`, `b.wmu`, `d.rmu`, `d.wmu`) are not stored: a mutex is held exactly
  while some thread is at a program counter inside the critical section it guards (`rmuHeld` …),
  and a `Lock()` step is enabled iff no thread is.
* A lock acquisition followed, without any blocking operation, by the matching release is one
  atomic step (e.g. `Done` finding `current == nil`).
* A `select` with several ready branches may take any of them: the `done` branch is the thread's
  own `tau` action, a rendezvous is a separate action naming both partners.
* `ctx` is never cancelled (the worst case for liveness).
* Hook threads are the goroutines inside `OnFrame` whose frame matches the breakpoint and whose
  snapshot of `a.watchers` contained it; the frame of hook thread `h` is identified with `h`.
  The mutex of the reader / writer the hook runs under is not modelled (a thread waiting for it
  resumes when the holder returns from `OnFrame`).
* Breakpoints are indices `0 … nb-1` in the order of `AddBreakpoint` (the order of
  `d.breakpoints`); every hook thread and every debugger-side thread carries the index of the
  breakpoint it works on (`hbp`, `tbp`); `cur`, `done`, `reg` and the two breakpoint mutexes are
  per breakpoint. `Debugger.Close` walks the registered breakpoints in list order
  (`for _, bp := range d.breakpoints { bp.Close() }`): its `tbp` is the loop variable.
* `AddBreakpoint` has happened for all of them: they are registered and the first `d.next`
  goroutine of breakpoint `b` is thread `b` of `St.init nb`.
-/
import Std.Data.HashSet

namespace Uniflow.Breakpoint

/-- Program counter of a goroutine inside `Breakpoint.OnFrame`. -/
inductive HPc where
  | sendIn | waitOut | returned
  deriving DecidableEq, Repr

/-- What a debugger-side thread executes. -/
inductive Prog where
  | next | done | close        -- Breakpoint.Next / Done / Close called directly
  | dnext                      -- Debugger.next (goroutine)
  | pause | step | remove | dclose
  deriving DecidableEq, Repr

inductive Pc where
  | start
  | dSel | nLock | nSel | xSend
  | cWmu | cRmu
  | pSel | qRmu
  | ret (b : Bool)
  deriving DecidableEq, Repr

structure St where
  nb : Nat                    -- breakpoints 0 … nb-1, in `d.breakpoints` order
  nh : Nat                    -- hook threads 0 … nh-1
  hpc : Nat → HPc
  hbp : Nat → Nat             -- the breakpoint whose `OnFrame` the hook thread is in
  nt : Nat                    -- debugger-side threads 0 … nt-1
  prog : Nat → Prog
  pc : Nat → Pc
  tbp : Nat → Nat             -- the breakpoint the thread works on (loop variable of `Debugger.Close`)
  cur : Nat → Option Nat      -- b.current, per breakpoint
  done : Nat → Bool           -- b.done is closed
  reg : Nat → Bool            -- the breakpoint is in d.breakpoints
  dcur : Option Nat           -- d.current (a breakpoint)
  ddone : Bool                -- d.done is closed

def St.empty : St :=
  { nb := 0, nh := 0, hpc := fun _ => .returned, hbp := fun _ => 0, nt := 0, prog := fun _ => .next,
    pc := fun _ => .ret false, tbp := fun _ => 0, cur := fun _ => none, done := fun _ => false,
    reg := fun _ => true, dcur := none, ddone := false }

/-- After `NewDebugger` and `AddBreakpoint` of `nb` new breakpoints: all registered, one `d.next`
goroutine each. -/
def St.init (nb : Nat) : St :=
  { St.empty with nb := nb, nt := nb, prog := fun _ => .dnext, pc := fun _ => .start, tbp := fun t => t }

def setf {α : Type} (f : Nat → α) (i : Nat) (v : α) : Nat → α := fun j => if j = i then v else f j

/-- A new packet hook enters `OnFrame` of breakpoint `b`. -/
def St.addHook (s : St) (b : Nat) : St :=
  { s with nh := s.nh + 1, hpc := setf s.hpc s.nh .sendIn, hbp := setf s.hbp s.nh b }

/-- A new debugger-side thread (an API call, or `go d.next`) on breakpoint `b`. -/
def St.addThread (s : St) (p : Prog) (b : Nat) : St :=
  { s with nt := s.nt + 1, prog := setf s.prog s.nt p, pc := setf s.pc s.nt .start, tbp := setf s.tbp s.nt b }

/-! Mutexes are not stored: a mutex is held exactly while some thread is at a program counter
inside the critical section it guards (a lock / check / unlock sequence without a blocking
operation in between is a single step and never observed half-way). -/

def anyT (s : St) (p : Nat → Bool) : Bool := (List.range s.nt).any p

/-- `b.rmu` of breakpoint `b`: held inside the selects of `Done` / `Next`. -/
def rmuHeld (s : St) (b : Nat) : Bool := anyT s fun t => s.tbp t == b && (s.pc t == .dSel || s.pc t == .nSel)
/-- `b.wmu`: held by a `Breakpoint.Close` that has closed `done` and waits for `b.rmu`. -/
def wmuHeld (s : St) (b : Nat) : Bool := anyT s fun t => s.tbp t == b && s.pc t == .cRmu
/-- `d.rmu`: held inside the select of `Pause` / `Step`. -/
def drmuHeld (s : St) : Bool := anyT s fun t => s.pc t == .pSel
/-- `d.wmu`: held by `RemoveBreakpoint` / `Debugger.Close` from their first step to their return. -/
def dwmuHeld (s : St) : Bool := anyT s fun t =>
  (s.prog t == .remove || s.prog t == .dclose) && (s.pc t == .cWmu || s.pc t == .cRmu || s.pc t == .qRmu)

/-- The next breakpoint of `d.breakpoints` at or after position `start`. -/
def nextReg (s : St) (start : Nat) : Option Nat :=
  (List.range s.nb).find? fun b => decide (start ≤ b) && s.reg b

inductive Act where
  | tau (t : Nat)            -- own step of thread t: a lock acquisition or the `done` branch of its select
  | hdone (h : Nat)          -- hook thread h takes the `<-b.done` branch of its current select
  | recvIn (t h : Nat)       -- b.in:  thread t (Pc.nSel) receives the frame of hook h (HPc.sendIn)
  | sendOut (t h : Nat)      -- b.out: thread t (Pc.dSel) hands b.current to hook h (HPc.waitOut)
  | dRecv (p x : Nat)        -- d.in:  thread p (Pc.pSel) receives the breakpoint from x (Pc.xSend)
  deriving DecidableEq, Repr

/-- Where `Done` continues once it has returned (its result is ignored by `Next`). -/
def afterDone (p : Prog) (r : Bool) : Pc :=
  match p with
  | .done => .ret r
  | _ => .nLock

/-- Where `Next` continues once it has returned `r`. -/
def afterNext (p : Prog) (r : Bool) : Pc :=
  match p with
  | .dnext => if r then .xSend else .ret false
  | _ => .ret r

/-- `Debugger.Close` has finished with breakpoint `b` (closed now or found closed): on to the next
registered one, or – the loop is over – `d.breakpoints = nil` and on to `d.rmu`. -/
def dcloseNext (s : St) (t b : Nat) : St :=
  match nextReg s (b + 1) with
  | some b' => { s with tbp := setf s.tbp t b', pc := setf s.pc t .cWmu }
  | none => { s with reg := fun _ => false, pc := setf s.pc t .qRmu }

/-- `tau t`. `none` = not enabled. -/
def tau (s : St) (t : Nat) : Option St :=
  if t < s.nt then
    let b := s.tbp t
    match s.pc t, s.prog t with
    -- Breakpoint.Done (alone, or as the first call of Next)
    | .start, .next | .start, .done | .start, .dnext =>
      if rmuHeld s b then none
      else match s.cur b with
        | none => some { s with pc := setf s.pc t (afterDone (s.prog t) true) }
        | some _ => some { s with pc := setf s.pc t .dSel }
    | .dSel, _ =>
      if s.done b then some { s with pc := setf s.pc t (afterDone (s.prog t) false) } else none
    | .nLock, _ =>
      if rmuHeld s b then none
      else match s.cur b with
        | some _ => some { s with pc := setf s.pc t (afterNext (s.prog t) false) }
        | none => some { s with pc := setf s.pc t .nSel }
    | .nSel, _ =>
      if s.done b then some { s with pc := setf s.pc t (afterNext (s.prog t) false) } else none
    | .xSend, _ =>
      if s.ddone then some { s with pc := setf s.pc t (.ret false) } else none
    -- Breakpoint.Close called directly
    | .start, .close =>
      if wmuHeld s b then none
      else if s.done b then some { s with pc := setf s.pc t (.ret true) }
      else some { s with done := setf s.done b true, pc := setf s.pc t .cRmu }
    -- Breakpoint.Close inside RemoveBreakpoint / Debugger.Close (d.wmu held)
    | .cWmu, _ =>
      if wmuHeld s b then none
      else if s.done b then
        match s.prog t with
        | .dclose => some (dcloseNext s t b)
        | _ => some { s with pc := setf s.pc t (.ret true) }
      else some { s with done := setf s.done b true, pc := setf s.pc t .cRmu }
    | .cRmu, _ =>
      if rmuHeld s b then none
      else match s.prog t with
        | .dclose => some (dcloseNext { s with cur := setf s.cur b none } t b)
        | _ => some { s with cur := setf s.cur b none, pc := setf s.pc t (.ret true) }
    -- Debugger.Pause / Step
    | .start, .pause =>
      if drmuHeld s then none
      else if s.dcur.isSome then some { s with pc := setf s.pc t (.ret true) }
      else some { s with pc := setf s.pc t .pSel }
    | .start, .step =>
      if drmuHeld s then none
      else
        let s1 := { s with pc := setf s.pc t .pSel }
        match s.dcur with
        | some c => some (s1.addThread .dnext c)
        | none => some s1
    | .pSel, _ =>
      if s.ddone then some { s with pc := setf s.pc t (.ret false) } else none
    -- Debugger.RemoveBreakpoint / Close
    | .start, .remove =>
      if dwmuHeld s then none
      else if s.reg b then some { s with reg := setf s.reg b false, pc := setf s.pc t .cWmu }
      else some { s with pc := setf s.pc t (.ret false) }
    | .start, .dclose =>
      if dwmuHeld s then none
      else if s.ddone then some { s with pc := setf s.pc t (.ret true) }
      else
        match nextReg s 0 with
        | some b' => some { s with ddone := true, tbp := setf s.tbp t b', pc := setf s.pc t .cWmu }
        | none => some { s with ddone := true, reg := fun _ => false, pc := setf s.pc t .qRmu }
    | .qRmu, _ =>
      if drmuHeld s then none
      else some { s with dcur := none, pc := setf s.pc t (.ret true) }
    | .ret _, _ => none
  else none

def step (s : St) : Act → Option St
  | .tau t => tau s t
  | .hdone h =>
    if h < s.nh ∧ s.done (s.hbp h) = true then
      match s.hpc h with
      | .sendIn => some { s with hpc := setf s.hpc h .waitOut }
      | .waitOut => some { s with hpc := setf s.hpc h .returned }
      | .returned => none
    else none
  | .recvIn t h =>
    if t < s.nt ∧ h < s.nh ∧ s.pc t = .nSel ∧ s.hpc h = .sendIn ∧ s.hbp h = s.tbp t then
      some { s with cur := setf s.cur (s.tbp t) (some h), hpc := setf s.hpc h .waitOut,
                    pc := setf s.pc t (afterNext (s.prog t) true) }
    else none
  | .sendOut t h =>
    if t < s.nt ∧ h < s.nh ∧ s.pc t = .dSel ∧ s.hpc h = .waitOut ∧ s.hbp h = s.tbp t then
      some { s with cur := setf s.cur (s.tbp t) none, hpc := setf s.hpc h .returned,
                    pc := setf s.pc t (afterDone (s.prog t) true) }
    else none
  | .dRecv p x =>
    if p < s.nt ∧ x < s.nt ∧ s.pc p = .pSel ∧ s.pc x = .xSend then
      some { s with dcur := some (s.tbp x), pc := setf (setf s.pc p (.ret true)) x (.ret true) }
    else none

/-- Run a schedule; `none` as soon as a chosen action is not enabled. -/
def run (s : St) : List Act → Option St
  | [] => some s
  | a :: as => match step s a with
    | some s' => run s' as
    | none => none

/-- Every action that could possibly be enabled, in canonical order. -/
def candidates (s : St) : List Act :=
  let ts := List.range s.nt
  let hs := List.range s.nh
  ts.map Act.tau ++ hs.map Act.hdone
    ++ (ts.flatMap fun t => hs.map fun h => Act.recvIn t h)
    ++ (ts.flatMap fun t => hs.map fun h => Act.sendOut t h)
    ++ (ts.flatMap fun p => ts.map fun x => Act.dRecv p x)

def enabled (s : St) : List Act := (candidates s).filter fun a => (step s a).isSome

/-! ### well-formed states -/

/-- Which program counters a program can be at. -/
def okPc : Prog → Pc → Bool
  | _, .ret _ => true
  | _, .start => true
  | .next, .dSel | .next, .nLock | .next, .nSel => true
  | .done, .dSel => true
  | .dnext, .dSel | .dnext, .nLock | .dnext, .nSel | .dnext, .xSend => true
  | .close, .cRmu => true
  | .pause, .pSel | .step, .pSel => true
  | .remove, .cWmu | .remove, .cRmu => true
  | .dclose, .cWmu | .dclose, .cRmu | .dclose, .qRmu => true
  | _, _ => false

/-- Well-formed: every thread is at a program counter of its own program, and every breakpoint
index in use is one of the debugger's `nb` breakpoints. -/
def WF (s : St) : Prop :=
  (∀ t, t < s.nt → okPc (s.prog t) (s.pc t) = true) ∧
  (∀ t, t < s.nt → s.tbp t < s.nb) ∧ (∀ h, h < s.nh → s.hbp h < s.nb) ∧
  (∀ c, s.dcur = some c → c < s.nb)

/-! ### termination measure -/

def hrank : HPc → Nat
  | .sendIn => 2 | .waitOut => 1 | .returned => 0

/-- `nb`: number of breakpoints, `b`: the thread's breakpoint (for `Debugger.Close`: how far its
loop has come – each remaining breakpoint may cost it a `cWmu` and a `cRmu` step). -/
def rank (nb b : Nat) : Prog → Pc → Nat
  | _, .ret _ => 0
  | _, .xSend => 1
  | _, .nSel => 2
  | _, .nLock => 3
  | _, .dSel => 4
  | _, .pSel => 1
  | _, .qRmu => 1
  | .dclose, .cRmu => 3 * (nb - b) + 2
  | .dclose, .cWmu => 3 * (nb - b) + 3
  | _, .cRmu => 2
  | _, .cWmu => 3
  | .next, .start => 5 | .done, .start => 5 | .dnext, .start => 5
  | .close, .start => 3
  | .pause, .start => 2
  | .step, .start => 8          -- 1 for itself + its pSel + a whole spawned dnext (5) + 1
  | .remove, .start => 4
  | .dclose, .start => 3 * nb + 5

def sumTo (n : Nat) (f : Nat → Nat) : Nat :=
  match n with
  | 0 => 0
  | n + 1 => sumTo n f + f n

/-- Total remaining work: every enabled action makes it strictly smaller. -/
def measure (s : St) : Nat :=
  sumTo s.nh (fun h => hrank (s.hpc h)) + sumTo s.nt (fun t => rank s.nb (s.tbp t) (s.prog t) (s.pc t))

/-! ### observations and printing (driver) -/

def showHPc : HPc → String
  | .sendIn => "i" | .waitOut => "o" | .returned => "r"

def showPc : Pc → String
  | .start => "s" | .dSel => "dS" | .nLock => "nL" | .nSel => "nS" | .xSend => "xS"
  | .cWmu => "cW" | .cRmu => "cR" | .pSel => "pS" | .qRmu => "qR"
  | .ret true => "T" | .ret false => "F"

def showProg : Prog → String
  | .next => "next" | .done => "done" | .close => "close" | .dnext => "dnext"
  | .pause => "pause" | .step => "step" | .remove => "remove" | .dclose => "dclose"

def parseProg : String → Option Prog
  | "next" => some .next | "done" => some .done | "close" => some .close | "dnext" => some .dnext
  | "pause" => some .pause | "step" => some .step | "remove" => some .remove | "dclose" => some .dclose
  | _ => none

def showOptNat : Option Nat → String
  | none => "-" | some n => toString n

def showB (b : Bool) : String := if b then "1" else "0"

/-- Complete canonical rendering of a state (used to de-duplicate during exploration). -/
def showSt (s : St) : String :=
  let hs := (List.range s.nh).map fun h => showHPc (s.hpc h) ++ "@" ++ toString (s.hbp h)
  let ts := (List.range s.nt).map fun t =>
    showProg (s.prog t) ++ "@" ++ toString (s.tbp t) ++ ":" ++ showPc (s.pc t)
  let bs := (List.range s.nb).map fun b =>
    showOptNat (s.cur b) ++ "/" ++ showB (s.done b) ++ "/" ++ showB (s.reg b)
  "h[" ++ ",".intercalate hs ++ "] t[" ++ ",".intercalate ts ++ "] b[" ++ ",".intercalate bs
    ++ "] dcur=" ++ showOptNat s.dcur ++ " ddone=" ++ showB s.ddone

/-- What the harness can see of a quiescent state: how many hook threads have returned (packets
resumed), and for every API-call thread (not the internal `dnext` goroutines) whether it has
returned and with which result (`b` = still blocked). -/
def observe (s : St) : String :=
  let released := ((List.range s.nh).filter fun h => s.hpc h = .returned).length
  let calls := (List.range s.nt).filterMap fun t =>
    match s.prog t with
    | .dnext => none
    | p => some (showProg p ++ ":" ++ (match s.pc t with
        | .ret true => "T" | .ret false => "F" | _ => "b"))
  "released=" ++ toString released ++ "/" ++ toString s.nh ++ " " ++ " ".intercalate calls

/-- Status of every API-call thread (not the `dnext` goroutines): `T` / `F` returned, `b` blocked. -/
def callStatus (s : St) : List String :=
  (List.range s.nt).filterMap fun t =>
    match s.prog t with
    | .dnext => none
    | _ => some (match s.pc t with | .ret true => "T" | .ret false => "F" | _ => "b")

def releasedCount (s : St) : Nat := ((List.range s.nh).filter fun h => s.hpc h = .returned).length

/-- Every state reachable from the given ones (the given ones included), de-duplicated by
`showSt`. `limit` bounds the number of distinct states, `fuel` the number of edges followed (the
machine is finite and acyclic – `measure` – so large enough bounds are exact; `none` when one ran
out). -/
def closure (fuel limit : Nat) (work : List St) (seen : Std.HashSet String) (acc : List St) (n : Nat) :
    Option (List St) :=
  match fuel, work with
  | _, [] => some acc
  | 0, _ :: _ => none
  | fuel + 1, s :: work =>
    let key := showSt s
    if seen.contains key then closure fuel limit work seen acc n
    else if n ≥ limit then none
    else closure fuel limit ((enabled s).filterMap (step s) ++ work) (seen.insert key) (s :: acc) (n + 1)

def isTerminal (s : St) : Bool := (enabled s).isEmpty

end Uniflow.Breakpoint
