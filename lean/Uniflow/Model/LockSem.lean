/-
A small trace semantics of Go mutexes (`sync.Mutex`, `sync.RWMutex`) in which the lock-set
discipline checked over `Generated/Locks.lean` is given its meaning.

Events are performed by threads; a trace is *feasible* when every acquire respects mutual
exclusion (a writer excludes everyone, readers exclude writers) and every release is made by a
holder. Blocking is modelled by infeasibility: a thread that would block simply has no event.
-/
namespace Uniflow.LockSem

abbrev Tid := Nat
abbrev Mu := Nat
abbrev Loc := Nat

inductive Ev where
  | acqW (t : Tid) (m : Mu)
  | acqR (t : Tid) (m : Mu)
  | relW (t : Tid) (m : Mu)
  | relR (t : Tid) (m : Mu)
  | acc (t : Tid) (x : Loc) (write : Bool)
  deriving DecidableEq, Repr

/-- Lock state: the exclusive holder and the multiset of shared holders of every mutex. -/
structure LS where
  writer : Mu → Option Tid
  readers : Mu → List Tid

def LS.init : LS := { writer := fun _ => none, readers := fun _ => [] }

def upd {β : Type} (f : Mu → β) (m : Mu) (v : β) : Mu → β := fun k => if k = m then v else f k

/-- One event; `none` when the event is not enabled in this state. -/
def step (s : LS) : Ev → Option LS
  | .acqW t m => if s.writer m = none ∧ s.readers m = [] then some { s with writer := upd s.writer m (some t) } else none
  | .acqR t m => if s.writer m = none then some { s with readers := upd s.readers m (t :: s.readers m) } else none
  | .relW t m => if s.writer m = some t then some { s with writer := upd s.writer m none } else none
  | .relR t m => if t ∈ s.readers m then some { s with readers := upd s.readers m ((s.readers m).erase t) } else none
  | .acc _ _ _ => some s

def run : LS → List Ev → Option LS
  | s, [] => some s
  | s, e :: es => match step s e with
    | none => none
    | some s' => run s' es

def holdsW (s : LS) (t : Tid) (m : Mu) : Prop := s.writer m = some t
def holdsR (s : LS) (t : Tid) (m : Mu) : Prop := t ∈ s.readers m
/-- Holds `m` in a mode sufficient for an access: exclusively for a write, in any mode for a read. -/
def guards (s : LS) (t : Tid) (m : Mu) (write : Bool) : Prop :=
  if write then holdsW s t m else (holdsW s t m ∨ holdsR s t m)

/-- Mutual exclusion: a mutex with an exclusive holder has no shared holders. -/
def Excl (s : LS) : Prop := ∀ m t, s.writer m = some t → s.readers m = []

end Uniflow.LockSem
