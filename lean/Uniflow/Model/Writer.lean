/-
Model of `pkg/packet/writer.go` (one `Writer`) together with the `Reader`s linked to it
(`pkg/packet/reader.go`) and `packet.Join` (`pkg/packet/packet.go`), after the four `fix:`
commits of C01 (late-link guards in `indexOfHead`/`Unlink`, no emission from a `Write` that
returns 0, `receive` flushes every complete row, link generations) and the fifth (`refused`
marker: a row none of whose accepting readers is left is answered with `dropped`).

Data layout is the Go one: `readers` is `Writer.readers` (link order), `rows` is
`Writer.receives` – row j is the response row of the j-th pending write, *index addressed*:
column i belongs to `readers[i]`; a row written before a late `Link` is shorter than `readers`.
A cell is `none` for Go's `nil` (answer still owed), `some (some a)` once a reader's answer (or
drop notice) filled it, and `some none` for the marker `refused` of a reader that was linked but
did not accept the write.

Every successful `Link` gives the link a fresh generation (`Writer.linked` counts them,
`Writer.links[i]` is the generation of `readers[i]`'s link).  Per reader only what the writer can
see is kept: `pend r` = `r.writers` (its FIFO holds only this writer: the link generation recorded
with each request), `closed r = r.done`, and `drops r` = the goroutines
`go w.receive(dropped, r, link)` spawned by `Reader.Close` that have not run yet (all carry the
same packet and reader; they differ only in the generation).  `deliverDrop r` runs the oldest of
them: notices of one generation are indistinguishable, and a notice of an older generation than
the reader's current link is a no-op in every state (`C01.stale_response_ignored`), so where it is
placed in a schedule cannot be observed.  Every step is one critical section:

    link r        (*Writer).Link            unlink r     (*Writer).Unlink
    write v       (*Writer).Write (+ every (*Reader).write it calls)
    answer r a    (*Reader).Receive(a) = pop under r.mu, then (*Writer).receive(a, r, link)
    closeR r      (*Reader).Close (marks closed, spawns one drop goroutine per request)
    deliverDrop r one spawned goroutine runs (*Writer).receive(dropped, r, link)
    closeW        (*Writer).Close

Identities (`*Reader`) are harness-assigned naturals.  Payloads are opaque naturals: `Join` never
looks inside a non-error payload.  Errors are identified by a natural (`0` = `ErrDroppedPacket`);
`errors.Join` is modelled by the list of the joined errors (its message is their messages joined
by newlines, so the flattening is observable and exact).
-/
namespace Uniflow.Writer

abbrev RId := Nat

/-- A packet a reader answers with (and what a cell holds): the `None` packet, an error
payload, any other payload. -/
inductive Ans where
  | none
  | err (e : Nat)
  | val (v : Nat)
  /-- an error payload whose error is itself a joined error (`errors.Join`) of the leaves `es`, in
  order – e.g. the joined error response of another writer that the reader relays -/
  | errs (es : List Nat)
  deriving DecidableEq, Repr, Inhabited

/-- A packet the writer emits: `None`, an error (the list of joined errors), one payload, or a
slice of payloads. -/
inductive Resp where
  | none
  | err (es : List Nat)
  | val (v : Nat)
  | vals (vs : List Nat)
  deriving DecidableEq, Repr, Inhabited

/-- `New(ErrDroppedPacket)` as an answer / as a response. -/
def Ans.dropped : Ans := .err 0
def Resp.dropped : Resp := .err [0]

def Resp.ofAns : Ans → Resp
  | .none => .none
  | .err e => .err [e]
  | .val v => .val v
  | .errs es => .err es

/-- The leaves of the error an answer carries (`payload.Unwrap()` read as the list of its leaf
errors): one leaf for a plain error, the joined error's leaves in order for a joined one. -/
def errOf : Ans → Option (List Nat)
  | .err e => some [e]
  | .errs es => some es
  | _ => none

def valOf : Ans → Option Nat
  | .val v => some v
  | _ => none

/-- `packet.Join`:
    len 0 ⇒ None; len 1 ⇒ that packet; otherwise skip `None`s, collect errors and payloads;
    any error ⇒ error of all errors; no payload ⇒ None; one ⇒ it; several ⇒ slice in order.
`New(types.NewError(errors.Join(errs...)))`: the joined error's members are the readers' errors in
column (link) order; a member that is itself a joined error keeps all its leaves, so the response's
error has – read as a flat list, which is also its message line by line – every leaf of every
erroring reader, in link order, the `dropped packet` stand-ins of closed readers included. -/
def join : List Ans → Resp
  | [] => .none
  | [a] => .ofAns a
  | cs =>
    if cs.filterMap errOf ≠ [] then .err (cs.filterMap errOf).flatten
    else match cs.filterMap valOf with
      | [] => .none
      | [v] => .val v
      | vs => .vals vs

/-- What a filled cell holds: `some a` – the packet a reader answered with (or the drop notice
delivered for it); `none` – the unexported marker `refused` that `Write` leaves for a linked
reader which did not accept the packet (it was already closed). -/
abbrev Fill := Option Ans
/-- A cell of a pending row: `none` is Go's `nil` (answer still owed). -/
abbrev Cell := Option Fill
abbrev Row := List Cell

/-- `slices.Contains(row, nil)`. -/
def hasNil (row : Row) : Bool := row.any Option.isNone

/-- The packets `joinAccepted` keeps: what the readers that accepted the write answered, in column
order.  The first `filterMap id` only strips the `some`s (the callers have just tested that no
cell is nil), the second drops the `refused` markers (`if pck != refused`). -/
def accepted (row : Row) : List Ans := (row.filterMap id).filterMap id

/-- `joinAccepted(row)`: the packet emitted for a complete row – `New(ErrDroppedPacket)` when no
reader that accepted the write is left in the row, otherwise `Join` of what they answered. -/
def respOf (row : Row) : Resp :=
  if (accepted row).isEmpty then .dropped else join (accepted row)

/-- `for len(w.receives) > 0 && !slices.Contains(w.receives[0], nil) { emit; pop }` – the loop of
both `Unlink` and `receive`. -/
def flush : List Row → List Row × List Resp
  | [] => ([], [])
  | row :: rest =>
    if hasNil row then (row :: rest, [])
    else ((flush rest).1, respOf row :: (flush rest).2)

/-- `indexOfReader`. -/
def indexOf (r : RId) : List RId → Option Nat
  | [] => none
  | x :: xs => if x = r then some 0 else (indexOf r xs).map (· + 1)

inductive Find where
  | found (i : Nat)
  | notFound
  | panic
  deriving DecidableEq, Repr

def Find.succ : Find → Find
  | .found i => .found (i + 1)
  | f => f

/-- `indexOfHead(index)` as it was before writes were numbered (kept for the pinned variant of the
step): first row that covers column `index` and whose cell there is nil.
    for i, receives := range w.receives {
        if len(receives) <= index { continue }
        if receives[index] == nil { return i } }
    return -1 -/
def indexOfHead (index : Nat) : List Row → Find
  | [] => .notFound
  | row :: rest =>
    if row.length ≤ index then (indexOfHead index rest).succ
    else match row[index]? with
      | none => .panic                                   -- index out of range
      | some none => .found 0
      | some (some _) => (indexOfHead index rest).succ

/-- `indexOfHead(index, write)`: the row of write number `write`, if it covers column `index` and
its cell there is nil.
    for i, receives := range w.receives {
        if w.writes[i] != write || len(receives) <= index { continue }
        if receives[index] == nil { return i } }
    return -1 -/
def indexOfWrite (index write : Nat) : List Nat → List Row → Find
  | _, [] => .notFound
  | [], _ :: _ => .panic                                   -- w.writes[i] out of range
  | w :: ws, row :: rest =>
    if w ≠ write ∨ row.length ≤ index then (indexOfWrite index write ws rest).succ
    else match row[index]? with
      | none => .panic                                   -- index out of range
      | some none => .found 0
      | some (some _) => (indexOfWrite index write ws rest).succ

/-- `receives := w.receives[head]; receives[index] = pck` (`none` = index out of range). -/
def setCell (rows : List Row) (head index : Nat) (a : Fill) : Option (List Row) :=
  match rows[head]? with
  | none => none
  | some row => if index < row.length then some (rows.set head (row.set index (some a))) else none

structure W where
  readers : List RId := []
  /-- `Writer.links`: `links[i]` is the generation of the link of `readers[i]`. -/
  links : List Nat := []
  /-- `Writer.linked`: number of successful `Link`s so far (the last generation handed out). -/
  linked : Nat := 0
  rows : List Row := []
  /-- `Writer.writes`: `writes[j]` is the number of the write row j belongs to. -/
  writes : List Nat := []
  /-- `Writer.written`: number of accepted writes so far (the number the next one gets). -/
  written : Nat := 0
  done : Bool := false
  /-- `Reader.writers` (requests of this writer): the link generation and the write number recorded
  with each request the reader still has to answer, oldest first. -/
  pend : RId → List (Nat × Nat) := fun _ => []
  closed : RId → Bool := fun _ => false
  /-- The goroutines `go req.writer.receive(dropped, r, req.link, req.write)` spawned by
  `Reader.Close` that have not run yet: what each carries, in the order of the requests. -/
  drops : RId → List (Nat × Nat) := fun _ => []
  /-- Answers in flight: `Reader.Receive` has popped the request and released `r.mu` but
  `(*Writer).receive` has not taken `w.mu` yet – the answer, the link generation, the write number. -/
  flight : RId → List (Ans × Nat × Nat) := fun _ => []

def W.init : W := {}

inductive Step where
  | link (r : RId)
  | unlink (r : RId)
  | write (v : Nat)
  | answer (r : RId) (a : Ans)
  | pop (r : RId) (a : Ans)
  | deliver (r : RId) (k : Nat)
  | closeR (r : RId)
  | deliverDrop (r : RId)
  | closeW
  deriving DecidableEq, Repr

/-- Return value of a step. `cnt` is `Write`'s count (for `closeR`: the number of goroutines
spawned); `skip`: no goroutine of that reader is waiting, nothing ran. -/
inductive Ret where
  | ok (b : Bool)
  | cnt (n : Nat)
  | unit
  | skip
  | panic (site : Nat)
  deriving DecidableEq, Repr

/-- What one step lets the outside see: its return value, the packets pushed into the writer's
pump during the step (in order), and the packets handed to readers `(reader, payload)`. -/
structure Out where
  ret : Ret
  emits : List Resp := []
  deliv : List (RId × Nat) := []
  deriving DecidableEq, Repr

/-- `(*Writer).receive(pck, reader, link, write)`.  `chk = true` is the code; `chk = false` is the
code before the link-generation fix and before writes were numbered (no comparison
`w.links[index] != link`, the response goes to the oldest row still owing the reader), kept for
`C01.pinned_relink_miscredit` and `C01.pinned_race_miscredit`. -/
def receiveWith (chk : Bool) (m : W) (a : Ans) (r : RId) (link write : Nat) : W × Out :=
  if m.done then (m, { ret := .ok false }) else
  match indexOf r m.readers with
  | none => (m, { ret := .ok false })
  | some index =>
    match m.links[index]? with
    | none => (m, { ret := .panic 3 })                     -- w.links[index] out of range
    | some l =>
      if chk && l != link then (m, { ret := .ok false }) else
      match (if chk then indexOfWrite index write m.writes m.rows else indexOfHead index m.rows) with
      | .panic => (m, { ret := .panic 1 })
      | .notFound => (m, { ret := .ok false })
      | .found head =>
        match setCell m.rows head index (some a) with
        | none => (m, { ret := .panic 2 })
        | some rows =>
          if head = 0 then
            ({ m with rows := (flush rows).1, writes := m.writes.drop (flush rows).2.length },
             { ret := .ok true, emits := (flush rows).2 })
          else ({ m with rows := rows }, { ret := .ok true })

abbrev receive (m : W) (a : Ans) (r : RId) (link write : Nat) : W × Out := receiveWith true m a r link write

/-- Column deletion of `Unlink` (with the guard of the fix). -/
def eraseCol (i : Nat) (rows : List Row) : List Row :=
  rows.map fun row => if i < row.length then row.eraseIdx i else row

/-- The row `Write` builds: the marker `refused` for a closed reader, nil for one that accepted. -/
def newRow (closed : RId → Bool) (readers : List RId) : Row :=
  readers.map fun r => if closed r then some none else none

def accepting (closed : RId → Bool) (readers : List RId) : List RId :=
  readers.filter fun r => !closed r

/-- `w.links[i]` for the column of reader `r` (`none`: not linked, or index out of range). -/
def linkOf (m : W) (r : RId) : Option Nat :=
  match indexOf r m.readers with
  | none => none
  | some i => m.links[i]?

def stepWith (chk : Bool) (m : W) : Step → W × Out
  | .link r =>
    if m.done then (m, { ret := .ok false })
    else if r ∈ m.readers then (m, { ret := .ok false })
    else ({ m with linked := m.linked + 1, readers := m.readers ++ [r], links := m.links ++ [m.linked + 1] },
          { ret := .ok true })
  | .unlink r =>
    if m.done then (m, { ret := .ok false }) else
    match indexOf r m.readers with
    | none => (m, { ret := .ok false })
    | some i =>
      if m.links.length ≤ i then (m, { ret := .panic 4 })    -- w.links[i+1:] out of range
      else
      let rows := eraseCol i m.rows
      ({ m with readers := m.readers.eraseIdx i, links := m.links.eraseIdx i, rows := (flush rows).1,
                writes := m.writes.drop (flush rows).2.length },
       { ret := .ok true, emits := (flush rows).2 })
  | .write v =>
    if m.done then (m, { ret := .cnt 0 })
    else if m.readers.isEmpty then (m, { ret := .cnt 0 })
    else if m.links.length < m.readers.length then (m, { ret := .panic 5 })   -- w.links[i] out of range
    else
      let acc := accepting m.closed m.readers
      let m' := { m with pend := fun r => if r ∈ acc then m.pend r ++ (linkOf m r).toList.map (·, m.written)
                                       else m.pend r }
      if acc.length > 0 then
        ({ m' with rows := m.rows ++ [newRow m.closed m.readers], writes := m.writes ++ [m.written],
                   written := m.written + 1 },
         { ret := .cnt acc.length, deliv := acc.map fun r => (r, v) })
      else (m', { ret := .cnt 0 })
  | .answer r a =>
    match m.pend r with
    | [] => (m, { ret := .ok false })
    | g :: rest => receiveWith chk { m with pend := fun x => if x = r then rest else m.pend x } a r g.1 g.2
  | .pop r a =>
    match m.pend r with
    | [] => (m, { ret := .ok false })
    | g :: rest =>
      ({ m with pend := fun x => if x = r then rest else m.pend x,
                flight := fun x => if x = r then m.flight r ++ [(a, g.1, g.2)] else m.flight x },
       { ret := .ok true })
  | .deliver r k =>
    match (m.flight r)[k]? with
    | none => (m, { ret := .skip })
    | some e =>
      receiveWith chk { m with flight := fun x => if x = r then (m.flight r).eraseIdx k else m.flight x } e.1 r e.2.1 e.2.2
  | .closeR r =>
    if m.closed r then (m, { ret := .cnt 0 })
    else ({ m with closed := fun x => if x = r then true else m.closed x,
                   drops := fun x => if x = r then m.pend r else m.drops x,
                   pend := fun x => if x = r then [] else m.pend x },
          { ret := .cnt (m.pend r).length })
  | .deliverDrop r =>
    match m.drops r with
    | [] => (m, { ret := .skip })
    | g :: rest =>
      let p := receiveWith chk { m with drops := fun x => if x = r then rest else m.drops x } Ans.dropped r g.1 g.2
      (p.1, { p.2 with ret := match p.2.ret with | .panic s => .panic s | _ => .unit })
  | .closeW =>
    if m.done then (m, { ret := .unit })
    else ({ m with done := true, readers := [], links := [], rows := [], writes := [] },
          { ret := .unit, emits := m.rows.map fun _ => Resp.dropped })

/-- One step of the code. -/
def step (m : W) (s : Step) : W × Out := stepWith true m s

/-- One step of the code as it was before the link-generation fix. -/
def stepPinned (m : W) (s : Step) : W × Out := stepWith false m s

/-- Run a history from a state, collecting what every step shows. -/
def runFrom (m : W) : List Step → W × List Out
  | [] => (m, [])
  | s :: h => ((runFrom (step m s).1 h).1, (step m s).2 :: (runFrom (step m s).1 h).2)

def run (h : List Step) : W × List Out := runFrom W.init h

def runFromPinned (m : W) : List Step → W × List Out
  | [] => (m, [])
  | s :: h => ((runFromPinned (stepPinned m s).1 h).1, (stepPinned m s).2 :: (runFromPinned (stepPinned m s).1 h).2)

/-- Class predicate of the former known finding `relink-with-pending` (fixed by the link
generations; kept because the witness of the defect and C03's liveness theorem are stated with
it): the step links a reader that is not linked, is still open and still has unanswered requests
(`len(r.writers) > 0`). -/
def relinkPending (m : W) : Step → Bool
  | .link r => !m.done && !decide (r ∈ m.readers) && decide (0 < (m.pend r).length)
  | _ => false

/-- The history, run from `m`, never re-links a reader that still has unanswered requests. -/
def NoRelink (m : W) : List Step → Prop
  | [] => True
  | s :: h => relinkPending m s = false ∧ NoRelink (step m s).1 h

/-- Everything pushed into the writer's pump, in order. -/
def emitted (outs : List Out) : List Resp := outs.flatMap (·.emits)

/-! ### The window inside `Write`

`Write` first decides that it is a request at all (`w.done`, `len(w.readers) == 0`, `w.accepting()`),
then shows the packet to the writer's outbound hooks, and only then asks every linked reader in
turn (`r.write`).  `Reader.Close` does not take the writer's lock, so a reader can close between the
two looks `Write` takes at it – deterministically when an outbound hook closes it.  `writeH v cs` is a
`Write` whose outbound hook closes the readers `cs` (`cs = []`: a hook that does nothing); each close
is the ordinary `closeR` critical section, the rest of `Write` is the ordinary `write` step run on
the state the hook left.  `shown` counts the calls of the outbound hook in the step, `spawned` the
drop goroutines the hook's closes started. -/

inductive XStep where
  | base (s : Step)
  | writeH (v : Nat) (cs : List RId)
  deriving DecidableEq, Repr

structure XOut where
  out : Out
  shown : Nat := 0
  spawned : Nat := 0
  deriving DecidableEq, Repr

/-- The count a step returned (`closeR`: the goroutines it spawned). -/
def Ret.count : Ret → Nat
  | .cnt n => n
  | _ => 0

/-- How often a base step calls the writer's outbound hook: a `write` that is a request, once. -/
def shownOf (isReq : Bool) : Step → Nat
  | .write _ => if isReq then 1 else 0
  | _ => 0

/-- `Write` gets as far as its outbound hooks: not closed, a reader linked, a reader accepting. -/
def isRequest (m : W) : Bool := !m.done && !m.readers.isEmpty && !(accepting m.closed m.readers).isEmpty

/-- The hook closes the readers one after the other: `(state, goroutines spawned)`. -/
def closeAll (m : W) : List RId → W × Nat
  | [] => (m, 0)
  | r :: rs =>
    let p := step m (.closeR r)
    let q := closeAll p.1 rs
    (q.1, p.2.ret.count + q.2)

def xstep (m : W) : XStep → W × XOut
  | .base s =>
    let p := step m s
    (p.1, { out := p.2, shown := shownOf (isRequest m) s })
  | .writeH v cs =>
    if isRequest m then
      let c := closeAll m cs
      let p := step c.1 (.write v)
      (p.1, { out := p.2, shown := 1, spawned := c.2 })
    else (m, { out := { ret := .cnt 0 } })

def xrunFrom (m : W) : List XStep → W × List XOut
  | [] => (m, [])
  | s :: h => ((xrunFrom (xstep m s).1 h).1, (xstep m s).2 :: (xrunFrom (xstep m s).1 h).2)

def xrun (h : List XStep) : W × List XOut := xrunFrom W.init h

end Uniflow.Writer
