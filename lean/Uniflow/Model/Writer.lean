/-
Model of `pkg/packet/writer.go` (one `Writer`) together with the `Reader`s linked to it
(`pkg/packet/reader.go`) and `packet.Join` (`pkg/packet/packet.go`), after the three `fix:`
commits of C01 (late-link guards in `indexOfHead`/`Unlink`, no emission from a `Write` that
returns 0, `receive` flushes every complete row).

Data layout is the Go one: `readers` is `Writer.readers` (link order), `rows` is
`Writer.receives` – row j is the response row of the j-th pending write, *index addressed*:
column i belongs to `readers[i]`; a row written before a late `Link` is shorter than `readers`.
A cell is `none` for Go's `nil` (answer still owed) and `some a` once filled.

Per reader only what the writer can see is kept: `pend r = len(r.writers)` (its FIFO holds only
this writer), `closed r = r.done`, and `drops r` = number of goroutines `go w.receive(dropped, r)`
spawned by `Reader.Close` that have not run yet (all carry the same packet and reader, so they
are indistinguishable and a count suffices).  Every step is one critical section:

    link r        (*Writer).Link            unlink r     (*Writer).Unlink
    write v       (*Writer).Write (+ every (*Reader).write it calls)
    answer r a    (*Reader).Receive(a) = pop under r.mu, then (*Writer).receive(a, r)
    closeR r      (*Reader).Close (marks closed, spawns `pend r` drop goroutines)
    deliverDrop r one spawned goroutine runs (*Writer).receive(dropped, r)
    closeW        (*Writer).Close

Identities (`*Reader`) are harness-assigned naturals.  Payloads are opaque naturals: `Join` never
looks inside a non-error payload.  Errors are identified by a natural (`0` = `ErrDroppedPacket`);
`errors.Join` is modelled by the list of the joined errors (its message is their messages joined
by newlines, so the flattening is observable and exact).
-/
namespace Uniflow.Writer

abbrev RId := Nat

/-- A packet a reader answers with (and what a cell holds): the `None` packet, an error
payload, any other payload. -/
inductive Ans where
  | none
  | err (e : Nat)
  | val (v : Nat)
  deriving DecidableEq, Repr, Inhabited

/-- A packet the writer emits: `None`, an error (the list of joined errors), one payload, or a
slice of payloads. -/
inductive Resp where
  | none
  | err (es : List Nat)
  | val (v : Nat)
  | vals (vs : List Nat)
  deriving DecidableEq, Repr, Inhabited

/-- `New(ErrDroppedPacket)` as an answer / as a response. -/
def Ans.dropped : Ans := .err 0
def Resp.dropped : Resp := .err [0]

def Resp.ofAns : Ans → Resp
  | .none => .none
  | .err e => .err [e]
  | .val v => .val v

def errOf : Ans → Option Nat
  | .err e => some e
  | _ => none

def valOf : Ans → Option Nat
  | .val v => some v
  | _ => none

/-- `packet.Join`:
    len 0 ⇒ None; len 1 ⇒ that packet; otherwise skip `None`s, collect errors and payloads;
    any error ⇒ error of all errors; no payload ⇒ None; one ⇒ it; several ⇒ slice in order. -/
def join : List Ans → Resp
  | [] => .none
  | [a] => .ofAns a
  | cs =>
    if cs.filterMap errOf ≠ [] then .err (cs.filterMap errOf)
    else match cs.filterMap valOf with
      | [] => .none
      | [v] => .val v
      | vs => .vals vs

abbrev Cell := Option Ans
abbrev Row := List Cell

/-- `slices.Contains(row, nil)`. -/
def hasNil (row : Row) : Bool := row.any Option.isNone

/-- The packet emitted for a complete row. `Unlink`'s loop (`emptyDropped = true`) emits
`New(ErrDroppedPacket)` for a row with no column left; `receive`'s loop calls `Join` directly.
`filterMap id` only strips the `some`s: the callers have just tested that no cell is nil. -/
def respOf (emptyDropped : Bool) (row : Row) : Resp :=
  if emptyDropped && row.isEmpty then .dropped else join (row.filterMap id)

/-- `for len(w.receives) > 0 && !slices.Contains(w.receives[0], nil) { emit; pop }`. -/
def flush (emptyDropped : Bool) : List Row → List Row × List Resp
  | [] => ([], [])
  | row :: rest =>
    if hasNil row then (row :: rest, [])
    else ((flush emptyDropped rest).1, respOf emptyDropped row :: (flush emptyDropped rest).2)

/-- `indexOfReader`. -/
def indexOf (r : RId) : List RId → Option Nat
  | [] => none
  | x :: xs => if x = r then some 0 else (indexOf r xs).map (· + 1)

inductive Find where
  | found (i : Nat)
  | notFound
  | panic
  deriving DecidableEq, Repr

def Find.succ : Find → Find
  | .found i => .found (i + 1)
  | f => f

/-- `indexOfHead(index)`: first row that covers column `index` and whose cell there is nil.
    for i, receives := range w.receives {
        if len(receives) <= index { continue }
        if receives[index] == nil { return i } }
    return -1 -/
def indexOfHead (index : Nat) : List Row → Find
  | [] => .notFound
  | row :: rest =>
    if row.length ≤ index then (indexOfHead index rest).succ
    else match row[index]? with
      | none => .panic                                   -- index out of range
      | some none => .found 0
      | some (some _) => (indexOfHead index rest).succ

/-- `receives := w.receives[head]; receives[index] = pck` (`none` = index out of range). -/
def setCell (rows : List Row) (head index : Nat) (a : Ans) : Option (List Row) :=
  match rows[head]? with
  | none => none
  | some row => if index < row.length then some (rows.set head (row.set index (some a))) else none

structure W where
  readers : List RId := []
  rows : List Row := []
  done : Bool := false
  pend : RId → Nat := fun _ => 0
  closed : RId → Bool := fun _ => false
  drops : RId → Nat := fun _ => 0

def W.init : W := {}

inductive Step where
  | link (r : RId)
  | unlink (r : RId)
  | write (v : Nat)
  | answer (r : RId) (a : Ans)
  | closeR (r : RId)
  | deliverDrop (r : RId)
  | closeW
  deriving DecidableEq, Repr

/-- Return value of a step. `cnt` is `Write`'s count (for `closeR`: the number of goroutines
spawned); `skip`: no goroutine of that reader is waiting, nothing ran. -/
inductive Ret where
  | ok (b : Bool)
  | cnt (n : Nat)
  | unit
  | skip
  | panic (site : Nat)
  deriving DecidableEq, Repr

/-- What one step lets the outside see: its return value, the packets pushed into the writer's
pump during the step (in order), and the packets handed to readers `(reader, payload)`. -/
structure Out where
  ret : Ret
  emits : List Resp := []
  deliv : List (RId × Nat) := []
  deriving DecidableEq, Repr

/-- `(*Writer).receive(pck, reader)`. -/
def receive (m : W) (a : Ans) (r : RId) : W × Out :=
  if m.done then (m, { ret := .ok false }) else
  match indexOf r m.readers with
  | none => (m, { ret := .ok false })
  | some index =>
    match indexOfHead index m.rows with
    | .panic => (m, { ret := .panic 1 })
    | .notFound => (m, { ret := .ok false })
    | .found head =>
      match setCell m.rows head index a with
      | none => (m, { ret := .panic 2 })
      | some rows =>
        if head = 0 then
          ({ m with rows := (flush false rows).1 }, { ret := .ok true, emits := (flush false rows).2 })
        else ({ m with rows := rows }, { ret := .ok true })

/-- Column deletion of `Unlink` (with the guard of the fix). -/
def eraseCol (i : Nat) (rows : List Row) : List Row :=
  rows.map fun row => if i < row.length then row.eraseIdx i else row

/-- The row `Write` builds: `None` for a closed reader, nil for one that accepted. -/
def newRow (closed : RId → Bool) (readers : List RId) : Row :=
  readers.map fun r => if closed r then some Ans.none else none

def accepting (closed : RId → Bool) (readers : List RId) : List RId :=
  readers.filter fun r => !closed r

def step (m : W) : Step → W × Out
  | .link r =>
    if m.done then (m, { ret := .ok false })
    else if r ∈ m.readers then (m, { ret := .ok false })
    else ({ m with readers := m.readers ++ [r] }, { ret := .ok true })
  | .unlink r =>
    if m.done then (m, { ret := .ok false }) else
    match indexOf r m.readers with
    | none => (m, { ret := .ok false })
    | some i =>
      let rows := eraseCol i m.rows
      ({ m with readers := m.readers.eraseIdx i, rows := (flush true rows).1 },
       { ret := .ok true, emits := (flush true rows).2 })
  | .write v =>
    if m.done then (m, { ret := .cnt 0 })
    else if m.readers.isEmpty then (m, { ret := .cnt 0 })
    else
      let acc := accepting m.closed m.readers
      let m' := { m with pend := fun r => if r ∈ acc then m.pend r + 1 else m.pend r }
      if acc.length > 0 then
        ({ m' with rows := m.rows ++ [newRow m.closed m.readers] },
         { ret := .cnt acc.length, deliv := acc.map fun r => (r, v) })
      else (m', { ret := .cnt 0 })
  | .answer r a =>
    if m.pend r = 0 then (m, { ret := .ok false })
    else receive { m with pend := fun x => if x = r then m.pend r - 1 else m.pend x } a r
  | .closeR r =>
    if m.closed r then (m, { ret := .cnt 0 })
    else ({ m with closed := fun x => if x = r then true else m.closed x,
                   drops := fun x => if x = r then m.pend r else m.drops x,
                   pend := fun x => if x = r then 0 else m.pend x },
          { ret := .cnt (m.pend r) })
  | .deliverDrop r =>
    if m.drops r = 0 then (m, { ret := .skip })
    else
      let p := receive { m with drops := fun x => if x = r then m.drops r - 1 else m.drops x } Ans.dropped r
      (p.1, { p.2 with ret := match p.2.ret with | .panic s => .panic s | _ => .unit })
  | .closeW =>
    if m.done then (m, { ret := .unit })
    else ({ m with done := true, readers := [], rows := [] },
          { ret := .unit, emits := m.rows.map fun _ => Resp.dropped })

/-- Run a history from a state, collecting what every step shows. -/
def runFrom (m : W) : List Step → W × List Out
  | [] => (m, [])
  | s :: h => ((runFrom (step m s).1 h).1, (step m s).2 :: (runFrom (step m s).1 h).2)

def run (h : List Step) : W × List Out := runFrom W.init h

/-- Class predicate of the known finding `relink-with-pending`: the step links a reader that is
not linked, is still open and still has unanswered requests (`len(r.writers) > 0`). -/
def relinkPending (m : W) : Step → Bool
  | .link r => !m.done && !decide (r ∈ m.readers) && decide (0 < m.pend r)
  | _ => false

/-- The history, run from `m`, never re-links a reader that still has unanswered requests. -/
def NoRelink (m : W) : List Step → Prop
  | [] => True
  | s :: h => relinkPending m s = false ∧ NoRelink (step m s).1 h

/-- Everything pushed into the writer's pump, in order. -/
def emitted (outs : List Out) : List Resp := outs.flatMap (·.emits)

end Uniflow.Writer
