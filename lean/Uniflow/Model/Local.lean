/-
Small-step model of `pkg/process/local.go` (`Local[T]`) together with the part of
`pkg/process/process.go` it relies on (`Process.AddExitHook`, `Process.Exit`).

Go (after fix 5790134 – `Store` registers its exit hook after unlocking):

    Store(p, v):        l.mu.Lock(); _, ok := eager[p]; eager[p] = v; hs := storeHooks[p]; delete(storeHooks, p); l.mu.Unlock()
                        if !ok { ⟨yield 1⟩ p.AddExitHook(func{ l.Delete(p) }) }
                        hs.Store(v)
    Delete(p):          l.mu.Lock(); _, ok := eager[p]; delete(eager, p); delete(storeHooks, p); l.mu.Unlock(); return ok
    Load(p) / Keys():   l.mu.RLock(); read; l.mu.RUnlock()
    LoadOrStore(p, f):  l.mu.RLock(); v, ok := eager[p]; l.mu.RUnlock(); if ok { return v }
                        ⟨yield 2⟩ l.mu.Lock()
                        if v, ok := eager[p]; ok { l.mu.Unlock(); return v }
                        fn, ok := lazy[p]; if !ok { fn = &lazy{fn: f}; lazy[p] = fn }
                        l.mu.Unlock()
                        ⟨yield 3⟩ v, err := fn.Do()        -- fn.mu.Lock(); if done == 0 { value, error = fn(); done = 1 }; fn.mu.Unlock()
                        if err != nil { return err }
                        ⟨yield 4⟩ l.mu.Lock(); eager[p] = v; delete(lazy, p); hs := storeHooks[p]; delete(storeHooks, p); l.mu.Unlock()
                        ⟨yield 5⟩ p.AddExitHook(func{ l.Delete(p) })
                        hs.Store(v); return v
    AddStoreHook(p, h): l.mu.Lock(); if v, ok := eager[p]; ok { l.mu.Unlock(); h.Store(v); l.mu.Lock(); l.mu.Unlock(); return true }
                        if h ∈ storeHooks[p] { unlock; return false }; storeHooks[p] = append(storeHooks[p], h); unlock; return true
    Close():            l.mu.Lock(); eager, lazy, storeHooks = fresh maps; l.mu.Unlock()

    p.AddExitHook(h):   p.mu.Lock(); if terminated { p.mu.Unlock(); h.Exit(err); return false }   -- the hook runs NOW, on the caller
                        exitHooks = append(exitHooks, h); p.mu.Unlock(); return true
    p.Exit(err):        p.mu.Lock(); hs := exitHooks; if !terminated { terminated = true; exitHooks = nil }; p.mu.Unlock()
                        for i := len(hs)-1 .. 0 { hs[i].Exit(err) }

Model. Threads (`Tid → Pc`) carry a program counter; every `Lock`, every critical section
(with its `Unlock`), every gap between two critical sections, the acquire / compute / release of
`lazy.Do`, and every call-out is a separate atomic step, so each interleaving the Go code allows is
a schedule (`List Act`). `l.mu` is an explicit mutex with an owner: a thread at `want c` can only
move when `mu = none`, so a self-deadlock is a reachable *stuck* state, not something stepped over.
The read sections (`RLock; read; RUnlock`) contain no blocking operation and are one atomic step
enabled when no writer holds `l.mu`. `p.mu` is held only for the straight-line critical sections of
`AddExitHook` / `Exit` and never while waiting for anything, so each of those is one atomic step.
Maps are functions with update. The exit hooks of a process are a list of kinds in *run order*
(newest first): `del` = "l.Delete(p)" registered by this Local, `park` = a foreign hook that does
not touch the Local (the harness parks the exiting goroutine inside it).

`pinned = true` selects the pre-fix `Store`, which calls `AddExitHook` while still holding
`l.mu` (pcs `pinAdd` / `pinRest` / `pinDel`); it is kept to prove the deadlock of the pinned tree.

Ghost state: `created p` (lazy objects created for p), `inits p` (initialiser runs),
`deletes p` (Delete / exit-hook Delete that removed a value, Close that removed a value or a
pending lazy), `hookLog` (store-hook calls in order).

Assumptions (modelled, not verified): user call-outs (initialiser, store hooks, foreign exit
hooks) terminate. They MAY call back into the same Local or exit the process: the model runs them
with no lock of the Local held (`C05.hooks_run_unlocked`; source tie `C05.local_calls_out_unlocked`), so
what a hook does is a sequence of ordinary steps of the machine (of a helper thread, while the calling
thread sits at `cb` / `ashCb` / `lzFn`) and is covered by the all-schedules theorems – except that an
initialiser runs under its own lazy object's mutex, so an initialiser that calls `LoadOrStore` for the
same process waits for itself (as `sync.Once` would); Go's mutexes are fair enough that an
enabled thread is eventually scheduled (only deadlock-freedom is proved, not fairness).
-/
namespace Uniflow.Local

abbrev Tid := Nat
abbrev Pid := Nat
abbrev Lid := Nat
abbrev Hid := Nat
abbrev Val := Nat

def upd {β : Type} (f : Nat → β) (k : Nat) (v : β) : Nat → β := fun i => if i = k then v else f i

/-- Kinds of exit hooks. -/
inductive HK where
  | del    -- `func(error){ l.Delete(p) }`, registered by Store / LoadOrStore
  | park   -- a foreign hook (harness-owned), does not touch the Local
  deriving DecidableEq, Repr

/-- What follows a `Delete` critical section. -/
inductive Kont where
  | ret                              -- `Local.Delete` called directly: return ok
  | cb (hs : List Hid) (x : Val)     -- hook run at once by `AddExitHook`: go on with the store hooks
  | exit (rest : List HK)            -- hook run by `Exit`: go on with the remaining hooks
  deriving DecidableEq, Repr

/-- Critical sections under `l.mu.Lock()`. -/
inductive Crit where
  | store (p : Pid) (v : Val)
  | del (p : Pid) (k : Kont)
  | los2 (p : Pid) (v : Val) (fails : Bool)   -- second look + fetch/create the lazy
  | los3 (p : Pid) (x : Val)                  -- publish the computed value
  | ash (p : Pid) (h : Hid)
  | ashRe                                     -- the deferred re-Lock / Unlock of AddStoreHook
  | close
  deriving DecidableEq, Repr

/-- Read sections under `l.mu.RLock()`. -/
inductive Rd where
  | load (p : Pid)
  | keys
  | los1 (p : Pid) (v : Val) (fails : Bool)
  deriving DecidableEq, Repr

inductive Pc where
  | idle
  | want (c : Crit)                                  -- about to `l.mu.Lock()`
  | hold (c : Crit)                                  -- holds `l.mu`, about to run the section and unlock
  | rd (r : Rd)                                      -- about to `RLock; read; RUnlock`
  | gap (site : Nat) (p : Pid) (hs : List Hid) (x : Val)   -- unlocked, about to `p.AddExitHook(delete p)`
  | lzWant (p : Pid) (L : Lid)                       -- about to `fn.Do()`: `fn.mu.Lock()`
  | lzFn (p : Pid) (L : Lid)                         -- holds `fn.mu`, inside the initialiser
  | lzRel (p : Pid) (L : Lid)                        -- holds `fn.mu`, about to unlock and return
  | cb (hs : List Hid) (x : Val)                     -- about to run the fetched store hooks, then return
  | ashCb (h : Hid) (x : Val)                        -- AddStoreHook: unlocked, about to call `h.Store(x)`
  | exitFlip (p : Pid)                               -- `Exit`: about to take `p.mu` and flip the status
  | exitRun (p : Pid) (hs : List HK)                 -- `Exit` / immediate hook: hooks still to run
  | addHk (p : Pid)                                  -- about to `p.AddExitHook(park hook)`
  | pinAdd (p : Pid) (v : Val)                       -- pinned Store: holds `l.mu`, about to AddExitHook
  | pinRest (p : Pid) (v : Val)                      -- pinned Store: holds `l.mu`, hook registered
  | pinDel (p : Pid) (v : Val)                       -- pinned Store: holds `l.mu`, inside the hook: `l.mu.Lock()`
  deriving DecidableEq, Repr

structure LazyObj where
  proc : Pid
  val : Val
  fails : Bool
  done : Bool
  owner : Option Tid
  deriving DecidableEq, Repr

structure State where
  thr : Tid → Pc
  mu : Option Tid
  eager : Pid → Option Val
  lazy : Pid → Option Lid
  shooks : Pid → List Hid
  lz : Lid → LazyObj
  nlz : Nat
  term : Pid → Bool
  hooks : Pid → List HK
  created : Pid → Nat
  inits : Pid → Nat
  deletes : Pid → Nat
  hookLog : List (Hid × Val)

def init : State :=
  { thr := fun _ => .idle, mu := none, eager := fun _ => none, lazy := fun _ => none,
    shooks := fun _ => [], lz := fun _ => ⟨0, 0, false, false, none⟩, nlz := 0,
    term := fun _ => false, hooks := fun _ => [], created := fun _ => 0, inits := fun _ => 0,
    deletes := fun _ => 0, hookLog := [] }

/-- What a step shows to the caller of the operation. -/
inductive Ev where
  | tau
  | unit                      -- Store / Close / Exit / AddExitHook returned
  | val (o : Option Val)      -- Load: (v, ok); LoadOrStore: value or error
  | bool (b : Bool)           -- Delete / AddStoreHook
  | keys                      -- Keys returned (the set is read off the state)
  deriving DecidableEq, Repr

inductive Call where
  | store (p : Pid) (v : Val)
  | load (p : Pid)
  | keys
  | loadOrStore (p : Pid) (v : Val) (fails : Bool)
  | delete (p : Pid)
  | addStoreHook (p : Pid) (h : Hid)
  | close
  | exit (p : Pid)
  | addExitHook (p : Pid)     -- a foreign (parking) exit hook
  deriving DecidableEq, Repr

def Call.entry : Call → Pc
  | .store p v => .want (.store p v)
  | .load p => .rd (.load p)
  | .keys => .rd .keys
  | .loadOrStore p v f => .rd (.los1 p v f)
  | .delete p => .want (.del p .ret)
  | .addStoreHook p h => .want (.ash p h)
  | .close => .want .close
  | .exit p => .exitFlip p
  | .addExitHook p => .addHk p

/-- Where a thread goes after a `Delete` section. -/
def Kont.next (p : Pid) (ok : Bool) : Kont → Pc × Ev
  | .ret => (.idle, .bool ok)
  | .cb hs x => (.cb hs x, .tau)
  | .exit rest => (.exitRun p rest, .tau)

/-- The critical section `c` run by thread `t` (which holds `l.mu`), including the `Unlock`. -/
def crit (pinned : Bool) (s : State) (t : Tid) : Crit → State × Ev
  | .store p v =>
    let ok := (s.eager p).isSome
    if pinned && !ok then
      -- pre-fix code: `AddExitHook` is called before the store hooks are fetched and before Unlock
      ({ s with eager := upd s.eager p (some v), thr := upd s.thr t (.pinAdd p v) }, .tau)
    else
      ({ s with eager := upd s.eager p (some v), shooks := upd s.shooks p [], mu := none,
                thr := upd s.thr t (if ok then .cb (s.shooks p) v else .gap 1 p (s.shooks p) v) }, .tau)
  | .del p k =>
    let ok := (s.eager p).isSome
    ({ s with eager := upd s.eager p none, shooks := upd s.shooks p [], mu := none,
              deletes := upd s.deletes p (s.deletes p + (if ok then 1 else 0)),
              thr := upd s.thr t (k.next p ok).1 }, (k.next p ok).2)
  | .los2 p v f =>
    match s.eager p with
    | some x => ({ s with mu := none, thr := upd s.thr t .idle }, .val (some x))
    | none =>
      match s.lazy p with
      | some L => ({ s with mu := none, thr := upd s.thr t (.lzWant p L) }, .tau)
      | none =>
        ({ s with lazy := upd s.lazy p (some s.nlz), lz := upd s.lz s.nlz ⟨p, v, f, false, none⟩,
                  nlz := s.nlz + 1, created := upd s.created p (s.created p + 1), mu := none,
                  thr := upd s.thr t (.lzWant p s.nlz) }, .tau)
  | .los3 p x =>
    ({ s with eager := upd s.eager p (some x), lazy := upd s.lazy p none, shooks := upd s.shooks p [],
              mu := none, thr := upd s.thr t (.gap 5 p (s.shooks p) x) }, .tau)
  | .ash p h =>
    match s.eager p with
    | some x => ({ s with mu := none, thr := upd s.thr t (.ashCb h x) }, .tau)
    | none =>
      if h ∈ s.shooks p then ({ s with mu := none, thr := upd s.thr t .idle }, .bool false)
      else ({ s with shooks := upd s.shooks p (s.shooks p ++ [h]), mu := none, thr := upd s.thr t .idle }, .bool true)
  | .ashRe => ({ s with mu := none, thr := upd s.thr t .idle }, .bool true)
  | .close =>
    ({ s with eager := fun _ => none, lazy := fun _ => none, shooks := fun _ => [], mu := none,
              deletes := fun p => s.deletes p + (if (s.eager p).isSome || (s.lazy p).isSome then 1 else 0),
              thr := upd s.thr t .idle }, .unit)

/-- A read section. -/
def rdStep (s : State) (t : Tid) : Rd → State × Ev
  | .load p => ({ s with thr := upd s.thr t .idle }, .val (s.eager p))
  | .keys => ({ s with thr := upd s.thr t .idle }, .keys)
  | .los1 p v f =>
    match s.eager p with
    | some x => ({ s with thr := upd s.thr t .idle }, .val (some x))
    | none => ({ s with thr := upd s.thr t (.want (.los2 p v f)) }, .tau)

/-- One atomic step of thread `t`; `none` when `t` is idle or blocked. -/
def step (pinned : Bool) (s : State) (t : Tid) : Option (State × Ev) :=
  match s.thr t with
  | .idle => none
  | .want c =>
    if s.mu = none then some ({ s with mu := some t, thr := upd s.thr t (.hold c) }, .tau) else none
  | .hold c => some (crit pinned s t c)
  | .rd r => if s.mu = none then some (rdStep s t r) else none
  | .gap _ p hs x =>
    -- `p.AddExitHook(delete p)`: one atomic section under `p.mu`
    if s.term p then some ({ s with thr := upd s.thr t (.want (.del p (.cb hs x))) }, .tau)
    else some ({ s with hooks := upd s.hooks p (.del :: s.hooks p), thr := upd s.thr t (.cb hs x) }, .tau)
  | .lzWant p L =>
    if (s.lz L).owner = none then
      some ({ s with lz := upd s.lz L { s.lz L with owner := some t },
                     thr := upd s.thr t (if (s.lz L).done then .lzRel p L else .lzFn p L) }, .tau)
    else none
  | .lzFn p L =>
    some ({ s with lz := upd s.lz L { s.lz L with done := true }, inits := upd s.inits p (s.inits p + 1),
                   thr := upd s.thr t (.lzRel p L) }, .tau)
  | .lzRel p L =>
    if (s.lz L).fails then
      some ({ s with lz := upd s.lz L { s.lz L with owner := none }, thr := upd s.thr t .idle }, .val none)
    else
      some ({ s with lz := upd s.lz L { s.lz L with owner := none },
                     thr := upd s.thr t (.want (.los3 p (s.lz L).val)) }, .tau)
  | .cb hs x => some ({ s with hookLog := s.hookLog ++ hs.map (fun h => (h, x)), thr := upd s.thr t .idle }, .val (some x))
  | .ashCb h x => some ({ s with hookLog := s.hookLog ++ [(h, x)], thr := upd s.thr t (.want .ashRe) }, .tau)
  | .exitFlip p =>
    if s.term p then some ({ s with thr := upd s.thr t (.exitRun p []) }, .tau)
    else some ({ s with term := upd s.term p true, hooks := upd s.hooks p [],
                        thr := upd s.thr t (.exitRun p (s.hooks p)) }, .tau)
  | .exitRun _ [] => some ({ s with thr := upd s.thr t .idle }, .unit)
  | .exitRun p (.del :: rest) => some ({ s with thr := upd s.thr t (.want (.del p (.exit rest))) }, .tau)
  | .exitRun p (.park :: rest) => some ({ s with thr := upd s.thr t (.exitRun p rest) }, .tau)
  | .addHk p =>
    if s.term p then some ({ s with thr := upd s.thr t (.exitRun p [.park]) }, .tau)
    else some ({ s with hooks := upd s.hooks p (.park :: s.hooks p), thr := upd s.thr t .idle }, .unit)
  | .pinAdd p v =>
    if pinned then
      if s.term p then some ({ s with thr := upd s.thr t (.pinDel p v) }, .tau)
      else some ({ s with hooks := upd s.hooks p (.del :: s.hooks p), thr := upd s.thr t (.pinRest p v) }, .tau)
    else none
  | .pinRest p v =>
    if pinned then
      some ({ s with shooks := upd s.shooks p [], mu := none, thr := upd s.thr t (.cb (s.shooks p) v) }, .tau)
    else none
  | .pinDel _ _ => none   -- `l.mu.Lock()` by the thread that holds `l.mu`: sync.Mutex is not reentrant

/-- Scheduler choices. -/
inductive Act where
  | call (t : Tid) (c : Call)   -- idle thread `t` begins operation `c` (ignored when `t` is busy)
  | step (t : Tid)              -- thread `t` takes its next atomic step (ignored when not enabled)
  deriving DecidableEq, Repr

def apply (pinned : Bool) (s : State) : Act → State
  | .call t c => if s.thr t = .idle then { s with thr := upd s.thr t c.entry } else s
  | .step t => match step pinned s t with
    | some (s', _) => s'
    | none => s

def run (pinned : Bool) (s : State) : List Act → State
  | [] => s
  | a :: as => run pinned (apply pinned s a) as

def enabled (pinned : Bool) (s : State) (t : Tid) : Bool := (step pinned s t).isSome

/-! ### Macro steps (yield-point granularity), used by the driver -/

/-- Store hooks with an id from here on are *re-entrant* hooks of the harness: called by
`AddStoreHook` (value already present) they park (yield site 8) and, while parked INSIDE the hook,
perform further operations on the same Local or `Exit` the process on the same goroutine. In the
model the hook runs with every lock of the Local released (`C05.hooks_run_unlocked`), so what the
goroutine does inside the hook is what any other thread could do while this one is parked at
`ashCb`: the driver runs the inner operation on a helper thread (`runInner`). -/
def reentrantHook : Hid := 100

/-- The yield point a thread is parked at, if any. -/
def yieldSite : Pc → Option Nat
  | .gap site _ _ _ => some site
  | .want (.los2 _ _ _) => some 2
  | .lzWant _ _ => some 3
  | .want (.los3 _ _) => some 4
  | .lzFn _ _ => some 6
  | .exitRun _ (.park :: _) => some 7
  | .ashCb h _ => if reentrantHook ≤ h then some 8 else none   -- inside a re-entrant store hook of AddStoreHook
  | _ => none

inductive Macro where
  | parked (site : Nat)
  | ret (e : Ev)
  | blocked
  deriving DecidableEq, Repr

/-- Let thread `t` run until it is parked at a yield point, has returned, or is blocked. -/
def advance (pinned : Bool) : Nat → State → Tid → Ev → State × Macro
  | 0, s, _, _ => (s, .blocked)
  | fuel + 1, s, t, last =>
    if s.thr t = .idle then (s, .ret last)
    else match yieldSite (s.thr t) with
      | some site => (s, .parked site)
      | none =>
        match step pinned s t with
        | none => (s, .blocked)
        | some (s', e) => advance pinned fuel s' t (if e = .tau then last else e)

/-- Release thread `t` from its yield point: one step, then `advance`. -/
def release (pinned : Bool) (fuel : Nat) (s : State) (t : Tid) : State × Macro :=
  match step pinned s t with
  | none => (s, .blocked)
  | some (s', e) => advance pinned fuel s' t e

/-- An operation performed inside a call-out (no yield points honoured): helper thread `t'` runs
the call to completion. `none` when it cannot finish (blocked). -/
def runInner (pinned : Bool) : Nat → State → Tid → Ev → Option (State × Ev)
  | 0, _, _, _ => none
  | fuel + 1, s, t, last =>
    if s.thr t = .idle then some (s, last)
    else match step pinned s t with
      | none => none
      | some (s', e) => runInner pinned fuel s' t (if e = .tau then last else e)

/-! ### Observations over the first `n` processes -/

def keysBelow (s : State) (n : Nat) : List Pid := (List.range n).filter (fun p => (s.eager p).isSome)
def lazyBelow (s : State) (n : Nat) : List Pid := (List.range n).filter (fun p => (s.lazy p).isSome)
def shooksBelow (s : State) (n : Nat) : List Pid := (List.range n).filter (fun p => !(s.shooks p).isEmpty)

end Uniflow.Local
