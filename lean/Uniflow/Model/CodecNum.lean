/-
Pure conversions used by the codec's JSON path (Model/Codec.lean, Model/CodecJSON.lean):
float64 bit patterns ↔ integers, standard base64, UTF-8 validity. Core Lean only.

* `f64OfInt n`   the float64 a JSON integer literal is read as (`encoding/json` into `any`): exact when the integer
                 is representable (always for |n| ≤ 2^53), `none` otherwise (Go rounds; outside the stated guard).
* `intOfF64 b`   `int64(f)` for a finite float64: truncation toward zero (`none` for NaN / ±Inf, whose conversion is
                 implementation defined).
* `b64enc/b64dec` `base64.StdEncoding` (the text form of `Binary`; line breaks, which Go's decoder skips, are not modelled).
* `validUTF8`    what `encoding/json` writes unchanged (invalid bytes are replaced by U+FFFD).
-/
namespace Uniflow.Codec

abbrev Bytes' := List Nat

/-! ## float64 ↔ integer -/

def f64OfNat (n : Nat) : Option Nat :=
  if n = 0 then some 0
  else
    let e := Nat.log2 n
    if e ≤ 52 then some ((e + 1023) * 4503599627370496 + (n * 2 ^ (52 - e) - 4503599627370496))
    else if n % 2 ^ (e - 52) = 0 then some ((e + 1023) * 4503599627370496 + (n / 2 ^ (e - 52) - 4503599627370496))
    else none

def f64OfInt (v : Int) : Option Nat :=
  if 0 ≤ v then f64OfNat v.toNat else (f64OfNat (-v).toNat).map (· + 9223372036854775808)

/-- magnitude of a finite float64, truncated -/
def magOfF64 (b : Nat) : Option Nat :=
  let ex := (b / 4503599627370496) % 2048
  let m := b % 4503599627370496
  if ex = 2047 then none
  else if ex < 1023 then some 0
  else
    let e := ex - 1023
    if e ≥ 52 then some ((4503599627370496 + m) * 2 ^ (e - 52)) else some ((4503599627370496 + m) / 2 ^ (52 - e))

def intOfF64 (b : Nat) : Option Int :=
  (magOfF64 b).map fun mag => if (b / 9223372036854775808) % 2 = 1 then -(mag : Int) else (mag : Int)

/-- finite: neither NaN nor ±Inf -/
def finite64 (b : Nat) : Bool := (b / 4503599627370496) % 2048 != 2047

/-! ## base64 (standard alphabet, padded) -/

def b64chr (n : Nat) : Nat :=
  if n < 26 then 65 + n else if n < 52 then 71 + n else if n < 62 then n - 4 else if n = 62 then 43 else 47

def b64val (c : Nat) : Option Nat :=
  if 65 ≤ c ∧ c ≤ 90 then some (c - 65)
  else if 97 ≤ c ∧ c ≤ 122 then some (c - 71)
  else if 48 ≤ c ∧ c ≤ 57 then some (c + 4)
  else if c = 43 then some 62
  else if c = 47 then some 63
  else none

def b64enc : List Nat → List Nat
  | [] => []
  | [a] => [b64chr (a / 4), b64chr (a % 4 * 16), 61, 61]
  | [a, b] => [b64chr (a / 4), b64chr (a % 4 * 16 + b / 16), b64chr (b % 16 * 4), 61]
  | a :: b :: c :: rest =>
    b64chr (a / 4) :: b64chr (a % 4 * 16 + b / 16) :: b64chr (b % 16 * 4 + c / 64) :: b64chr (c % 64) :: b64enc rest

def b64dec : List Nat → Option (List Nat)
  | [] => some []
  | c0 :: c1 :: c2 :: c3 :: rest =>
    if rest = [] ∧ c3 = 61 then
      if c2 = 61 then
        match b64val c0, b64val c1 with
        | some v0, some v1 => some [v0 * 4 + v1 / 16]
        | _, _ => none
      else
        match b64val c0, b64val c1, b64val c2 with
        | some v0, some v1, some v2 => some [v0 * 4 + v1 / 16, v1 % 16 * 16 + v2 / 4]
        | _, _, _ => none
    else
      match b64val c0, b64val c1, b64val c2, b64val c3, b64dec rest with
      | some v0, some v1, some v2, some v3, some bs =>
        some ((v0 * 4 + v1 / 16) :: (v1 % 16 * 16 + v2 / 4) :: (v2 % 4 * 64 + v3) :: bs)
      | _, _, _, _, _ => none
  | _ => none

/-! ## UTF-8 -/

def cont (b : Nat) : Bool := 128 ≤ b && b ≤ 191

def validUTF8 : List Nat → Bool
  | [] => true
  | b :: rest =>
    if b < 128 then validUTF8 rest
    else if 194 ≤ b ∧ b ≤ 223 then
      match rest with
      | c :: r => cont c && validUTF8 r
      | _ => false
    else if 224 ≤ b ∧ b ≤ 239 then
      match rest with
      | c :: d :: r =>
        cont c && cont d && (b != 224 || 160 ≤ c) && (b != 237 || c ≤ 159) && validUTF8 r
      | _ => false
    else if 240 ≤ b ∧ b ≤ 244 then
      match rest with
      | c :: d :: e :: r =>
        cont c && cont d && cont e && (b != 240 || 144 ≤ c) && (b != 244 || c ≤ 143) && validUTF8 r
      | _ => false
    else false

end Uniflow.Codec
