/-
Model of uniflow's persistent maps (pkg/types/map.go: `immutableMap`, `mutableMap`) for C15, after the
repair 8820110 (`mutableMap.Set` writes the overwritten value into the *copied* bucket).

Go data                                              | here
-----------------------------------------------------|-------------------------------------------------
`value map[uint64][][2]Value` (one Go map object)    | a `Table`: association list `hash ↦ bucket`, at most one entry per hash;
                                                     | tables live in `Heap.tables` and are addressed by their index, because
                                                     | a `mutableMap` and the `immutableMap` made by `Immutable()` hold the
                                                     | *same* Go map, and `m.value[hash] = …` updates it in place
a bucket `[][2]Value` sorted by `Compare` of the keys | `Bucket := List (Val × Val)`
`*mutableMap` (field `value` is re-assigned by Clear) | an index into `Heap.objs`, which holds the address of its current table
`*immutableMap`                                      | `Handle.imm t` – the address of its table (its `value` field never changes)

Simplification (stated, deliberate): bucket arrays are stored **by value** inside the table entries instead of in a
third heap of bucket arrays. In the fixed code a bucket array is never written after it has been installed
(`Set` and `Delete` always build a fresh `modify` array), so sharing of bucket arrays between tables is not
observable; the table level, where in-place writes do happen and where `immutableMap.mutable()` must copy, is
modelled with addresses, so "forgot to copy the table" / "wrote through an alias" bugs can exist in this model.
(The pinned bug – a write into a shared bucket array – is by construction not expressible; it is covered by
the harness oracle and the corpus witness.)

Each function follows the Go method of the same name; `search` is the binary-search loop that `Has`, `Get`,
`Set` and `Delete` each spell out. Where Go would index out of range the model answers `SR.panic`
(`Props/C15.lean` proves it unreachable).
-/
import Uniflow.Model.Value

namespace Uniflow.MapHeap
open Uniflow.Value

abbrev Bucket := List (Val × Val)
abbrev Table := List (UInt64 × Bucket)

/-! ## Binary search in a bucket -/

inductive SR
  | found (i : Nat) (p : Val × Val)   -- `diff == 0` at index `i`
  | absent (lo : Nat)                 -- loop ended; `lo` is Go's `low` (the insertion point)
  | panic                             -- index out of range (unreachable)
  deriving Inhabited

/-- The loop `for low <= high { mid := low + (high-low)/2; diff := Compare(bucket[mid][0], key); … }` with
`hi = high + 1` (so that `high = mid - 1` never goes below zero in `Nat`). `fuel` bounds the iterations. -/
def bsearch (b : Bucket) (key : Val) : Nat → Nat → Nat → SR
  | 0, lo, _ => .absent lo
  | fuel + 1, lo, hi =>
    if lo < hi then
      let mid := lo + (hi - 1 - lo) / 2
      match b[mid]? with
      | none => .panic
      | some p =>
        let d := cmp p.1 key
        if d = 0 then .found mid p
        else if d < 0 then bsearch b key fuel (mid + 1) hi
        else bsearch b key fuel lo mid
    else .absent lo

/-- `low, high := 0, len(bucket)-1` and the loop; the interval shrinks every round, `length + 1` rounds suffice. -/
def search (b : Bucket) (key : Val) : SR := bsearch b key (b.length + 1) 0 b.length

/-! ## One Go map `hash ↦ bucket` -/

/-- `m.value[hash] = bucket` -/
def put : Table → UInt64 → Bucket → Table
  | [], h, b => [(h, b)]
  | (h', b') :: t, h, b => if h' = h then (h, b) :: t else (h', b') :: put t h b

/-- `delete(m.value, hash)` -/
def erase : Table → UInt64 → Table
  | [], _ => []
  | (h', b') :: t, h => if h' = h then t else (h', b') :: erase t h

/-- `bucket, ok := m.value[hash]` -/
def bucketOf : Table → UInt64 → Option Bucket
  | [], _ => none
  | (h', b') :: t, h => if h' = h then some b' else bucketOf t h

/-- result of a lookup: `hit v` (key present, `v` may be `Val.nil`), `miss`, or `panic` -/
inductive Look
  | hit (v : Val) | miss | panic
  deriving Inhabited

/-- `immutableMap.Get` / `Has` (they run the same search; `Get` returns nil on a miss) -/
def tLook (t : Table) (key : Val) : Look :=
  match bucketOf t (hash key) with
  | none => .miss
  | some b =>
    match search b key with
    | .found _ p => .hit p.2
    | .absent _ => .miss
    | .panic => .panic

/-- `mutableMap.Set` (fixed): overwrite in a copy of the bucket keeping the stored key, or insert at `low`. -/
def tSet (t : Table) (key val : Val) : Option Table :=
  let h := hash key
  let b := (bucketOf t h).getD []
  match search b key with
  | .found i p => some (put t h (b.take i ++ (p.1, val) :: b.drop (i + 1)))
  | .absent lo => some (put t h (b.take lo ++ (key, val) :: b.drop lo))
  | .panic => none

/-- `mutableMap.Delete` -/
def tDelete (t : Table) (key : Val) : Option Table :=
  let h := hash key
  match bucketOf t h with
  | none => some t
  | some b =>
    match search b key with
    | .found i _ =>
      let b' := b.take i ++ b.drop (i + 1)
      if b'.length > 0 then some (put t h b') else some (erase t h)
    | .absent _ => some t
    | .panic => none

/-- `Len`: sum of the bucket lengths -/
def tLen : Table → Nat
  | [] => 0
  | (_, b) :: t => b.length + tLen t

/-- insert an entry into a list sorted by hash (`slices.Sort(keys)` of `Range`/`Hash`) -/
def insertByHash (e : UInt64 × Bucket) : Table → Table
  | [] => [e]
  | e' :: t => if e.1 ≤ e'.1 then e :: e' :: t else e' :: insertByHash e t

def sortByHash : Table → Table
  | [] => []
  | e :: t => insertByHash e (sortByHash t)

/-- all pairs, bucket by bucket in table order (what `Keys/Values/Pairs` walk, in Go's random map order) -/
def tPairs : Table → List (Val × Val)
  | [] => []
  | (_, b) :: t => b ++ tPairs t

/-- `Range`: buckets in ascending hash order, each bucket in its own order -/
def tRange (t : Table) : List (Val × Val) := tPairs (sortByHash t)

/-- the map as a `Val` (pairs in `Range` order) – ties this model to `Model/Value.lean` -/
def tVal (t : Table) : Val := .map (PList.ofList (tRange t))

/-! ## Heap, handles, operations -/

structure Heap where
  tables : List Table := []
  objs : List Nat := []       -- mutableMap objects: address of the table in their `value` field

inductive Handle
  | imm (t : Nat)
  | mut (o : Nat)
  deriving DecidableEq, Repr

def Heap.allocTable (hp : Heap) (t : Table) : Heap × Nat :=
  ({ hp with tables := hp.tables ++ [t] }, hp.tables.length)

def Heap.allocObj (hp : Heap) (t : Nat) : Heap × Nat :=
  ({ hp with objs := hp.objs ++ [t] }, hp.objs.length)

/-- address of the table a handle reads -/
def Heap.addrOf (hp : Heap) : Handle → Option Nat
  | .imm t => if t < hp.tables.length then some t else none
  | .mut o => hp.objs[o]?

def Heap.tableOf (hp : Heap) (h : Handle) : Option Table :=
  (hp.addrOf h).bind fun a => hp.tables[a]?

/-- in-place write of the Go map at address `a` -/
def Heap.write (hp : Heap) (a : Nat) (t : Table) : Heap := { hp with tables := hp.tables.set a t }

/-- outcome of a handle-returning method: the heap afterwards, the returned map, whether it *is* the receiver -/
inductive Res
  | ok (hp : Heap) (h : Handle) (same : Bool)
  | panic
  | bad           -- dangling handle (never produced by the driver)

/-- `NewMapWithSize(n)`: a fresh mutable map -/
def Heap.newMut (hp : Heap) : Heap × Handle :=
  let (hp1, t) := hp.allocTable []
  let (hp2, o) := hp1.allocObj t
  (hp2, .mut o)

/-- `NewMap()`: `NewMapWithSize(0).Immutable()` -/
def Heap.newImm (hp : Heap) : Heap × Handle :=
  let (hp1, t) := hp.allocTable []
  let (hp2, _) := hp1.allocObj t
  (hp2, .imm t)

/-- `immutableMap.mutable()`: a new Go map with the same entries (buckets shared), wrapped in a new object -/
def Heap.copyTable (hp : Heap) (t : Table) : Heap × Nat := hp.allocTable t

def Heap.set (hp : Heap) (h : Handle) (key val : Val) : Res :=
  match h, hp.tableOf h, hp.addrOf h with
  | .imm _, some t, some _ =>
    -- `if m.Has(key) && Equal(m.Get(key), val) { return m }`
    match tLook t key with
    | .panic => .panic
    | .hit v =>
      if equal v val then .ok hp h true
      else
        let (hp1, a') := hp.copyTable t                     -- m.mutable()
        match tSet t key val with
        | some t' => .ok (hp1.write a' t') (.imm a') false  -- .Set(key, val).Immutable()
        | none => .panic
    | .miss =>
      let (hp1, a') := hp.copyTable t
      match tSet t key val with
      | some t' => .ok (hp1.write a' t') (.imm a') false
      | none => .panic
  | .mut _, some t, some a =>
    match tSet t key val with
    | some t' => .ok (hp.write a t') h true
    | none => .panic
  | _, _, _ => .bad

def Heap.delete (hp : Heap) (h : Handle) (key : Val) : Res :=
  match h, hp.tableOf h, hp.addrOf h with
  | .imm _, some t, some _ =>
    -- `if !m.Has(key) { return m }`
    match tLook t key with
    | .panic => .panic
    | .miss => .ok hp h true
    | .hit _ =>
      let (hp1, a') := hp.copyTable t
      match tDelete t key with
      | some t' => .ok (hp1.write a' t') (.imm a') false
      | none => .panic
  | .mut _, some t, some a =>
    match tDelete t key with
    | some t' => .ok (hp.write a t') h true
    | none => .panic
  | _, _, _ => .bad

def Heap.clear (hp : Heap) (h : Handle) : Res :=
  match h, hp.addrOf h with
  | .imm _, some _ =>
    let (hp1, a') := hp.allocTable []         -- `&immutableMap{value: make(...)}`
    .ok hp1 (.imm a') false
  | .mut o, some _ =>
    let (hp1, a') := hp.allocTable []         -- `m.value = make(...)`: the object now holds a new Go map
    .ok { hp1 with objs := hp1.objs.set o a' } h true
  | _, _ => .bad

def Heap.mutable (hp : Heap) (h : Handle) : Res :=
  match h, hp.tableOf h with
  | .imm _, some t =>
    let (hp1, a') := hp.copyTable t
    let (hp2, o) := hp1.allocObj a'
    .ok hp2 (.mut o) false
  | .mut _, some _ => .ok hp h true
  | _, _ => .bad

def Heap.immutable (hp : Heap) (h : Handle) : Res :=
  match h, hp.addrOf h with
  | .imm _, some _ => .ok hp h true
  | .mut _, some a => .ok hp (.imm a) false   -- `&immutableMap{value: m.value}`: the *same* Go map
  | _, _ => .bad

end Uniflow.MapHeap

/-! ## Programs over derived handles (used by `snapshot_stable`) -/

namespace Uniflow.MapHeap
open Uniflow.Value

inductive Op
  | set (k v : Val) | delete (k : Val) | clear | mutable | immutable

def Heap.apply (hp : Heap) (h : Handle) : Op → Res
  | .set k v => hp.set h k v
  | .delete k => hp.delete h k
  | .clear => hp.clear h
  | .mutable => hp.mutable h
  | .immutable => hp.immutable h

/-- Run a program on the handles *derived from* the initial ones: each step names an already derived handle by its
index and an operation; the returned map joins the derived handles. Steps naming no handle, and steps that do not
return (panic – proved unreachable – or dangling), are skipped. -/
def runDerived (hp : Heap) (D : List Handle) : List (Nat × Op) → Heap × List Handle
  | [] => (hp, D)
  | (i, op) :: rest =>
    match D[i]? with
    | none => runDerived hp D rest
    | some h =>
      match hp.apply h op with
      | .ok hp' h' _ => runDerived hp' (D ++ [h']) rest
      | _ => runDerived hp D rest

end Uniflow.MapHeap
