/-
Model of uniflow's persistent maps (pkg/types/map.go: `immutableMap`, `mutableMap`) for C15, after the
repair 8820110 (`mutableMap.Set` writes the overwritten value into the *copied* bucket).

Go data                                              | here
-----------------------------------------------------|-------------------------------------------------
`value map[uint64][][2]Value` (one Go map object)    | a `Table`: association list `hash ↦ bucket`, at most one entry per hash;
                                                     | tables live in `Heap.tables` and are addressed by their index, because
                                                     | a `mutableMap` and the `immutableMap` made by `Immutable()` hold the
                                                     | *same* Go map, and `m.value[hash] = …` updates it in place
a bucket `[][2]Value` sorted by `Compare` of the keys | `Bucket := List (Val × Val)`
`*mutableMap` (field `value` is re-assigned by Clear) | an index into `Heap.objs`, which holds the address of its current table
`*immutableMap`                                      | `Handle.imm t` – the address of its Go map (its `value` field never changes)

Three kinds of heap objects are addressed (section "Heap" below): bucket arrays, Go maps (hash ↦ *reference* to a
bucket array) and mutableMap objects. `immutableMap.mutable()` copies the Go map and shares the bucket arrays, so
both "forgot to copy the Go map / wrote through an alias" and "wrote into a shared bucket array" – the pinned
`Set` bug, `aSetPinned` – are expressible. The by-value `Table` is the *content* of a Go map and the level at
which the dictionary laws are stated.

Each function follows the Go method of the same name; `search` is the binary-search loop that `Has`, `Get`,
`Set` and `Delete` each spell out. Where Go would index out of range the model answers `SR.panic`
(`Props/C15.lean` proves it unreachable).
-/
import Uniflow.Model.Value

namespace Uniflow.MapHeap
open Uniflow.Value

abbrev Bucket := List (Val × Val)
abbrev Table := List (UInt64 × Bucket)

/-! ## Binary search in a bucket -/

inductive SR
  | found (i : Nat) (p : Val × Val)   -- `diff == 0` at index `i`
  | absent (lo : Nat)                 -- loop ended; `lo` is Go's `low` (the insertion point)
  | panic                             -- index out of range (unreachable)
  deriving Inhabited

/-- The loop `for low <= high { mid := low + (high-low)/2; diff := Compare(bucket[mid][0], key); … }` with
`hi = high + 1` (so that `high = mid - 1` never goes below zero in `Nat`). `fuel` bounds the iterations. -/
def bsearch (b : Bucket) (key : Val) : Nat → Nat → Nat → SR
  | 0, lo, _ => .absent lo
  | fuel + 1, lo, hi =>
    if lo < hi then
      let mid := lo + (hi - 1 - lo) / 2
      match b[mid]? with
      | none => .panic
      | some p =>
        let d := cmp p.1 key
        if d = 0 then .found mid p
        else if d < 0 then bsearch b key fuel (mid + 1) hi
        else bsearch b key fuel lo mid
    else .absent lo

/-- `low, high := 0, len(bucket)-1` and the loop; the interval shrinks every round, `length + 1` rounds suffice. -/
def search (b : Bucket) (key : Val) : SR := bsearch b key (b.length + 1) 0 b.length

/-! ## One Go map `hash ↦ bucket` -/

/-- `m.value[hash] = bucket` -/
def put {β : Type} : List (UInt64 × β) → UInt64 → β → List (UInt64 × β)
  | [], h, b => [(h, b)]
  | (h', b') :: t, h, b => if h' = h then (h, b) :: t else (h', b') :: put t h b

/-- `delete(m.value, hash)` -/
def erase {β : Type} : List (UInt64 × β) → UInt64 → List (UInt64 × β)
  | [], _ => []
  | (h', b') :: t, h => if h' = h then t else (h', b') :: erase t h

/-- `bucket, ok := m.value[hash]` -/
def bucketOf {β : Type} : List (UInt64 × β) → UInt64 → Option β
  | [], _ => none
  | (h', b') :: t, h => if h' = h then some b' else bucketOf t h

/-- result of a lookup: `hit v` (key present, `v` may be `Val.nil`), `miss`, or `panic` -/
inductive Look
  | hit (v : Val) | miss | panic
  deriving Inhabited

/-- `immutableMap.Get` / `Has` (they run the same search; `Get` returns nil on a miss) -/
def tLook (t : Table) (key : Val) : Look :=
  match bucketOf t (hash key) with
  | none => .miss
  | some b =>
    match search b key with
    | .found _ p => .hit p.2
    | .absent _ => .miss
    | .panic => .panic

/-- `mutableMap.Set` (fixed): overwrite in a copy of the bucket keeping the stored key, or insert at `low`. -/
def tSet (t : Table) (key val : Val) : Option Table :=
  let h := hash key
  let b := (bucketOf t h).getD []
  match search b key with
  | .found i p => some (put t h (b.take i ++ (p.1, val) :: b.drop (i + 1)))
  | .absent lo => some (put t h (b.take lo ++ (key, val) :: b.drop lo))
  | .panic => none

/-- `mutableMap.Delete` -/
def tDelete (t : Table) (key : Val) : Option Table :=
  let h := hash key
  match bucketOf t h with
  | none => some t
  | some b =>
    match search b key with
    | .found i _ =>
      let b' := b.take i ++ b.drop (i + 1)
      if b'.length > 0 then some (put t h b') else some (erase t h)
    | .absent _ => some t
    | .panic => none

/-- `Len`: sum of the bucket lengths -/
def tLen : Table → Nat
  | [] => 0
  | (_, b) :: t => b.length + tLen t

/-- insert an entry into a list sorted by hash (`slices.Sort(keys)` of `Range`/`Hash`) -/
def insertByHash (e : UInt64 × Bucket) : Table → Table
  | [] => [e]
  | e' :: t => if e.1 ≤ e'.1 then e :: e' :: t else e' :: insertByHash e t

def sortByHash : Table → Table
  | [] => []
  | e :: t => insertByHash e (sortByHash t)

/-- all pairs, bucket by bucket in table order (what `Keys/Values/Pairs` walk, in Go's random map order) -/
def tPairs : Table → List (Val × Val)
  | [] => []
  | (_, b) :: t => b ++ tPairs t

/-- `Range`: buckets in ascending hash order, each bucket in its own order -/
def tRange (t : Table) : List (Val × Val) := tPairs (sortByHash t)

/-- the map as a `Val` (pairs in `Range` order) – ties this model to `Model/Value.lean` -/
def tVal (t : Table) : Val := .map (PList.ofList (tRange t))

/-! ## Heap: bucket arrays, Go maps and mutableMap objects are all addressed

`Table` above is the *content* of a Go map (buckets by value); the functions `tLook/tSet/tDelete/…` on it are the
abstract layer the dictionary theorems are about. The heap stores what Go stores: a Go map holds, per hash, a
**reference** to a bucket array (`ATable`), bucket arrays live in `Heap.buckets`, and several Go maps may reference
the same bucket array – `immutableMap.mutable()` copies the map, not the arrays. `resolve` reads a Go map's content
through the bucket heap. `aSet` / `aDelete` are `mutableMap.Set` / `Delete` at this level: they build the new bucket
from the referenced one and **allocate a fresh array** for it (the fixed code); `aSetPinned` is the pinned `Set`,
which on overwrite wrote the new value into the referenced (shared) array and installed a copy of the old content. -/

/-- a Go map `hash ↦ reference to a bucket array` -/
abbrev ATable := List (UInt64 × Nat)

/-- the content of a Go map, read through the bucket heap (`none`: a dangling bucket reference) -/
def resolve (bs : List Bucket) : ATable → Option Table
  | [] => some []
  | (h, a) :: t =>
    match bs[a]?, resolve bs t with
    | some b, some t' => some ((h, b) :: t')
    | _, _ => none

/-- `bucket := m.value[hash]` read through the heap: the nil slice when the hash is absent -/
def curBucket (bs : List Bucket) (t : ATable) (h : UInt64) : Option Bucket :=
  match bucketOf t h with
  | none => some []
  | some a => bs[a]?

/-- `mutableMap.Set` (fixed): the rebuilt bucket goes into a freshly allocated array, the Go map is updated in place. -/
def aSet (bs : List Bucket) (t : ATable) (key val : Val) : Option (List Bucket × ATable) :=
  match curBucket bs t (hash key) with
  | none => none
  | some b =>
    match search b key with
    | .found i p => some (bs ++ [b.take i ++ (p.1, val) :: b.drop (i + 1)], put t (hash key) bs.length)
    | .absent lo => some (bs ++ [b.take lo ++ (key, val) :: b.drop lo], put t (hash key) bs.length)
    | .panic => none

/-- The **pinned** `mutableMap.Set` (before 8820110 / d6edf10): on overwrite `modify := copy(bucket); bucket[mid][1] = val;
m.value[hash] = modify` – the referenced array is written in place and the map gets a copy of the *old* content. -/
def aSetPinned (bs : List Bucket) (t : ATable) (key val : Val) : Option (List Bucket × ATable) :=
  match curBucket bs t (hash key) with
  | none => none
  | some b =>
    match search b key with
    | .found i p =>
      match bucketOf t (hash key) with
      | some a => some (bs.set a (b.take i ++ (p.1, val) :: b.drop (i + 1)) ++ [b], put t (hash key) bs.length)
      | none => none
    | .absent lo => some (bs ++ [b.take lo ++ (key, val) :: b.drop lo], put t (hash key) bs.length)
    | .panic => none

/-- `mutableMap.Delete`: the shortened bucket goes into a fresh array, or the hash is removed from the Go map. -/
def aDelete (bs : List Bucket) (t : ATable) (key : Val) : Option (List Bucket × ATable) :=
  match bucketOf t (hash key) with
  | none => some (bs, t)
  | some a =>
    match bs[a]? with
    | none => none
    | some b =>
      match search b key with
      | .found i _ =>
        let b' := b.take i ++ b.drop (i + 1)
        if b'.length > 0 then some (bs ++ [b'], put t (hash key) bs.length) else some (bs, erase t (hash key))
      | .absent _ => some (bs, t)
      | .panic => none

structure Heap where
  buckets : List Bucket := []   -- bucket arrays
  tables : List ATable := []    -- Go maps
  objs : List Nat := []         -- mutableMap objects: address of the Go map in their `value` field

inductive Handle
  | imm (t : Nat)
  | mut (o : Nat)
  deriving DecidableEq, Repr

def Heap.allocTable (hp : Heap) (t : ATable) : Heap × Nat :=
  ({ hp with tables := hp.tables ++ [t] }, hp.tables.length)

def Heap.allocObj (hp : Heap) (t : Nat) : Heap × Nat :=
  ({ hp with objs := hp.objs ++ [t] }, hp.objs.length)

/-- address of the Go map a handle reads -/
def Heap.addrOf (hp : Heap) : Handle → Option Nat
  | .imm t => if t < hp.tables.length then some t else none
  | .mut o => hp.objs[o]?

/-- the Go map a handle reads -/
def Heap.tableOf (hp : Heap) (h : Handle) : Option ATable :=
  (hp.addrOf h).bind fun a => hp.tables[a]?

/-- the content a handle reads -/
def Heap.content (hp : Heap) (h : Handle) : Option Table :=
  (hp.tableOf h).bind (resolve hp.buckets)

/-- in-place write of the Go map at address `a`, with the bucket heap left by the operation -/
def Heap.write (hp : Heap) (a : Nat) (r : List Bucket × ATable) : Heap :=
  { hp with buckets := r.1, tables := hp.tables.set a r.2 }

/-- outcome of a handle-returning method: the heap afterwards, the returned map, whether it *is* the receiver -/
inductive Res
  | ok (hp : Heap) (h : Handle) (same : Bool)
  | panic
  | bad           -- dangling handle or bucket reference (never produced by the driver)

/-- `NewMapWithSize(n)`: a fresh mutable map -/
def Heap.newMut (hp : Heap) : Heap × Handle :=
  let (hp1, t) := hp.allocTable []
  let (hp2, o) := hp1.allocObj t
  (hp2, .mut o)

/-- `NewMap()`: `NewMapWithSize(0).Immutable()` -/
def Heap.newImm (hp : Heap) : Heap × Handle :=
  let (hp1, t) := hp.allocTable []
  let (hp2, _) := hp1.allocObj t
  (hp2, .imm t)

/-- `immutableMap.mutable()`: a new Go map with the same entries – the bucket arrays are shared, not copied -/
def Heap.copyTable (hp : Heap) (t : ATable) : Heap × Nat := hp.allocTable t

/-- `Set`, parameterised by the `mutableMap.Set` rule (`aSet` = fixed code, `aSetPinned` = pinned code) -/
def Heap.setWith (rule : List Bucket → ATable → Val → Val → Option (List Bucket × ATable))
    (hp : Heap) (h : Handle) (key val : Val) : Res :=
  match h, hp.tableOf h, hp.addrOf h with
  | .imm _, some t, some _ =>
    -- `if m.Has(key) && Equal(m.Get(key), val) { return m }`
    match resolve hp.buckets t with
    | none => .bad
    | some c =>
      match tLook c key with
      | .panic => .panic
      | .hit v =>
        if equal v val then .ok hp h true
        else
          let (hp1, a') := hp.copyTable t                    -- m.mutable()
          match rule hp1.buckets t key val with
          | some r => .ok (hp1.write a' r) (.imm a') false   -- .Set(key, val).Immutable()
          | none => .panic
      | .miss =>
        let (hp1, a') := hp.copyTable t
        match rule hp1.buckets t key val with
        | some r => .ok (hp1.write a' r) (.imm a') false
        | none => .panic
  | .mut _, some t, some a =>
    match rule hp.buckets t key val with
    | some r => .ok (hp.write a r) h true
    | none => .panic
  | _, _, _ => .bad

def Heap.set : Heap → Handle → Val → Val → Res := Heap.setWith aSet

/-- the pinned tree's `Set` -/
def Heap.setPinned : Heap → Handle → Val → Val → Res := Heap.setWith aSetPinned

def Heap.delete (hp : Heap) (h : Handle) (key : Val) : Res :=
  match h, hp.tableOf h, hp.addrOf h with
  | .imm _, some t, some _ =>
    -- `if !m.Has(key) { return m }`
    match resolve hp.buckets t with
    | none => .bad
    | some c =>
      match tLook c key with
      | .panic => .panic
      | .miss => .ok hp h true
      | .hit _ =>
        let (hp1, a') := hp.copyTable t
        match aDelete hp1.buckets t key with
        | some r => .ok (hp1.write a' r) (.imm a') false
        | none => .panic
  | .mut _, some t, some a =>
    match aDelete hp.buckets t key with
    | some r => .ok (hp.write a r) h true
    | none => .panic
  | _, _, _ => .bad

def Heap.clear (hp : Heap) (h : Handle) : Res :=
  match h, hp.addrOf h with
  | .imm _, some _ =>
    let (hp1, a') := hp.allocTable []         -- `&immutableMap{value: make(...)}`
    .ok hp1 (.imm a') false
  | .mut o, some _ =>
    let (hp1, a') := hp.allocTable []         -- `m.value = make(...)`: the object now holds a new Go map
    .ok { hp1 with objs := hp1.objs.set o a' } h true
  | _, _ => .bad

def Heap.mutable (hp : Heap) (h : Handle) : Res :=
  match h, hp.tableOf h with
  | .imm _, some t =>
    let (hp1, a') := hp.copyTable t
    let (hp2, o) := hp1.allocObj a'
    .ok hp2 (.mut o) false
  | .mut _, some _ => .ok hp h true
  | _, _ => .bad

def Heap.immutable (hp : Heap) (h : Handle) : Res :=
  match h, hp.addrOf h with
  | .imm _, some _ => .ok hp h true
  | .mut _, some a => .ok hp (.imm a) false   -- `&immutableMap{value: m.value}`: the *same* Go map
  | _, _ => .bad

/-- does handle `h` read value `v` (up to `Equal`) under key `k`? (a decidable observation for concrete witnesses) -/
def Heap.reads (hp : Heap) (h : Handle) (k v : Val) : Bool :=
  match hp.content h with
  | some c =>
    match tLook c k with
    | .hit x => equal x v
    | _ => false
  | none => false

end Uniflow.MapHeap

/-! ## Programs over derived handles (used by `snapshot_stable`) -/

namespace Uniflow.MapHeap
open Uniflow.Value

inductive Op
  | set (k v : Val) | delete (k : Val) | clear | mutable | immutable

def Heap.apply (hp : Heap) (h : Handle) : Op → Res
  | .set k v => hp.set h k v
  | .delete k => hp.delete h k
  | .clear => hp.clear h
  | .mutable => hp.mutable h
  | .immutable => hp.immutable h

/-- Run a program on the handles *derived from* the initial ones: each step names an already derived handle by its
index and an operation; the returned map joins the derived handles. Steps naming no handle, and steps that do not
return (panic – proved unreachable – or dangling), are skipped. -/
def runDerived (hp : Heap) (D : List Handle) : List (Nat × Op) → Heap × List Handle
  | [] => (hp, D)
  | (i, op) :: rest =>
    match D[i]? with
    | none => runDerived hp D rest
    | some h =>
      match hp.apply h op with
      | .ok hp' h' _ => runDerived hp' (D ++ [h']) rest
      | _ => runDerived hp D rest

end Uniflow.MapHeap

/-! ## Content-level reading of the operations (used by the refinement theorems) -/

namespace Uniflow.MapHeap
open Uniflow.Value

def Handle.isMut : Handle → Bool
  | .mut _ => true
  | .imm _ => false

/-- what the map returned by an operation contains, as a function of what the receiver contains (`isMut`: the receiver is a
mutable map). This is the by-value reading of the Go methods: `immutableMap.Set` returns the receiver when the key is
present with an Equal value, otherwise both kinds of map do `mutableMap.Set`; `Delete` of a missing key changes nothing. -/
def cstep (isMut : Bool) (T : Table) : Op → Option Table
  | .set k v =>
    if isMut then tSet T k v
    else
      match tLook T k with
      | .hit v0 => if equal v0 v then some T else tSet T k v
      | .miss => tSet T k v
      | .panic => none
  | .delete k => tDelete T k
  | .clear => some []
  | .mutable => some T
  | .immutable => some T

/-- kind of the returned map -/
def kindAfter (isMut : Bool) : Op → Bool
  | .mutable => true
  | .immutable => false
  | _ => isMut

/-- apply a history to one map: every operation acts on the map returned by the previous one -/
def runChain (hp : Heap) (h : Handle) : List Op → Option (Heap × Handle)
  | [] => some (hp, h)
  | op :: rest =>
    match hp.apply h op with
    | .ok hp' h' _ => runChain hp' h' rest
    | _ => none

end Uniflow.MapHeap
