/-
Model of uniflow's codec between Go values and `types.Value` documents
(pkg/types/encoding.go and the `newXEncoder` / `newXDecoder` halves of pkg/types/*.go,
pkg/encoding/assembler.go, pkg/spec/encoding.go), **after** the `fix:` commits of C16
(see Props/C16.lean for the list).

## Go side                                                     | here
--------------------------------------------------------------|----------------------------------------------------
`reflect.Type` of the modelled universe                        | `GoType` / `Fields` (struct fields carry the data Go's
                                                               |  `getMapMeta` computes: alias, omitempty, inline, `json:"-"`)
a Go value of such a type                                      | `GoVal` (untyped tree; `HasType v t` ties it to a type)
`Encoder.Compile(typ)` then `enc.Encode(v)`                    | `encode t v` (type directed, like the compiled encoder;
                                                               |  an interface value dispatches on its dynamic type)
`Decoder.Compile(*typ)` then `dec.Decode(doc, &target)` into a | `decode t doc : Res GoVal` – per target type the *ordered list of
fresh target                                                   |  leaf decoders* the assembler collects (`leaves t`), run with the
                                                               |  C17 group semantics (`Group.decode`, cold cache): the first decoder
                                                               |  that does not answer "unsupported type" decides
`Value.Interface()` (`InterfaceOf`)                            | `generic doc` – the dynamic Go value an open (`any`) target receives
`immutableMap` in `Range` order with `Set/Get/Delete`          | `PList` sorted by (key hash, key) with `mapSet/mapGet/mapDel`
                                                               |  (C15 proves the Go map is this dictionary, C14 the order)

Compiler order (encoding.go `init`, `Add` prepends): shortcut, duration, time, error, string, binary, buffer,
boolean, float, integer, uinteger, json, slice, map, pointer. For each modelled type the encoder that
answers first is transcribed in `encode`; the decoders that compile for a target type are listed, in this
order, in `leaves`.

What each encoder does (fixed code):
* pointer: nil ⇒ null, else the pointee's encoding (for `*any`: the dynamic value's).
* integer/uinteger/float/bool/string: the value with its width.            * `[]byte`, `[n]byte`: Binary.
* `time.Time`: Int64 `UnixMilli()` (sub-millisecond part and zone are dropped – `GoVal.time ms lost`).
* `time.Duration`: Int64 `Milliseconds()` = nanoseconds / 10^6 truncated toward zero.
* `uuid.UUID` (text marshaler): String of the canonical text form.
* slice/array: Slice of the element encodings (a nil slice is the empty Slice).
* `map[string]T`: Map of the element encodings (a nil map is the empty Map).
* struct: a Map built by `Set` per field in declaration order: named ⇒ alias ↦ encoding; omitempty ⇒ skipped
  when the encoding `Equal`s the encoding of the zero value (C16 fix; `IsZero` is only a shortcut for that); inline ⇒ every pair of the field's (Map) encoding is `Set`; ignored ⇒ skipped.
  (Go builds the inline child's Map first and copies its pairs in Range order; the model sets the child's
  fields into the same accumulator, which is the same dictionary.)
* interface (`any`) value: nil ⇒ null, else the encoding of the dynamic value by its dynamic type.

What each decoder does (fixed code): see `leaves`, `decodeNamed`, `phase1`, `phase2`.

A declared **named** Go type (`type Mode uint32`, a named slice / map / array / struct) encodes and decodes like its
underlying type: every encoder and decoder switches on `reflect.Kind`; a builtin type takes the encoder's type
assertion (`source.(uint32)`), a named type its reflect fallback (`reflect.ValueOf(source).Uint()`), with the same
result. `GoType` therefore has no constructor for them: the harness uses a fixed family of declared named types (one per
scalar kind and width, plus composites) and writes them `named T`, which the driver reads as `T`.

Second use.  `decode` is a function of (type, document): a decoder keeps nothing from one decode to the next and
every result is a fresh value.  The Go decoders are compiled once per target type on the process-global
`types.Decoder` and reused; the harness (harness/c16/second.go) decodes every document again into a fresh target –
at once and after three later cases – and requires equal results that share no memory, with the first result
unchanged.  This includes the decoder `pkg/spec` registers for a `spec.Spec` INTERFACE target (op `ai`), which the
model reads as a `spec.Unstructured` target.  (Observation on the unchanged tree: a Binary decoded into an `any` is
the document's own byte array, `Binary.Interface` does not copy; two results alias there and the check excepts it.)

Types outside this universe (channels, funcs, custom marshalers other than the three above, `io.Reader`
buffers, error values, non-string map keys, `*time.Time` – which takes the RFC 3339 text form) are not modelled.
Conversions the round trip never uses are modelled only by their *guard* (which source kinds a leaf takes):
string → number parsing other than decimal integers, number → string formatting and conversions from a float32
source answer `Err.other` (marked `-- unmodelled conversion`).
Core Lean only.
-/
import Uniflow.Model.Value
import Uniflow.Model.Group
import Uniflow.Model.CodecNum
import Uniflow.Model.CodecTime

namespace Uniflow.Codec
open Uniflow.Value
open Uniflow.Group (R)

/-! ## Types and values -/

inductive FMode
  | named | omit | inline | ignored
  deriving DecidableEq, Repr, Inhabited

mutual
  inductive GoType
    | int (w : Width) | uint (w : Width) | f32 | f64 | str | bool
    | bytes | barr (n : Nat) | time | dur | uuid | any
    | ptr (t : GoType) | slice (t : GoType) | arr (n : Nat) (t : GoType) | map (t : GoType)
    | struct (fs : Fields)
  inductive Fields
    | nil
    | cons (mode : FMode) (alias : Bytes) (t : GoType) (rest : Fields)
end

instance : Inhabited GoType := ⟨.any⟩

mutual
  inductive GoVal
    | int (v : Int) | uint (v : Nat) | f32 (b : Nat) | f64 (b : Nat) | str (s : Bytes) | bool (b : Bool)
    | bytesNil | bytes (bs : Bytes) | barr (bs : Bytes)
    | time (ms : Int) (lost : Nat) | dur (ns : Int) | uuid (bs : Bytes)
    | ptrNil | ptr (v : GoVal)
    | sliceNil | slice (xs : GoVals) | arr (xs : GoVals)
    | mapNil | map (kvs : GoKVs)
    | struct (fs : GoVals)
    | anyNil | any (t : GoType) (v : GoVal)
  inductive GoVals
    | nil | cons (v : GoVal) (vs : GoVals)
  inductive GoKVs
    | nil | cons (k : Bytes) (v : GoVal) (kvs : GoKVs)
end

instance : Inhabited GoVal := ⟨.anyNil⟩

def GoVals.length : GoVals → Nat
  | .nil => 0
  | .cons _ vs => vs.length + 1

def GoVals.replicate : Nat → GoVal → GoVals
  | 0, _ => .nil
  | n + 1, v => .cons v (GoVals.replicate n v)

/-- `time.Time{}`: `UnixMilli()` of January 1, year 1, 00:00:00 UTC. -/
def zeroTimeMs : Int := -62135596800000

mutual
  /-- the zero value of a type (`reflect.New(t).Elem()`) -/
  def zero : GoType → GoVal
    | .int _ => .int 0 | .uint _ => .uint 0 | .f32 => .f32 0 | .f64 => .f64 0 | .str => .str [] | .bool => .bool false
    | .bytes => .bytesNil | .barr n => .barr (List.replicate n 0) | .time => .time zeroTimeMs 0 | .dur => .dur 0
    | .uuid => .uuid (List.replicate 16 0) | .any => .anyNil
    | .ptr _ => .ptrNil | .slice _ => .sliceNil | .arr n t => .arr (GoVals.replicate n (zero t)) | .map _ => .mapNil
    | .struct fs => .struct (zeroFields fs)
  def zeroFields : Fields → GoVals
    | .nil => .nil
    | .cons _ _ t rest => .cons (zero t) (zeroFields rest)
end

mutual
  /-- `reflect.Value.IsZero` -/
  def isZero : GoVal → Bool
    | .int v => v == 0 | .uint v => v == 0
    | .f32 b => b == 0 || b == 2147483648 | .f64 b => b == 0 || b == 9223372036854775808   -- `v.Float() == 0`: -0 is zero
    | .str s => s.isEmpty | .bool b => !b
    | .bytesNil => true | .bytes _ => false | .barr bs => bs.all (· == 0)
    | .time ms lost => ms == zeroTimeMs && lost == 0 | .dur ns => ns == 0 | .uuid bs => bs.all (· == 0)
    | .ptrNil => true | .ptr _ => false | .sliceNil => true | .slice _ => false | .arr xs => isZeroL xs
    | .mapNil => true | .map _ => false | .struct fs => isZeroL fs | .anyNil => true | .any _ _ => false
  def isZeroL : GoVals → Bool
    | .nil => true
    | .cons v vs => isZero v && isZeroL vs
end

/-! ## Documents: maps in Range order -/

/-- Range order of string keys: ascending FNV hash, then bytewise (`immutableMap.Range`, `Compare` of Strings). -/
def klt (a b : Bytes) : Bool :=
  let ha := (hash (.str a)).toNat
  let hb := (hash (.str b)).toNat
  ha < hb || (ha == hb && cmpBytes a b < 0)

/-- `m.Set(NewString(k), v)` -/
def mapSet : PList → Bytes → Val → PList
  | .nil, k, v => .cons (.str k) v .nil
  | .cons (.str k') v' rest, k, v =>
    if k = k' then .cons (.str k') v rest
    else if klt k k' then .cons (.str k) v (.cons (.str k') v' rest)
    else .cons (.str k') v' (mapSet rest k v)
  | .cons k' v' rest, k, v => .cons k' v' (mapSet rest k v)

/-- the entry of key `k`, if present (`Has` + `Get`) -/
def mapFind : PList → Bytes → Option Val
  | .nil, _ => none
  | .cons (.str k') v' rest, k => if k = k' then some v' else mapFind rest k
  | .cons _ _ rest, k => mapFind rest k

/-- `m.Get(NewString(k))`: nil when absent -/
def mapGet (m : PList) (k : Bytes) : Val := (mapFind m k).getD .nil

/-- `m.Delete(NewString(k))` -/
def mapDel : PList → Bytes → PList
  | .nil, _ => .nil
  | .cons (.str k') v' rest, k => if k = k' then rest else .cons (.str k') v' (mapDel rest k)
  | .cons k' v' rest, k => .cons k' v' (mapDel rest k)

/-! ## uuid text form (gofrs/uuid `MarshalText` / canonical branch of `UnmarshalText`) -/

def hexNib (n : Nat) : Nat := if n < 10 then 48 + n else 87 + n

def unhexNib (c : Nat) : Option Nat :=
  if 48 ≤ c ∧ c ≤ 57 then some (c - 48)
  else if 97 ≤ c ∧ c ≤ 102 then some (c - 87)
  else if 65 ≤ c ∧ c ≤ 70 then some (c - 55)
  else none

def hexBytes : Bytes → Bytes
  | [] => []
  | b :: bs => hexNib (b / 16) :: hexNib (b % 16) :: hexBytes bs

def unhexBytes : Bytes → Option Bytes
  | [] => some []
  | [_] => none
  | a :: b :: r =>
    match unhexNib a, unhexNib b, unhexBytes r with
    | some x, some y, some bs => some ((x * 16 + y) :: bs)
    | _, _, _ => none

/-- `xxxxxxxx-xxxx-xxxx-xxxx-xxxxxxxxxxxx` -/
def uuidText (bs : Bytes) : Bytes :=
  hexBytes (bs.take 4) ++ 45 :: hexBytes ((bs.drop 4).take 2) ++ 45 :: hexBytes ((bs.drop 6).take 2)
    ++ 45 :: hexBytes ((bs.drop 8).take 2) ++ 45 :: hexBytes (bs.drop 10)

/-- the canonical (36 character) form only; the other spellings gofrs accepts answer `none` -/
def uuidParse (s : Bytes) : Option Bytes :=
  if s.length = 36 ∧ s[8]? = some 45 ∧ s[13]? = some 45 ∧ s[18]? = some 45 ∧ s[23]? = some 45 then
    match unhexBytes (s.take 8), unhexBytes ((s.drop 9).take 4), unhexBytes ((s.drop 14).take 4),
          unhexBytes ((s.drop 19).take 4), unhexBytes (s.drop 24) with
    | some a, some b, some c, some d, some e => some (a ++ b ++ c ++ d ++ e)
    | _, _, _, _, _ => none
  else none

/-- `Duration.Milliseconds()`: nanoseconds / 10^6, truncated toward zero -/
def durMs (ns : Int) : Int := if 0 ≤ ns then ns / 1000000 else -((-ns) / 1000000)

/-! ## Encoding -/

def VList.replicate : Nat → Val → VList
  | 0, _ => .nil
  | n + 1, x => .cons x (VList.replicate n x)

mutual
  /-- the encoding of the zero value of a type (`child.Encode(reflect.Zero(field.Type).Interface())`), in closed
  form; `Proofs/Codec.lean: zeroDoc_eq` proves `zeroDoc t = encode t (zero t)`. -/
  def zeroDoc : GoType → Val
    | .int w => .int w 0 | .uint w => .uint w 0 | .f32 => .f32 0 | .f64 => .f64 0 | .str => .str [] | .bool => .bool false
    | .bytes => .bin [] | .barr n => .bin (List.replicate n 0) | .time => .int .w64 zeroTimeMs | .dur => .int .w64 0
    | .uuid => .str (uuidText (List.replicate 16 0)) | .any => .nil | .ptr _ => .nil
    | .slice _ => .slice .nil | .arr n t => .slice (VList.replicate n (zeroDoc t)) | .map _ => .map .nil
    | .struct fs => .map (zeroDocF fs .nil)
  def zeroDocF : Fields → PList → PList
    | .nil, acc => acc
    | .cons .named a t rest, acc => zeroDocF rest (mapSet acc a (zeroDoc t))
    | .cons .inline _ (.struct fs') rest, acc => zeroDocF rest (zeroDocF fs' acc)
    | .cons _ _ _ rest, acc => zeroDocF rest acc          -- omitempty: dropped; ignored; inline nil map: nothing
end

mutual
  /-- `Encoder.Encode` for a value of static type `t` -/
  def encode : GoType → GoVal → Val
    | .int w, .int v => .int w v
    | .uint w, .uint v => .uint w v
    | .f32, .f32 b => .f32 b
    | .f64, .f64 b => .f64 b
    | .str, .str s => .str s
    | .bool, .bool b => .bool b
    | .bytes, .bytesNil => .bin []
    | .bytes, .bytes bs => .bin bs
    | .barr _, .barr bs => .bin bs
    | .time, .time ms _ => .int .w64 ms
    | .dur, .dur ns => .int .w64 (durMs ns)
    | .uuid, .uuid bs => .str (uuidText bs)
    | .ptr _, .ptrNil => .nil
    | .ptr t, .ptr v => encode t v
    | .slice _, .sliceNil => .slice .nil
    | .slice t, .slice xs => .slice (encodeL t xs)
    | .arr _ t, .arr xs => .slice (encodeL t xs)
    | .map _, .mapNil => .map .nil
    | .map t, .map kvs => .map (encodeKV t kvs .nil)
    | .struct fs, .struct vs => .map (encodeFields fs vs .nil)
    | .any, .anyNil => .nil
    | .any, .any t v => encode t v
    | _, _ => .nil                       -- ill-typed pair: cannot be written in Go
  def encodeL (t : GoType) : GoVals → VList
    | .nil => .nil
    | .cons v vs => .cons (encode t v) (encodeL t vs)
  /-- `for k in MapKeys { m.Set(k, enc(v)) }` into the accumulator -/
  def encodeKV (t : GoType) : GoKVs → PList → PList
    | .nil, acc => acc
    | .cons k v kvs, acc => encodeKV t kvs (mapSet acc k (encode t v))
  /-- the per-field encoders of a struct, in declaration order, writing into `acc` -/
  def encodeFields : Fields → GoVals → PList → PList
    | .cons .named a t rest, .cons v vs, acc => encodeFields rest vs (mapSet acc a (encode t v))
    | .cons .omit a t rest, .cons v vs, acc =>
      -- omitempty (C16 fix): skipped when the encoding `Equal`s the encoding of the field type's zero value. (Go first
      -- tests `reflect.Value.IsZero` as a shortcut; a zero value encodes like the zero value, so the shortcut never
      -- changes the outcome – `Proofs/Codec.lean: isZero_subsumed`, and the correspondence check exercises it.)
      if equal (encode t v) (zeroDoc t) then encodeFields rest vs acc
      else encodeFields rest vs (mapSet acc a (encode t v))
    | .cons .ignored _ _ rest, .cons _ vs, acc => encodeFields rest vs acc
    | .cons .inline _ (.struct fs') rest, .cons (.struct vs') vs, acc =>
      encodeFields rest vs (encodeFields fs' vs' acc)
    | .cons .inline _ (.map t) rest, .cons (.map kvs) vs, acc => encodeFields rest vs (encodeKV t kvs acc)
    | .cons .inline _ _ rest, .cons _ vs, acc => encodeFields rest vs acc   -- inline nil map: nothing; others: not wf
    | _, _, acc => acc
end

/-! ## The generic view (`Value.Interface`) -/

/-- `TypeOf(KindOf(x))` when it is a concrete (non-interface) type. -/
def kindTy : Val → Option GoType
  | .bin _ => some .bytes | .bool _ => some .bool | .int w _ => some (.int w) | .uint w _ => some (.uint w)
  | .f32 _ => some .f32 | .f64 _ => some .f64 | .str _ => some .str
  | _ => none          -- nil, error, Slice, Map: `any`

def allRank (r : Nat) : VList → Bool
  | .nil => true
  | .cons x xs => x.rank == r && allRank r xs

def allRankP (r : Nat) : PList → Bool
  | .nil => true
  | .cons _ v ps => v.rank == r && allRankP r ps

/-- element type of `Slice.Interface()`: the common concrete type of the elements, else `any`;
a list of uint8 is `[]any` too (fixed: `[]uint8` would be `[]byte`). -/
def elemTy : VList → Option GoType
  | .nil => none
  | .cons x xs =>
    match kindTy x with
    | some (.uint .w8) => none
    | some t => if allRank x.rank xs then some t else none
    | none => none

/-- value type of `Map.Interface()` -/
def valTy : PList → Option GoType
  | .nil => none
  | .cons _ v ps =>
    match kindTy v with
    | some t => if allRankP v.rank ps then some t else none
    | none => none

def keyBytes : Val → Bytes
  | .str k => k
  | _ => []          -- non-string keys are outside the universe

mutual
  /-- the Go value of dynamic type `genT x` that `InterfaceOf(x)` returns, for `x ≠ nil` -/
  def genV : Val → GoVal
    | .nil => .anyNil
    | .bin bs => .bytes bs
    | .bool b => .bool b
    | .err m => .str m                 -- error values are outside the universe
    | .int _ v => .int v
    | .uint _ v => .uint v
    | .f32 b => .f32 b
    | .f64 b => .f64 b
    | .str s => .str s
    | .slice xs => .slice (match elemTy xs with | some _ => genRawL xs | none => genAnyL xs)
    | .map ps => .map (match valTy ps with | some _ => genRawP ps | none => genAnyP ps)
  /-- boxed: the value an `any` holds -/
  def generic : Val → GoVal
    | .nil => .anyNil
    | .bin bs => .any .bytes (.bytes bs)
    | .bool b => .any .bool (.bool b)
    | .err m => .any .str (.str m)
    | .int w v => .any (.int w) (.int v)
    | .uint w v => .any (.uint w) (.uint v)
    | .f32 b => .any .f32 (.f32 b)
    | .f64 b => .any .f64 (.f64 b)
    | .str s => .any .str (.str s)
    | .slice xs =>
      match elemTy xs with
      | some t => .any (.slice t) (.slice (genRawL xs))
      | none => .any (.slice .any) (.slice (genAnyL xs))
    | .map ps =>
      match valTy ps with
      | some t => .any (.map t) (.map (genRawP ps))
      | none => .any (.map .any) (.map (genAnyP ps))
  def genRawL : VList → GoVals
    | .nil => .nil
    | .cons x xs => .cons (genV x) (genRawL xs)
  def genAnyL : VList → GoVals
    | .nil => .nil
    | .cons x xs => .cons (generic x) (genAnyL xs)
  def genRawP : PList → GoKVs
    | .nil => .nil
    | .cons k v ps => .cons (keyBytes k) (genV v) (genRawP ps)
  def genAnyP : PList → GoKVs
    | .nil => .nil
    | .cons k v ps => .cons (keyBytes k) (generic v) (genAnyP ps)
end

/-! ## Decoding -/

inductive Err
  | unsupportedType | unsupportedValue | other
  deriving DecidableEq, Repr, Inhabited

/-- outcome of a decode: a value, an error class, or a Go panic -/
inductive Res (α : Type)
  | ok (a : α)
  | err (e : Err)
  | panic
  deriving Repr, Inhabited

def Res.bind {α β : Type} : Res α → (α → Res β) → Res β
  | .ok a, f => f a
  | .err e, _ => .err e
  | .panic, _ => .panic

def Res.map {α β : Type} (f : α → β) : Res α → Res β
  | .ok a => .ok (f a)
  | .err e => .err e
  | .panic => .panic

/-- A leaf decoder's answer in the vocabulary of the C17 group model: `unsupported` lets the next decoder try;
`other 0` = ErrUnsupportedValue, `other 1` = another error, `other 2` = panic (final, like an error). -/
abbrev Leaf := Val → R GoVal

def fromR : R GoVal → Res GoVal
  | .ok v => .ok v
  | .unsupported => .err .unsupportedType
  | .other 0 => .err .unsupportedValue
  | .other 2 => .panic
  | .other _ => .err .other
  | .noop => .err .unsupportedType      -- an empty group: unreachable, every modelled type has a decoder

def toR : Res GoVal → R GoVal
  | .ok v => .ok v
  | .err .unsupportedType => .unsupported
  | .err .unsupportedValue => .other 0
  | .err .other => .other 1
  | .panic => .other 2

/-- `DecoderGroup.Decode` on a fresh group (C17.assembler_pure: the caches are unobservable). -/
def runLeaves (ds : List Leaf) (x : Val) : Res GoVal :=
  fromR (Uniflow.Group.decode Val.rank ds [] x).1

/-- two's-complement wrap of `v` into `w` bits, signed (`int8(x)` …) -/
def wrapInt (w : Width) (v : Int) : Int :=
  (v + (2 : Int) ^ (w.bits - 1)) % (2 : Int) ^ w.bits - (2 : Int) ^ (w.bits - 1)

def wrapUint (w : Width) (v : Int) : Nat := (v % (2 : Int) ^ w.bits).toNat

/-- `strconv.Atoi` / `ParseInt(s, 10, 64)`: optional sign, decimal digits -/
def parseDigits : Bytes → Option Nat
  | [] => none
  | ds => ds.foldl (fun acc d => acc.bind fun n => if 48 ≤ d ∧ d ≤ 57 then some (n * 10 + (d - 48)) else none) (some 0)

def atoi (s : Bytes) : Option Int :=
  match s with
  | 45 :: r => (parseDigits r).map fun n => -(n : Int)
  | 43 :: r => (parseDigits r).map fun n => (n : Int)
  | r => (parseDigits r).map fun n => (n : Int)

def inInt64 (v : Int) : Bool := decide (-(2 : Int) ^ 63 ≤ v) && decide (v < (2 : Int) ^ 63)

/-- leaves of an integer target `*intN` : string, float, integer, uinteger -/
def leavesInt (w : Width) : List Leaf :=
  [ fun x => match x with
      | .str s => (match atoi s with
                   | some v => if inInt64 v then .ok (.int (wrapInt w v)) else .other 0
                   | none => .other 0)
      | _ => .unsupported,
    fun x => match x with
      | .f64 b => (match intOfF64 b with           -- `T(s.Float())`: truncation; out of int64 range / NaN: implementation defined
                   | some i => if inInt64 i then .ok (.int (wrapInt w i)) else .other 1
                   | none => .other 1)
      | .f32 _ => .other 1                          -- unmodelled conversion (float32 source)
      | _ => .unsupported,
    fun x => match x with | .int _ v => .ok (.int (wrapInt w v)) | _ => .unsupported,
    fun x => match x with | .uint _ v => .ok (.int (wrapInt w v)) | _ => .unsupported ]

def leavesUint (w : Width) : List Leaf :=
  [ fun x => match x with
      | .str s => (match parseDigits s with
                   | some v => if v < 2 ^ w.bits
                   then .ok (.uint v) else .other 0
                   | none => .other 0)
      | _ => .unsupported,
    fun x => match x with
      | .f64 b => (match intOfF64 b with           -- negative / ≥ 2^63 / NaN: implementation defined
                   | some i => if 0 ≤ i ∧ inInt64 i then .ok (.uint (wrapUint w i)) else .other 1
                   | none => .other 1)
      | .f32 _ => .other 1                          -- unmodelled conversion (float32 source)
      | _ => .unsupported,
    fun x => match x with | .int _ v => .ok (.uint (wrapUint w v)) | _ => .unsupported,
    fun x => match x with | .uint _ v => .ok (.uint (wrapUint w v)) | _ => .unsupported ]

/-- `float32(float64(x))`: a signalling NaN comes back quiet (bit 22 set), everything else unchanged -/
def quiet32 (b : Nat) : Nat :=
  if b % 2147483648 > 2139095040 ∧ (b / 4194304) % 2 = 0 then b + 4194304 else b

def leavesF32 : List Leaf :=
  [ fun x => match x with | .str _ => .other 1 | _ => .unsupported,             -- unmodelled conversion (ParseFloat)
    fun x => match x with
      | .f32 b => .ok (.f32 (quiet32 b))
      | .f64 _ => .other 1                                                        -- unmodelled conversion (narrowing)
      | _ => .unsupported,
    fun x => match x with | .int _ _ => .other 1 | _ => .unsupported,            -- unmodelled conversion
    fun x => match x with | .uint _ _ => .other 1 | _ => .unsupported ]

def leavesF64 : List Leaf :=
  [ fun x => match x with | .str _ => .other 1 | _ => .unsupported,             -- unmodelled conversion
    fun x => match x with
      | .f64 b => .ok (.f64 b)
      | .f32 _ => .other 1                                                        -- unmodelled conversion (widening)
      | _ => .unsupported,
    fun x => match x with | .int _ _ => .other 1 | _ => .unsupported,
    fun x => match x with | .uint _ _ => .other 1 | _ => .unsupported ]

/-- `*string`: error, string, binary, (buffer), boolean, float, integer, uinteger -/
def leavesStr : List Leaf :=
  [ fun x => match x with | .err m => .ok (.str m) | _ => .unsupported,
    fun x => match x with | .str s => .ok (.str s) | _ => .unsupported,
    fun x => match x with | .bin _ => .other 1 | _ => .unsupported,              -- unmodelled conversion (base64 text)
    fun x => match x with
      | .bool b => .ok (.str (if b then [116, 114, 117, 101] else [102, 97, 108, 115, 101]))
      | _ => .unsupported,
    fun x => match x with | .f32 _ => .other 1 | .f64 _ => .other 1 | _ => .unsupported,   -- unmodelled (fmt.Sprint)
    fun x => match x with | .int _ _ => .other 1 | _ => .unsupported,
    fun x => match x with | .uint _ _ => .other 1 | _ => .unsupported ]

def leavesBool : List Leaf :=
  [ fun x => match x with | .str _ => .other 1 | _ => .unsupported,             -- unmodelled conversion (ParseBool)
    fun x => match x with | .bool b => .ok (.bool b) | _ => .unsupported ]

/-- `*time.Time`: the time decoder answers for String, Integer and Float sources and so hides the text,
binary and JSON unmarshalers for them. -/
def leavesTime : List Leaf :=
  [ fun x => match x with
      | .int _ v => .ok (.time v 0)                        -- `time.UnixMilli(v).UTC()`
      | .uint _ _ => .unsupported                          -- `Integer` is the signed family only
      | .str s => (match parseRFC3339 s with               -- `time.Parse(time.RFC3339, s)`: "Z" is UTC, another offset
                   | some (ms, sub, off) =>                -- a fixed zone (assuming the process's Local zone is UTC)
                     if inInt64 ms then .ok (.time ms (sub * 3 + (if off = 0 then 0 else 2))) else .other 1
                   | none => .other 1)
      | .f64 b => (match intOfF64 b with                   -- `time.UnixMilli(int64(f)).UTC()`
                   | some i => if inInt64 i then .ok (.time i 0) else .other 1
                   | none => .other 1)
      | .f32 _ => .other 1                                 -- unmodelled conversion (float32 source)
      | _ => .unsupported ]

def durOfMs (ms : Int) : Int := wrapInt .w64 (ms * 1000000)

def leavesDur : List Leaf :=
  [ fun x => match x with
      | .int _ v => .ok (.dur (durOfMs v))                 -- `time.Millisecond * Duration(v)` (wraps like Go)
      | .str _ => .other 1                                 -- unmodelled conversion (ParseDuration)
      | .f64 b => (match intOfF64 b with                   -- `time.Millisecond * time.Duration(f)`
                   | some i => if inInt64 i then .ok (.dur (durOfMs i)) else .other 1
                   | none => .other 1)
      | .f32 _ => .other 1                                 -- unmodelled conversion (float32 source)
      | _ => .unsupported,
    fun x => match x with | .uint _ v => .ok (.dur (wrapInt .w64 v)) | _ => .unsupported ]

def leavesUuid : List Leaf :=
  [ fun x => match x with | .err _ => .other 0 | _ => .unsupported,
    fun x => match x with
      | .str s => (match uuidParse s with | some bs => .ok (.uuid bs) | none => .other 0)
      | _ => .unsupported,
    fun x => match x with
      | .bin bs => if bs.length = 16 then .ok (.uuid bs) else .other 0          -- `UnmarshalBinary`
      | _ => .unsupported ]

/-- `*[]byte`: string (base64), binary, (buffer); the slice decoder is appended in `decode` -/
def leavesBytes : List Leaf :=
  [ fun x => match x with
      | .str s => (match b64dec s with | some bs => .ok (.bytes bs) | none => .other 1)   -- base64 text (the JSON form)
      | _ => .unsupported,
    fun x => match x with | .bin bs => .ok (.bytes bs) | _ => .unsupported ]

/-- `*[n]byte`: string (base64, added by a C16 fix), binary (`reflect.Copy` after `Convert`: **panics** when the
binary is shorter than the array), (buffer); the slice decoder is appended in `decode` -/
def leavesBarr (n : Nat) : List Leaf :=
  [ fun x => match x with
      | .str s => (match b64dec s with                                       -- base64 text, then `reflect.Copy`
                   | some bs => .ok (.barr ((bs ++ List.replicate n 0).take n))
                   | none => .other 1)
      | _ => .unsupported,
    fun x => match x with
      | .bin bs => if bs.length < n then .other 2 else .ok (.barr (bs.take n))
      | _ => .unsupported ]

/-- `*any`: error, string, binary, (buffer), boolean, float, integer, uinteger, slice, map, and the nil decoder
added by the C16 fix. Each takes its own source kind and stores `Interface()`. -/
def leavesAny : List Leaf :=
  [ fun x => match x with | .err _ => .ok (generic x) | _ => .unsupported,
    fun x => match x with | .str _ => .ok (generic x) | _ => .unsupported,
    fun x => match x with | .bin _ => .ok (generic x) | _ => .unsupported,
    fun x => match x with | .bool _ => .ok (generic x) | _ => .unsupported,
    fun x => match x with | .f32 _ => .ok (generic x) | .f64 _ => .ok (generic x) | _ => .unsupported,
    fun x => match x with | .int _ _ => .ok (generic x) | _ => .unsupported,
    fun x => match x with | .uint _ _ => .ok (generic x) | _ => .unsupported,
    fun x => match x with | .slice _ => .ok (generic x) | _ => .unsupported,
    fun x => match x with | .map _ => .ok (generic x) | _ => .unsupported,
    fun x => match x with | .nil => .ok .anyNil | _ => .unsupported ]

/-- element-wise decoding of a list of numbers into bytes (each element through the `*uint8` decoders) -/
def bytesOfList : VList → Res (List Nat)
  | .nil => .ok []
  | .cons x xs =>
    match runLeaves (leavesUint .w8) x with
    | .ok (.uint v) =>
      (match bytesOfList xs with
       | .ok bs => .ok (v :: bs)
       | .err e => .err e
       | .panic => .panic)
    | .ok _ => .err .other
    | .err e => .err e
    | .panic => .panic

/-- the slice decoder compiled for `[]uint8` (element-wise): it follows the leaves. A list of numbers is decoded
element by element (`data: [7, 8]` is a legal document for a `[]byte`); a source that is not a list is decoded into
a single element. (On an error the Go target keeps the elements appended so far – not observable here: the result of
a failed decode is the error.) -/
def leafListIntoBytes : Leaf := fun x =>
  match x with
  | .slice xs =>
    (match bytesOfList xs with
     | .ok bs => .ok (.bytes bs)
     | r => toR (match r with | .ok _ => .err .other | .err e => .err e | .panic => .panic))
  | x => match runLeaves (leavesUint .w8) x with
         | .ok (.uint v) => .ok (.bytes [v])
         | r => toR r

/-- the same for `[n]uint8`: a list longer than the array is a value error, a shorter one leaves zeros -/
def leafListIntoBarr (n : Nat) : Leaf := fun x =>
  match x with
  | .slice xs =>
    if xs.length > n then .other 0
    else
      (match bytesOfList xs with
       | .ok bs => .ok (.barr (bs ++ List.replicate (n - bs.length) 0))
       | r => toR (match r with | .ok _ => .err .other | .err e => .err e | .panic => .panic))
  | x => if n = 0 then .other 0 else
         match runLeaves (leavesUint .w8) x with
         | .ok (.uint v) => .ok (.barr (v :: List.replicate (n - 1) 0))
         | r => toR r

/-- element-wise decoding of a list -/
def decodeL (f : Val → Res GoVal) : VList → Res GoVals
  | .nil => .ok .nil
  | .cons x xs => (f x).bind fun v => (decodeL f xs).map fun vs => .cons v vs

/-- `for key, value := range m.Range() { … t.SetMapIndex(k, v) }` -/
def decodeP (f : Val → Res GoVal) : PList → Res GoKVs
  | .nil => .ok .nil
  | .cons (.str k) x ps => (f x).bind fun v => (decodeP f ps).map fun kvs => .cons k v kvs
  | .cons _ _ _ => .err .unsupportedType          -- a non-string key cannot be decoded into a string

/-- a named field: `value := source.Get(alias); source.Delete(alias); if value == nil { return nil }; child.Decode(value, field)` -/
def decodeField (d : Val → Res GoVal) (z : GoVal) : Val → Res GoVal
  | .nil => .ok z
  | x => d x

/-- pad an array target: the elements a shorter list does not reach keep their zero value -/
def padTo (n : Nat) (z : GoVal) : GoVals → GoVals
  | .nil => GoVals.replicate n z
  | .cons v vs => .cons v (padTo (n - 1) z vs)

mutual
  /-- `Decoder.Decode(doc, &target)` for a fresh target of type `t` -/
  def decode : GoType → Val → Res GoVal
    | .int w, x => runLeaves (leavesInt w) x
    | .uint w, x => runLeaves (leavesUint w) x
    | .f32, x => runLeaves leavesF32 x
    | .f64, x => runLeaves leavesF64 x
    | .str, x => runLeaves leavesStr x
    | .bool, x => runLeaves leavesBool x
    | .time, x => runLeaves leavesTime x
    | .dur, x => runLeaves leavesDur x
    | .uuid, x => runLeaves leavesUuid x
    | .any, x => runLeaves leavesAny x
    | .bytes, x =>
      -- the slice decoder also compiles for `[]uint8` (element-wise); it comes after the leaves
      runLeaves (leavesBytes ++ [leafListIntoBytes]) x
    | .barr n, x =>
      runLeaves (leavesBarr n ++ [leafListIntoBarr n]) x
    | .ptr t, x =>
      -- pointer decoder: null leaves the pointer nil; otherwise allocate and decode the pointee
      match x with
      | .nil => .ok .ptrNil
      | x => Res.map GoVal.ptr (decode t x)
    | .slice t, x =>
      match x with
      | .slice xs => Res.map GoVal.slice (decodeL (decode t) xs)
      | x => Res.map (fun v => GoVal.slice (.cons v .nil)) (decode t x)     -- a non-list source becomes a one element slice
    | .arr n t, x =>
      match x with
      | .slice xs =>
        if xs.length > n then .err .unsupportedValue
        else Res.map (fun vs => GoVal.arr (padTo n (zero t) vs)) (decodeL (decode t) xs)
      | x =>
        if n = 0 then .err .unsupportedValue
        else Res.map (fun v => GoVal.arr (.cons v (GoVals.replicate (n - 1) (zero t)))) (decode t x)
    | .map t, x =>
      match x with
      | .nil => .ok .mapNil
      | .map ps => Res.map GoVal.map (decodeP (decode t) ps)
      | _ => .err .unsupportedType
    | .struct fs, x =>
      match x with
      | .nil => .ok (.struct (zeroFields fs))
      | .map ps => (phase1 fs ps).bind fun (vs, m) => Res.map (fun (vs', _) => GoVal.struct vs') (phase2 fs vs m)
      | _ => .err .unsupportedType
  /-- the struct decoder's field decoders that are not inline maps, in declaration order, on the shared mutable
  copy `m` of the source: a named field takes its key out of `m` (also when the value is null – C16 fix) and
  decodes it unless it is null; an inline struct runs its own field decoders on the same `m`. An inline map gets
  a placeholder (it runs in `phase2`, after all others – C16 fix). -/
  def phase1 : Fields → PList → Res (GoVals × PList)
    | .nil, m => .ok (.nil, m)
    | .cons .ignored _ t rest, m => (phase1 rest m).map fun (vs, m') => (.cons (zero t) vs, m')
    | .cons .inline _ (.struct fs') rest, m =>
      (phase1 fs' m).bind fun (vs1, m1) => (phase2 fs' vs1 m1).bind fun (vs2, m2) =>
        (phase1 rest m2).map fun (vs, m') => (.cons (.struct vs2) vs, m')
    | .cons .inline _ t rest, m => (phase1 rest m).map fun (vs, m') => (.cons (zero t) vs, m')
    | .cons _ a t rest, m =>          -- named / omitempty
      (decodeField (decode t) (zero t) (mapGet m a)).bind fun v =>
        (phase1 rest (mapDel m a)).map fun (vs, m') => (.cons v vs, m')
  /-- the inline map fields: each receives everything that is left and clears the source (`m.Clear()`). -/
  def phase2 : Fields → GoVals → PList → Res (GoVals × PList)
    | .cons .inline _ (.map t) rest, .cons _ vs, m =>
      (decodeP (decode t) m).bind fun kvs => (phase2 rest vs .nil).map fun (vs', m') => (.cons (.map kvs) vs', m')
    | .cons _ _ _ rest, .cons v vs, m => (phase2 rest vs m).map fun (vs', m') => (.cons v vs', m')
    | _, vs, m => .ok (vs, m)
end


/-! ## Well-formed types and well-typed values -/

mutual
  /-- every alias a struct decoder looks up in the shared source map: named and omitempty fields, and those of
  inline structs -/
  def aliases : Fields → List Bytes
    | .nil => []
    | .cons .named a _ rest => a :: aliases rest
    | .cons .omit a _ rest => a :: aliases rest
    | .cons .inline _ (.struct fs') rest => aliases fs' ++ aliases rest
    | .cons _ _ _ rest => aliases rest
end

/-- number of inline map fields, counting those of inline structs -/
def inlineMaps : Fields → Nat
  | .nil => 0
  | .cons .inline _ (.map _) rest => inlineMaps rest + 1
  | .cons .inline _ (.struct fs') rest => inlineMaps fs' + inlineMaps rest
  | .cons _ _ _ rest => inlineMaps rest

def isTime : GoType → Bool | .time => true | _ => false
def isU8 : GoType → Bool | .uint .w8 => true | _ => false
def isAny : GoType → Bool | .any => true | _ => false

mutual
  /-- the modelled universe: no `*time.Time` (RFC 3339 text form, not modelled); `[]uint8` and `[n]uint8` are
  written `bytes` / `barr n`; an inline field is a struct without inline map or a map; at most one inline map per
  struct; the aliases a struct looks up are pairwise distinct. -/
  def GoType.wf : GoType → Bool
    | .ptr t => !isTime t && t.wf
    | .slice t => !isU8 t && t.wf
    | .arr _ t => !isU8 t && t.wf
    | .map t => t.wf
    | .struct fs => fs.wf && decide (inlineMaps fs ≤ 1) && (aliases fs).Nodup
    | _ => true
  def Fields.wf : Fields → Bool
    | .nil => true
    | .cons .inline _ (.struct fs') rest => fs'.wf && decide (inlineMaps fs' = 0) && rest.wf
    | .cons .inline _ (.map t) rest => t.wf && rest.wf
    | .cons .inline _ _ _ => false
    | .cons _ _ t rest => t.wf && rest.wf
end

def keysOf : GoKVs → List Bytes
  | .nil => []
  | .cons k _ kvs => k :: keysOf kvs

/-- the keys of the (at most one) inline map value of a struct value -/
def inlineKeys : Fields → GoVals → List Bytes
  | .cons .inline _ (.map _) rest, .cons (.map kvs) vs => keysOf kvs ++ inlineKeys rest vs
  | .cons _ _ _ rest, .cons _ vs => inlineKeys rest vs
  | _, _ => []

def inInt (w : Width) (v : Int) : Bool :=
  decide (-(2 : Int) ^ (w.bits - 1) ≤ v) && decide (v < (2 : Int) ^ (w.bits - 1))

mutual
  /-- `HasType v t`: `v` is a Go value of type `t` (decidable). For structs: the keys of an inline map are none
  of the aliases the struct looks up (else the document cannot tell them apart). For `any`: the dynamic type is a
  well-formed non-interface type. `float32` excludes signalling NaNs (the float decoder's
  float32→float64→float32 conversion quietens them; `Equal` still holds – documented limit). -/
  def hasType : GoType → GoVal → Bool
    | .int w, .int v => inInt w v
    | .uint w, .uint v => decide (v < 2 ^ w.bits)
    | .f32, .f32 b => decide (b < 2 ^ 32) && decide (quiet32 b = b)
    | .f64, .f64 b => decide (b < 2 ^ 64)
    | .str, .str s => bytesOk s
    | .bool, .bool _ => true
    | .bytes, .bytesNil => true
    | .bytes, .bytes bs => bytesOk bs
    | .barr n, .barr bs => decide (bs.length = n) && bytesOk bs
    | .time, .time ms lost => inInt .w64 ms && decide (lost < 3000000)
    | .dur, .dur ns => inInt .w64 ns
    | .uuid, .uuid bs => decide (bs.length = 16) && bytesOk bs
    | .ptr _, .ptrNil => true
    | .ptr t, .ptr v => hasType t v
    | .slice _, .sliceNil => true
    | .slice t, .slice xs => hasTypeL t xs
    | .arr n t, .arr xs => decide (xs.length = n) && hasTypeL t xs
    | .map _, .mapNil => true
    | .map t, .map kvs => hasTypeKV t kvs && (keysOf kvs).Nodup
    | .struct fs, .struct vs => hasTypeF fs vs && (inlineKeys fs vs).all (fun k => !(aliases fs).contains k)
    | .any, .anyNil => true
    | .any, .any t v => !isAny t && t.wf && hasType t v
    | _, _ => false
  def hasTypeL (t : GoType) : GoVals → Bool
    | .nil => true
    | .cons v vs => hasType t v && hasTypeL t vs
  def hasTypeKV (t : GoType) : GoKVs → Bool
    | .nil => true
    | .cons k v kvs => bytesOk k && hasType t v && hasTypeKV t kvs
  def hasTypeF : Fields → GoVals → Bool
    | .nil, .nil => true
    | .cons _ _ t rest, .cons v vs => hasType t v && hasTypeF rest vs
    | _, _ => false
end

/-- `HasType v t` -/
def HasType (v : GoVal) (t : GoType) : Prop := t.wf = true ∧ hasType t v = true

instance (v : GoVal) (t : GoType) : Decidable (HasType v t) := by unfold HasType; exact inferInstance


/-! ## The normal form the codec maps a value to

`canon t v` is what `decode t (encode t v)` returns for a type without `any` (`closed t`) – proved as
`C16.roundtrip_closed`. The only normalisations:
* a nil slice / nil map / nil `[]byte` becomes the empty one (a Go map has no order: the model lists its pairs in
  Range order, `kvInsert`);
* a pointer whose pointee encodes to null (a chain of pointers ending in nil) becomes the nil pointer;
* `time.Time` keeps its millisecond instant in UTC, `time.Duration` its whole milliseconds;
* an ignored (`json:"-"`) field becomes the zero value;
* an omitempty field whose encoding equals the zero value's encoding becomes the zero value (so −0 becomes +0, an
  empty slice the nil slice, a sub-millisecond duration 0). -/

def isNilDoc : Val → Bool
  | .nil => true
  | _ => false

/-- `SetMapIndex` in Range order of the keys (mirrors `mapSet`) -/
def kvInsert (k : Bytes) (w : GoVal) : GoKVs → GoKVs
  | .nil => .cons k w .nil
  | .cons k' w' rest =>
    if k = k' then .cons k' w rest
    else if klt k k' then .cons k w (.cons k' w' rest)
    else .cons k' w' (kvInsert k w rest)

mutual
  def canon : GoType → GoVal → GoVal
    | .bytes, .bytesNil => .bytes []
    | .time, .time ms _ => .time ms 0
    | .dur, .dur ns => .dur (durOfMs (durMs ns))
    | .ptr t, .ptr v => if isNilDoc (encode t v) then .ptrNil else .ptr (canon t v)
    | .slice _, .sliceNil => .slice .nil
    | .slice t, .slice xs => .slice (canonL t xs)
    | .arr _ t, .arr xs => .arr (canonL t xs)
    | .map _, .mapNil => .map .nil
    | .map t, .map kvs => .map (canonKV t kvs .nil)
    | .struct fs, .struct vs => .struct (canonF fs vs)
    | _, v => v
  def canonL (t : GoType) : GoVals → GoVals
    | .nil => .nil
    | .cons v vs => .cons (canon t v) (canonL t vs)
  def canonKV (t : GoType) : GoKVs → GoKVs → GoKVs
    | .nil, acc => acc
    | .cons k v kvs, acc => canonKV t kvs (kvInsert k (canon t v) acc)
  def canonF : Fields → GoVals → GoVals
    | .cons .named _ t rest, .cons v vs => .cons (canon t v) (canonF rest vs)
    | .cons .omit _ t rest, .cons v vs =>
      .cons (if equal (encode t v) (zeroDoc t) then zero t else canon t v) (canonF rest vs)
    | .cons .ignored _ t rest, .cons _ vs => .cons (zero t) (canonF rest vs)
    | .cons .inline _ (.struct fs') rest, .cons (.struct vs') vs => .cons (.struct (canonF fs' vs')) (canonF rest vs)
    | .cons .inline _ (.map t) rest, .cons (.map kvs) vs => .cons (.map (canonKV t kvs .nil)) (canonF rest vs)
    | .cons .inline _ (.map _) rest, .cons _ vs => .cons (.map .nil) (canonF rest vs)
    | .cons _ _ _ rest, .cons v vs => .cons v (canonF rest vs)
    | _, _ => .nil
end

mutual
  /-- no `any` anywhere (ignored fields do not count: they come back zero) -/
  def closed : GoType → Bool
    | .any => false
    | .ptr t => closed t | .slice t => closed t | .arr _ t => closed t | .map t => closed t
    | .struct fs => closedF fs
    | _ => true
  def closedF : Fields → Bool
    | .nil => true
    | .cons .ignored _ _ rest => closedF rest
    | .cons _ _ t rest => closed t && closedF rest
end

end Uniflow.Codec
