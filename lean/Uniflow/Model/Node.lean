/-
Model of the three node types of `pkg/node` (`onetoone.go`, `onetomany.go`, `manytoone.go`) and of
`packet.ReadGroup` (`pkg/packet/readgroup.go`) as small-step programs over the tracer model, for
one process.

Per process a node runs
* one *forward* goroutine per in-port (`for inPck := range inReader.Read()`): here a `Thread` with
  an `inbox` (the reader's pump) and a program counter. One loop iteration is split into
    `read`    – `tracer.Read(inReader, inPck)` (+ `readGroup.Read` for many-to-one) and entering the action,
    `finish`  – the action returns (its result is chosen by the environment),
    `op`      – one `tracer.Link` / `tracer.Write` call at a time, in the order of the Go code,
  because each of these is its own critical section of `Tracer.mu`;
* one *backward* goroutine per out-writer (`for backPck := range outWriter.Receive()`): the step
  `answer w a` = `tracer.Receive(w, a)`.  When that channel closes the loop ends with
  `tracer.Drop(outWriter)` (`Uniflow.Tracer.dropW`), and so does a forward loop for its writers when
  its reader is closed; writers and readers never close in the schedules of this model – teardown
  is C03's (`Uniflow.Teardown`).

Writers: `0` is the error port's writer, `i+1` the writer of out-port `i`.  Readers: in-port index.
Whether a write is accepted (`writer.Write(pck) > 0`) is decided by the environment (`op _ acc`).

    OneToOne.forward:   Read; (out, err) := action(in)
                        err ≠ nil:  Link(in, err); Write(errWriter, err)
                        out ≠ nil:  Link(in, out); Write(outWriter, out)
                        else:       Write(nil, in)
    OneToMany.forward:  Read; (outs, err) := action(in)
                        err ≠ nil:  Link(in, err); Write(errWriter, err)
                        else:       for i, out (i < len(outWriters), out ≠ nil): Link(in, out)
                                    for i, out (same):  Write(outWriters[i], out); count++
                                    count == 0:  Write(nil, in)
    ManyToOne.forward:  Read; ins := readGroup.Read(inReader, in)
                        len(ins) < len(inPorts):  Write(nil, in)
                        (out, err) := action(ins)
                        err ≠ nil:  Link(in, err); Write(errWriter, err)
                        out ≠ nil:  Link(in, out); Write(outWriter, out)
                        else:       Write(nil, in)
-/
import Uniflow.Model.Tracer

namespace Uniflow.Node
open Uniflow.Tracer

inductive Kind where
  | oneToOne
  | oneToMany (nOut : Nat)
  | manyToOne (nIn : Nat)

/-- a request / derived packet: identity and payload -/
structure Pkt where
  id : Pid
  pay : Val

inductive Op where
  | link (src tgt : Pid)
  | write (w : Option Wid) (q : Pkt)

inductive PC where
  | idle
  | action (p : Pkt) (grp : List Pkt)
  | emit (ops : List Op)

structure Thread where
  inbox : List Pkt := []
  pc : PC := .idle

/-- what an action returns: `outs` = the out packet(s) (`none` = nil), `err` = an error packet -/
inductive Outcome where
  | outs (qs : List (Option Pkt))
  | err (q : Pkt)

structure Node where
  kind : Kind
  strict : Bool := true
  tr : T := {}
  threads : List Thread
  rows : List (List (Option Pkt)) := []      -- ReadGroup.reads
  panic : Bool := false                      -- nil dereference in the node's own code

def nIn : Kind → Nat
  | .oneToOne => 1
  | .oneToMany _ => 1
  | .manyToOne n => n

def mk (k : Kind) (strict : Bool := true) : Node :=
  { kind := k, strict := strict, threads := List.replicate (nIn k) {} }

inductive Step where
  | deliver (i : Rid) (p : Pkt)
  | read (i : Rid)
  | finish (i : Rid) (o : Outcome)
  | op (i : Rid) (acc : Bool)
  | answer (w : Wid) (a : Ans)

def errW : Wid := 0
def outW (i : Nat) : Wid := i + 1

/-! ### ReadGroup -/

def setCell {β : Type} : List (Option β) → Nat → β → List (Option β)
  | [], _, _ => []
  | _ :: cs, 0, b => some b :: cs
  | c :: cs, i + 1, b => c :: setCell cs i b

def cellFree {β : Type} : List (Option β) → Nat → Bool
  | [], _ => false
  | c :: _, 0 => c.isNone
  | _ :: cs, i + 1 => cellFree cs i

/-- put `p` into column `idx` of the first row whose cell `idx` is free (else a new row);
returns the new rows and whether the row used is row 0 -/
def rgPut (n idx : Nat) (p : Pkt) : List (List (Option Pkt)) → Bool → List (List (Option Pkt)) × Bool
  | [], first => ([setCell (List.replicate n none) idx p], first)
  | row :: rows, first =>
    if cellFree row idx then (setCell row idx p :: rows, first)
    else
      let (rows', f) := rgPut n idx p rows false
      (row :: rows', f)

/-- `(*ReadGroup).Read(reader, pck)` for reader index `idx < n` -/
def rgRead (n idx : Nat) (p : Pkt) (rows : List (List (Option Pkt))) : List (List (Option Pkt)) × Option (List Pkt) :=
  match rgPut n idx p rows true with
  | (row :: rest, true) => if hasNil row then (row :: rest, none) else (rest, some (cellsOf row))
  | (rows', _) => (rows', none)

/-! ### the forward program of one request -/

def validOuts (n : Nat) : Nat → List (Option Pkt) → List (Nat × Pkt)
  | _, [] => []
  | i, none :: qs => validOuts n (i + 1) qs
  | i, some q :: qs => if i < n then (i, q) :: validOuts n (i + 1) qs else validOuts n (i + 1) qs

/-- the `Link`/`Write` calls that follow the action's return (`none` = the Go code would dereference nil: no longer
possible – a one-to-one action returning `(nil, nil)` answers the request with itself since the fix) -/
def program (k : Kind) (p : Pkt) : Outcome → Option (List Op)
  | .err q => some [.link p.id q.id, .write (some errW) q]
  | .outs qs =>
    match k with
    | .oneToOne =>
      match qs with
      | [some q] => some [.link p.id q.id, .write (some (outW 0)) q]
      | _ => some [.write none p]
    | .oneToMany n =>
      match validOuts n 0 qs with
      | [] => some [.write none p]
      | vs => some (vs.map (fun iq => Op.link p.id iq.2.id) ++ vs.map (fun iq => Op.write (some (outW iq.1)) iq.2))
    | .manyToOne _ =>
      match qs with
      | [some q] => some [.link p.id q.id, .write (some (outW 0)) q]
      | _ => some [.write none p]

def getThread : List Thread → Nat → Option Thread
  | [], _ => none
  | t :: _, 0 => some t
  | _ :: ts, i + 1 => getThread ts i

def setThread : List Thread → Nat → Thread → List Thread
  | [], _, _ => []
  | _ :: ts, 0, t => t :: ts
  | t' :: ts, i + 1, t => t' :: setThread ts i t

/-- One step; `none` = the step is not enabled in this state. -/
def step (n : Node) : Step → Option (Node × List Ev)
  | .deliver i p =>
    match getThread n.threads i with
    | none => none
    | some th => some ({ n with threads := setThread n.threads i { th with inbox := th.inbox ++ [p] } }, [])
  | .read i =>
    match getThread n.threads i with
    | some { inbox := p :: rest, pc := .idle } =>
      let tr := read n.tr i p.id
      match n.kind with
      | .manyToOne k =>
        let (rows', grp) := rgRead k i p n.rows
        let pc := match grp with
          | some g => PC.action p g
          | none => PC.emit [.write none p]
        some ({ n with tr := tr, rows := rows', threads := setThread n.threads i { inbox := rest, pc := pc } }, [])
      | _ => some ({ n with tr := tr, threads := setThread n.threads i { inbox := rest, pc := .action p [p] } }, [])
    | _ => none
  | .finish i o =>
    match getThread n.threads i with
    | some { inbox := inbox, pc := .action p _ } =>
      match program n.kind p o with
      | some ops => some ({ n with threads := setThread n.threads i { inbox := inbox, pc := .emit ops } }, [])
      | none => some ({ n with panic := true, threads := setThread n.threads i { inbox := inbox, pc := .idle } }, [])
    | _ => none
  | .op i acc =>
    match getThread n.threads i with
    | some { inbox := inbox, pc := .emit (o :: ops) } =>
      let pc' := match ops with
        | [] => PC.idle
        | _ :: _ => PC.emit ops
      let ths := setThread n.threads i { inbox := inbox, pc := pc' }
      match o with
      | .link s t => some ({ n with tr := link n.tr s t, threads := ths }, [])
      | .write w q =>
        let (tr, ev) := write n.strict n.tr w q.id (.pay q.pay) acc
        some ({ n with tr := tr, threads := ths }, ev)
    | _ => none
  | .answer w a =>
    match getL n.tr.writes w with
    | [] => none
    | _ :: _ =>
      let (tr, ev) := receiveW n.strict n.tr w (some a)
      some ({ n with tr := tr }, ev)

/-- run a schedule; steps that are not enabled are skipped -/
def run : Node → List Step → Node × List Ev
  | n, [] => (n, [])
  | n, s :: ss =>
    match step n s with
    | none => run n ss
    | some (n', ev) =>
      let (n'', ev') := run n' ss
      (n'', ev ++ ev')

end Uniflow.Node
