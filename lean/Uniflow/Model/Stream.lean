/-
Model of `pkg/store/stream.go` and of the watcher plumbing of `pkg/store/store.go`
(`Watch`, `emit`, the per-document emission inside `Insert` / `Update` / `Delete`).

Go, per stream: an unbuffered `in`, an unbuffered `out`, a `done` channel and a pump goroutine

    for {
      select { case event = <-c.in: case <-c.done: return }          -- (idle)
      select { case c.out <- event: case <-c.done: return
               default: buffer = append(buffer, event)                -- (trying event)
                 for len(buffer) > 0 {
                   select { case event = <-c.in: buffer = append(buffer, event)
                            case c.out <- buffer[0]: buffer = buffer[1:]
                            case <-c.done: return } } }               -- (draining buffer)
    }                                                                 -- deferred: close(in); close(out)

`Emit` (under `stream.mu`): `select { case <-done: return false; default: in <- doc; return true }`.
`Close` (under `stream.mu`): closes `done` once. `Next`: receives from `out`; `false` when closed.

`store.emit(op, doc)`: for every stream still listed in `store.streams`, in order, if the
stream's filter matches the document, `Emit({op, id})`. It is called once per document, right
after the segment accepted that document's mutation, under the store's write lock.

Two models:
* `Pump` – the pump goroutine's program counter, with its atomic steps (fine grained; used for
  the "a writer never waits for a consumer" theorem and refined to the queue below);
* `Strm` / `St` – each stream as a FIFO queue plus `done` / `exited` flags, the store's list of
  streams and ghost logs (`emitted`, `delivered`), driven by the operations of the property.

Filter matching is a *parameter* of each operation (the set of watchers whose filter matches
the document), as is whether the segment accepted the mutation: both belong to C10/C12.
-/
namespace Uniflow.Stream

structure Event where
  id : Nat
  op : Nat        -- 0 insert, 1 update, 2 delete
  deriving DecidableEq, Repr

/-! ### fine-grained pump -/

inductive Pump where
  | idle                         -- first select: waiting on `in` or `done`
  | trying (e : Event)           -- second select: offers `e` on `out`, non-blocking
  | draining (buf : List Event)  -- inner loop, `buf ≠ []`
  | exited                       -- returned; `in` and `out` closed
  deriving DecidableEq, Repr

/-- Steps of the pump goroutine and of its two partners. -/
inductive PStep where
  | recv (e : Event)   -- rendezvous with `Emit` on `in`
  | give               -- rendezvous with a waiting `Next` on `out`
  | park               -- `default:` of the second select (no consumer waiting)
  | quit               -- observes `done` closed
  deriving DecidableEq, Repr

/-- `pstep done p s`: the pump's next state, `none` when the step is not enabled.
`done` = the done channel is closed. -/
def pstep (done : Bool) : Pump → PStep → Option Pump
  | .idle, .recv e => if done then none else some (.trying e)   -- Emit never sends once done is closed
  | .idle, .quit => if done then some .exited else none
  | .trying e, .give => some .idle
  | .trying e, .park => some (.draining [e])
  | .trying _, .quit => if done then some .exited else none
  | .draining buf, .recv e => if done then none else some (.draining (buf ++ [e]))
  | .draining (_ :: rest), .give => some (if rest.isEmpty then .idle else .draining rest)
  | .draining _, .quit => if done then some .exited else none
  | _, _ => none

/-- What the pump still owes its consumer, oldest first. -/
def Pump.pending : Pump → List Event
  | .idle => []
  | .trying e => [e]
  | .draining buf => buf
  | .exited => []

/-- What a `give` hands to the consumer. -/
def Pump.head? (p : Pump) : Option Event := p.pending.head?

/-- The pump can take an event from `Emit` right now. -/
def Pump.receptive : Pump → Bool
  | .idle => true
  | .draining _ => true
  | _ => false

/-! ### queue-level model driven by the property's operations -/

structure Strm where
  wid : Nat                  -- watcher id
  queue : List Event         -- pump's pending events, oldest first
  done : Bool                -- `done` closed (Close called or context cancelled)
  exited : Bool              -- pump returned: `out` closed, queue discarded
  emitted : List Event       -- ghost: every event `Emit` accepted, in order
  delivered : List Event     -- ghost: every event `Next` returned, in order
  deriving DecidableEq, Repr

structure St where
  streams : List Strm := []  -- `store.streams` plus the streams already removed from it (flag below)
  deriving Repr

inductive Op where
  | watch (w : Nat)                                         -- `Watch`: a new stream with watcher id w
  | doc (e : Event) (accepted : Bool) (matched : List Nat)  -- one document of a mutation
  | next (w : Nat)                                          -- consumer of w receives once (if possible)
  | close (w : Nat)                                         -- `Close` / context cancelled
  | pumpExit (w : Nat)                                      -- the pump of w observes `done`
  deriving Repr

inductive Out where
  | ok
  | ev (e : Event)
  | none_            -- nothing to receive now (a real `Next` would keep waiting)
  | closed           -- `Next` returned false
  | bad
  deriving DecidableEq, Repr

def Strm.fresh (w : Nat) : Strm :=
  { wid := w, queue := [], done := false, exited := false, emitted := [], delivered := [] }

/-- `Emit`: refused once `done` is closed, otherwise handed to the pump. -/
def Strm.emit (s : Strm) (e : Event) : Strm :=
  if s.done then s else { s with queue := s.queue ++ [e], emitted := s.emitted ++ [e] }

def mapW (w : Nat) (f : Strm → Strm) (l : List Strm) : List Strm :=
  l.map (fun s => if s.wid = w then f s else s)

def findW (w : Nat) (l : List Strm) : Option Strm := l.find? (fun s => s.wid = w)

def step (st : St) : Op → St × Out
  | .watch w =>
    if (findW w st.streams).isSome then (st, .bad)
    else ({ streams := st.streams ++ [Strm.fresh w] }, .ok)
  | .doc e accepted matched =>
    if accepted then
      ({ streams := st.streams.map (fun s => if matched.contains s.wid then s.emit e else s) }, .ok)
    else (st, .ok)                -- rejected by the segment: `emit` is never reached
  | .next w =>
    match findW w st.streams with
    | none => (st, .bad)
    | some s =>
      if s.exited then (st, .closed)
      else match s.queue with
        | [] => (st, .none_)
        | e :: rest =>
          ({ streams := mapW w (fun s => { s with queue := rest, delivered := s.delivered ++ [e] }) st.streams }, .ev e)
  | .close w =>
    match findW w st.streams with
    | none => (st, .bad)
    | some _ => ({ streams := mapW w (fun s => { s with done := true }) st.streams }, .ok)
  | .pumpExit w =>
    match findW w st.streams with
    | none => (st, .bad)
    | some s =>
      if s.done ∧ ¬ s.exited then
        ({ streams := mapW w (fun s => { s with exited := true, queue := [] }) st.streams }, .ok)
      else (st, .bad)

def run (st : St) : List Op → St
  | [] => st
  | o :: os => run (step st o).1 os

/-- The specification: what watcher `w` is owed by a history – the events of the accepted
documents that matched its filter while its stream existed and was not closed, in order. -/
def expected (w : Nat) : List Op → Bool → Bool → List Event
  | [], _, _ => []
  | .watch w' :: os, opened, closed =>
    if w' = w ∧ ¬ opened then expected w os true closed else expected w os opened closed
  | .doc e accepted matched :: os, opened, closed =>
    if opened ∧ ¬ closed ∧ accepted ∧ matched.contains w then e :: expected w os opened closed
    else expected w os opened closed
  | .close w' :: os, opened, closed =>
    if w' = w ∧ opened then expected w os opened true else expected w os opened closed
  | _ :: os, opened, closed => expected w os opened closed

end Uniflow.Stream
