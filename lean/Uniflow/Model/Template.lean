/-
Model of `pkg/template` (template.go, node.go): the structural walk that turns a JSON-like
value into a tree of nodes (`(*Template).parse`) and evaluates that tree against a data value
(`node.execute`).  Go's `text/template` is a *parameter* (`TextTemplate`), never re-implemented.

Go being modelled (after the C18 fix, see `parsePinned` for the pinned tree):

  func (t *Template) parse(val reflect.Value) (node, error) {
    switch val.Kind() {
    case reflect.Invalid:                       // a nil `any` (JSON null)          [added by the fix]
      return &valueNode{}, nil
    case reflect.String:                        // EVERY string is handed to text/template
      tmpl, err := template.New(t.name).Parse(val.String())
      if err != nil { return nil, err }
      return &templateNode{typ, tmpl}, nil
    case reflect.Slice, reflect.Array:          // children in index order, first error wins
      ... child, err := t.parse(reflect.ValueOf(val.Index(i).Interface())) ...
      return &sliceNode{typ, children}, nil
    case reflect.Map:                           // for key in val.MapKeys() (unspecified order):
      ... k, err := t.parse(key) ; v, err := t.parse(val.MapIndex(key)) ; children[k] = v
      return &mapNode{typ, children}, nil       //   KEYS are parsed as templates too
    default:
      return &valueNode{value: val.Interface()}, nil    // bool, numbers, … unchanged
    }
  }
  valueNode.execute    = the stored value
  templateNode.execute = text/template Execute into a buffer; the rendered TEXT is the result
                         (a string – it is never re-parsed as JSON/YAML)
  sliceNode.execute    = MakeSlice(len 0) ; Append(child results in order), first error wins
                         (a nil slice therefore comes back as an empty non-nil slice);
                         an ARRAY type is rebuilt element by element (reflect.New(typ).Elem(); Index(i).Set)
                         [added by "fix: template walk no longer panics on arrays": MakeSlice panics on an
                         array type, so any [N]T / uuid.UUID inside fields or env data made Build, Bind and
                         Execute panic, templated or not]
  mapNode.execute      = MakeMap ; for key, child := range children (unspecified order):
                           SetMapIndex(key.execute, child.execute)      (later writes overwrite)
                         (a nil map comes back as an empty non-nil map)

Data layout.  `Doc` is the JSON-like value.  A Go map is an association list whose order is the
order in which `val.MapKeys()` happens to enumerate it (every order is some `Doc`, so theorems
quantified over all `Doc`s cover all enumeration orders); the second, independent enumeration
(`range m.children` in `mapNode.execute`) is the explicit parameter `ord`, a permutation of the
evaluated children.  nil and empty containers are identified (`list []`, `map []`): the code
itself maps both to the empty non-nil container.  `num` is any non-string, non-container,
non-nil scalar (bool is kept separate only for readability); such values are opaque to the walk.

Go spellings.  The walk switches on `reflect.Kind` only and rebuilds every container with the Go type it had
(`typ` of the node), so `[]string`, `[][]string`, `[N]string`, `map[string]string`, `map[string][]string` – what a
Go caller writes, and what `types.Unmarshal` of a stored spec yields for all-string lists and maps – are the
same `Doc` as their `[]any` / `map[string]any` spelling: `list` / `map` with `str` leaves.  `Doc` needs no
constructor for them; the harness runs every case in each spelling against this one model (harness/c18/typed.go)
and additionally checks that an action-free document keeps its Go types.
-/
namespace Uniflow.Template

/-- JSON-like value (`any` holding nil, bool, number, string, `[]any`, `map[string]any`). -/
inductive Doc where
  | null
  | bool (b : Bool)
  | num (n : Int)
  | str (s : String)
  | list (xs : List Doc)
  | map (kvs : List (String × Doc))
  deriving Inhabited

/-- Error classes (only the class is modelled). -/
inductive Err where
  | template      -- text/template Parse or Execute returned an error
  | unsupported   -- encoding.ErrUnsupportedValue
  deriving DecidableEq, Repr

/-- Outcome of a Go call: value, returned error, or a run-time panic at a named site. -/
inductive Res (α : Type) where
  | ok (a : α)
  | err (e : Err)
  | panic (site : String)

def Res.isPanic {α : Type} : Res α → Bool
  | .panic _ => true
  | _ => false

def Res.isOk {α : Type} : Res α → Bool
  | .ok _ => true
  | _ => false

/-- `text/template` as a parameter: `parse s` = `template.New(name).Parse(s)` succeeded;
`exec s dot` = text written by `Execute(&buf, dot)` of that parsed template (`none` = error). -/
structure TextTemplate where
  parse : String → Bool
  exec : String → Doc → Option String

/-- Does `s` contain the left delimiter `{{` ?  (The only thing that makes text/template treat
any part of a string as an action.) -/
def hasDelim : List Char → Bool
  | '{' :: '{' :: _ => true
  | _ :: cs => hasDelim cs
  | [] => false

def plain (s : String) : Prop := hasDelim s.toList = false

instance (s : String) : Decidable (plain s) := by unfold plain; infer_instance

/-- The tree built by `parse` (node.go). -/
inductive Node where
  | value (d : Doc)                 -- valueNode
  | tmpl (s : String)               -- templateNode (the parsed text/template of `s`)
  | slice (cs : List Node)          -- sliceNode
  | map (cs : List (Node × Node))   -- mapNode (key node ↦ value node)

/-- `parse` of a string (value or map key). -/
def parseStr (T : TextTemplate) (s : String) : Res Node :=
  if T.parse s then .ok (.tmpl s) else .err .template

mutual
/-- `(*Template).parse` (fixed tree). -/
def parse (T : TextTemplate) : Doc → Res Node
  | .null => .ok (.value .null)
  | .bool b => .ok (.value (.bool b))
  | .num n => .ok (.value (.num n))
  | .str s => parseStr T s
  | .list xs =>
    match parseList T xs with
    | .ok cs => .ok (.slice cs)
    | .err e => .err e
    | .panic p => .panic p
  | .map kvs =>
    match parseMap T kvs with
    | .ok cs => .ok (.map cs)
    | .err e => .err e
    | .panic p => .panic p
def parseList (T : TextTemplate) : List Doc → Res (List Node)
  | [] => .ok []
  | x :: xs =>
    match parse T x with
    | .err e => .err e
    | .panic p => .panic p
    | .ok c =>
      match parseList T xs with
      | .ok cs => .ok (c :: cs)
      | .err e => .err e
      | .panic p => .panic p
def parseMap (T : TextTemplate) : List (String × Doc) → Res (List (Node × Node))
  | [] => .ok []
  | (k, v) :: r =>
    match parseStr T k with
    | .err e => .err e
    | .panic p => .panic p
    | .ok kn =>
      match parse T v with
      | .err e => .err e
      | .panic p => .panic p
      | .ok vn =>
        match parseMap T r with
        | .ok cs => .ok ((kn, vn) :: cs)
        | .err e => .err e
        | .panic p => .panic p
end

/-- `reflect.Value.SetMapIndex` on an association list: overwrite an existing key in place,
otherwise add the entry. -/
def setKey (k : String) (v : Doc) : List (String × Doc) → List (String × Doc)
  | [] => [(k, v)]
  | (k', v') :: r => if k' = k then (k, v) :: r else (k', v') :: setKey k v r

/-- The body of the `range m.children` loop once keys and values are evaluated: the key result
must be a string (`SetMapIndex` into a `map[string]any` panics otherwise). -/
def insertAll : List (Doc × Doc) → List (String × Doc) → Res (List (String × Doc))
  | [], acc => .ok acc
  | (.str k, v) :: r, acc => insertAll r (setKey k v acc)
  | (_, _) :: _, _ => .panic "SetMapIndex: key is not a string"

mutual
/-- `node.execute`.  `ord` is the order in which `range m.children` visits a map node's
children (any permutation).  Children are evaluated in stored order and the *insertion* happens
in `ord` order: with one error class this is indistinguishable from evaluating in `ord` order. -/
def execute (T : TextTemplate) (ord : List (Doc × Doc) → List (Doc × Doc)) (dot : Doc) :
    Node → Res Doc
  | .value d => .ok d
  | .tmpl s =>
    match T.exec s dot with
    | some t => .ok (.str t)
    | none => .err .template
  | .slice cs =>
    match executeList T ord dot cs with
    | .ok ds => .ok (.list ds)
    | .err e => .err e
    | .panic p => .panic p
  | .map cs =>
    match executeMap T ord dot cs with
    | .ok ps =>
      match insertAll (ord ps) [] with
      | .ok kvs => .ok (.map kvs)
      | .err e => .err e
      | .panic p => .panic p
    | .err e => .err e
    | .panic p => .panic p
def executeList (T : TextTemplate) (ord : List (Doc × Doc) → List (Doc × Doc)) (dot : Doc) :
    List Node → Res (List Doc)
  | [] => .ok []
  | c :: cs =>
    match execute T ord dot c with
    | .err e => .err e
    | .panic p => .panic p
    | .ok d =>
      match executeList T ord dot cs with
      | .ok ds => .ok (d :: ds)
      | .err e => .err e
      | .panic p => .panic p
def executeMap (T : TextTemplate) (ord : List (Doc × Doc) → List (Doc × Doc)) (dot : Doc) :
    List (Node × Node) → Res (List (Doc × Doc))
  | [] => .ok []
  | (kn, vn) :: r =>
    match execute T ord dot kn with
    | .err e => .err e
    | .panic p => .panic p
    | .ok kd =>
      match execute T ord dot vn with
      | .err e => .err e
      | .panic p => .panic p
      | .ok vd =>
        match executeMap T ord dot r with
        | .ok ps => .ok ((kd, vd) :: ps)
        | .err e => .err e
        | .panic p => .panic p
end

/-- `template.Execute(value, data)`: parse, then execute. -/
def run (T : TextTemplate) (ord : List (Doc × Doc) → List (Doc × Doc)) (d dot : Doc) : Res Doc :=
  match parse T d with
  | .ok n => execute T ord dot n
  | .err e => .err e
  | .panic p => .panic p

/-! ### The pinned tree (before the fix): no `reflect.Invalid` case, so a nil reaches
`val.Interface()` on the zero `reflect.Value` and panics. -/

mutual
def parsePinned (T : TextTemplate) : Doc → Res Node
  | .null => .panic "reflect: call of reflect.Value.Interface on zero Value"
  | .bool b => .ok (.value (.bool b))
  | .num n => .ok (.value (.num n))
  | .str s => parseStr T s
  | .list xs =>
    match parseListPinned T xs with
    | .ok cs => .ok (.slice cs)
    | .err e => .err e
    | .panic p => .panic p
  | .map kvs =>
    match parseMapPinned T kvs with
    | .ok cs => .ok (.map cs)
    | .err e => .err e
    | .panic p => .panic p
def parseListPinned (T : TextTemplate) : List Doc → Res (List Node)
  | [] => .ok []
  | x :: xs =>
    match parsePinned T x with
    | .err e => .err e
    | .panic p => .panic p
    | .ok c =>
      match parseListPinned T xs with
      | .ok cs => .ok (c :: cs)
      | .err e => .err e
      | .panic p => .panic p
def parseMapPinned (T : TextTemplate) : List (String × Doc) → Res (List (Node × Node))
  | [] => .ok []
  | (k, v) :: r =>
    match parseStr T k with
    | .err e => .err e
    | .panic p => .panic p
    | .ok kn =>
      match parsePinned T v with
      | .err e => .err e
      | .panic p => .panic p
      | .ok vn =>
        match parseMapPinned T r with
        | .ok cs => .ok ((kn, vn) :: cs)
        | .err e => .err e
        | .panic p => .panic p
end

def runPinned (T : TextTemplate) (ord : List (Doc × Doc) → List (Doc × Doc)) (d dot : Doc) :
    Res Doc :=
  match parsePinned T d with
  | .ok n => execute T ord dot n
  | .err e => .err e
  | .panic p => .panic p

end Uniflow.Template
