/-
Model of `pkg/encoding/group.go` : `(*DecoderGroup).Decode`.

Go (after the `fix:` commit that makes the cached decoder's errors final, like any other's):

    typ := reflect.TypeOf(source)
    var err error
    cache, ok := g.cache.Load(typ)
    if ok {
        if err = cache.Decode(source, target); err == nil { return nil }
        else if !errors.Is(err, ErrUnsupportedType) { return err }
    }
    for _, dec := range g.decoders {
        if dec == cache { continue }
        if err = dec.Decode(source, target); err == nil { g.cache.Store(typ, dec); return nil }
        else if !errors.Is(err, ErrUnsupportedType) { return err }
    }
    return err

A decoder is a total function `Src → R α`; decoders are addressed by their index in the
group (the Go code compares interface values, `Add` refuses duplicates, so index = identity).
The `sync.Map` cache is an association list `source type ↦ decoder index`, newest first.
-/
namespace Uniflow.Group

/-- Result of one decoder / of the group: `nil` error with a decoded value, the
`ErrUnsupportedType` class, any other error, or `noop` = nil error with nothing decoded
(only an empty group returns that). -/
inductive R (α : Type) where
  | ok (a : α)
  | unsupported
  | other (e : Nat)
  | noop
  deriving DecidableEq, Repr

abbrev Cache := List (Nat × Nat)

def lookup (c : Cache) (t : Nat) : Option Nat :=
  match c with
  | [] => none
  | (t', i) :: rest => if t' = t then some i else lookup rest t

/-- The `for _, dec := range g.decoders` loop over the decoders paired with their index.
`err` is the Go variable `err` on entry. Returns the result and, when a decoder succeeded,
its index (to be cached). -/
def loop {σ α : Type} (skip : Option Nat) (s : σ) : List ((σ → R α) × Nat) → R α → R α × Option Nat
  | [], err => (err, none)
  | (d, i) :: ds, err =>
    if skip = some i then loop skip s ds err
    else match d s with
      | .ok a => (.ok a, some i)
      | .other e => (.other e, none)
      | .noop => (.noop, some i)            -- nil error: treated by Go exactly like success
      | .unsupported => loop skip s ds .unsupported

def store (c : Cache) (t : Nat) : Option Nat → Cache
  | none => c
  | some i => (t, i) :: c

/-- `Decode` of the fixed code. -/
def decode {σ α : Type} (ty : σ → Nat) (ds : List (σ → R α)) (c : Cache) (s : σ) : R α × Cache :=
  let t := ty s
  match lookup c t with
  | none =>
    let (r, st) := loop none s ds.zipIdx .noop
    (r, store c t st)
  | some i =>
    match ds[i]? with
    | none =>
      let (r, st) := loop none s ds.zipIdx .noop
      (r, store c t st)
    | some d =>
      match d s with
      | .ok a => (.ok a, c)
      | .noop => (.noop, c)
      | .other e => (.other e, c)
      | .unsupported =>
        let (r, st) := loop (some i) s ds.zipIdx .unsupported
        (r, store c t st)

/-- `Decode` as it was on the pinned tree: an error of the cached decoder is not final. Kept
to state (and prove) that the pinned behaviour violated purity. -/
def decodePinned {σ α : Type} (ty : σ → Nat) (ds : List (σ → R α)) (c : Cache) (s : σ) : R α × Cache :=
  let t := ty s
  match lookup c t with
  | none =>
    let (r, st) := loop none s ds.zipIdx .noop
    (r, store c t st)
  | some i =>
    match ds[i]? with
    | none =>
      let (r, st) := loop none s ds.zipIdx .noop
      (r, store c t st)
    | some d =>
      match d s with
      | .ok a => (.ok a, c)
      | .noop => (.noop, c)
      | e =>
        let (r, st) := loop (some i) s ds.zipIdx e
        (r, store c t st)

/-- Run a sequence of decodes, returning the final cache. -/
def warm {σ α : Type} (ty : σ → Nat) (ds : List (σ → R α)) : Cache → List σ → Cache
  | c, [] => c
  | c, s :: ss => warm ty ds (decode ty ds c s).2 ss

end Uniflow.Group

/-!
## `DecodeAssembler` (pkg/encoding/assembler.go)

    func (a *DecodeAssembler) Add(compiler)  { a.compilers = append([]{compiler}, a.compilers...) }   -- prepend
    func (a *DecodeAssembler) Compile(typ) {
        if dec, ok := a.decoders.Load(typ); ok { return dec }
        decoders := every compiler.Compile(typ) that succeeds, in a.compilers order
        if len(decoders) == 0 { return ErrUnsupportedType }          -- not memoised
        if len(decoders) == 1 { dec = decoders[0] } else { dec = new DecoderGroup of them }
        a.decoders.Store(typ, dec); return dec }
    func (a *DecodeAssembler) Decode(source, target) { dec, err := a.Compile(typeOf(target)); if err … ; return dec.Decode(source, ptr) }

A compiler is a total function from the target type to an optional decoder. The memo maps a
target type to the state of what was compiled for it: the group's cache (a single decoder has
no state).
-/
namespace Uniflow.Group

abbrev Compiler (σ α : Type) := Nat → Option (σ → R α)

/-- `Add` prepends. -/
def addCompiler {σ α : Type} (cs : List (Compiler σ α)) (c : Compiler σ α) : List (Compiler σ α) := c :: cs

/-- The decoders `Compile` collects for target type `τ`. -/
def compiled {σ α : Type} (cs : List (Compiler σ α)) (τ : Nat) : List (σ → R α) :=
  cs.filterMap (fun c => c τ)

/-- Memo: target type ↦ cache of the group compiled for it (`none` = not compiled yet). -/
abbrev Memo := Nat → Option Cache

def Memo.empty : Memo := fun _ => none

def Memo.set (m : Memo) (τ : Nat) (c : Cache) : Memo := fun k => if k = τ then some c else m k

/-- `DecodeAssembler.Decode` for target type `τ`. -/
def asmDecode {σ α : Type} (ty : σ → Nat) (cs : List (Compiler σ α)) (m : Memo) (τ : Nat) (s : σ) : R α × Memo :=
  match compiled cs τ with
  | [] => (.unsupported, m)
  | [d] => (d s, m.set τ [])
  | ds =>
    let c := (m τ).getD []
    let (r, c') := decode ty ds c s
    (r, m.set τ c')

def asmWarm {σ α : Type} (ty : σ → Nat) (cs : List (Compiler σ α)) : Memo → List (Nat × σ) → Memo
  | m, [] => m
  | m, (τ, s) :: rest => asmWarm ty cs (asmDecode ty cs m τ s).2 rest

end Uniflow.Group
