/-
Model of `pkg/store/helper.go` (`match`, `validate`, `patch`, `extract`, `pinned`, `fields`) and of the
tail of `store.Find` (sort / skip / limit), **after** the `fix:` commits of C10–C12 (Props/C10.lean lists
them). Core Lean only. The segment, the indexes and the store operations are in `Model/Index.lean`,
the planner in `Model/Plan.lean`.

Documents, filters and updates are `Val.map ps`, `ps` in the map's `Range` order (Model/Value.lean).
Iterating a `types.Map` with `Range` is iterating `ps` from the front.

Go                                   | here
-------------------------------------|--------------------------------------------------------------
`m.Get(k)` (nil when missing)        | `mget ps k`     first pair whose key is `Equal` to `k`
`m.Has(k)`                           | `mhas ps k`
`m.Set(k, v)`                        | `mset ps k v`   overwrite in place (the stored key is kept), else insert at the
                                     |                 position `Range` will give it: ascending `(hash, Compare)`
`m.Delete(k)`                        | `mdel ps k`
`match(doc, filter)`                 | `matchV doc true filter` (`matchField` is `matchV`)
`validate(filter)`                   | `validate filter`
`patch(doc, update)`                 | `patch doc update`
`extract(filter)`                    | `extract filter`  (only used for the upsert document)
`pinned(filter)`, `fields(filter)`   | `pinned`, `fieldsOf`
`slices.SortFunc` + skip/limit       | `sortDocs` (stable insertion sort), `window`

Simplifications, each harmless for what is observed:
* The hash buckets of a map are C15's subject (Model/MapHeap.lean). Here a lookup is the first pair whose key
  is `Equal`; `Compare = 0 ↔ Equal` and `Equal → same hash` are C14 theorems, the binary search inside a
  sorted bucket is proved in C15.
* `slices.SortFunc` is not stable; the model's sort is. Observations of sorted finds are therefore compared
  as sequences of tie classes (harness), and the theorems speak of the sorted key sequence / of permutations.
* error *classes* only (`Err`); Go's messages are not modelled.
* where Go panics the model returns `Res.panic` (`types.Cast[types.Map](nil)` inside `extract`).
-/
import Uniflow.Model.Value
import Uniflow.Model.CodecNum

namespace Uniflow.Store
open Uniflow.Value

/-- error classes of `pkg/store` -/
inductive Err
  | unsupportedType | unsupportedOperation | keyMissing | keyDuplicate | keyNotFound
  deriving DecidableEq, Repr, Inhabited

def Err.name : Err → String
  | .unsupportedType => "unsupportedType"
  | .unsupportedOperation => "unsupportedOperation"
  | .keyMissing => "keyMissing"
  | .keyDuplicate => "keyDuplicate"
  | .keyNotFound => "keyNotFound"

/-- outcome of a Go function returning `(T, error)` that may also panic -/
inductive Res (α : Type)
  | ok (a : α)
  | err (e : Err)
  | panic
  deriving Repr, DecidableEq

instance [Inhabited α] : Inhabited (Res α) := ⟨.panic⟩

@[inline] def Res.bind (r : Res α) (f : α → Res β) : Res β :=
  match r with
  | .ok a => f a
  | .err e => .err e
  | .panic => .panic

/-! ## operator and field names (UTF-8 bytes) -/

def opExists : Bytes := [36, 101, 120, 105, 115, 116, 115]
def opEq : Bytes := [36, 101, 113]
def opNe : Bytes := [36, 110, 101]
def opGt : Bytes := [36, 103, 116]
def opLt : Bytes := [36, 108, 116]
def opGte : Bytes := [36, 103, 116, 101]
def opLte : Bytes := [36, 108, 116, 101]
def opAnd : Bytes := [36, 97, 110, 100]
def opOr : Bytes := [36, 111, 114]
def opSet : Bytes := [36, 115, 101, 116]
def opUnset : Bytes := [36, 117, 110, 115, 101, 116]
def keyId : Val := .str [105, 100]

/-- `strings.HasPrefix(key, "$")` -/
def dollar : Bytes → Bool
  | 36 :: _ => true
  | _ => false

/-! ## maps in `Range` order -/

/-- position of a key in `Range` order: ascending hash, then ascending `Compare` -/
def keyCmp (a b : Val) : Int := lexStep (cmpNat (hash a).toNat (hash b).toNat) (cmp a b)

/-- `Map.Get` with presence: `none` when no key is `Equal` to `k` -/
def mfind : PList → Val → Option Val
  | .nil, _ => none
  | .cons k' v' ps, k => if equal k' k then some v' else mfind ps k

/-- `Map.Get`: nil for a missing key -/
def mget (ps : PList) (k : Val) : Val := (mfind ps k).getD .nil

/-- `Map.Has` -/
def mhas (ps : PList) (k : Val) : Bool := (mfind ps k).isSome

/-- `mutableMap.Set` -/
def mset : PList → Val → Val → PList
  | .nil, k, v => .cons k v .nil
  | .cons k' v' ps, k, v =>
    if equal k' k then .cons k' v ps
    else if keyCmp k k' < 0 then .cons k v (.cons k' v' ps)
    else .cons k' v' (mset ps k v)

/-- `mutableMap.Delete` -/
def mdel : PList → Val → PList
  | .nil, _ => .nil
  | .cons k' v' ps, k => if equal k' k then ps else .cons k' v' (mdel ps k)

/-- `for k, v := range m.Range() { doc.Set(k, v) }` -/
def msetAll (doc : PList) : PList → PList
  | .nil => doc
  | .cons k v ps => msetAll (mset doc k v) ps

/-- `for k := range m.Range() { doc.Delete(k) }` -/
def mdelAll (doc : PList) : PList → PList
  | .nil => doc
  | .cons k _ ps => mdelAll (mdel doc k) ps

/-- `value != nil && !reflect.ValueOf(value).IsZero()`: the scalar kinds are one-field structs (zero iff the
field is zero: `false`, `0`, `±0.0`, `""`), the others non-nil pointers. -/
def truthy : Val → Bool
  | .nil => false
  | .bool b => b
  | .int _ v => v != 0
  | .uint _ v => v != 0
  | .f32 b => fkey32 b != 0
  | .f64 b => fkey64 b != 0
  | .str bs => !bs.isEmpty
  | .bin _ => true
  | .err _ => true
  | .slice _ => true
  | .map _ => true

/-- the comparison operators of `match` (everything but `$exists`, `$and`, `$or`): `some holds`, or `none`
for an operator `match` does not know -/
def cmpOp (key : Bytes) (doc v : Val) : Option Bool :=
  if key = opEq then some (equal doc v)
  else if key = opNe then some (!equal doc v)
  else if key = opGt then some (decide (cmp doc v > 0))
  else if key = opLt then some (decide (cmp doc v < 0))
  else if key = opGte then some (decide (cmp doc v ≥ 0))
  else if key = opLte then some (decide (cmp doc v ≤ 0))
  else none

/-! ## `match`

    func matchField(doc types.Value, exists bool, filter types.Value) (bool, error) {
      f, ok := filter.(types.Map); if !ok { return types.Equal(doc, filter), nil }
      for k, value := range f.Range() {
        key, ok := k.(types.String); if !ok { return false, ErrUnsupportedType }
        if !strings.HasPrefix(key, "$") {
          var child types.Value; var has bool
          if d, ok := doc.(types.Map); ok { child, has = d.Get(key), d.Has(key) }
          ok, err := matchField(child, has, value); if err != nil {…}; if !ok { return false, nil }; continue }
        switch key {
        case "$exists": if exists != truthy(value) { return false, nil }
        case "$eq" … "$lte": if !cond { return false, nil }
        case "$and": vals, ok := value.(types.Slice); if !ok { return false, ErrUnsupportedType }
                     for sub: m, err := matchField(doc, exists, sub); err → return; !m → return false
        case "$or":  the same with "first sub that matches", none → return false
        default: return false, ErrUnsupportedOperation } }
      return true, nil }
-/

mutual
  def matchV (doc : Val) (ex : Bool) : Val → Res Bool
    | .map ps => matchP doc ex ps
    | f => .ok (equal doc f)
  /-- the loop over the filter's entries -/
  def matchP (doc : Val) (ex : Bool) : PList → Res Bool
    | .nil => .ok true
    | .cons k value rest =>
      match k with
      | .str key =>
        if !dollar key then
          let child := match doc with | .map d => mget d k | _ => .nil
          let has := match doc with | .map d => mhas d k | _ => false
          match matchV child has value with
          | .ok true => matchP doc ex rest
          | r => r
        else if key = opExists then
          if ex != truthy value then .ok false else matchP doc ex rest
        else if key = opAnd then
          match value with
          | .slice xs =>
            match matchAll doc ex xs with
            | .ok true => matchP doc ex rest
            | r => r
          | _ => .err .unsupportedType
        else if key = opOr then
          match value with
          | .slice xs =>
            match matchAny doc ex xs with
            | .ok true => matchP doc ex rest
            | r => r
          | _ => .err .unsupportedType
        else
          match cmpOp key doc value with
          | some true => matchP doc ex rest
          | some false => .ok false
          | none => .err .unsupportedOperation
      | _ => .err .unsupportedType
  /-- `$and`: stop at the first sub-filter that fails or errs -/
  def matchAll (doc : Val) (ex : Bool) : VList → Res Bool
    | .nil => .ok true
    | .cons f fs =>
      match matchV doc ex f with
      | .ok true => matchAll doc ex fs
      | r => r
  /-- `$or`: stop at the first sub-filter that matches or errs -/
  def matchAny (doc : Val) (ex : Bool) : VList → Res Bool
    | .nil => .ok false
    | .cons f fs =>
      match matchV doc ex f with
      | .ok false => matchAny doc ex fs
      | r => r
end

/-! ## `validate`: the error `match` would raise, without a document -/

mutual
  def validate : Val → Option Err
    | .map ps => validateP ps
    | _ => none
  def validateP : PList → Option Err
    | .nil => none
    | .cons k value rest =>
      match k with
      | .str key =>
        if !dollar key then
          match validate value with
          | none => validateP rest
          | e => e
        else if key = opAnd || key = opOr then
          match value with
          | .slice xs =>
            match validateL xs with
            | none => validateP rest
            | e => e
          | _ => some .unsupportedType
        else if key = opExists || (cmpOp key .nil .nil).isSome then validateP rest
        else some .unsupportedOperation
      | _ => some .unsupportedType
  def validateL : VList → Option Err
    | .nil => none
    | .cons f fs =>
      match validate f with
      | none => validateL fs
      | e => e
end

/-! ## `patch` -/

/-- the loop of `patch` over the update document; `doc` is the mutable copy -/
def patchP (doc : PList) : PList → Res PList
  | .nil => .ok doc
  | .cons k value rest =>
    match k with
    | .str key =>
      if key = opSet then
        match value with
        | .map kv => patchP (msetAll doc kv) rest
        | _ => .err .unsupportedType
      else if key = opUnset then
        match value with
        | .map kv => patchP (mdelAll doc kv) rest
        | _ => .err .unsupportedType
      else .err .unsupportedOperation
    | _ => .err .unsupportedType

/-- `patch(doc, update)` -/
def patch (doc update : PList) : Res PList := patchP doc update

/-! ## `extract` (upsert document)

    for k, value := range f.Range() {
      key, ok := k.(types.String); if !ok { continue }
      if !HasPrefix(key, "$") { child, err := extract(value); …; if child != nil { doc = doc.Set(key, child) }; continue }
      switch key {
      case "$eq": return value, nil
      case "$and", "$or": vals, ok := value.(types.Slice); if !ok { return nil, ErrUnsupportedType }
        for sub: child, err := types.Cast[types.Map](extract(sub))     -- panics on a nil value, ErrUnsupportedType on a non-map
                 for key, val := range child.Range() { if doc.Has(key) { return nil, ErrKeyDuplicate }; doc = doc.Set(key, val) }
      default: return nil, nil } }
    return doc, nil
-/

/-- merge of one `$and`/`$or` branch into the document under construction -/
def mergeNew (doc : PList) : PList → Res PList
  | .nil => .ok doc
  | .cons k v ps => if mhas doc k then .err .keyDuplicate else mergeNew (mset doc k v) ps

mutual
  def extract : Val → Res Val
    | .map ps => extractP .nil ps
    | v => .ok v
  def extractP (doc : PList) : PList → Res Val
    | .nil => .ok (.map doc)
    | .cons k value rest =>
      match k with
      | .str key =>
        if !dollar key then
          match extract value with
          | .ok .nil => extractP doc rest
          | .ok child => extractP (mset doc k child) rest
          | .err e => .err e
          | .panic => .panic
        else if key = opEq then .ok value
        else if key = opAnd || key = opOr then
          match value with
          | .slice xs =>
            match extractL doc xs with
            | .ok doc' => extractP doc' rest
            | .err e => .err e
            | .panic => .panic
          | _ => .err .unsupportedType
        else .ok .nil
      | _ => extractP doc rest
  def extractL (doc : PList) : VList → Res PList
    | .nil => .ok doc
    | .cons f fs =>
      match extract f with
      | .ok (.map child) =>
        match mergeNew doc child with
        | .ok doc' => extractL doc' fs
        | .err e => .err e
        | .panic => .panic
      | .ok .nil => .panic
      | .ok _ => .err .unsupportedType
      | .err e => .err e
      | .panic => .panic
end

/-! ## `pinned`, `fields` (partial-index applicability)

    pinned: for k, value := range f.Range() {
      non-$ key: if cond, ok := value.(types.Map); ok { value = cond.Get("$eq") }; if value != nil { doc.Set(key, value) }
      "$and" with a slice: for sub { for k, v := range pinned(sub).Range() { doc.Set(k, v) } } }
-/

def isNil : Val → Bool
  | .nil => true
  | _ => false

mutual
  def pinnedV (doc : PList) : Val → PList
    | .map ps => pinnedP doc ps
    | _ => doc
  def pinnedP (doc : PList) : PList → PList
    | .nil => doc
    | .cons k value rest =>
      match k with
      | .str key =>
        if !dollar key then
          let v := match value with | .map cond => mget cond (.str opEq) | v => v
          pinnedP (if isNil v then doc else mset doc k v) rest
        else if key = opAnd then
          match value with
          | .slice xs => pinnedP (pinnedL doc xs) rest
          | _ => pinnedP doc rest
        else pinnedP doc rest
      | _ => pinnedP doc rest
  def pinnedL (doc : PList) : VList → PList
    | .nil => doc
    | .cons f fs => pinnedL (pinnedV doc f) fs
end

/-- `pinned(filter)`. (Go builds the document of each `$and` branch separately and copies it over; setting
the fields directly in `Range` order yields the same map: `Set` of the same keys in the same order.) -/
def pinned (filter : Val) : PList := pinnedV .nil filter

mutual
  /-- `fields(filter)`: `none` = not analysable -/
  def fieldsOf : Val → Option (List Val)
    | .map ps => fieldsP ps
    | _ => none
  def fieldsP : PList → Option (List Val)
    | .nil => some []
    | .cons k value rest =>
      match k with
      | .str key =>
        if !dollar key then (fieldsP rest).map (k :: ·)
        else if key = opAnd || key = opOr then
          match value with
          | .slice xs =>
            match fieldsL xs, fieldsP rest with
            | some a, some b => some (a ++ b)
            | _, _ => none
          | _ => none
        else none
      | _ => none
  def fieldsL : VList → Option (List Val)
    | .nil => some []
    | .cons f fs =>
      match fieldsOf f, fieldsL fs with
      | some a, some b => some (a ++ b)
      | _, _ => none
end

/-! ## sort, skip, limit (`store.Find`) -/

/-! `order := 1; _ = types.Unmarshal(o, &order)` in the comparator of `Find`: the direction operand is decoded into a Go
`int` by the codec of pkg/types (the leaf decoders of an integer target, Model/Codec.lean `leavesInt` – the tie is
`C10.dirOf_is_int_decoder`), and a decoding error is *ignored*, leaving `order = 1`:

    Int … Int64        the value
    Uint … Uint64      `int(u)`: two's complement (`Uint64(MaxUint64)` is -1)
    Float32 / Float64  `int(f)`: truncation toward zero (`-2.5` ↦ -2, `0.9` ↦ 0). NaN, ±Inf and magnitudes ≥ 2^63 are
                       implementation-defined in Go; amd64 yields MinInt64 (modelled so, never generated: the product
                       `comp * order` then overflows and the comparator is not an order)
    String             `strconv.Atoi`: optional sign and decimal digits within int64; anything else is an error ⇒ 1
    anything else      unsupported type ⇒ 1 (nil, booleans, binaries, lists, maps) -/

def minInt64 : Int := -9223372036854775808

/-- two's complement reading of a 64-bit pattern -/
def wrap64 (v : Nat) : Int :=
  if v % 18446744073709551616 < 9223372036854775808 then (v % 18446744073709551616 : Nat)
  else ((v % 18446744073709551616 : Nat) : Int) - 18446744073709551616

def inInt64 (v : Int) : Bool := decide (minInt64 ≤ v) && decide (v < 9223372036854775808)

/-- `int64(float64(f))` for a float32 pattern: magnitude truncated (`none` for NaN / ±Inf) -/
def intOfF32 (b : Nat) : Option Int :=
  let ex := (b / 8388608) % 256
  let m := b % 8388608
  let mag : Option Nat :=
    if ex = 255 then none
    else if ex < 127 then some 0
    else if ex - 127 ≥ 23 then some ((8388608 + m) * 2 ^ (ex - 127 - 23)) else some ((8388608 + m) / 2 ^ (23 - (ex - 127)))
  mag.map fun mag => if (b / 2147483648) % 2 = 1 then -(mag : Int) else (mag : Int)

def floatDir : Option Int → Int
  | some i => if inInt64 i then i else minInt64
  | none => minInt64

def digitsOf : Bytes → Option Nat
  | [] => none
  | ds => ds.foldl (fun acc d => acc.bind fun n => if 48 ≤ d ∧ d ≤ 57 then some (n * 10 + (d - 48)) else none) (some 0)

/-- `strconv.Atoi` -/
def atoiDir (s : Bytes) : Option Int :=
  match s with
  | 45 :: r => (digitsOf r).map fun n => -(n : Int)
  | 43 :: r => (digitsOf r).map fun n => (n : Int)
  | r => (digitsOf r).map fun n => (n : Int)

/-- the direction a sort operand decodes to -/
def dirOf : Val → Int
  | .int _ v => v
  | .uint _ v => wrap64 v
  | .f64 b => floatDir (Uniflow.Codec.intOfF64 b)
  | .f32 b => floatDir (intOfF32 b)
  | .str s => match atoiDir s with
    | some v => if inInt64 v then v else 1
    | none => 1
  | _ => 1

def orderOf (v : Val) : Int := dirOf v

/-- the comparator of `slices.SortFunc` in `Find`: first sort field (in the sort map's `Range` order) on which the
documents differ, times its order -/
def sortCmp (x y : PList) : PList → Int
  | .nil => 0
  | .cons field o rest =>
    let c := cmp (mget x field) (mget y field)
    if c != 0 then c * orderOf o else sortCmp x y rest

def insertDoc (spec : PList) (d : PList) : List PList → List PList
  | [] => [d]
  | e :: es => if sortCmp d e spec ≤ 0 then d :: e :: es else e :: insertDoc spec d es

/-- stable insertion sort under `sortCmp`: `foldr` inserts each document in front of the documents after it that do
not have to precede it, so documents that tie keep their scan order – in particular a direction that decodes to 0 (every
pair ties) leaves the scan order untouched, as Go's `slices.SortFunc` does for the ≤ 12 elements of insertion sort
(longer inputs with ties: any order; the harness's histories hold at most 7 documents) -/
def sortDocs (spec : PList) (docs : List PList) : List PList :=
  docs.foldr (insertDoc spec) []

/-- skip / limit exactly as `Find` clamps them (`limit = 0` means no limit; negative options are ignored by the
option loop, so both are naturals here) -/
def window (skip limit : Nat) (docs : List PList) : List PList :=
  let skip := if skip > docs.length then docs.length else skip
  let limit := if limit = 0 then docs.length else limit
  let hi := if skip + limit > docs.length then docs.length else skip + limit
  (docs.take hi).drop skip

end Uniflow.Store
