/-
Lock discipline over the regenerated fact table `Uniflow.Generated.Locks`.

`fieldGuarded` is the executable check "every access to this field happens under one common
mutex of the owning object (writes exclusively)". `Trace` / `Feasible` give the semantics in
which that discipline is shown (in `Props/C20.lean`) to exclude overlapping conflicting accesses.
-/
import Uniflow.Generated.Locks

namespace Uniflow.Lockset
open Uniflow.Generated.Locks

/-- Methods that run before the object is shared (constructors are plain functions and are not
in the table; nothing to exempt here) – kept as an explicit, reviewable list. -/
def ctorMethods : List (String × String) := []

def accessesOf (typ field : String) : List Access :=
  accesses.filter (fun a => a.typ == typ && a.field == field && !ctorMethods.contains (a.typ, a.meth))

def guardedBy (m : String) (as : List Access) : Bool :=
  as.all (fun a => if a.write then a.heldExcl.contains m else a.held.contains m)

def mutexesOf (typ : String) : List String :=
  (fields.filter (fun f => f.typ == typ && f.kind == "mutex")).map (·.name)

/-- A plain field is fine when it is never written after construction, or when one mutex of
its object guards every access. -/
def fieldGuarded (f : FieldInfo) : Bool :=
  f.kind != "plain" ||
  (let as := accessesOf f.typ f.name
   !(as.any (·.write)) || (mutexesOf f.typ).any (fun m => guardedBy m as))

def unguardedFields : List (String × String) :=
  (fields.filter (fun f => !fieldGuarded f)).map (fun f => (f.typ, f.name))

end Uniflow.Lockset

namespace Uniflow.Lockset
open Uniflow.Generated.Locks

/-! ### deadlock discipline -/

def selfAcquires : List Acquire := acquires.filter (fun a => a.held.contains a.lock)

/-- Same-type calls that go from an object to another instance along a tree order. -/
def treeVias : List (String × String) := [("process.Process", "recv.parent")]

def orderEdges : List (String × String) :=
  (acquires.flatMap fun a => (a.held.filter (· != a.lock)).map fun h => (a.typ ++ "." ++ h, a.typ ++ "." ++ a.lock)) ++
  (calls.flatMap fun c =>
    if c.dynamic || c.held.isEmpty then [] else
    let targets :=
      if c.via == "recv" then c.calleeAcquires.filter (fun l => l.1 != c.typ)
      else if treeVias.contains (c.typ, c.via) then c.calleeAcquires.filter (fun l => l.1 != c.typ)
      else c.calleeAcquires
    c.held.flatMap fun h => targets.map fun l => (h, l.2))

def nodes : List String := (orderEdges.flatMap fun e => [e.1, e.2]).eraseDups

def succs (n : String) : List String := ((orderEdges.filter (·.1 == n)).map (·.2)).eraseDups

def reachFrom (fuel : Nat) (frontier seen : List String) : List String :=
  match fuel with
  | 0 => seen
  | fuel + 1 =>
    let next := ((frontier.flatMap succs).eraseDups).filter (fun n => !seen.contains n)
    if next.isEmpty then seen else reachFrom fuel next (seen ++ next)

/-- Locks that lie on a cycle of the lock-order graph. -/
def cyclicLocks : List String :=
  nodes.filter fun n => (reachFrom nodes.length (succs n) (succs n)).contains n

/-- Calls that may run code outside the modelled objects while a lock is held. -/
def callouts : List (String × String × String) :=
  ((calls.filter fun c => !c.held.isEmpty &&
      ((c.dynamic && !c.valueIface) || (c.passesFn && c.calleeMayCallOut))).map
    fun c => (c.typ ++ "." ++ c.meth, c.callee, c.heldStr)).eraseDups

/-- Calls under a lock to modelled methods that themselves may call out (hooks run by the callee
while the caller's lock is still held). -/
def transitiveCallouts : List (String × String) :=
  ((calls.filter fun c => !c.held.isEmpty && !c.dynamic && c.via != "recv" && c.calleeMayCallOut).map
    fun c => (c.typ ++ "." ++ c.meth, c.callee)).eraseDups

end Uniflow.Lockset

namespace Uniflow.Lockset
open Uniflow.Generated.Locks

/-! ### slices that escape a critical section

A method may copy a slice header out of a field under the lock and walk the slice after
releasing it (`hooks := p.openHooks; p.mu.Unlock(); hooks.Open(proc)`). The field accesses are
all guarded, yet the *backing array* is now read without the lock: it must never be written in
place again (no `s[i] = v`, no `append(s[:i], …)` – removal has to allocate). -/

/-- Every snapshotted slice field is never written in place, or is on the list `cleared` of
fields whose snapshot is taken by the critical section that also clears the field. -/
def snapshotsSafe (cleared : List (String × String)) (snaps inpl : List (String × String × String)) : Bool :=
  snaps.all fun s => cleared.contains (s.1, s.2.2) || !(inpl.any fun w => w.1 == s.1 && w.2.2 == s.2.2)

end Uniflow.Lockset

namespace Uniflow.Lockset
open Uniflow.Generated.Locks

/-! ### pointer elements that leave the object

A container field may hold pointers (`frames : map[uuid.UUID][]*Frame`) that are also handed out –
returned by an exported method or passed to watchers/hooks. The lock-set rule only sees the
container field; a write *through* such an element (`f.InPck = pck`) is invisible to it although the
receiver of the pointer reads the struct without the lock. -/

/-- Writes through element pointers whose struct type leaves the object (`ews`, `pubs`: the
generated `elemWrites`, `publishedElems`). -/
def publishedWritesOf (ews : List (String × String × String × String × String))
    (pubs : List (String × String × String)) : List (String × String × String × String × String) :=
  ews.filter fun w => pubs.any fun p => p.1 == w.1 && p.2.1 == w.2.2.2.1

def publishedElemWrites : List (String × String × String × String × String) :=
  publishedWritesOf elemWrites publishedElems

/-! ### call-outs under a read lock

Code outside the modelled objects that runs while a mutex is only *read*-held may call back into a
method that read-locks the same mutex; Go's RWMutex blocks that nested RLock as soon as a writer
is waiting (the assemblers' `Compile` did exactly this). Only objects that have a writer matter. -/

def hasWriter (qualifiedMutex : String) : Bool :=
  acquires.any fun a => a.excl && (a.typ ++ "." ++ a.lock) == qualifiedMutex

def readLockCallouts : List (String × String × String) :=
  ((calls.filter fun c =>
      ((c.dynamic && !c.valueIface) || (c.passesFn && c.calleeMayCallOut)) &&
      c.held.any (fun m => !c.heldExcl.contains m && hasWriter m)).map
    fun c => (c.typ ++ "." ++ c.meth, c.callee, c.heldStr)).eraseDups

/-! ### sync objects held in fields -/

def condOps : List SyncOp := syncOps.filter (·.kind == "sync.Cond")
def waitGroupOps : List SyncOp := syncOps.filter (·.kind == "sync.WaitGroup")

/-- Condition variables that can have several goroutines parked at once: a `Wait` site in an
exported method (any number of callers). -/
def multiWaiterCondsOf (ops : List SyncOp) : List (String × String) :=
  ((ops.filter fun o => o.kind == "sync.Cond" && o.op == "Wait" &&
      methodTable.any (fun m => m.1 == o.typ && m.2.1 == o.meth && m.2.2.1)).map fun o => (o.typ, o.field)).eraseDups

/-- Wake-ups of such a condition variable made with `Signal` (wakes ONE waiter): the waiter that
is woken returns, the others stay parked although the condition they wait for holds. -/
def condSignalsOf (ops : List SyncOp) : List (String × String × String) :=
  ((ops.filter fun o => o.kind == "sync.Cond" && o.op == "Signal" &&
      (multiWaiterCondsOf ops).contains (o.typ, o.field)).map fun o => (o.typ, o.meth, o.field)).eraseDups

def multiWaiterConds : List (String × String) := multiWaiterCondsOf syncOps
def condSignals : List (String × String × String) := condSignalsOf syncOps

end Uniflow.Lockset
