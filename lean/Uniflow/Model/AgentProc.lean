/-
The debug agent's process table, on top of the frame bookkeeping of `Uniflow.Agent`
(`pkg/runtime/agent.go`, after fix 574d8e0).

Go:

    accept(proc):  a.mu.Lock(); if _, ok := a.processes[id]; ok { unlock; return }
                   a.processes[id] = proc; if _, ok := a.frames[id]; !ok { a.frames[id] = nil }; a.mu.Unlock()
                   proc.AddExitHook(func{ a.mu.Lock(); delete(a.processes, id); delete(a.frames, id); a.mu.Unlock() })
    inboundHook / outboundHook (of `a.hooks(proc, sym, in, out)`):
                   a.mu.Lock(); if _, ok := a.processes[id]; !ok { a.mu.Unlock(); return }      -- the guard of 574d8e0
                   … pair or append a frame in a.frames[id] …                                    -- `Agent.inbound` / `outbound`

`accept` runs in an open hook of a port, i.e. AFTER the port registered its own exit hook, so on
`Exit` the agent's hook runs BEFORE the port closes its reader / writer; `Reader.Close` and
`Writer.Close` then pass the dropped responses of the unanswered requests through the packet hooks
of the process that the agent has just forgotten. Those are ordinary `inb` / `outb` events here:
every history of events is allowed, also packet hooks of a process after its exit hook ran.

Events are the critical sections of `a.mu`, plus the status flip of the process:
  `accept p`  the section of `accept` that inserts (nothing happens when `p` is already registered),
              together with its `AddExitHook` – one more run of the agent's exit hook is owed (`owed`);
              on a terminated process `AddExitHook` runs the hook at once: that is the next `hook p`
  `term p`    `Process.Exit` flips the status; the owed hook may run from now on
  `hook p`    the agent's exit hook of `p` runs (only when `p` has terminated and a run is owed)
  `inb` / `outb`  a packet hook of `(p, key)` runs.
`guard = false` is the tree before 574d8e0 (packet hooks record unconditionally).
-/
import Uniflow.Model.Agent

namespace Uniflow.AgentProc
open Uniflow.Agent

structure St where
  procs : Nat → Bool                      -- key present in `a.processes`
  frames : Nat → Option (List Frame)      -- `a.frames`; `none` = key absent, `some []` = the nil slice
  term : Nat → Bool                       -- the process has terminated
  owed : Nat → Nat                        -- runs of the agent's exit hook registered and not yet done

def init : St := { procs := fun _ => false, frames := fun _ => none, term := fun _ => false, owed := fun _ => 0 }

def upd {β : Type} (f : Nat → β) (k : Nat) (v : β) : Nat → β := fun i => if i = k then v else f i

inductive Ev where
  | accept (p : Nat)
  | inb (p : Nat) (k : Key) (pck : Nat)
  | outb (p : Nat) (k : Key) (pck : Nat)
  | term (p : Nat)
  | hook (p : Nat)
  deriving DecidableEq, Repr

def listOf (s : St) (p : Nat) : List Frame := (s.frames p).getD []

def step (guard : Bool) (s : St) : Ev → St
  | .accept p =>
    if s.procs p then s
    else { s with procs := upd s.procs p true, frames := upd s.frames p (some (listOf s p)),
                  owed := upd s.owed p (s.owed p + 1) }
  | .inb p k pck =>
    if guard && !s.procs p then s
    else { s with frames := upd s.frames p (some (inbound .fixed k pck (listOf s p))) }
  | .outb p k pck =>
    if guard && !s.procs p then s
    else { s with frames := upd s.frames p (some (outbound .fixed k pck (listOf s p))) }
  | .term p => { s with term := upd s.term p true }
  | .hook p =>
    if s.term p && decide (0 < s.owed p) then
      { s with procs := upd s.procs p false, frames := upd s.frames p none, owed := upd s.owed p (s.owed p - 1) }
    else s

def run (guard : Bool) (s : St) : List Ev → St
  | [] => s
  | e :: es => run guard (step guard s e) es

/-- the key sets of the two maps among the processes `0..n-1` -/
def procKeys (s : St) (n : Nat) : List Nat := (List.range n).filter (fun p => s.procs p)
def frameKeys (s : St) (n : Nat) : List Nat := (List.range n).filter (fun p => (s.frames p).isSome)

def Ev.isAccept (p : Nat) : Ev → Bool
  | .accept q => q = p
  | _ => false

end Uniflow.AgentProc
