/-
Model of the frame bookkeeping of `pkg/runtime/agent.go` (`Agent.Load`, `Agent.hooks`,
`Agent.accept`, `Agent.Frames`) on the repaired tree.

Go. `Agent.Load(sym)` installs, for every cached in-port `in` of the symbol, an open hook that
for each process opening the port does

    inboundHook, outboundHook := a.hooks(proc, sym, in, nil)
    reader := in.Open(proc); reader.AddInboundHook(inboundHook); reader.AddOutboundHook(outboundHook)

and for every cached out-port `out`

    inboundHook, outboundHook := a.hooks(proc, sym, nil, out)
    writer := out.Open(proc); writer.AddInboundHook(inboundHook); writer.AddOutboundHook(outboundHook)

When do these packet hooks run (pkg/packet/reader.go, writer.go)?

* reader inbound  : `Reader.write`   – a packet (request) *enters* the symbol through the in-port;
* reader outbound : `Reader.Receive` – the answer to the oldest unanswered request *leaves* through
                    the same in-port (also once per unanswered request in `Reader.Close`);
* writer outbound : `Writer.Write`   – a packet (request) *leaves* the symbol through the out-port;
* writer inbound  : `Writer.receive` – the (joined) answer to the oldest unanswered write comes
                    *back in* through the same out-port (also on `Unlink`, `Close`, and a `Write`
                    that no reader accepted).

So on an in-port "request = inbound, answer = outbound", on an out-port "request = outbound,
answer = inbound"; both hooks do the same bookkeeping with the roles of `InPck`/`OutPck` swapped:

    inboundHook(pck):  a.mu.Lock()
      for _, f := range a.frames[proc.ID()] {
        if f.Symbol == sym && (f.InPort == in && f.OutPort == out) && f.InPck == nil {   -- (*)
          f.InPck = pck; frame = f; break } }
      if frame == nil { frame = &Frame{Process: proc, Symbol: sym, InPort: in, OutPort: out, InPck: pck}
                        a.frames[proc.ID()] = append(a.frames[proc.ID()], frame) }
      watchers := a.watchers; a.mu.Unlock(); watchers.OnFrame(frame)
    outboundHook(pck): the same with OutPck.

(*) The pinned tree had `f.InPort == in || f.OutPort == out`. One of `in`, `out` is always nil
(and the same one is nil in every frame made by a hook of the same direction), so that
condition is true for *every* frame of the symbol made on a port of the same direction: packets
of different ports (out / error, in[0] / in[1]) were paired with each other. `Mode.pinned`
keeps that condition in the model so that the defect is a theorem (`C19.pinned_cross_pairs`);
the repaired code is `Mode.fixed`, and it is what the driver runs.

`accept` creates the (empty) frame list of a process and registers an exit hook deleting it;
`Frames(id)` returns a copy of the list.

Identities (`*Process`, `*Symbol`, `*InPort`, `*OutPort`, `*Packet`) are natural numbers handed
out by the harness; a nil port pointer is `none`. Time stamps are not modelled.
-/
namespace Uniflow.Agent

inductive Mode where
  | pinned   -- `f.InPort == in || f.OutPort == out`
  | fixed    -- `f.InPort == in && f.OutPort == out`
  deriving DecidableEq, Repr

structure Frame where
  sym : Nat
  inPort : Option Nat     -- `Frame.InPort`  (nil = none)
  outPort : Option Nat    -- `Frame.OutPort` (nil = none)
  inPck : Option Nat
  outPck : Option Nat
  deriving DecidableEq, Repr

/-- The parameters `a.hooks(proc, sym, in, out)` closes over (the process selects the list). -/
structure Key where
  sym : Nat
  inPort : Option Nat
  outPort : Option Nat
  deriving DecidableEq, Repr

/-- The port test of the search loop. -/
def portMatch (m : Mode) (k : Key) (f : Frame) : Bool :=
  match m with
  | .pinned => f.inPort == k.inPort || f.outPort == k.outPort
  | .fixed => f.inPort == k.inPort && f.outPort == k.outPort

def matchIn (m : Mode) (k : Key) (f : Frame) : Bool :=
  f.sym == k.sym && portMatch m k f && f.inPck.isNone

def matchOut (m : Mode) (k : Key) (f : Frame) : Bool :=
  f.sym == k.sym && portMatch m k f && f.outPck.isNone

/-- `for _, f := range frames { if c f { upd f; break } }`; `none` when no frame matched. -/
def fillFirst (c : Frame → Bool) (upd : Frame → Frame) : List Frame → Option (List Frame)
  | [] => none
  | f :: fs => if c f then some (upd f :: fs) else (fillFirst c upd fs).map (f :: ·)

/-- The body of `inboundHook` on the frame list of the hook's process. -/
def inbound (m : Mode) (k : Key) (pck : Nat) (fs : List Frame) : List Frame :=
  match fillFirst (matchIn m k) (fun f => { f with inPck := some pck }) fs with
  | some fs' => fs'
  | none => fs ++ [{ sym := k.sym, inPort := k.inPort, outPort := k.outPort, inPck := some pck, outPck := none }]

/-- The body of `outboundHook`. -/
def outbound (m : Mode) (k : Key) (pck : Nat) (fs : List Frame) : List Frame :=
  match fillFirst (matchOut m k) (fun f => { f with outPck := some pck }) fs with
  | some fs' => fs'
  | none => fs ++ [{ sym := k.sym, inPort := k.inPort, outPort := k.outPort, inPck := none, outPck := some pck }]

/-- What happens to the agent, as far as frames go. -/
inductive Ev where
  | inb (proc : Nat) (k : Key) (pck : Nat)    -- an inbound packet hook ran
  | outb (proc : Nat) (k : Key) (pck : Nat)   -- an outbound packet hook ran
  | exit (proc : Nat)                         -- the exit hook registered by `accept` ran
  deriving DecidableEq, Repr

/-- `a.frames`: process id ↦ frames (absent = empty, which is all `Frames` can tell). -/
abbrev St := Nat → List Frame

def St.init : St := fun _ => []

def upd (a : St) (p : Nat) (fs : List Frame) : St := fun q => if q = p then fs else a q

def step (m : Mode) (a : St) : Ev → St
  | .inb p k pck => upd a p (inbound m k pck (a p))
  | .outb p k pck => upd a p (outbound m k pck (a p))
  | .exit p => upd a p []

def run (m : Mode) (a : St) : List Ev → St
  | [] => a
  | e :: es => run m (step m a e) es

/-! ### the repaired hooks (fix 5a92fce): an answer that finds no open frame is not recorded

    inboundHook(pck):  … search as above …
      if frame == nil { if out != nil { a.mu.Unlock(); return }     -- inbound on an out-port = answer
                        frame = &Frame{…InPck: pck}; append }
    outboundHook(pck): … if frame == nil { if in != nil { a.mu.Unlock(); return }   -- outbound on an in-port = answer
                        frame = &Frame{…OutPck: pck}; append }

A packet can pass an endpoint before the agent's open hook has attached these hooks to it; the
request is then unrecorded, and its answer must not be kept as an orphan frame (the next request
would fill it: every later frame shifted by one). `Mode.fixed` above is the code before this
repair; `inboundR` / `outboundR` / `stepR` / `runR` are the code now, and what the driver runs. -/

def inboundR (k : Key) (pck : Nat) (fs : List Frame) : List Frame :=
  match fillFirst (matchIn .fixed k) (fun f => { f with inPck := some pck }) fs with
  | some fs' => fs'
  | none =>
    if k.outPort.isSome then fs
    else fs ++ [{ sym := k.sym, inPort := k.inPort, outPort := k.outPort, inPck := some pck, outPck := none }]

def outboundR (k : Key) (pck : Nat) (fs : List Frame) : List Frame :=
  match fillFirst (matchOut .fixed k) (fun f => { f with outPck := some pck }) fs with
  | some fs' => fs'
  | none =>
    if k.inPort.isSome then fs
    else fs ++ [{ sym := k.sym, inPort := k.inPort, outPort := k.outPort, inPck := none, outPck := some pck }]

def stepR (a : St) : Ev → St
  | .inb p k pck => upd a p (inboundR k pck (a p))
  | .outb p k pck => upd a p (outboundR k pck (a p))
  | .exit p => upd a p []

def runR (a : St) : List Ev → St
  | [] => a
  | e :: es => runR (stepR a e) es

/-- The hook call is an answer that finds no open frame on its port (and is skipped). -/
def orphan (a : St) : Ev → Bool
  | .inb p k pck => k.outPort.isSome && (fillFirst (matchIn .fixed k) (fun f => { f with inPck := some pck }) (a p)).isNone
  | .outb p k pck => k.inPort.isSome && (fillFirst (matchOut .fixed k) (fun f => { f with outPck := some pck }) (a p)).isNone
  | .exit _ => false

/-- No hook call of the history is a skipped answer (every answer finds its request's frame). -/
def admitted (a : St) : List Ev → Bool
  | [] => true
  | e :: es => !orphan a e && admitted (stepR a e) es

/-- An answer hook call: inbound on an out-port, outbound on an in-port. -/
def Ev.isAnswer : Ev → Bool
  | .inb _ k _ => k.outPort.isSome
  | .outb _ k _ => k.inPort.isSome
  | .exit _ => false

/-- The hooks of a port are installed with exactly one of `in`, `out` (Agent.Load). -/
def Ev.wf : Ev → Bool
  | .inb _ k _ => k.inPort.isSome != k.outPort.isSome
  | .outb _ k _ => k.inPort.isSome != k.outPort.isSome
  | .exit _ => true

/-! ### what the history says, per port -/

/-- The frames a hook pair `k` looks after (under the repaired test). -/
def Frame.key (f : Frame) : Key := { sym := f.sym, inPort := f.inPort, outPort := f.outPort }

/-- The (InPck, OutPck) column of key `k` in a frame list, in list order. -/
def col (k : Key) (fs : List Frame) : List (Option Nat × Option Nat) :=
  (fs.filter (fun f => f.key == k)).map (fun f => (f.inPck, f.outPck))

/-- Packets the inbound hook of `(p, k)` saw, oldest first, since the last exit of `p`. -/
def inbs (p : Nat) (k : Key) : List Ev → List Nat → List Nat
  | [], acc => acc
  | .inb p' k' pck :: es, acc => inbs p k es (if p' = p ∧ k' = k then acc ++ [pck] else acc)
  | .outb _ _ _ :: es, acc => inbs p k es acc
  | .exit p' :: es, acc => inbs p k es (if p' = p then [] else acc)

def outbs (p : Nat) (k : Key) : List Ev → List Nat → List Nat
  | [], acc => acc
  | .outb p' k' pck :: es, acc => outbs p k es (if p' = p ∧ k' = k then acc ++ [pck] else acc)
  | .inb _ _ _ :: es, acc => outbs p k es acc
  | .exit p' :: es, acc => outbs p k es (if p' = p then [] else acc)

/-- Only answers (no request yet): `(nil, b)` for each. -/
def padOut : List Nat → List (Option Nat × Option Nat)
  | [] => []
  | b :: bs => (none, some b) :: padOut bs

/-- k-th element of the first list with the k-th of the second, padding with `none`. -/
def zipPad : List Nat → List Nat → List (Option Nat × Option Nat)
  | [], bs => padOut bs
  | a :: as, [] => (some a, none) :: zipPad as []
  | a :: as, b :: bs => (some a, some b) :: zipPad as bs

/-! ### observer hooks over an abstract packet machine

The packet machinery (C01's writer/reader, C02's nodes) is abstract here: a state, a step
function per scheduled event, what the sources and sinks observe, and – determined by the flow
state and the event alone – which packet hooks fire during the step (`Reader.write`/`Receive`,
`Writer.Write`/`receive` call `inbounds.Handle` / `outbounds.Handle` inside their critical
section). An *observer* is a family of hooks that are functions of the flow state, the hook call
and the observer's own state, returning the observer's next state – which is all `Agent.hooks`
does when no watcher blocks (no breakpoint set): lock `a.mu`, update `a.frames`, unlock, call the
watchers. -/

structure Flow (σ ε ω : Type) where
  step : σ → ε → σ × List ω
  fires : σ → ε → List Ev

/-- The machine with an observer attached: the hooks run inside the step. -/
def Flow.stepWith {σ ε ω α : Type} (F : Flow σ ε ω) (hook : σ → Ev → α → α) (sa : σ × α) (e : ε) :
    (σ × α) × List ω :=
  let r := F.step sa.1 e
  ((r.1, (F.fires sa.1 e).foldl (fun a c => hook sa.1 c a) sa.2), r.2)

def Flow.run {σ ε ω : Type} (F : Flow σ ε ω) (s : σ) : List ε → σ × List ω
  | [] => (s, [])
  | e :: es => let r := F.step s e; let r' := Flow.run F r.1 es; (r'.1, r.2 ++ r'.2)

def Flow.runWith {σ ε ω α : Type} (F : Flow σ ε ω) (hook : σ → Ev → α → α) (sa : σ × α) :
    List ε → (σ × α) × List ω
  | [] => (sa, [])
  | e :: es =>
    let r := F.stepWith hook sa e
    let r' := Flow.runWith F hook r.1 es
    (r'.1, r.2 ++ r'.2)

/-- The agent as an observer. -/
def agentHook {σ : Type} (_ : σ) (c : Ev) (a : St) : St := stepR a c

end Uniflow.Agent
