/-
Model of `pkg/symbol/table.go` (`symbol.Table`), serving C06, C07 and C08.

The model follows the *fixed* code (two `fix:` commits in the repository):
  * `unlinks` keeps a reverse reference unless it is the freed symbol's own entry for this
    out-port  (`port.ID != sb.ID() || port.Port != name`; the pinned tree had `&&`);
  * `linked` does not append a symbol a second time in its final "left-over degree" loop
    (`count != 0 && !slices.Contains(linked, sb)`; the pinned tree listed the root twice when
    the root lies on a reference cycle that never drains).

Data layout (as in Go):
  * `symbols`    : `map[uuid.UUID]*Symbol`                       → association list `id ↦ Sym`
  * `namespaces` : `map[string]map[string]uuid.UUID`             → association list `(ns, name) ↦ id`
      (the two-level map and the deletion of an emptied inner map are flattened: `lookup`
      answers `uuid.Nil` for a missing namespace and for a missing name alike)
  * `references` : `map[uuid.UUID]map[string][]spec.Port`        → `id ↦ (port ↦ List Ref)`, the Go shape;
      an entry `{ID: s, Name: n, Port: o}` in `references[t][i]` says "out-port `o` of `s` points at
      in-port `i` of `t` (and named it `n`)"
  * the port layer (`OutPort.ins`, `InPort` close hooks) is reduced to a duplicate-free list of
    links `(s, o, t, i)` with `Link` = add-if-absent, `Unlink` = erase and the close rule
    "closing a symbol's node removes every link from it (OutPort.Close: ins = nil) and into it
    (the close hook every `Link` registers on the in-port)"
  * identities: uuids are `Nat`s (0 = `uuid.Nil`); names, namespaces and port names are `Nat`
    codes (name 0 = ""); `*Symbol` pointers are represented by the symbol's id where Go uses
    them as map keys (`degree`, `visited`, `slices.Contains(linked, ·)`) – at any time there is
    at most one live `*Symbol` per id.
  * hooks: the observing load / unload hooks are one notification (`load` / `unload` event); the
    table may also hold refusing hooks (`State.refusals`, never changed by an operation): a load hook
    registered before / after the observing ones, an unload hook registered after / before them
    (`LoadHooks.Load` runs in registration order and stops at the first error, `UnloadHooks.Unload`
    runs in reverse order and stops at the first error), refusing chosen symbols once or always.
  * lifecycle answers: every `types.Error` payload is an error for `exec`, `packet.ErrDroppedPacket`
    (`droppedCode`) included; a node that was closed before its `*Symbol` was inserted again
    (`resp = some closedCode`) answers with it without seeing the request.
  * `log` records what an observer sees: load / unload hook calls, `Node.Close` calls and every
    call of `exec` (the synchronous lifecycle flow) with the in-ports that received the packet.

Go map iteration order: every `range` over a built-in map goes through an `Ord` parameter
(`o.syms`, `o.ports`, `o.deg` with a call-site tag); the theorems hold for every `Ord` whose
functions are permutations.  The driver uses `Ord.id`.

Loops that are not structurally recursive (`linked`'s two queue loops, `Close`'s queue loop,
`isActivated`'s stack loop) take fuel computed from the state (`bfsFuel`, `kahnFuel`, `actFuel`);
running out of fuel is the explicit outcome `Ret.panic`, proved unreachable
(`C07.no_fuel_exhaustion`).
-/
namespace Uniflow.Table

/-! ### Go maps as association lists -/

section AList
variable {κ β : Type} [DecidableEq κ]

def aget (k : κ) : List (κ × β) → Option β
  | [] => none
  | (k', v) :: r => if k' = k then some v else aget k r

/-- `m[k] = v`: overwrite in place or append. -/
def aset (k : κ) (v : β) : List (κ × β) → List (κ × β)
  | [] => [(k, v)]
  | (k', v') :: r => if k' = k then (k, v) :: r else (k', v') :: aset k v r

/-- `delete(m, k)`. -/
def adel (k : κ) : List (κ × β) → List (κ × β)
  | [] => []
  | (k', v') :: r => if k' = k then adel k r else (k', v') :: adel k r

end AList

/-! ### Data -/

/-- `spec.Port{ID, Name, Port}`. -/
structure Ref where
  id : Nat
  name : Nat
  port : Nat
  deriving DecidableEq, Repr

/-- A `*symbol.Symbol`: the spec fields the table reads plus what its node offers.
`ins` / `outs` are the port names for which `Node.In` / `Node.Out` is non-nil; `resp` is what the
node answers to a packet arriving on one of its in-ports (`none` = a non-error payload,
`some e` = an error payload carrying error `e`). -/
structure Sym where
  id : Nat
  ns : Nat
  name : Nat
  hasNode : Bool
  ins : List Nat
  outs : List Nat
  resp : Option Nat
  ports : List (Nat × List Ref)
  deriving DecidableEq, Repr

/-- `sb.In(p) != nil`. -/
def Sym.inOK (s : Sym) (p : Nat) : Bool := s.hasNode && s.ins.contains p
/-- `sb.Out(p) != nil`. -/
def Sym.outOK (s : Sym) (p : Nat) : Bool := s.hasNode && s.outs.contains p

structure Link where
  src : Nat
  out : Nat
  dst : Nat
  inp : Nat
  deriving DecidableEq, Repr

inductive Phase where
  | init | begin | term | final
  deriving DecidableEq, Repr

/-- The spec port name of a lifecycle phase (`node.PortInit` …). -/
def Phase.port : Phase → Nat
  | .init => 1 | .begin => 2 | .term => 3 | .final => 4

inductive Event where
  | load (id : Nat)
  | unload (id : Nat)
  | close (id : Nat)
  /-- `exec(sb, phase)` was called; `targets` are the in-ports `(symbol, port)` its temporary
  out-port was linked to, i.e. the nodes that received the packet. -/
  | exec (ph : Phase) (id : Nat) (targets : List (Nat × Nat))
  /-- a load (`unload = false`) / unload hook that runs before (`after = false`) / after the
  observing hooks refused the symbol: it returned an error -/
  | refused (unload after : Bool) (id : Nat)
  deriving DecidableEq, Repr

/-- A hook of the table that refuses a symbol (returns an error for it). `unload`: an unload hook;
`after = false`: it runs before the hooks that record the notification (for load hooks: registered
before them – `LoadHooks.Load` runs in registration order; for unload hooks: registered after them –
`UnloadHooks.Unload` runs in reverse order), `after = true`: it runs after them. `once`: it refuses
the symbol the first time only. `code` is the error it returns. -/
structure Refusal where
  unload : Bool
  after : Bool
  sym : Nat
  once : Bool
  code : Nat
  deriving DecidableEq, Repr

abbrev PortMap := List (Nat × List Ref)

structure State where
  symbols : List (Nat × Sym) := []
  namespaces : List ((Nat × Nat) × Nat) := []
  references : List (Nat × PortMap) := []
  links : List Link := []
  log : List Event := []
  /-- the refusing hooks the table was built with (never changed by an operation) -/
  refusals : List Refusal := []
  deriving Repr

/-- Result of a table operation: nil error, the error(s) a lifecycle flow answered with
(in link order, as `errors.Join` keeps them), or fuel exhaustion. -/
inductive Ret where
  | ok
  | err (codes : List Nat)
  | panic
  deriving DecidableEq, Repr

/-- Iteration orders of Go's built-in maps, one function per map type, with a call-site tag. -/
structure Ord where
  syms : Nat → List (Nat × Sym) → List (Nat × Sym)
  ports : Nat → PortMap → PortMap
  deg : Nat → List (Nat × Sym × Int) → List (Nat × Sym × Int)

def Ord.id : Ord := ⟨fun _ l => l, fun _ l => l, fun _ l => l⟩

def Ord.Valid (o : Ord) : Prop :=
  (∀ k l, (o.syms k l).Perm l) ∧ (∀ k l, (o.ports k l).Perm l) ∧ (∀ k l, (o.deg k l).Perm l)

/-! ### lookup -/

/-- `t.lookup(namespace, name)`. -/
def lookupName (st : State) (ns name : Nat) : Nat :=
  match aget (ns, name) st.namespaces with
  | some id => id
  | none => 0

/-- `id := port.ID; if id == uuid.Nil { id = t.lookup(ns, port.Name) }`. -/
def resolve (st : State) (ns : Nat) (r : Ref) : Nat :=
  if r.id ≠ 0 then r.id else lookupName st ns r.name

/-- `t.references[id][port]` (nil when absent). -/
def refsAt (refs : List (Nat × PortMap)) (t i : Nat) : List Ref :=
  match aget t refs with
  | none => []
  | some m => match aget i m with
    | none => []
    | some l => l

/-- `references[t][i] = append(references[t][i], e)` (creating the inner map when nil). -/
def addRef (refs : List (Nat × PortMap)) (t i : Nat) (e : Ref) : List (Nat × PortMap) :=
  let m := match aget t refs with | none => [] | some m => m
  let l := match aget i m with | none => [] | some l => l
  aset t (aset i (l ++ [e]) m) refs

def addLink (ls : List Link) (l : Link) : List Link := if l ∈ ls then ls else ls ++ [l]

/-! ### links -/

/-- First loop of `links`, body for one `port` of out-port `name` of `sb`. -/
def linkOut (st : State) (sb : Sym) (name : Nat) (acc : List (Nat × PortMap) × List Link) (port : Ref) :
    List (Nat × PortMap) × List Link :=
  match aget (resolve st sb.ns port) st.symbols with
  | none => acc
  | some ref =>
    if ref.ns = sb.ns then
      let ls := if sb.outOK name && ref.inOK port.port then addLink acc.2 ⟨sb.id, name, ref.id, port.port⟩ else acc.2
      (addRef acc.1 ref.id port.port ⟨sb.id, port.name, name⟩, ls)
    else acc

/-- Second loop of `links`, body for one `port` of out-port `name` of the live symbol `ref`. -/
def linkIn (sb ref : Sym) (name : Nat) (acc : List (Nat × PortMap) × List Link) (port : Ref) :
    List (Nat × PortMap) × List Link :=
  if port.id = sb.id ∨ (port.name ≠ 0 ∧ port.name = sb.name) then
    let ls := if ref.outOK name && sb.inOK port.port then addLink acc.2 ⟨ref.id, name, sb.id, port.port⟩ else acc.2
    (addRef acc.1 sb.id port.port ⟨ref.id, port.name, name⟩, ls)
  else acc

def linkInSym (o : Ord) (sb : Sym) (acc : List (Nat × PortMap) × List Link) (p : Nat × Sym) :
    List (Nat × PortMap) × List Link :=
  if p.2.ns ≠ sb.ns then acc
  else (o.ports 2 p.2.ports).foldl (fun acc np => np.2.foldl (linkIn sb p.2 np.1) acc) acc

/-- `t.links(sb)` (called with `sb` already stored in `symbols` / `namespaces`). -/
def links (o : Ord) (st : State) (sb : Sym) : State :=
  let a1 := (o.ports 1 sb.ports).foldl (fun acc np => np.2.foldl (linkOut st sb np.1) acc)
    (st.references, st.links)
  let a2 := (o.syms 1 st.symbols).foldl (linkInSym o sb) a1
  { st with references := a2.1, links := a2.2 }

/-! ### unlinks -/

/-- The filter of `unlinks` (fixed code): keep an entry unless it is `sb`'s entry for `name`. -/
def keepRef (sbId name : Nat) (e : Ref) : Bool := e.id ≠ sbId || e.port ≠ name

/-- `references[ref][i]` := the kept entries, or delete the key when none is left. -/
def filterRef (refs : List (Nat × PortMap)) (t i sbId name : Nat) : List (Nat × PortMap) :=
  let m := match aget t refs with | none => [] | some m => m
  let l := match aget i m with | none => [] | some l => l
  let l' := l.filter (keepRef sbId name)
  if l' ≠ [] then aset t (aset i l' m) refs else aset t (adel i m) refs

def unlinkOut (st : State) (sb : Sym) (name : Nat) (acc : List (Nat × PortMap) × List Link) (port : Ref) :
    List (Nat × PortMap) × List Link :=
  match aget (resolve st sb.ns port) st.symbols with
  | none => acc
  | some ref =>
    let ls := if sb.outOK name && ref.inOK port.port then acc.2.erase ⟨sb.id, name, ref.id, port.port⟩ else acc.2
    (filterRef acc.1 ref.id port.port sb.id name, ls)

/-- `t.unlinks(sb)`. -/
def unlinks (o : Ord) (st : State) (sb : Sym) : State :=
  let a := (o.ports 3 sb.ports).foldl (fun acc np => np.2.foldl (unlinkOut st sb np.1) acc)
    (st.references, st.links)
  { st with references := adel sb.id a.1, links := a.2 }

/-! ### linked -/

abbrev Deg := List (Nat × Sym × Int)

/-- `degree[s]` (0 when absent). -/
def dget (d : Deg) (id : Nat) : Int :=
  match aget id d with
  | some p => p.2
  | none => 0

/-- `degree[s] += k`. -/
def dadd (d : Deg) (s : Sym) (k : Int) : Deg := aset s.id (s, dget d s.id + k) d

/-- All entries of `references[id]`, ranging over the port map in the order `o.ports tag`. -/
def entries (o : Ord) (tag : Nat) (st : State) (id : Nat) : List Ref :=
  match aget id st.references with
  | none => []
  | some m => (o.ports tag m).flatMap (·.2)

/-- The live symbols named by the entries of `references[id]`
(`if next, ok := t.symbols[port.ID]; ok`; the `uuid.Nil` branch is kept as in Go). -/
def referrers (o : Ord) (tag : Nat) (st : State) (curr : Sym) : List Sym :=
  (entries o tag st curr.id).filterMap (fun e => aget (resolve st curr.ns e) st.symbols)

/-- First queue loop of `linked`: count, for every symbol reached, its entries seen. -/
def bfs (o : Ord) (st : State) : Nat → List Sym → List Nat → Deg → Option Deg
  | _, [], _, deg => some deg
  | 0, _ :: _, _, _ => none
  | f + 1, curr :: q, vis, deg =>
    if curr.id ∈ vis then bfs o st f q vis deg
    else
      let ns := referrers o (10 + f) st curr
      bfs o st f (q ++ ns) (curr.id :: vis) (ns.foldl (fun d n => dadd d n 1) deg)

/-- Body of the inner loop shared by `linked`'s second pass and `Close`:
`degree[next]--; if degree[next] == 0 { queue = append(queue, next) }`. -/
def kahnStep (acc : Deg × List Sym) (next : Sym) : Deg × List Sym :=
  let d := dadd acc.1 next (-1)
  if dget d next.id = 0 then (d, acc.2 ++ [next]) else (d, acc.2)

/-- The Kahn-style queue loop (second pass of `linked`, and `Close`):
pop; skip when already listed; list; decrement the successors. -/
def kahn (succ : Nat → Sym → List Sym) : Nat → List Sym → List Sym → Deg → Option (List Sym × Deg)
  | _, [], out, deg => some (out, deg)
  | 0, _ :: _, _, _ => none
  | f + 1, curr :: q, out, deg =>
    if out.any (fun s => s.id = curr.id) then kahn succ f q out deg
    else
      let a := (succ f curr).foldl kahnStep (deg, q)
      kahn succ f a.2 (out ++ [curr]) a.1

/-- Number of entries stored in `references`. -/
def refCount (refs : List (Nat × PortMap)) : Nat :=
  (refs.map (fun p => (p.2.map (fun q => q.2.length)).sum)).sum

/-- Number of port references in the specs of the live symbols. -/
def specCount (syms : List (Nat × Sym)) : Nat :=
  (syms.map (fun p => (p.2.ports.map (fun q => q.2.length)).sum)).sum

/-- Sum of the positive counts of a degree map (bounds the number of "count reached 0" events). -/
def degSum (d : Deg) : Nat := (d.map (fun p => p.2.2.toNat)).sum

/-- Number of port references in the spec of one symbol. -/
def refsLen (s : Sym) : Nat := (s.ports.map (fun q => q.2.length)).sum

/-- Fuel of `linked`'s first queue loop: every visited symbol pushes its entries once. -/
def bfsFuel (st : State) : Nat := 1 + refCount st.references

/-- Fuel of the Kahn queue loop: the initial queue plus one push per count that reaches 0. -/
def kahnFuel (queue : List Sym) (deg : Deg) : Nat := queue.length + degSum deg

/-- Fuel of `isActivated`'s stack loop: the root, its references, and every present symbol's
references once. -/
def actFuel (st : State) (sb : Sym) : Nat := 2 + refsLen sb + specCount st.symbols

/-- `t.linked(sb)` (fixed code). -/
def linked (o : Ord) (st : State) (sb : Sym) : Option (List Sym) :=
  match bfs o st (bfsFuel st) [sb] [] [] with
  | none => none
  | some deg =>
    match kahn (fun f c => referrers o (1000 + f) st c) (kahnFuel [sb] deg) [sb] [] deg with
    | none => none
    | some (out, deg') =>
      some (out ++ ((o.deg 1 deg').filter
        (fun p => p.2.2 ≠ 0 && !(out.any (fun s => s.id = p.1)))).map (·.2.1))

/-! ### isActivated -/

/-- Inner loops of `isActivated` for one popped symbol: `none` = `return false`. -/
def pushRefs (st : State) (curr : Sym) (acc : Option (List Sym)) (port : Ref) : Option (List Sym) :=
  match acc with
  | none => none
  | some stack =>
    match aget (resolve st curr.ns port) st.symbols with
    | none => none
    | some next => if next.ns ≠ curr.ns then none else some (next :: stack)

/-- Stack loop of `isActivated` (top of the stack = head of the list). -/
def actLoop (o : Ord) (st : State) : Nat → List Sym → List Nat → Option Bool
  | _, [], _ => some true
  | 0, _ :: _, _ => none
  | f + 1, curr :: stack, vis =>
    if curr.id ∈ vis then actLoop o st f stack vis
    else if !curr.hasNode then some false
    else
      match ((o.ports (2000 + f) curr.ports).flatMap (·.2)).foldl (pushRefs st curr) (some stack) with
      | none => some false
      | some stack' => actLoop o st f stack' (curr.id :: vis)

/-- `t.isActivated(sb)`. -/
def isActivated (o : Ord) (st : State) (sb : Sym) : Option Bool :=
  actLoop o st (actFuel st sb) [sb] []

/-! ### exec, load, unload -/

/-- Body of `exec`'s loop: the in-ports the temporary out-port gets linked to
(`out.Link` ignores an in-port that is already linked). -/
def execTarget (st : State) (sb : Sym) (acc : List (Nat × Nat)) (port : Ref) : List (Nat × Nat) :=
  match aget (resolve st sb.ns port) st.symbols with
  | none => acc
  | some ref =>
    if ref.ns = sb.ns ∧ ref.inOK port.port = true then
      (if (ref.id, port.port) ∈ acc then acc else acc ++ [(ref.id, port.port)])
    else acc

def execTargets (st : State) (sb : Sym) (ph : Phase) : List (Nat × Nat) :=
  match aget ph.port sb.ports with
  | none => []
  | some ports => ports.foldl (execTarget st sb) []

/-- `resp = some closedCode`: the symbol's node had been closed before the symbol was inserted
(the code allows to insert a freed `*Symbol` again): its in-ports answer every packet with
`packet.ErrDroppedPacket` (`droppedCode`) and the node itself never sees the request. -/
def closedCode : Nat := 62
/-- the error code of `packet.ErrDroppedPacket` (also answered by a responder that chooses to) -/
def droppedCode : Nat := 63

/-- What the node of symbol `id` answers (every `types.Error` payload – a dropped packet included –
is an error for `exec`). -/
def respOf (st : State) (t : Nat × Nat) : Option Nat :=
  match aget t.1 st.symbols with
  | none => none
  | some s => if s.resp = some closedCode then some droppedCode else s.resp

/-- The node of the target sees the request (it is not a closed node). -/
def seen (st : State) (t : Nat × Nat) : Bool :=
  match aget t.1 st.symbols with
  | none => true
  | some s => s.resp != some closedCode

/-- `t.exec(sb, phase)`: send the spec to every linked in-port, wait for the joined answer;
no link = `packet.None` = nil error. The event lists the nodes that received the packet. -/
def exec (st : State) (sb : Sym) (ph : Phase) : State × Ret :=
  let ts := execTargets st sb ph
  let st' := { st with log := st.log ++ [.exec ph sb.id (ts.filter (seen st))] }
  match ts.filterMap (respOf st) with
  | [] => (st', .ok)
  | es => (st', .err es)

/-- The error with which the hooks at position (`unload`, `after`) refuse symbol `id` now, if any:
the first configured refusal for it that is permanent or has not fired yet (a refusal that fires
is recorded in the log, so "once" needs no further state). -/
def refusalOf (st : State) (unload after : Bool) (id : Nat) : Option Nat :=
  match st.refusals.find? (fun r => r.unload == unload && r.after == after && r.sym == id &&
      (!r.once || !(st.log.contains (.refused unload after id)))) with
  | some r => some r.code
  | none => none

/-- Run the refusing hooks at one position: nothing happens, or the refusal is recorded and its
error returned (`LoadHooks.Load` / `UnloadHooks.Unload` stop at the first hook that fails). -/
def hookRun (st : State) (unload after : Bool) (x : Sym) : State × Ret :=
  match refusalOf st unload after x.id with
  | none => (st, .ok)
  | some c => ({ st with log := st.log ++ [.refused unload after x.id] }, .err [c])

/-- One activation (`unl = false`: init flow, load hooks, begin flow) or deactivation (term flow,
unload hooks, final flow) of an activated symbol; the hooks are: the refusing hooks that run first,
the observing hooks (one `mid` event), the refusing hooks that run last. Every error ends it. -/
def notify (st : State) (x : Sym) (unl : Bool) (p1 p2 : Phase) (mid : Nat → Event) : State × Ret :=
  match exec st x p1 with
  | (st1, .ok) =>
    match hookRun st1 unl false x with
    | (st2, .ok) =>
      match hookRun { st2 with log := st2.log ++ [mid x.id] } unl true x with
      | (st3, .ok) => exec st3 x p2
      | (st3, r) => (st3, r)
    | (st2, r) => (st2, r)
  | (st1, r) => (st1, r)

/-- The loop of `load` over `linked`. -/
def loadLoop (o : Ord) (st : State) : List Sym → State × Ret
  | [] => (st, .ok)
  | x :: xs =>
    match isActivated o st x with
    | none => (st, .panic)
    | some false => loadLoop o st xs
    | some true =>
      match notify st x false .init .begin Event.load with
      | (st1, .ok) => loadLoop o st1 xs
      | (st1, r) => (st1, r)

/-- The loop of `unload` (called on the reversed `linked`). -/
def unloadLoop (o : Ord) (st : State) : List Sym → State × Ret
  | [] => (st, .ok)
  | x :: xs =>
    match isActivated o st x with
    | none => (st, .panic)
    | some false => unloadLoop o st xs
    | some true =>
      match notify st x true .term .final Event.unload with
      | (st1, .ok) => unloadLoop o st1 xs
      | (st1, r) => (st1, r)

def load (o : Ord) (st : State) (sb : Sym) : State × Ret :=
  match linked o st sb with
  | none => (st, .panic)
  | some l => loadLoop o st l

def unload (o : Ord) (st : State) (sb : Sym) : State × Ret :=
  match linked o st sb with
  | none => (st, .panic)
  | some l => unloadLoop o st l.reverse

/-! ### insert, free, Insert, Free, Close -/

/-- `sb.Close()`: the node's ports are closed (when there is a node). -/
def closeSym (st : State) (sb : Sym) : State :=
  if sb.hasNode then
    { st with links := st.links.filter (fun l => l.src ≠ sb.id && l.dst ≠ sb.id),
              log := st.log ++ [.close sb.id] }
  else st

/-- `t.insert(sb)`. -/
def insert (o : Ord) (st : State) (sb : Sym) : State × Ret :=
  let st1 := { st with symbols := aset sb.id sb st.symbols }
  let st2 := if sb.name ≠ 0 then { st1 with namespaces := aset (sb.ns, sb.name) sb.id st1.namespaces } else st1
  load o (links o st2 sb) sb

/-- `t.free(id)`; the `Bool` is `sb != nil`. -/
def free (o : Ord) (st : State) (id : Nat) : State × Ret × Bool :=
  match aget id st.symbols with
  | none => (st, .ok, false)
  | some sb =>
    match unload o st sb with
    | (st1, .ok) =>
      let st2 := closeSym (unlinks o st1 sb) sb
      let st3 := if sb.name ≠ 0 then { st2 with namespaces := adel (sb.ns, sb.name) st2.namespaces } else st2
      ({ st3 with symbols := adel id st3.symbols }, .ok, true)
    | (st1, r) => (st1, r, false)

/-- Successors in `Close`'s queue loop: the live same-namespace targets of `curr`'s spec ports. -/
def targetsOf (o : Ord) (st : State) (f : Nat) (curr : Sym) : List Sym :=
  ((o.ports (3000 + f) curr.ports).flatMap (·.2)).filterMap (fun port =>
    match aget (resolve st curr.ns port) st.symbols with
    | some next => if next.ns = curr.ns then some next else none
    | none => none)

/-- `for _, sb := range symbols { t.free(sb.ID()) }`. -/
def freeAll (o : Ord) (st : State) : List Sym → State × Ret
  | [] => (st, .ok)
  | x :: xs =>
    match free o st x.id with
    | (st1, .ok, _) => freeAll o st1 xs
    | (st1, r, _) => (st1, r)

/-- Order in which `Close` frees the symbols (referrers first). The two `range degree` loops
range over the same key set as `t.symbols`; they are modelled as ranges over `symbols`. -/
def closeOrder (o : Ord) (st : State) : Option (List Sym) :=
  let deg : Deg := (o.syms 2 st.symbols).foldl (fun d p =>
    aset p.2.id (p.2, (((o.ports 4 (match aget p.1 st.references with | none => [] | some m => m)).map
      (fun q => (q.2.length : Int))).sum)) d) []
  let queue := ((o.deg 2 deg).filter (fun p => p.2.2 = 0)).map (·.2.1)
  match kahn (targetsOf o st) (kahnFuel queue deg) queue [] deg with
  | none => none
  | some (out, deg') => some (out ++ ((o.deg 3 deg').filter (fun p => p.2.2 ≠ 0)).map (·.2.1))

inductive Op where
  | insert (sb : Sym)
  | free (id : Nat)
  | close
  deriving Repr

/-- `Insert` / `Free` / `Close` of the table; the `Bool` is `Free`'s result. -/
def step (o : Ord) (st : State) : Op → State × Ret × Bool
  | .insert sb =>
    match free o st sb.id with
    | (st1, .ok, _) => let r := insert o st1 sb; (r.1, r.2, false)
    | (st1, r, _) => (st1, r, false)
  | .free id => free o st id
  | .close =>
    match closeOrder o st with
    | none => (st, .panic, false)
    | some l => let r := freeAll o st l; (r.1, r.2, false)

def run (o : Ord) (st : State) : List Op → State
  | [] => st
  | op :: ops => run o (step o st op).1 ops

/-- Number of load-hook calls minus number of unload-hook calls for `id`. -/
def balance (id : Nat) : List Event → Int
  | [] => 0
  | .load i :: es => (if i = id then 1 else 0) + balance id es
  | .unload i :: es => (if i = id then -1 else 0) + balance id es
  | _ :: es => balance id es

/-- "The load hooks have run for `id` without a matching unload". -/
def activeIn (log : List Event) (id : Nat) : Prop := 0 < balance id log

instance (log : List Event) (id : Nat) : Decidable (activeIn log id) := by
  unfold activeIn; infer_instance

end Uniflow.Table
