/-
Model of `pkg/store/executionplan.go` (`newExecutionPlan`, `intersect`, `union`, `lenght`) and of
`(*store).explain` (pkg/store/store.go), after the fixes of C11 (Props/C11.lean). Core Lean only.

    func newExecutionPlan(keys []types.String, filter types.Value) *executionPlan {
      f, ok := filter.(types.Map); if !ok || len(keys) == 0 { return nil }
      key := keys[0]; value := f.Get(key); plan := &executionPlan{key: key}
      if val, ok := value.(types.Map); ok {
        if v := val.Get("$eq"); v != nil { plan.min, plan.max = v, v }
        for l in [val.Get("$gt"), val.Get("$gte")], l != nil: if plan.min == nil || Compare(l, plan.min) > 0 { plan.min = l }
        for u in [val.Get("$lt"), val.Get("$lte")], u != nil: if plan.max == nil || Compare(u, plan.max) < 0 { plan.max = u }
      } else { plan.min, plan.max = value, value }
      if v, ok := f.Get("$and").(types.Slice); ok { for child: plan.intersect(newExecutionPlan(keys, child)) }
      if v, ok := f.Get("$or").(types.Slice); ok && v.Len() > 0 {
        var or *executionPlan
        for i, child: p := newExecutionPlan(keys, child); if p == nil { or = nil; break }
                      if i == 0 { or = p } else { or.union(p) }
        plan.intersect(or) }
      if plan.min == nil && plan.max == nil { return nil }
      plan.next = newExecutionPlan(keys[1:], filter); return plan }

A plan is the list of its levels (`nil` plan = `[]`); a bound is a `Val` with `Val.nil` = "no bound" exactly as in Go
(a nil `types.Value`). Only `min`/`max` of the child plans are used by `intersect`/`union` (never their `next`), so the
per-level function `planV key filter` returns just the bounds of the first level for `key`.

`f.Get("$and")` is the value of the *first* pair whose key is `Equal` to "$and"; to keep the recursion structural the
model walks the pair list to that pair (`planAndP`, `planOrP`) instead of calling `mget`.
-/
import Uniflow.Model.Store

namespace Uniflow.Plan
open Uniflow.Value Uniflow.Store

/-- `min`, `max` of one `executionPlan` level; `Val.nil` = unbounded on that side -/
structure Bounds where
  lo : Val
  hi : Val

/-- one level of a plan -/
structure Level where
  key : Val
  b : Bounds

/-- `e.intersect(other)` (same key on both sides; `other = none` is the nil plan) -/
def intersect (e : Bounds) : Option Bounds → Bounds
  | none => e
  | some o =>
    { lo := if isNil e.lo || cmp o.lo e.lo > 0 then o.lo else e.lo
      hi := if isNil e.hi || cmp o.hi e.hi < 0 then o.hi else e.hi }

/-- the accumulation of the `$or` branches: `or.union(p)`, with "a nil branch makes the whole cover nil" (the `break`);
in `union` a nil bound is unbounded: `if e.min != nil && (other.min == nil || Compare(other.min, e.min) < 0) { e.min = other.min }` -/
def union : Option Bounds → Option Bounds → Option Bounds
  | some e, some o =>
    some { lo := if !isNil e.lo && (isNil o.lo || cmp o.lo e.lo < 0) then o.lo else e.lo
           hi := if !isNil e.hi && (isNil o.hi || cmp o.hi e.hi > 0) then o.hi else e.hi }
  | _, _ => none

/-- tighten a lower bound: `if plan.min == nil || Compare(l, plan.min) > 0 { plan.min = l }` for non-nil `l` -/
def raise (m l : Val) : Val := if isNil l then m else if isNil m || cmp l m > 0 then l else m

/-- tighten an upper bound -/
def lower (m u : Val) : Val := if isNil u then m else if isNil m || cmp u m < 0 then u else m

/-- the bounds the condition on the key itself gives (`value = f.Get(key)`) -/
def own : Val → Bounds
  | .map val =>
    let e := mget val (.str opEq)
    { lo := raise (raise e (mget val (.str opGt))) (mget val (.str opGte))
      hi := lower (lower e (mget val (.str opLt))) (mget val (.str opLte)) }
  | v => { lo := v, hi := v }

mutual
  /-- first level of `newExecutionPlan(key :: _, filter)`; `none` = nil plan -/
  def planV (key : Val) : Val → Option Bounds
    | .map ps =>
      let b := planOrP key (planAndP key (own (mget ps key)) ps) ps
      if isNil b.lo && isNil b.hi then none else some b
    | _ => none
  /-- `if v, ok := f.Get("$and").(types.Slice); ok { … }` -/
  def planAndP (key : Val) (b : Bounds) : PList → Bounds
    | .nil => b
    | .cons k v rest =>
      if equal k (.str opAnd) then
        match v with
        | .slice xs => planAndL key b xs
        | _ => b
      else planAndP key b rest
  def planAndL (key : Val) (b : Bounds) : VList → Bounds
    | .nil => b
    | .cons f fs => planAndL key (intersect b (planV key f)) fs
  /-- `if v, ok := f.Get("$or").(types.Slice); ok { … plan.intersect(cover) }` -/
  def planOrP (key : Val) (b : Bounds) : PList → Bounds
    | .nil => b
    | .cons k v rest =>
      if equal k (.str opOr) then
        match v with
        | .slice xs => intersect b (coverL key xs)
        | _ => b
      else planOrP key b rest
  /-- the covering range of the `$or` branches (`cover`); no branch = nil -/
  def coverL (key : Val) : VList → Option Bounds
    | .nil => none
    | .cons f fs => coverRest key (planV key f) fs
  def coverRest (key : Val) (c : Option Bounds) : VList → Option Bounds
    | .nil => c
    | .cons f fs => coverRest key (union c (planV key f)) fs
end

/-- `newExecutionPlan(keys, filter)` as the list of its levels -/
def plan : List Val → Val → List Level
  | [], _ => []
  | k :: ks, f =>
    match planV k f with
    | none => []
    | some b => ⟨k, b⟩ :: plan ks f

/-- `x` lies within the scanned range: `Scan(key, min, max)` visits exactly the index keys with
`min ≤ key` (if `min != nil`) and `key ≤ max` (if `max != nil`) -/
def inb (b : Bounds) (x : Val) : Bool :=
  (isNil b.lo || decide (cmp b.lo x ≤ 0)) && (isNil b.hi || decide (cmp x b.hi ≤ 0))

/-- a document lies within every level of the plan (index key of a document = `doc.Get(key)`) -/
def within : List Level → PList → Bool
  | [], _ => true
  | l :: ls, d => inb l.b (mget d l.key) && within ls d

/-! ## `explain`

    doc := pinned(filter)
    for _, idx := range s.segment.Indexes() {
      if idx.Filter != nil && (idx.Implied == nil || !idx.Implied(doc)) { continue }
      if plan := newExecutionPlan(idx.Keys, filter); plan != nil { plans = append(plans, plan) } }
    for _, p := range plans { if plan == nil || p.lenght() > plan.lenght() { plan = p } }

`idx.Filter(doc)` = `match(doc, filter)` with an error counted as false; `idx.Implied(doc)` = the index filter examines
only top-level fields (`fields`), all of them are in `doc`, and `idx.Filter(doc)`. -/

/-- `idx.Filter(doc)` -/
def holds (φ : Val) (doc : PList) : Bool :=
  match matchV (.map doc) true φ with
  | .ok b => b
  | _ => false

/-- `idx.Implied(doc)` -/
def implied (φ : Val) (doc : PList) : Bool :=
  match fieldsOf φ with
  | none => false
  | some ks => ks.all (mhas doc ·) && holds φ doc

/-- an index as `explain` sees it: its keys and its filter (`none` = not partial) -/
abbrev Desc := List Val × Option Val

def applicable (filter : Val) (d : Desc) : Bool :=
  match d.2 with
  | none => true
  | some φ => implied φ (pinned filter)

/-- the first longest plan among the applicable indexes -/
def choose (best : List Level) : List (List Level) → List Level
  | [] => best
  | p :: ps => choose (if best.isEmpty || p.length > best.length then p else best) ps

/-- `explain(filter)` for a non-nil filter -/
def explain (idxs : List Desc) (filter : Val) : List Level :=
  choose [] (((idxs.filter (applicable filter)).map fun d => plan d.1 filter).filter (!·.isEmpty))

end Uniflow.Plan
