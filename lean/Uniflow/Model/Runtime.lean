/-
Model of `pkg/runtime/runtime.go` (`Load`, `Watch`, `Reconcile`) together with the parts of
`pkg/spec/spec.go` (`Meta.Bind`, `Meta.IsBound`), `pkg/spec/unstructured.go` (`Build`),
`pkg/scheme/scheme.go` (`Decode`, `Compile`) and `pkg/symbol/table.go` (`Insert`, `Free`,
`Lookup`, `Keys`) that `Load` goes through.  The code modelled is the code *after* the `fix:`
commits of this property (compare like with like; serialised loads; value fetch planned soundly).

Go, `(*Runtime).Load(ctx, filter)`:

    filter = filter ∧ {namespace: r.namespace}
    specs  = specStore.Find(filter)                                   -- []*spec.Unstructured
    for sp in specs, for val in sp.Env:  filters += {namespace: sp.ns, id: val.ID}      (ID set)
                                                  | {namespace: sp.ns, name: val.Name}  (else, Name set)
    values = valueStore.Find({$or: filters})                          -- store order = ascending id
    for unstructured in specs:
        sp = unstructured
        if unstructured.Bind(values...) fails      -> errs            -- some identified entry has no value
        else if unstructured.Build() fails         -> errs
        else if typed, err = scheme.Decode(..)     -> sp = typed      -- known kind: typed ≠ unstructured
        sb = table.Lookup(id)
        if sb == nil || !DeepEqual(sb.Spec, unstructured):            -- (fixed: was `sp`, the typed spec)
            n = nil; if sp != unstructured { n = scheme.Compile(sp) } -- node only for bound known kinds
            table.Insert(&Symbol{Spec: unstructured, Node: n})        -- free old (unload hook) + load hook
        symbols += sb
    for id in table.Keys():                                           -- Go map order
        sb = table.Lookup(id); if sb == nil continue
        if sb.Spec matches filter && id ∉ symbols: table.Free(id)     -- unload hook
    return errors.Join(errs...)

`Meta.Bind(values...)`: for every env entry, `example = {ID: val.ID, Namespace: m.Namespace,
Name: val.Name}`; the *first* value `v` with `v.Is(example)` is taken, the entry becomes
`{ID: v.ID, Name: v.Name, Data: template(val.Data, v.Data)}`; an identified entry without a value
makes `Bind` fail (the spec stays unstructured, is inserted with a nil node, `Load` reports an
error but goes on).  Abstraction: an env entry is a key plus a reference (`id i` or `name n`); the
data a bound entry carries is the *version* of the value it was bound to; a spec's own content
(fields, annotations, …) is a version number.  A failed `Bind` may leave some entries already
rewritten (Go map order); no observation of this model depends on that (an unbound symbol is
reported as unbound, its node is nil, it never reaches a hook).

`Table.Insert/Free` call the load / unload hooks only for *activated* symbols: node ≠ nil and all
port references resolvable; the specs of this model have no ports, so activated = has a node =
bound ∧ kind known to the scheme (kinds 0 and 1 are registered, every other kind is unknown).

`Watch`: one stream per store, filter `{namespace: r.namespace}` (an update is matched on the
new document, a delete on the deleted one).  `Reconcile`: the spec consumer turns an event `id`
into `Load({id})`; the value consumer looks the value up (`values = Find({id}) ++ [{ID: id}]`),
collects the table symbols `sb` with `sb.Spec.IsBound(values...)` and, if any, calls
`Load({$or: [{id: …}…]})`.  Each consumption is one atomic step of this model (the fixed code
holds `loadMu` over it); store mutations are atomic (store mutex).  The last section (`cstep`)
splits every load into "reads the stores" and "writes the table" with store mutations in between.

Event delivery: `specEv` / `valEv` are *reliable FIFO queues* – every event `Watch`'s streams
accept is delivered exactly once, in order (that is C13's `events_exact` about pkg/store/stream.go;
here it is an assumption).  The very last section (`lstep`) is the same concurrent model over a
stream that may drop an event equal to the one its consumer is still handling; it exists to show
that the convergence theorems really depend on the assumption.

Stores and the table are finite maps represented as association lists (`lookup` = first entry
with the key, `put` = erase + cons, enumeration = keys then `lookup`), so no uniqueness invariant
is needed.
-/
namespace Uniflow.Runtime

/-! ### finite maps as association lists -/

class Keyed (α : Type) where
  key : α → Nat

open Keyed

def lookup {α} [Keyed α] (l : List α) (i : Nat) : Option α := l.find? (fun a => key a == i)

def erase {α} [Keyed α] (l : List α) (i : Nat) : List α := l.filter (fun a => key a != i)

def put {α} [Keyed α] (l : List α) (a : α) : List α := a :: erase l (key a)

/-- Enumeration of a map: its keys, each looked up. -/
def enum {α} [Keyed α] (l : List α) : List α := (l.map key).filterMap (lookup l)

/-! ### documents -/

inductive Ref where
  | id (i : Nat)
  | name (n : Nat)
  deriving DecidableEq, Repr

structure EnvEntry where
  key : Nat
  ref : Ref
  deriving DecidableEq, Repr

structure Spec where
  id : Nat
  ns : Nat
  name : Option Nat
  kind : Nat              -- 0, 1: registered in the scheme (type + codec); ≥ 2: unknown
  env : List EnvEntry
  ver : Nat               -- everything else a spec carries
  deriving DecidableEq, Repr

structure Value where
  id : Nat
  ns : Nat
  name : Option Nat
  ver : Nat               -- the data
  deriving DecidableEq, Repr

/-- A bound env entry: key, and the id / name / data of the value it was bound to. -/
structure Bound where
  key : Nat
  vid : Nat
  vname : Option Nat
  vver : Nat
  deriving DecidableEq, Repr

/-- A symbol of the table: the (unstructured) spec with its env bound, or unbound. -/
structure Sym where
  spec : Spec
  binding : Option (List Bound)
  deriving DecidableEq, Repr

instance : Keyed Spec := ⟨Spec.id⟩
instance : Keyed Value := ⟨Value.id⟩
instance : Keyed Sym := ⟨fun s => s.spec.id⟩

def knownKind (k : Nat) : Bool := k < 2

/-- Has a node, hence (no ports) is activated: reported by load / unload hooks. -/
def Sym.active (s : Sym) : Bool := s.binding.isSome && knownKind s.spec.kind

/-! ### binding -/

/-- `v.Is({ID: ref id, Namespace: ns, Name: ref name})`. -/
def Ref.matches (r : Ref) (ns : Nat) (v : Value) : Bool :=
  v.ns == ns && (match r with
    | .id i => v.id == i
    | .name n => v.name == some n)

/-- The candidate with the least id (`Find` returns documents in ascending id order and `Bind`
takes the first one that matches). -/
def least : List Value → Option Value
  | [] => none
  | v :: vs =>
    match least vs with
    | none => some v
    | some u => if v.id ≤ u.id then some v else some u

def resolve (vals : List Value) (ns : Nat) (r : Ref) : Option Value :=
  least (vals.filter (r.matches ns))

def bindEntry (vals : List Value) (ns : Nat) (e : EnvEntry) : Option Bound :=
  match resolve vals ns e.ref with
  | some v => some ⟨e.key, v.id, v.name, v.ver⟩
  | none => none

/-- `Bind`: all entries or failure. -/
def bindEnv (vals : List Value) (ns : Nat) : List EnvEntry → Option (List Bound)
  | [] => some []
  | e :: es =>
    match bindEntry vals ns e, bindEnv vals ns es with
    | some b, some bs => some (b :: bs)
    | _, _ => none

/-- A bound env as the table stores it: `Bind` overwrites the entry's reference with the id (and
name) of the value it found, so how the entry referred to the value (by id or by name) is gone. -/
def normEnv (bs : List Bound) : List EnvEntry := bs.map fun b => ⟨b.key, .id b.vid⟩

/-- Bind + Build + Decode: what `Load` is about to put into the table for spec `s`. When `Bind`
succeeds the stored spec carries the *bound* env (`normEnv`): two versions of a spec that differ only
in the way an entry refers to the same value are the same symbol for `Load`'s `DeepEqual`, and an
update from one to the other restarts nothing. When `Bind` fails the spec is stored as read. -/
def compile (vals : List Value) (s : Spec) : Sym :=
  let b := bindEnv vals s.ns s.env
  ⟨{ s with env := match b with
      | some bs => normEnv bs
      | none => s.env }, b⟩

/-! ### state -/

inductive Note where
  | load (id : Nat)
  | unload (id : Nat)
  deriving DecidableEq, Repr

inductive Filter where
  | all                    -- nil
  | ids (l : List Nat)     -- {id: i} or {$or: [{id: i}…]}
  deriving DecidableEq, Repr

def Filter.matches : Filter → Nat → Bool
  | .all, _ => true
  | .ids l, i => l.contains i

structure St where
  ns : Nat := 0
  specs : List Spec := []
  vals : List Value := []
  table : List Sym := []
  log : List Note := []          -- load / unload notifications, oldest first
  watching : Bool := false
  specEv : List Nat := []        -- unconsumed events of the spec stream (ids), oldest first
  valEv : List Nat := []         -- unconsumed events of the value stream
  deriving Repr

/-! ### the symbol table -/

/-- `Table.Insert`: free the symbol with the same id (unload hook if it was active), insert,
load hook if the new one is active. -/
def insertSym (t : List Sym) (l : List Note) (sym : Sym) : List Sym × List Note :=
  let i := sym.spec.id
  let l1 := match lookup t i with
    | some old => if old.active then l ++ [Note.unload i] else l
    | none => l
  let l2 := if sym.active then l1 ++ [Note.load i] else l1
  (put t sym, l2)

/-- `Table.Free`. -/
def freeSym (t : List Sym) (l : List Note) (i : Nat) : List Sym × List Note :=
  match lookup t i with
  | some old => (erase t i, if old.active then l ++ [Note.unload i] else l)
  | none => (t, l)

/-! ### Load -/

/-- The value filters `Load` builds: is `v` asked for by some env entry of some found spec? -/
def needed (found : List Spec) (v : Value) : Bool :=
  found.any fun s => s.env.any fun e => e.ref.matches s.ns v

/-- First loop of `Load`. -/
def loop1 (fetched : List Value) : List Spec → List Sym × List Note → List Sym × List Note
  | [], acc => acc
  | s :: ss, (t, l) =>
    let sym := compile fetched s
    if lookup t s.id = some sym then loop1 fetched ss (t, l)
    else loop1 fetched ss (insertSym t l sym)

/-- Second loop of `Load`: over `Keys()`. -/
def loop2 (ns : Nat) (f : Filter) (found : List Spec) : List Nat → List Sym × List Note → List Sym × List Note
  | [], acc => acc
  | i :: is, (t, l) =>
    match lookup t i with
    | none => loop2 ns f found is (t, l)
    | some sb =>
      if (sb.spec.ns == ns && f.matches sb.spec.id) && !(found.any fun s => s.id == i) then
        loop2 ns f found is (freeSym t l i)
      else loop2 ns f found is (t, l)

def found (st : St) (f : Filter) : List Spec :=
  (enum st.specs).filter fun s => s.ns == st.ns && f.matches s.id

def fetched (st : St) (f : Filter) : List Value :=
  (enum st.vals).filter (needed (found st f))

def load (st : St) (f : Filter) : St :=
  let fd := found st f
  let r1 := loop1 (fetched st f) fd (st.table, st.log)
  let r2 := loop2 st.ns f fd (r1.1.map key) r1
  { st with table := r2.1, log := r2.2 }

/-- `Load` returns an error iff `Bind` failed for some spec it found. -/
def loadErr (st : St) (f : Filter) : Bool :=
  (found st f).any fun s => (compile (fetched st f) s).binding.isNone

/-! ### Reconcile -/

/-- What `Value.Is` looks at: a stored value, or the `{ID: id}` pseudo value `Reconcile` appends. -/
structure Probe where
  id : Nat
  ns : Option Nat
  name : Option Nat
  deriving DecidableEq, Repr

def Value.probe (v : Value) : Probe := ⟨v.id, some v.ns, v.name⟩

def probes (vals : List Value) (w : Nat) : List Probe :=
  (match lookup vals w with
    | some v => [v.probe]
    | none => []) ++ [⟨w, none, none⟩]

/-- One env entry of a table symbol as `IsBound` sees it: `(ID, Name)`. -/
def hit (ns : Nat) (ps : List Probe) (oid : Option Nat) (onm : Option Nat) : Bool :=
  ps.any fun p =>
    (match oid with
      | some i => p.id == i
      | none => false) ||
    (match onm with
      | some n => p.ns == some ns && p.name == some n
      | none => false)

def hitBound (ns : Nat) (ps : List Probe) (b : Bound) : Bool := hit ns ps (some b.vid) b.vname

def hitRef (ns : Nat) (ps : List Probe) (e : EnvEntry) : Bool :=
  match e.ref with
  | .id i => hit ns ps (some i) none
  | .name n => hit ns ps none (some n)

/-- `sb.Spec.IsBound(values...)` on the spec the table holds: bound entries carry the id and
name of their value, entries of an unbound spec their original reference. -/
def isBound (s : Sym) (ps : List Probe) : Bool :=
  match s.binding with
  | some bs => bs.any (hitBound s.spec.ns ps)
  | none => s.spec.env.any (hitRef s.spec.ns ps)

/-- The ids the value consumer reloads for an event of value `w`. -/
def selected (st : St) (w : Nat) : List Nat :=
  ((enum st.table).filter fun sb => isBound sb (probes st.vals w)).map key

def consumeSpec (st : St) : St :=
  match st.specEv with
  | [] => st
  | i :: rest => load { st with specEv := rest } (.ids [i])

def consumeVal (st : St) : St :=
  match st.valEv with
  | [] => st
  | w :: rest =>
    let st' := { st with valEv := rest }
    let sel := selected st' w
    if sel.isEmpty then st' else load st' (.ids sel)

/-! ### operations -/

inductive Op where
  | watch
  | insSpec (s : Spec) | updSpec (s : Spec) | delSpec (i : Nat)
  | insVal (v : Value) | updVal (v : Value) | delVal (i : Nat)
  | load (f : Filter)
  | consumeSpec | consumeVal
  deriving Repr

inductive Out where
  | ok | dup | notFound | bad
  deriving DecidableEq, Repr

def emitSpec (st : St) (ns i : Nat) : List Nat :=
  if st.watching && ns == st.ns then st.specEv ++ [i] else st.specEv

def emitVal (st : St) (ns i : Nat) : List Nat :=
  if st.watching && ns == st.ns then st.valEv ++ [i] else st.valEv

def step (st : St) : Op → St × Out
  | .watch => ({ st with watching := true, specEv := [], valEv := [] }, .ok)   -- fresh streams
  | .insSpec s =>
    match lookup st.specs s.id with
    | some _ => (st, .dup)
    | none => ({ st with specs := put st.specs s, specEv := emitSpec st s.ns s.id }, .ok)
  | .updSpec s =>
    match lookup st.specs s.id with
    | none => (st, .notFound)
    | some old =>
      if old.ns = s.ns then ({ st with specs := put st.specs s, specEv := emitSpec st s.ns s.id }, .ok)
      else (st, .bad)           -- a spec keeps its namespace for life
  | .delSpec i =>
    match lookup st.specs i with
    | none => (st, .notFound)
    | some old => ({ st with specs := erase st.specs i, specEv := emitSpec st old.ns i }, .ok)
  | .insVal v =>
    match lookup st.vals v.id with
    | some _ => (st, .dup)
    | none => ({ st with vals := put st.vals v, valEv := emitVal st v.ns v.id }, .ok)
  | .updVal v =>
    match lookup st.vals v.id with
    | none => (st, .notFound)
    | some old =>
      if old.ns = v.ns then ({ st with vals := put st.vals v, valEv := emitVal st v.ns v.id }, .ok)
      else (st, .bad)           -- a value keeps its namespace for life
  | .delVal i =>
    match lookup st.vals i with
    | none => (st, .notFound)
    | some old => ({ st with vals := erase st.vals i, valEv := emitVal st old.ns i }, .ok)
  | .load f => (load st f, .ok)
  | .consumeSpec => (consumeSpec st, .ok)
  | .consumeVal => (consumeVal st, .ok)

def run (st : St) : List Op → St
  | [] => st
  | o :: os => run (step st o).1 os

/-! ### batches: `store.Insert` with several documents

Go, `(*store).Insert(ctx, docs)`, under the store's lock:

    for _, doc := range docs {
        val := marshal(doc)
        if err := s.segment.Store(val); err != nil { return err }   -- refused: stop here
        if err := s.emit("insert", val); err != nil { return err }  -- announce THIS document now
    }

A document is stored and announced in the same iteration, so when document k is refused the
documents 1..k-1 stay stored *and have been announced*. The segment refuses a document whose id is
already stored (also: earlier in the same batch) – the model decides that itself – or for a
reason the model does not look at (no id; a unique index such as (namespace, name)): such a
document comes with `accepted = false`, as in C13's model. -/

def insSpecs (st : St) : List (Spec × Bool) → St × Out
  | [] => (st, .ok)
  | (s, accepted) :: rest =>
    if accepted = false then (st, .bad)
    else
      match step st (.insSpec s) with
      | (st', .ok) => insSpecs st' rest
      | (st', o) => (st', o)

def insVals (st : St) : List (Value × Bool) → St × Out
  | [] => (st, .ok)
  | (v, accepted) :: rest =>
    if accepted = false then (st, .bad)
    else
      match step st (.insVal v) with
      | (st', .ok) => insVals st' rest
      | (st', o) => (st', o)

/-- The single-document operations a batch amounts to: the accepted documents up to the refused one. -/
def specBatchOps (st : St) : List (Spec × Bool) → List Op
  | [] => []
  | (s, accepted) :: rest =>
    if accepted = false then []
    else
      match step st (.insSpec s) with
      | (st', .ok) => Op.insSpec s :: specBatchOps st' rest
      | _ => []

def valBatchOps (st : St) : List (Value × Bool) → List Op
  | [] => []
  | (v, accepted) :: rest =>
    if accepted = false then []
    else
      match step st (.insVal v) with
      | (st', .ok) => Op.insVal v :: valBatchOps st' rest
      | _ => []

/-- Consume every pending event (spec stream first), at most `fuel` of them. -/
def drain : Nat → St → St
  | 0, st => st
  | fuel + 1, st =>
    match st.specEv, st.valEv with
    | _ :: _, _ => drain fuel (consumeSpec st)
    | [], _ :: _ => drain fuel (consumeVal st)
    | [], [] => st

/-! ### specification -/

/-- What the statement demands of the table at id `i`: the spec stored under `i` if it lives in
the runtime's namespace, carrying its current content, bound to the current values. -/
def targetAt (specs : List Spec) (vals : List Value) (ns : Nat) (i : Nat) : Option Sym :=
  match lookup specs i with
  | some s => if s.ns = ns then some (compile (enum vals) s) else none
  | none => none

def St.target (st : St) (i : Nat) : Option Sym := targetAt st.specs st.vals st.ns i

/-! ### sessions: `Close`, and watching again on the same runtime -/

/-- `Runtime.Close`: both streams are closed and forgotten (`watching := false`, whatever they still
held is dropped) and `symbolTable.Close()` frees every symbol – an unload notification for each
active one (Go frees them in a topological order of the port references; the specs of this model
have no ports, so the order is Go's map order – the observation sorts by id). A later `Watch`
(`step … .watch`) opens fresh streams: the event queues restart empty, and a `Load` brings the
table back to what the stores demand. Ending a session by cancelling its context instead leaves
the table alone; the streams the store then closes deliver nothing further, and the next `Watch`
replaces them. -/
def closeRt (st : St) : St :=
  { st with
    table := [],
    log := st.log ++ ((enum st.table).filter Sym.active).map (fun sb => Note.unload sb.spec.id),
    watching := false, specEv := [], valEv := [] }

/-! ### the concurrent model: store mutations landing inside a `Load` -/

/-- A `Load` in flight: its filter and what it read from the two stores. -/
structure Flight where
  f : Filter
  specs : List Spec
  vals : List Value

/-- Concurrent state: the runtime state plus at most one `Load` in flight (`loadMu`). -/
structure CSt where
  st : St
  fl : Option Flight := none

/-- Steps of the concurrent model: store mutations may land while a `Load` is in flight, i.e.
between the moment it read the stores (`begin…`) and the moment it writes the table (`commit`). -/
inductive COp where
  | store (o : Op)        -- insSpec … delVal
  | beginLoad (f : Filter)
  | beginSpec             -- the spec consumer takes an event and its Load reads the stores
  | beginVal              -- the value consumer takes an event, scans the table, its Load reads the stores
  | commit

def isMut : Op → Bool
  | .insSpec _ | .updSpec _ | .delSpec _ | .insVal _ | .updVal _ | .delVal _ => true
  | _ => false

def cstep (c : CSt) : COp → CSt
  | .store o => if isMut o then { c with st := (step c.st o).1 } else c
  | .beginLoad f =>
    match c.fl with
    | some _ => c                      -- blocked on loadMu
    | none => { c with fl := some ⟨f, c.st.specs, c.st.vals⟩ }
  | .beginSpec =>
    match c.fl, c.st.specEv with
    | none, i :: rest => { st := { c.st with specEv := rest }, fl := some ⟨.ids [i], c.st.specs, c.st.vals⟩ }
    | _, _ => c
  | .beginVal =>
    match c.fl, c.st.valEv with
    | none, w :: rest =>
      let st' := { c.st with valEv := rest }
      let sel := selected st' w
      if sel.isEmpty then { c with st := st' } else { st := st', fl := some ⟨.ids sel, c.st.specs, c.st.vals⟩ }
    | _, _ => c
  | .commit =>
    match c.fl with
    | none => c
    | some fl =>
      let r := load { c.st with specs := fl.specs, vals := fl.vals } fl.f
      { st := { c.st with table := r.table, log := r.log }, fl := none }

def crun (c : CSt) : List COp → CSt
  | [] => c
  | o :: os => crun (cstep c o) os

/-! ### a lossy stream: what the convergence theorems assume away -/

/-- The kind of the event a store mutation emits (0 insert, 1 update, 2 delete) and its id. -/
def opKind : Op → Nat
  | .insSpec _ | .insVal _ => 0
  | .updSpec _ | .updVal _ => 1
  | _ => 2

def opId : Op → Nat
  | .insSpec s | .updSpec s => s.id
  | .insVal v | .updVal v => v.id
  | .delSpec i | .delVal i => i
  | _ => 0

/-- State of the lossy model: the concurrent state, which consumer is inside a `Load`
(0 none, 1 the spec consumer, 2 the value consumer), the `{op,id}` event most recently handed to
each consumer, and the op kinds of the queued events (the queues of `St` carry ids only). -/
structure LSt where
  c : CSt
  who : Nat := 0
  lastSpec : Option (Nat × Nat) := none
  lastVal : Option (Nat × Nat) := none
  kindsSpec : List Nat := []
  kindsVal : List Nat := []

/-- A step of the concurrent model together with the pump's choice: `drop` = discard the event
this step emits, allowed only when it equals the event most recently handed to the consumer of
that stream, that consumer is still busy with it (inside its `Load`) and nothing else is queued. -/
structure LOp where
  op : COp
  drop : Bool

def lstep (l : LSt) (o : LOp) : LSt :=
  let c' := cstep l.c o.op
  match o.op with
  | .store m =>
    let ev := (opKind m, opId m)
    if c'.st.specEv.length = l.c.st.specEv.length + 1 then
      if o.drop && l.who == 1 && l.c.st.specEv.isEmpty && l.lastSpec == some ev then
        { l with c := { c' with st := { c'.st with specEv := l.c.st.specEv } } }
      else { l with c := c', kindsSpec := l.kindsSpec ++ [opKind m] }
    else if c'.st.valEv.length = l.c.st.valEv.length + 1 then
      if o.drop && l.who == 2 && l.c.st.valEv.isEmpty && l.lastVal == some ev then
        { l with c := { c' with st := { c'.st with valEv := l.c.st.valEv } } }
      else { l with c := c', kindsVal := l.kindsVal ++ [opKind m] }
    else { l with c := c' }
  | .beginSpec =>
    match l.c.fl, l.c.st.specEv, l.kindsSpec with
    | none, i :: _, k :: ks => { l with c := c', who := 1, lastSpec := some (k, i), kindsSpec := ks }
    | _, _, _ => { l with c := c' }
  | .beginVal =>
    match l.c.fl, l.c.st.valEv, l.kindsVal with
    | none, w :: _, k :: ks =>
      { l with c := c', who := if c'.fl.isSome then 2 else 0, lastVal := some (k, w), kindsVal := ks }
    | _, _, _ => { l with c := c' }
  | .commit => { l with c := c', who := 0 }
  | .beginLoad _ => { l with c := c' }

def lrun (l : LSt) : List LOp → LSt
  | [] => l
  | o :: os => lrun (lstep l o) os

/-! ### an unlocked fast path for delete events: what `loadMu` around every event kind buys -/

/-- Steps of the concurrent model plus `fastDelete`: the spec consumer takes the oldest spec event
and, the spec stored under that id being gone (a delete event), frees the symbol at once –
*without* waiting for the load in flight, i.e. without `loadMu`. -/
inductive UOp where
  | c (o : COp)
  | fastDelete

def ustep (c : CSt) : UOp → CSt
  | .c o => cstep c o
  | .fastDelete =>
    match c.st.specEv with
    | [] => c
    | i :: rest =>
      match lookup c.st.specs i with
      | some _ => c                       -- not a deletion: the consumer goes through `Load`
      | none =>
        let r := freeSym c.st.table c.st.log i
        { c with st := { c.st with specEv := rest, table := r.1, log := r.2 } }

def urun (c : CSt) : List UOp → CSt
  | [] => c
  | o :: os => urun (ustep c o) os

end Uniflow.Runtime
