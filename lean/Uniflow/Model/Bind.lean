/-
Model of environment binding: `pkg/value/value.go` (`Value.Is`, `IsIdentified`),
`pkg/spec/spec.go` (`(*Meta).Bind`, `(*Meta).IsBound`, `spec.Value.IsIdentified`) and
`pkg/spec/unstructured.go` (`(*Unstructured).Build`).

  func (v *Value) Is(val *Value) bool {            // all non-zero fields of val match v
    if val.ID != Nil && val.ID != v.ID { return false }
    if val.Namespace != "" && val.Namespace != v.Namespace { return false }
    if val.Name != "" && val.Name != v.Name { return false }
    return true }

  func (m *Meta) Bind(values ...*value.Value) error {
    for key, val := range m.Env {                  // unspecified order; entries are independent
      example := &value.Value{ID: val.ID, Namespace: m.Namespace, Name: val.Name}
      var value *value.Value
      for _, v := range values {                   // FIRST match in the given order
        if (!val.IsIdentified() && !v.IsIdentified()) || (val.IsIdentified() && v.Is(example)) {
          value = v; break } }                     // pinned tree: `… || v.Is(example)`, see selectPinned
      if value != nil {
        v, err := template.Execute(val.Data, value.Data)   // the entry's data is a template over the value's data
        if err != nil { return err }
        val.ID, val.Name, val.Data = value.ID, value.Name, v
        m.Env[key] = val
      } else if val.IsIdentified() {
        return ErrUnsupportedValue } }             // names a variable that does not exist
    return nil }                                   // an anonymous entry without anonymous value stays as it is

  func (u *Unstructured) Build() error {
    env := map[string]any{} ; for key, val := range u.Env { env[key] = val.Data }
    if len(env) > 0 {
      fields, err := template.Execute(u.Fields, env) ; if err != nil { return err }
      if fields, ok := fields.(map[string]any); ok { u.Fields = fields } else { return ErrUnsupportedValue } }
    return nil }

Ids are `Nat` (0 = uuid.Nil).  `Spec.env` is `Meta.Env` in the order `range` happens to visit it
(all orders are covered by quantifying over all lists); `Spec.fields = none` is a nil `Fields` map.

Second use.  `bind` is a function of (spec, value list): the list is read, never written, and a spec remembers
nothing from an earlier call except what Bind stored in its Env (ID, Name, Data of the chosen value).  The Go code
receives the caller's slice itself (`sp.Bind(vals...)` passes the backing array): the harness
(harness/c18/seconduse.go) binds several specs of different namespaces from ONE slice, checks after every Bind that
the slice holds the same pointers to unchanged values, and compares every Bind/Build of such a chain – and a second
Bind of the bound spec, and a Bind with more values after Build – with this model run on that spec alone.
-/
import Uniflow.Model.Template

namespace Uniflow.Bind
open Uniflow.Template

/-- `value.Value` (annotations play no role). -/
structure Val where
  id : Nat
  ns : String
  name : String
  data : Doc

/-- `spec.Value`: one entry of `Meta.Env`. -/
structure Entry where
  id : Nat
  name : String
  data : Doc

structure Spec where
  ns : String
  env : List (String × Entry)
  fields : Option (List (String × Doc))

def Val.isIdentified (v : Val) : Bool := v.id != 0 || v.name != ""
def Entry.isIdentified (e : Entry) : Bool := e.id != 0 || e.name != ""

/-- `v.Is(example)` with `example = {ID: id, Namespace: ns, Name: name}`. -/
def Val.is (v : Val) (id : Nat) (ns name : String) : Bool :=
  (id == 0 || id == v.id) && (ns == "" || ns == v.ns) && (name == "" || name == v.name)

/-- The match condition of `Bind`'s inner loop (fixed tree). -/
def matchEntry (ns : String) (e : Entry) (v : Val) : Bool :=
  (!e.isIdentified && !v.isIdentified) || (e.isIdentified && v.is e.id ns e.name)

/-- The match condition on the pinned tree. -/
def matchPinned (ns : String) (e : Entry) (v : Val) : Bool :=
  (!v.isIdentified && !e.isIdentified) || v.is e.id ns e.name

/-- First matching value in the order given to `Bind`. -/
def select (ns : String) (e : Entry) (vals : List Val) : Option Val := vals.find? (matchEntry ns e)

def selectPinned (ns : String) (e : Entry) (vals : List Val) : Option Val :=
  vals.find? (matchPinned ns e)

abbrev Ord := List (Doc × Doc) → List (Doc × Doc)

/-- One iteration of `Bind`'s outer loop. -/
def bindEntry (T : TextTemplate) (ord : Ord) (ns : String) (vals : List Val) (e : Entry) :
    Res Entry :=
  match select ns e vals with
  | some v =>
    match run T ord e.data v.data with
    | .ok d => .ok { id := v.id, name := v.name, data := d }
    | .err er => .err er
    | .panic p => .panic p
  | none => if e.isIdentified then .err .unsupported else .ok e

/-- The outer loop: entries in iteration order, first failure returns. -/
def bindEnv (T : TextTemplate) (ord : Ord) (ns : String) (vals : List Val) :
    List (String × Entry) → Res (List (String × Entry))
  | [] => .ok []
  | (k, e) :: r =>
    match bindEntry T ord ns vals e with
    | .err er => .err er
    | .panic p => .panic p
    | .ok e' =>
      match bindEnv T ord ns vals r with
      | .ok r' => .ok ((k, e') :: r')
      | .err er => .err er
      | .panic p => .panic p

/-- `(*Meta).Bind`. -/
def bindSpec (T : TextTemplate) (ord : Ord) (s : Spec) (vals : List Val) : Res Spec :=
  match bindEnv T ord s.ns vals s.env with
  | .ok env => .ok { s with env := env }
  | .err e => .err e
  | .panic p => .panic p

/-- The data handed to the field templates: `env[key] = val.Data`. -/
def envDoc (env : List (String × Entry)) : Doc := .map (env.map fun p => (p.1, p.2.data))

/-- `(*Unstructured).Build`. -/
def build (T : TextTemplate) (ord : Ord) (s : Spec) : Res Spec :=
  if s.env.length > 0 then
    match run T ord (.map (s.fields.getD [])) (envDoc s.env) with
    | .ok (.map kvs) => .ok { s with fields := some kvs }
    | .ok _ => .err .unsupported
    | .err e => .err e
    | .panic p => .panic p
  else .ok s

/-- `(*Meta).IsBound`. -/
def isBound (s : Spec) (vals : List Val) : Bool :=
  s.env.any fun p =>
    vals.any fun v =>
      (p.2.id != 0 && v.is p.2.id "" "") || (p.2.name != "" && v.is 0 s.ns p.2.name)

/-! ### pinned tree -/

def bindEntryPinned (T : TextTemplate) (ord : Ord) (ns : String) (vals : List Val) (e : Entry) :
    Res Entry :=
  match selectPinned ns e vals with
  | some v =>
    match runPinned T ord e.data v.data with
    | .ok d => .ok { id := v.id, name := v.name, data := d }
    | .err er => .err er
    | .panic p => .panic p
  | none => if e.isIdentified then .err .unsupported else .ok e

def buildPinned (T : TextTemplate) (ord : Ord) (s : Spec) : Res Spec :=
  if s.env.length > 0 then
    match runPinned T ord (.map (s.fields.getD [])) (envDoc s.env) with
    | .ok (.map kvs) => .ok { s with fields := some kvs }
    | .ok _ => .err .unsupported
    | .err e => .err e
    | .panic p => .panic p
  else .ok s

end Uniflow.Bind
