/-
The store with its watchers: `Uniflow.Index` (segment, indexes, store operations – Model/Index.lean) together with the
streams of `Uniflow.Stream` (Model/Stream.lean). It supplies what C13's stream model takes as parameters of its `doc`
operation: *accepted by the segment* comes from the store model, *filterHolds the watcher's filter* from the real `match`
(Model/Store.lean `matchV`). Core Lean only.

pkg/store/store.go, under the store's write lock:

    Insert:  for each doc { segment.Store(doc)            → on error return; emit("insert", doc) }
    Update:  upsert with no match: doc := patch(extract(filter), update); segment.Store(doc); emit("insert", doc)
             otherwise: patch every matching document, then for each patched doc { segment.Swap(doc) → on error return;
                                                                                     emit("update", doc) }
    Delete:  for each matching doc { segment.Delete(id)    → on error return; emit("delete", doc) }
    emit(op, doc): id := doc.Get("id"); for each stream in store.streams, in order:
                     ok, err := stream.Match(doc)   -- nil filter: true; else match(doc, filter); an error aborts the call
                     if ok { stream.Emit({op, id}) }
    Watch(filter): a new stream with that filter, appended to store.streams.

So the document matched against a watcher's filter is the *new* document for insert and update and the *deleted* one for
delete, events are emitted once per accepted document in the order the segment accepted them, and a rejected document
(and everything after it in the same call) emits nothing. `emit` does not touch the segment, so the events of a call are
a function of the store state before it: `events`.

Identities: a stream event carries the document id; `Uniflow.Stream.Event.id` is a number (the harness numbers ids), so
the model is parameterised by the numbering `enc : Val → Nat`. Watchers are numbered by the caller (`watch w filter`), as
in C13; re-using a live number is `bad` and changes nothing.

A watcher filter that `match` rejects makes `emit` return the error *after* the mutation was applied and skips the later
watchers (DESIGN.md §7 row 27): outside the property's quantifier (§5 C10 reading (v)); here such a filter simply never
filterHolds, and the theorems assume watcher filters are well-formed.
-/
import Uniflow.Model.Index
import Uniflow.Model.Stream

namespace Uniflow.Watch
open Uniflow.Value Uniflow.Store Uniflow.Index

/-- op codes of `Uniflow.Stream.Event`: 0 insert, 1 update, 2 delete -/
abbrev opInsert : Nat := 0
abbrev opUpdate : Nat := 1
abbrev opDelete : Nat := 2

/-! ### the documents a store operation emits an event for, in order -/

/-- `Insert`: the documents `segment.Store` accepted, up to the first rejected one -/
def insertEvents (s : State) : List PList → List (PList × Nat)
  | [] => []
  | d :: ds =>
    match segStore s d with
    | (s', none) => (d, opInsert) :: insertEvents s' ds
    | _ => []

/-- the swap loop of `Update` -/
def swapEvents (s : State) : List PList → List (PList × Nat)
  | [] => []
  | d :: ds =>
    match segSwap s d with
    | (s', none) => (d, opUpdate) :: swapEvents s' ds
    | _ => []

/-- the loop of `Delete` -/
def deleteEvents (s : State) : List PList → List (PList × Nat)
  | [] => []
  | d :: ds =>
    match segDelete s (mget d keyId) with
    | (s', none) => (d, opDelete) :: deleteEvents s' ds
    | _ => []

/-- the events of one store operation: (document matched against the filters, op code), in emission order -/
def events (s : State) : Index.Op → List (PList × Nat)
  | .insert ds => insertEvents s ds
  | .update filter u upsert =>
    match find s filter with
    | .ok docs =>
      match patch .nil u with
      | .ok _ =>
        if upsert && docs.isEmpty then
          match (match filter with | some f => extract f | none => .ok .nil) with
          | .ok (.map d) =>
            match patch d u with
            | .ok d' =>
              match segStore s d' with
              | (_, none) => [(d', opInsert)]
              | _ => []
            | _ => []
          | _ => []
        else
          match patchAll u docs with
          | .ok ds => swapEvents s ds
          | _ => []
      | _ => []
    | _ => []
  | .delete filter =>
    match find s filter with
    | .ok docs => deleteEvents s docs
    | _ => []
  | _ => []

/-! ### the watchers -/

/-- `stream.Match(doc)` with an error counted as "no event" (see the header) -/
def filterHolds (φ : Option Val) (d : PList) : Bool :=
  match φ with
  | none => true
  | some f =>
    match matchV (.map d) true f with
    | .ok b => b
    | _ => false

/-- the watchers whose filter matches the document -/
def matchedBy (filters : List (Nat × Option Val)) (d : PList) : List Nat :=
  (filters.filter fun p => filterHolds p.2 d).map (·.1)

structure WSt where
  store : State := Index.init
  strm : Stream.St := {}
  filters : List (Nat × Option Val) := []   -- watcher number ↦ filter, in `Watch` order

inductive WOp where
  | store (op : Index.Op)
  | watch (w : Nat) (filter : Option Val)
  | next (w : Nat)
  | close (w : Nat)
  | pumpExit (w : Nat)

inductive WOut where
  | store (o : Index.Out)
  | strm (o : Stream.Out)

/-- the stream operation of one emitted event -/
def docOp (enc : Val → Nat) (filters : List (Nat × Option Val)) (e : PList × Nat) : Stream.Op :=
  .doc ⟨enc (mget e.1 keyId), e.2⟩ true (matchedBy filters e.1)

/-- the stream operations one operation of the store-with-watchers performs -/
def strmOps (enc : Val → Nat) (ws : WSt) : WOp → List Stream.Op
  | .store op => (events ws.store op).map (docOp enc ws.filters)
  | .watch w _ => [.watch w]
  | .next w => [.next w]
  | .close w => [.close w]
  | .pumpExit w => [.pumpExit w]

def step (enc : Val → Nat) (ws : WSt) : WOp → WSt × WOut
  | .store op =>
    let r := Index.step ws.store op
    ({ ws with store := r.1, strm := Stream.run ws.strm ((events ws.store op).map (docOp enc ws.filters)) }, .store r.2)
  | .watch w filter =>
    let r := Stream.step ws.strm (.watch w)
    if (Stream.findW w ws.strm.streams).isSome then (ws, .strm r.2)
    else ({ ws with strm := r.1, filters := ws.filters ++ [(w, filter)] }, .strm r.2)
  | .next w => let r := Stream.step ws.strm (.next w); ({ ws with strm := r.1 }, .strm r.2)
  | .close w => let r := Stream.step ws.strm (.close w); ({ ws with strm := r.1 }, .strm r.2)
  | .pumpExit w => let r := Stream.step ws.strm (.pumpExit w); ({ ws with strm := r.1 }, .strm r.2)

def run (enc : Val → Nat) (ws : WSt) : List WOp → WSt
  | [] => ws
  | o :: os => run enc (step enc ws o).1 os

/-- the whole history as a history of stream operations -/
def trace (enc : Val → Nat) (ws : WSt) : List WOp → List Stream.Op
  | [] => []
  | o :: os => strmOps enc ws o ++ trace enc (step enc ws o).1 os

end Uniflow.Watch
