/-
The JSON form of a document: `json.Marshal(doc)` → `json.Unmarshal(text, &any)` → `types.Marshal(any)`, the way
the engine reads JSON.

    null, booleans                     unchanged
    Int*, Uint*                        a JSON number, read back as float64 (`f64OfInt`: exact up to 2^53)
    Float64                            finite: unchanged (shortest decimal text parses back to the same float64);
                                       NaN, ±Inf: `json.Marshal` fails → `none`
    Float32                            `none`: its text is the shortest decimal *for float32*, whose float64 reading is
                                       not modelled (the harness checks it on the real code only)
    String                             valid UTF-8: unchanged; else `none` (Go substitutes U+FFFD – outside the guard)
    Binary                             base64 text
    Error                              its text
    Slice                              element-wise
    Map                                same keys (strings), values mapped – Range order only depends on the keys

Core Lean only.
-/
import Uniflow.Model.Codec

namespace Uniflow.Codec
open Uniflow.Value

mutual
  def jsonForm : Val → Option Val
    | .nil => some .nil
    | .bool b => some (.bool b)
    | .int _ v => (f64OfInt v).map .f64
    | .uint _ v => (f64OfNat v).map .f64
    | .f32 _ => none
    | .f64 b => if finite64 b then some (.f64 b) else none
    | .str s => if validUTF8 s then some (.str s) else none
    | .bin bs => some (.str (b64enc bs))
    | .err m => if validUTF8 m then some (.str m) else none
    | .slice xs => (jsonFormL xs).map .slice
    | .map ps => (jsonFormP ps).map .map
  def jsonFormL : VList → Option VList
    | .nil => some .nil
    | .cons x xs =>
      match jsonForm x, jsonFormL xs with
      | some y, some ys => some (.cons y ys)
      | _, _ => none
  def jsonFormP : PList → Option PList
    | .nil => some .nil
    | .cons (.str k) v ps =>
      if validUTF8 k then
        match jsonForm v, jsonFormP ps with
        | some y, some qs => some (.cons (.str k) y qs)
        | _, _ => none
      else none
    | .cons _ _ _ => none
end

end Uniflow.Codec
