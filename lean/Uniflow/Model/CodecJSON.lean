/-
JSON form of a document (stub, replaced below).
-/
import Uniflow.Model.Codec

namespace Uniflow.Codec
open Uniflow.Value

def jsonForm (_ : Val) : Option Val := none

end Uniflow.Codec
