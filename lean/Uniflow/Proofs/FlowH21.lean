/-
C02, joint model, one-in-port node kinds, part 21: a writer hands its node an answer; `settle`.
-/
import Uniflow.Proofs.FlowH20

namespace Uniflow.FlowH
open Uniflow.Tracer Uniflow.Node Uniflow.Flow Uniflow.FlowInv Uniflow.FlowG Uniflow.ATracer
open Uniflow.ATracer (getL_setOrDel getL_aset)

theorem pendH_wkey (aa : Nat → A) (roots : List Pid) (nr n w N : Nat) (hn : n < N) (hN : N ≤ 1000) (hw : w < maxW) :
    pendH aa roots nr (wkey n w) = getL (aa n).wq w := by
  have hw64 : w < 64 := Nat.lt_of_lt_of_le hw (by decide)
  obtain ⟨d1, d2⟩ := wkey_div_mod n w hw64
  have : wkey n w ≠ srcKey := by
    rcases src_ne_wkey n w N hn hN with h | h
    · exact fun e => h e.symm
    · omega
  simp only [pendH, this, if_false, d1, d2]

theorem HIe_backStep (kinds : List Kind) (links : List (Nat × List Tgt)) (hwf : GraphWF3 kinds links) (g g' : G)
    (n : Nat) (nd : Node) (w : Nat) (hw8 : w < maxW) (h : HIe kinds links g)
    (hn : getNode g.nodes n = some nd) (hs : backStep g n nd w = some g') : HIe kinds links g' := by
  obtain ⟨aa, h⟩ := h
  have hN := hwf.small
  have hjb := h.jb n nd hn
  have hnN : n < kinds.length := (h.nodesLen n).mp (by rw [hn]; rfl)
  obtain ⟨th, hth⟩ := threads_one nd hjb.one
  obtain ⟨inbox, pc⟩ := th
  have hnl := h.nl n nd _ hn hth
  simp only [backStep, getWriter_eq] at hs
  cases hq : (gw g.writers (wkey n w)).queue with
  | nil => simp [hq] at hs
  | cons a rest =>
    simp only [hq] at hs
    cases hl : getL links (wkey n w) with
    | nil => have := h.wq0 _ hl; rw [hq] at this; cases this
    | cons t ts =>
      have hl1 : getL links (wkey n w) ≠ [] := by rw [hl]; simp
      have hwk0 := h.wk (wkey n w) hl1
      rw [pendH_wkey aa g.roots g.resp.length n w _ hnN hN hw8] at hwk0
      obtain ⟨q0, pend', e1, hra, hwk1⟩ := wkg_consume _ _ _ _ _ a rest hwk0 hq
      have hqne : getL (aa n).wq w ≠ [] := by rw [e1]; simp
      obtain ⟨hst, hjb'⟩ := jb_answer nd (aa n) g.next hjb w a hqne
      have hinv := hjb.j.inv
      have hq0i : q0 ∈ ids (aa n).reqs := by
        obtain ⟨x, hx, hc⟩ := hinv.owed w q0 (by rw [e1]; simp)
        rcases hc with ⟨e, _⟩ | ⟨cs, hst', hm⟩
        · exact mem_ids_of_mem hx (by simp [idsR, e])
        · exact mem_ids_of_mem hx (by simp only [idsR, hst', cellsOfSt, List.mem_cons]; right; exact written_mem_open cs q0 w hm)
      have hdis := jb_disj nd (aa n) g.next hjb _ hth q0 hq0i
      obtain ⟨ds, d1, d2, d3, d4, d5⟩ := nl_answer g.log n inbox pc (aa n) w a q0 pend' hnl hinv hjb.r0 e1 hra
        (fun x hx e => hdis (by simp only [tids, List.mem_append, List.mem_map]; left; exact ⟨x, hx, e⟩))
        (fun y _ hm => hdis (by simp only [tids, List.mem_append]; right; exact remFor_sub _ y.p q0 hm))
      have hev : (acall (aa n) (.answer w a)).2 = ds.map (fun d => Ev.reply 0 d.2) := d2
      rw [hst, hev] at hs
      simp only [Option.some.injEq] at hs
      subst hs
      have hub : Unlogged g.log g.next := h.logBound g.next (Nat.le_refl _)
      have hw64 : w < 64 := Nat.lt_of_lt_of_le hw8 (by decide)
      obtain ⟨dd1, dd2⟩ := wkey_div_mod n w hw64
      have hsrc : srcKey ≠ wkey n w := by
        rcases src_ne_wkey n w _ hnN hN with h1 | h1
        · exact h1
        · omega
      have key := HI_debt_route kinds links hwf aa g h n nd
        { nd with tr := (receiveW nd.strict nd.tr w (some a)).1 } (aanswer (aa n) w a).1 g.log g.next
        (aset g.writers (wkey n w) { gw g.writers (wkey n w) with queue := rest }) ds hn rfl hjb'
        (by
          intro th' hth'
          have : th' = { inbox := inbox, pc := pc } := by
            have e : ({ nd with tr := (receiveW nd.strict nd.tr w (some a)).1 } : Node).threads = nd.threads := rfl
            rw [e, hth] at hth'; simp only [List.cons.injEq, and_true] at hth'; exact hth'.symm
          rw [this]; exact d1)
        (by
          rw [heldN_of nd (aa n) _ hth,
            heldN_of ({ nd with tr := (receiveW nd.strict nd.tr w (some a)).1 } : Node) (aanswer (aa n) w a).1
              { inbox := inbox, pc := pc } hth, d4]
          simp [List.append_assoc])
        (logExt_refl g.log g.next hub) rfl h.logBound (Or.inl (Nat.le_refl _)) d3
        (by simp only [gw_aset, hsrc, if_false]; exact h.srcq)
        (by
          intro key hk
          have : key ≠ wkey n w := by intro e; rw [e] at hk; exact hl1 hk
          simp only [gw_aset, this, if_false]; exact h.wq0 key hk)
        (by
          intro key hl'
          by_cases e : key = wkey n w
          · subst e
            simp only [gw_aset, if_true]
            have : pendH (updA aa n (aanswer (aa n) w a).1) g.roots g.resp.length (wkey n w) = pend' := by
              rw [pendH_wkey _ g.roots g.resp.length n w _ hnN hN hw8]
              simp only [updA, if_true]
              show getL (aanswer (aa n) w a).1.wq w = _
              rw [d5, getL_setOrDel]; simp
            rw [this]; exact hwk1
          · simp only [gw_aset, e, if_false]
            have : pendH (updA aa n (aanswer (aa n) w a).1) g.roots g.resp.length key =
                pendH aa g.roots g.resp.length key := by
              simp only [pendH]
              by_cases e1 : key = srcKey
              · simp [e1]
              · simp only [e1, if_false]
                by_cases e2 : key / 64 = n
                · simp only [updA, e2, if_true]
                  show getL (aanswer (aa n) w a).1.wq (key % 64) = _
                  rw [d5, getL_setOrDel]
                  have : key % 64 ≠ w := fun e3 => e (key_eq_wkey n w key e2 e3)
                  simp [this]
                · simp [updA, e2]
            rw [this]; exact h.wk key hl')
        (ordAt_none g.log g.next g.next hub.2.1 hub.1)
      exact ⟨_, key⟩

theorem HIe_settle (kinds : List Kind) (links : List (Nat × List Tgt)) (hwf : GraphWF3 kinds links) (fuel : Nat) (g : G)
    (h : HIe kinds links g) : HIe kinds links (settle fuel g) := by
  apply settle_inv (HIe kinds links) _ _ fuel g h
  · intro g g' hg hs
    obtain ⟨n, nd, hn, ⟨i, hi⟩ | ⟨w, hw, hb⟩⟩ := settleStep_cases' g g' hs
    · exact HIe_threadStep kinds links hwf g g' n nd i hg hn hi
    · exact HIe_backStep kinds links hwf g g' n nd w hw hg hn hb
  · intro g ⟨aa, hg⟩
    exact ⟨aa, HI_congr _ links aa D0 g _ hg rfl rfl rfl rfl rfl rfl rfl rfl rfl⟩

end Uniflow.FlowH
