/-
C02, joint model, one-in-port node kinds, part 14: an accepted write (the source's or a node's) preserves the
invariant; the writing node's own change is a parameter.
-/
import Uniflow.Proofs.FlowH13

namespace Uniflow.FlowH
open Uniflow.Tracer Uniflow.Node Uniflow.Flow Uniflow.FlowInv Uniflow.FlowG Uniflow.ATracer
open Uniflow.ATracer (getL_setOrDel getL_aset)

theorem tok_of_mem3 (kinds : List Kind) (links : List (Nat × List Tgt)) (hwf : GraphWF3 kinds links) (key : Nat) :
    ∀ t ∈ getL links key, TOK kinds.length t := by
  intro t ht
  cases t with
  | sink _ => trivial
  | node m port => exact hwf.tnode key m port ht

theorem HI_pushed (kinds : List Kind) (links : List (Nat × List Tgt)) (hwf : GraphWF3 kinds links) (aa : Nat → A) (g : G)
    (h : HI kinds links aa D0 g) (key : Nat) (v : Val) (htne : getL links key ≠ [])
    (gb : G) (e_nodes : gb.nodes = g.nodes) (e_sinks : gb.sinks = g.sinks) (e_fifo : gb.fifo = g.fifo)
    (e_log : gb.log = g.log) (e_links : gb.links = g.links) (e_resp : gb.resp = g.resp)
    (e_wr : gb.writers = aset g.writers key
      ⟨(gw g.writers key).rows ++ [List.replicate (getL links key).length none], (gw g.writers key).queue⟩)
    (hle : g.next ≤ gb.next) (hroots : ∀ r ∈ gb.roots, r < gb.next)
    (qid : Pid) (hqU : Unlogged g.log qid) (hqlt : qid < gb.next)
    (chW : Nat → Prop) (aaF : Nat → A) (nodesF : List Node)
    (hlenF : ∀ n, (getNode nodesF n).isSome = true ↔ n < kinds.length)
    (hkindF : ∀ n nd, getNode nodesF n = some nd → KindOK nd.kind)
    (hkindEqF : ∀ n nd, getNode nodesF n = some nd → kinds[n]? = some nd.kind)
    (hsameF : ∀ n, ¬ chW n → aaF n = aa n ∧
      getNode nodesF n = getNode (pushAllG key v (getL links key) gb).nodes n)
    (hchWN : ∀ n, chW n → n < kinds.length) (hchWT : ∀ n, chW n → ∀ port, Tgt.node n port ∉ getL links key)
    (hjbW : ∀ n nd, chW n → getNode nodesF n = some nd → JB nd (aaF n) (gb.next + (getL links key).length))
    (hnlW : ∀ n nd th, chW n → getNode nodesF n = some nd → nd.threads = [th] →
      NL (pushedLog gb key v (getL links key) qid) n th (aaF n))
    (hheldW : ∀ n nd ndF, chW n → getNode g.nodes n = some nd → getNode nodesF n = some ndF →
      heldN ndF (aaF n) = heldN nd (aa n))
    (hkq : g.next ≤ qid ∨ ∃ τ, aget g.log.owner qid = some τ ∧ (∀ m, ¬ chW m → τ ≠ m * 64 ∧ τ ≠ qTag m) ∧
      (∀ j, τ ≠ (2000 + j) * 64))
    (hpend : ∀ key', pendH aaF gb.roots gb.resp.length key' =
      if key' = key then pendH aa g.roots g.resp.length key' ++ [qid] else pendH aa g.roots g.resp.length key')
    (hrt : g.resp.length ≤ gb.roots.length ∧ gb.roots.take g.resp.length = g.roots.take g.resp.length) :
    HI kinds links aaF D0
      { pushAllG key v (getL links key) gb with nodes := nodesF, log := pushedLog gb key v (getL links key) qid } := by
  have hN := hwf.small
  let ts := getL links key
  have hts : ∀ t ∈ ts, TOK kinds.length t := tok_of_mem3 kinds links hwf key
  have hnd : (ts.map rkeyOf).Nodup := hwf.nodupT key
  obtain ⟨f_next, f_links, f_wr, f_roots, f_resp, f_acts, f_dels, f_echo, f_sa⟩ := pushAllG_frame key v ts gb
  let P := pushAllG key v ts gb
  let lg' := pushedLog gb key v ts qid
  let g' : G := { P with nodes := nodesF, log := lg' }
  show HI kinds links aaF D0 g'
  have hnih : NIH kinds.length aa gb.nodes gb.next :=
    ⟨by rw [e_nodes]; exact h.nodesLen, fun n nd hn => jb_mono _ _ _ _ (h.jb n nd (by rw [← e_nodes]; exact hn)) hle⟩
  obtain ⟨_, hnihP, hnodeP⟩ := deliverAll_eqH kinds.length hN aa key v ts gb hnih hts
  have hcpb : ∀ rk, ∀ x ∈ copyOf ts gb.next rk, g.next ≤ x ∧ x < gb.next + ts.length ∧ x ≠ qid := by
    intro rk x hx
    obtain ⟨b1, b2⟩ := copyOf_bound ts gb.next rk x hx
    exact ⟨Nat.le_trans hle b1, b2, fun e => by rw [e] at b1; exact Nat.lt_irrefl _ (Nat.lt_of_lt_of_le hqlt b1)⟩
  have hx : LogExt g.log lg' qid := pushedLog_ext g gb key v ts qid hqU e_log
  have hownO : ∀ id, id < g.next → aget lg'.owner id = aget g.log.owner id := by
    intro id hid
    show aget P.log.owner id = _
    rw [pushAllG_owner_old key v ts gb id (Nat.lt_of_lt_of_le hid hle), e_log]
  have hownNw : ∀ rk, ∀ x ∈ copyOf ts gb.next rk, aget lg'.owner x = some rk :=
    fun rk x hx => pushAllG_owner_new key v ts gb rk x hx
  have hUnew : ∀ id, g.next ≤ id → id ≠ qid → Unlogged lg' id :=
    fun id hid hne => unlogged_ext g.log lg' qid hx id hne (h.logBound id hid)
  have hnextF : g'.next = gb.next + ts.length := f_next
  have hcpW : ∀ n, chW n → copyOf ts gb.next (rkeyOf (.node n 0)) = [] := by
    intro n hn
    apply copyOf_none
    intro hm
    obtain ⟨t, ht, e⟩ := List.mem_map.mp hm
    have := rkey_node_of_tok kinds.length hN t (hts t ht) n (Nat.lt_of_lt_of_le (hchWN n hn) hN) e
    subst this
    exact hchWT n hn 0 ht
  -- what the readers hold afterwards
  have hheldF : ∀ t', TgtOK t' →
      heldDH D0 aaF g'.nodes g'.sinks t' = heldDH D0 aa g.nodes g.sinks t' ++ copyOf ts gb.next (rkeyOf t') := by
    intro t' htok
    cases t' with
    | sink j =>
      simp only [heldDH, D0, heldAtH, List.map_nil, List.nil_append]
      show (getL P.sinks j).map (·.1) = _
      rw [pushAllG_sinks kinds.length hN key v ts gb j hts, e_sinks, List.map_append, map_fst_mk]
    | node m port =>
      obtain ⟨hp, hm1000⟩ := htok
      subst hp
      simp only [heldDH, D0, heldAtH, List.map_nil, List.nil_append]
      show (match getNode nodesF m with | some nd => heldN nd (aaF m) | none => []) = _
      cases hgm : getNode g.nodes m with
      | none =>
        have hmN : ¬ m < kinds.length := fun hlt => by have := (h.nodesLen m).mpr hlt; rw [hgm] at this; cases this
        have : getNode nodesF m = none := by
          cases hf : getNode nodesF m with
          | none => rfl
          | some x => exact absurd ((hlenF m).mp (by rw [hf]; rfl)) hmN
        rw [this]
        have hc : copyOf ts gb.next (rkeyOf (.node m 0)) = [] := by
          apply copyOf_none
          intro hm
          obtain ⟨t, ht, e⟩ := List.mem_map.mp hm
          have := rkey_node_of_tok kinds.length hN t (hts t ht) m hm1000 e
          subst this
          exact hmN (hts _ ht).1
        rw [hc]; rfl
      | some nd =>
        by_cases hc : chW m
        · cases hf : getNode nodesF m with
          | none => have := (hlenF m).mpr (hchWN m hc); rw [hf] at this; cases this
          | some ndF =>
            simp only [hcpW m hc, List.append_nil]
            exact hheldW m nd ndF hc hgm hf
        · obtain ⟨ea, en⟩ := hsameF m hc
          rw [en, hnodeP m nd (by rw [e_nodes]; exact hgm), ea]
          obtain ⟨th, hth⟩ := threads_one nd (h.jb m nd hgm).one
          simp only [heldN_addInbox nd (aa m) _ th hth, map_id_mk]
  have hfifoF : ∀ rk, getL g'.fifo rk = getL g.fifo rk ++ (copyOf ts gb.next rk).map (fun _ => key) := by
    intro rk; show getL P.fifo rk = _; rw [pushAllG_fifo, e_fifo]
  have hhbF : ∀ key' t', TgtOK t' → hbOfH D0 aaF g'.nodes g'.sinks g'.fifo key' t' =
      hbOfH D0 aa g.nodes g.sinks g.fifo key' t' ++ (if key = key' then copyOf ts gb.next (rkeyOf t') else []) := by
    intro key' t' htok
    simp only [hbOfH, hheldF t' htok, hfifoF]
    exact selK_append key' key _ _ _ (h.fifoLen t' htok).symm
  have hcp1 : ∀ rk, copyOf ts gb.next rk ≠ [] → ∃ t ∈ ts, rkeyOf t = rk := by
    intro rk hne
    apply Classical.byContradiction
    intro hno
    apply hne
    apply copyOf_none
    intro hm
    obtain ⟨t, ht, e⟩ := List.mem_map.mp hm
    exact hno ⟨t, ht, e⟩
  have hwrF : ∀ key', gw g'.writers key' = if key' = key then
      ⟨(gw g.writers key).rows ++ [List.replicate ts.length none], (gw g.writers key).queue⟩ else gw g.writers key' := by
    intro key'; show gw P.writers key' = _; rw [f_wr, e_wr, gw_aset]
  refine { glinks := by show P.links = links; rw [f_links, e_links]; exact h.glinks, nodesLen := hlenF,
           kindOK := hkindF, kindEq := hkindEqF, jb := ?_, nl := ?_, dflt := ?_, sinkOK := ?_, debtOK := ?_, wk := ?_, srcq := ?_,
           fifoLen := ?_, fifoKeys := ?_, respOK := ?_, logBound := ?_, rootsB := ?_, wq0 := ?_, logOrd := ?_ }
  · intro n nd hn
    rw [hnextF]
    by_cases hc : chW n
    · exact hjbW n nd hc hn
    · obtain ⟨ea, en⟩ := hsameF n hc
      rw [ea]; exact hnihP.jb n nd (by rw [← en]; exact hn)
  · intro n nd th hn hth
    by_cases hc : chW n
    · exact hnlW n nd th hc hn hth
    · obtain ⟨ea, en⟩ := hsameF n hc
      rw [ea]
      have hnP : getNode P.nodes n = some nd := by rw [← en]; exact hn
      have hnN : n < kinds.length := (hlenF n).mp (by rw [hn]; rfl)
      cases hgn : getNode g.nodes n with
      | none => have := (h.nodesLen n).mpr hnN; rw [hgn] at this; cases this
      | some nd0 =>
        obtain ⟨th0, hth0⟩ := threads_one nd0 (h.jb n nd0 hgn).one
        have hP := hnodeP n nd0 (by rw [e_nodes]; exact hgn)
        rw [hnP] at hP
        simp only [Option.some.injEq] at hP
        have hthe : th = { th0 with inbox := th0.inbox ++ (copyOf ts gb.next (rkeyOf (.node n 0))).map (fun c => ⟨c, v⟩) } := by
          rw [hP] at hth; simp only [addInbox, hth0, List.map_cons, List.map_nil, List.cons.injEq, and_true] at hth
          exact hth.symm
        have hkeep : NL lg' n th0 (aa n) := by
          apply nl_keep g.log lg' qid hx n nd0 th0 (aa n) g.next (h.jb n nd0 hgn) hth0 (h.nl n nd0 th0 hgn hth0) hownO
          rcases hkq with hk | ⟨τ, t1, t2, _⟩
          · exact Or.inl hk
          · exact Or.inr ⟨τ, t1, (t2 n hc).1, (t2 n hc).2⟩
        rw [hthe]
        rcases copyOf_len_le ts hnd gb.next (rkeyOf (.node n 0)) with e | ⟨i, t, _, _, e⟩
        · rw [e]; simpa using hkeep
        · rw [e]
          have hmem : gb.next + i ∈ copyOf ts gb.next (rkeyOf (.node n 0)) := by rw [e]; simp
          obtain ⟨b1, _, b3⟩ := hcpb _ _ hmem
          exact nl_deliver lg' n th0 (aa n) hkeep (gb.next + i) v (hUnew _ b1 b3)
            (by rw [hownNw _ _ hmem]; simp [rkeyOf])
  · intro n hn
    have hc : ¬ chW n := fun hc => by have := hchWN n hc; omega
    rw [(hsameF n hc).1]; exact h.dflt n hn
  · intro j
    have := hheldF (.sink j) trivial
    simp only [heldDH, D0, List.map_nil, List.nil_append, heldAtH] at this
    rw [this]
    obtain ⟨n1, n2⟩ := h.sinkOK j
    refine ⟨?_, ?_⟩
    · rw [List.nodup_append]
      refine ⟨n1, ?_, ?_⟩
      · rcases copyOf_len_le ts hnd gb.next (rkeyOf (.sink j)) with e | ⟨i, t, _, _, e⟩ <;> rw [e] <;> simp
      · intro a ha b hb e
        subst e
        exact Nat.lt_irrefl _ (Nat.lt_of_lt_of_le (n2 a ha).2.1 (hcpb _ a hb).1)
    · intro c hc
      rw [List.mem_append] at hc
      rcases hc with hc | hc
      · obtain ⟨u1, u2, u3⟩ := n2 c hc
        refine ⟨unlogged_ext g.log lg' qid hx c ?_ u1, ?_, by rw [hownO c u2]; exact u3⟩
        · intro e
          rcases hkq with hk | ⟨τ, t1, _, t3⟩
          · rw [e] at u2; exact Nat.lt_irrefl _ (Nat.lt_of_lt_of_le u2 hk)
          · rw [e, t1] at u3
            simp only [rkeyOf, Option.some.injEq] at u3
            exact t3 j u3
        · rw [hnextF]; exact Nat.lt_of_lt_of_le u2 (Nat.le_trans hle (Nat.le_add_right _ _))
      · obtain ⟨b1, b2, b3⟩ := hcpb _ c hc
        exact ⟨hUnew c b1 b3, by rw [hnextF]; exact b2, hownNw _ c hc⟩
  · intro rk x hx'; simp [D0] at hx'
  · intro key' hl'
    have hroots' : g'.roots = gb.roots := f_roots
    have hresp' : g'.resp = gb.resp := f_resp
    rw [hwrF, hroots', hresp', hpend]
    have hold := wkg_ext g.log lg' qid hx _ _ _ _ (h.wk key' hl')
    by_cases e : key' = key
    · subst e
      simp only [if_true]
      apply wkg_push lg' _ _ _ _ _ qid (List.range' gb.next ts.length) hold (by rw [List.length_range']) hl'
      · show aget P.log.echo qid = none; rw [f_echo, e_log]; exact hqU.2.2.1
      · show aget P.log.sinkAns qid = none; rw [f_sa, e_log]; exact hqU.2.2.2
      · show aget (aset P.log.dels qid _) qid = _; rw [aget_aset]; simp
      · intro i t c hti hci
        have htm : t ∈ getL links key' := List.mem_of_getElem? hti
        rw [hhbF key' t (tgtOK_mem3 kinds links hwf key' t htm)]
        simp only [if_true]
        rw [copyOf_idx ts gb.next i t hnd hti]
        have hi : i < ts.length := by
          rcases Nat.lt_or_ge i ts.length with h | h
          · exact h
          · rw [List.getElem?_eq_none h] at hti; cases hti
        have : (List.range' gb.next ts.length)[i]? = some (gb.next + i) := by simp [hi]
        rw [this] at hci
        simp only [Option.some.injEq] at hci
        rw [hci]
    · simp only [e, if_false]
      apply wkg_congr lg' _ _ _ _ _ hold
      intro i t hti
      have htm : t ∈ getL links key' := List.mem_of_getElem? hti
      rw [hhbF key' t (tgtOK_mem3 kinds links hwf key' t htm)]
      simp [Ne.symm e]
  · rw [hwrF]
    by_cases e : srcKey = key
    · simp only [e, if_true]; rw [← e]; exact h.srcq
    · simp only [e, if_false]; exact h.srcq
  · intro t' htok
    rw [hfifoF, hheldF t' htok]
    simp only [List.length_append, List.length_map, h.fifoLen t' htok]
  · intro t' htok key' hk
    rw [hfifoF, List.mem_append] at hk
    rcases hk with hk | hk
    · exact h.fifoKeys t' htok key' hk
    · obtain ⟨x, hx', e⟩ := List.mem_map.mp hk
      subst e
      obtain ⟨t, ht, e2⟩ := hcp1 (rkeyOf t') (by intro e3; rw [e3] at hx'; simp at hx')
      have : t = t' := rkey_inj_ok t t' (tgtOK_mem3 kinds links hwf key t ht) htok e2
      subst this; exact ht
  · have hroots' : g'.roots = gb.roots := f_roots
    have hresp' : g'.resp = g.resp := by show P.resp = _; rw [f_resp, e_resp]
    rw [hroots', hresp']
    refine ⟨hrt.1, ?_⟩
    rw [hrt.2]
    exact all2_mono _ _ (fun p a => ra_ext g.log lg' qid hx p a) _ _ h.respOK.2
  · intro id hid
    rw [hnextF] at hid
    have h1 : gb.next ≤ id := Nat.le_trans (Nat.le_add_right _ _) hid
    exact hUnew id (Nat.le_trans hle h1) (fun e => by rw [e] at h1; exact Nat.lt_irrefl _ (Nat.lt_of_lt_of_le hqlt h1))
  · intro r hr
    have : r ∈ gb.roots := by have : r ∈ P.roots := hr; rw [f_roots] at this; exact this
    rw [hnextF]; exact Nat.lt_of_lt_of_le (hroots r this) (Nat.le_add_right _ _)
  · intro key' hl'
    have : key' ≠ key := by intro e; rw [e] at hl'; exact htne hl'
    rw [hwrF]; simp only [this, if_false]; exact h.wq0 key' hl'
  · apply logOrd_ext g.log lg' qid g.next g'.next h.logOrd hx
      (by rw [hnextF]; exact Nat.le_trans hle (Nat.le_add_right _ _))
    refine ⟨fun cs hcs => ?_, fun qs hqs => ?_⟩
    · have : aget lg'.dels qid = some (List.range' gb.next ts.length) := by
        show aget (aset P.log.dels qid _) qid = _; rw [aget_aset]; simp
      rw [this] at hcs
      simp only [Option.some.injEq] at hcs
      subst hcs
      intro c hc
      rw [List.mem_range'_1] at hc
      exact ⟨Nat.lt_of_lt_of_le hqlt hc.1, by rw [hnextF]; exact hc.2⟩
    · have : aget lg'.acts qid = none := by show aget P.log.acts qid = none; rw [f_acts, e_log]; exact hqU.1
      rw [this] at hqs; cases hqs

end Uniflow.FlowH
