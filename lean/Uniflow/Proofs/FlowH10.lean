/-
C02, joint model, one-in-port node kinds, part 10: routing all replies of a node; keeping the invariant of the
nodes that do not take part in a step; one node steps without changing what it holds or owes.
-/
import Uniflow.Proofs.FlowH9

namespace Uniflow.FlowH
open Uniflow.Tracer Uniflow.Node Uniflow.Flow Uniflow.FlowInv Uniflow.FlowG Uniflow.ATracer
open Uniflow.ATracer (getL_setOrDel getL_aset)

/-- routing all replies a node has just emitted -/
theorem HI_route (kinds : List Kind) (links : List (Nat × List Tgt)) (hwf : GraphWF3 kinds links) (aa : Nat → A) (n : Nat)
    (hn1000 : n < 1000) :
    ∀ (ds : List (Pid × Ans)) (D : Nat → List (Pid × Ans)) (g : G),
      HI kinds links aa D g → D (rkeyOf (.node n 0)) = ds →
      HI kinds links aa (updD D (rkeyOf (.node n 0)) []) (route g n (ds.map (fun x => Ev.reply 0 x.2))) := by
  intro ds
  induction ds with
  | nil =>
    intro D g h hD
    simp only [List.map_nil, route]
    rw [← hD, updD_self]; exact h
  | cons d ds ih =>
    intro D g h hD
    obtain ⟨c, a⟩ := d
    simp only [List.map_cons, route]
    have h1 := HI_gReply kinds links hwf aa D g (.node n 0) c a ds h ⟨rfl, hn1000⟩ hD
    have h2 := ih (updD D (rkeyOf (.node n 0)) ds) _ h1 (by simp [updD])
    rw [updD_updD] at h2
    exact h2

def updA (aa : Nat → A) (n : Nat) (a : A) : Nat → A := fun m => if m = n then a else aa m

theorem remOps_sub (p : Pid) : ∀ (ops : List Op), ∀ t ∈ remOps p ops, t ∈ linkTargets ops
  | [], t, h => by simp [remOps] at h
  | .link s t' :: ops, t, h => by
    simp only [remOps] at h
    simp only [linkTargets, List.mem_cons]
    split at h
    · simp only [List.mem_cons] at h
      rcases h with h | h
      · exact Or.inl h
      · exact Or.inr (remOps_sub p ops t h)
    · exact Or.inr (remOps_sub p ops t h)
  | .write _ _ :: ops, t, h => by
    simp only [remOps] at h
    simp only [linkTargets]; exact remOps_sub p ops t h

theorem remFor_sub (pc : PC) (p : Pid) : ∀ t ∈ remFor pc p, t ∈ pendIds pc := by
  intro t ht
  cases pc with
  | emit ops => exact remOps_sub p ops t ht
  | idle => simp [remFor] at ht
  | action _ _ => simp [remFor] at ht

/-- the ids the node's log invariant speaks about are ids the node knows -/
theorem nlIds_sub (th : Thread) (a : A) : ∀ id ∈ nlIds th a, id ∈ ids a.reqs ++ tids th := by
  intro id hid
  simp only [nlIds, List.mem_append, List.mem_map, List.mem_flatMap, linkedAll] at hid
  simp only [List.mem_append]
  rcases hid with ((⟨p, hp, e⟩ | ⟨x, hx, e⟩) | ⟨x, hx, hq⟩) | ⟨x, hx, ht⟩
  · right; simp only [tids, List.mem_append, List.mem_map]; left; exact ⟨p, hp, e⟩
  · left; exact mem_ids_of_mem hx (by simp [idsR, e])
  · left
    apply mem_ids_of_mem hx
    simp only [idsR, List.mem_cons]; right
    exact linkedIds_sub_open _ id hq
  · right; simp only [tids, List.mem_append]; right; exact remFor_sub th.pc x.p id ht

/-- a node that takes no part in a step keeps its log invariant: the key the log is extended at carries
another owner tag, or is new -/
theorem nl_keep (lg lg' : Log) (k : Pid) (hx : LogExt lg lg' k) (m : Nat) (nd : Node) (th : Thread) (a : A) (nx : Nat)
    (hjb : JB nd a nx) (ht : nd.threads = [th]) (hnl : NL lg m th a)
    (hown : ∀ id, id < nx → aget lg'.owner id = aget lg.owner id)
    (hk : nx ≤ k ∨ ∃ τ, aget lg.owner k = some τ ∧ τ ≠ m * 64 ∧ τ ≠ qTag m) : NL lg' m th a := by
  have hlt : ∀ id ∈ nlIds th a, id < nx := by
    intro id hid
    apply hjb.bnd id
    have := nlIds_sub th a id hid
    rw [ht]; simpa using this
  apply nl_ext lg lg' k hx m th a _ (fun id hid => hown id (hlt id hid)) hnl
  intro hmem
  rcases hk with hk | ⟨τ, h1, h2, h3⟩
  · exact Nat.lt_irrefl _ (Nat.lt_of_lt_of_le (hlt k hmem) hk)
  · rcases nl_tag lg m th a hnl k hmem with e | e
    · rw [h1] at e; exact h2 (Option.some.inj e)
    · rw [h1] at e; exact h3 (Option.some.inj e)

end Uniflow.FlowH
