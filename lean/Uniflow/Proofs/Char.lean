/-
What `segment.Store`, `Swap` and `Delete` answer and what they do to the documents, as functions of the *documents*
and of whether some unique index objects (`firstConflict`), in every consistent state: after the checks passed the
per-index maintenance cannot fail. Used by Props/C11.lean (`find_index_independent`) and Props/C10.lean
(`store_refines`). Core Lean only.
-/
import Uniflow.Proofs.Shape

namespace Uniflow.Index
open Uniflow.Value Uniflow.Store Uniflow.Plan Uniflow.Query

theorem store_mapIdx_ok {s : State} {d : PList} (hx : EntriesExact s) (hid : isNil (mget d keyId) = false)
    (hfresh : getDoc s.docs (mget d keyId) = none) (hfc : firstConflict d s.indexes = none) :
    (mapIdx (fun idx => index idx d) s.indexes).2 = none := by
  cases hm : mapIdx (fun idx => index idx d) s.indexes with
  | mk idxs e =>
    cases e with
    | none => rfl
    | some r =>
      exfalso
      obtain ⟨idx, hi, hn⟩ := mapIdx_fail hm
      rcases index_err rfl hn with hnil | ⟨hu, ha, e, he, ht⟩
      · simp [hnil] at hid
      · have hc := conflict_none (firstConflict_none hfc idx hi) hu ha e he ht
        obtain ⟨d', hd', _⟩ := hx idx hi e he
        rw [getDoc_congr hc, hfresh] at hd'
        simp at hd'

theorem swap_mapIdx_ok {s : State} {d old : PList} (hx : EntriesExact s) (hs : StoredIds s)
    (hid : isNil (mget d keyId) = false) (hold : getDoc s.docs (mget d keyId) = some old)
    (hfc : firstConflict d s.indexes = none) :
    (mapIdx (fun idx => (unindex idx old).bind fun idx' => index idx' d) s.indexes).2 = none := by
  cases hm : mapIdx (fun idx => (unindex idx old).bind fun idx' => index idx' d) s.indexes with
  | mk idxs e =>
    cases e with
    | none => rfl
    | some r =>
      exfalso
      obtain ⟨idx, hi, hn⟩ := mapIdx_fail hm
      obtain ⟨hon, hoid⟩ := hs _ _ hold
      rw [unindex_ok hon] at hn
      simp only [Res.bind] at hn
      rcases index_err rfl hn with hnil | ⟨hu, ha, e, he, ht⟩
      · simp [hnil] at hid
      · have hfc' := firstConflict_none hfc idx hi
        have hu' : idx.unique = true := hu
        have ha' : idx.admits d = true := ha
        rw [mem_dropLeaf] at he
        have ht' : tupCmp e.1 (idx.tuple d) = 0 := ht
        have hc := conflict_none hfc' hu' ha' e he.1 ht'
        obtain ⟨d', hd', hd't⟩ := hx idx hi e he.1
        rw [getDoc_congr hc, hold] at hd'
        obtain rfl := Option.some.inj hd'
        exact he.2 ⟨hd't, cmp_zero_trans hc (cmp_zero_symm hoid)⟩

theorem delete_mapIdx_ok {s : State} {old : PList} (hon : isNil (mget old keyId) = false) :
    (mapIdx (fun idx => unindex idx old) s.indexes).2 = none := by
  cases hm : mapIdx (fun idx => unindex idx old) s.indexes with
  | mk idxs e =>
    cases e with
    | none => rfl
    | some r =>
      exfalso
      obtain ⟨idx, _, hn⟩ := mapIdx_fail hm
      exact hn _ (unindex_ok hon)

/-! ### results and documents of the segment calls, as functions of the documents and of `firstConflict` -/

/-- what `segment.Store` answers -/
def storeRes (docs : List (Val × PList)) (fc : Option Err) (d : PList) : Option (Res Unit) :=
  if isNil (mget d keyId) then some (.err .keyMissing)
  else if (getDoc docs (mget d keyId)).isSome then some (.err .keyDuplicate)
  else fc.map .err

/-- the documents after `segment.Store` -/
def storeDocs (docs : List (Val × PList)) (fc : Option Err) (d : PList) : List (Val × PList) :=
  if (storeRes docs fc d).isSome then docs else putDoc docs (mget d keyId) d

theorem segStore_char {s : State} (hc : Cons s) (d : PList) :
    (segStore s d).2 = storeRes s.docs (firstConflict d s.indexes) d ∧
    (segStore s d).1.docs = storeDocs s.docs (firstConflict d s.indexes) d := by
  unfold segStore storeDocs storeRes
  simp only
  by_cases hid : isNil (mget d keyId) = true
  · simp [hid, failE]
  · simp only [hid, Bool.false_eq_true, if_false]
    by_cases hhas : (getDoc s.docs (mget d keyId)).isSome = true
    · simp [hhas, failE]
    · simp only [hhas, Bool.false_eq_true, if_false]
      cases hfc : firstConflict d s.indexes with
      | some e => simp [failE]
      | none =>
        have hfresh : getDoc s.docs (mget d keyId) = none := by
          cases hg : getDoc s.docs (mget d keyId) <;> simp [hg] at hhas ⊢
        have := store_mapIdx_ok hc.exact (by simpa using hid) hfresh hfc
        cases hm : mapIdx (fun idx => index idx d) s.indexes with
        | mk idxs e =>
          rw [hm] at this
          simp only at this
          subst this
          simp

/-- what `segment.Swap` answers -/
def swapRes (docs : List (Val × PList)) (fc : Option Err) (d : PList) : Option (Res Unit) :=
  if isNil (mget d keyId) then some (.err .keyMissing)
  else if (getDoc docs (mget d keyId)).isNone then some (.err .keyNotFound)
  else fc.map .err

def swapDocs (docs : List (Val × PList)) (fc : Option Err) (d : PList) : List (Val × PList) :=
  if (swapRes docs fc d).isSome then docs else putDoc docs (mget d keyId) d

theorem segSwap_char {s : State} (hc : Cons s) (d : PList) :
    (segSwap s d).2 = swapRes s.docs (firstConflict d s.indexes) d ∧
    (segSwap s d).1.docs = swapDocs s.docs (firstConflict d s.indexes) d := by
  unfold segSwap swapDocs swapRes
  simp only
  by_cases hid : isNil (mget d keyId) = true
  · simp [hid, failE]
  · simp only [hid, Bool.false_eq_true, if_false]
    cases hold : getDoc s.docs (mget d keyId) with
    | none => simp [failE]
    | some old =>
      simp only [Option.isNone_some, Bool.false_eq_true, if_false]
      cases hfc : firstConflict d s.indexes with
      | some e => simp [failE]
      | none =>
        have := swap_mapIdx_ok hc.exact (StoredM_ids hc.stored) (by simpa using hid) hold hfc
        cases hm : mapIdx (fun idx => (unindex idx old).bind fun idx' => index idx' d) s.indexes with
        | mk idxs e =>
          rw [hm] at this
          simp only at this
          subst this
          simp

theorem segDelete_char {s : State} (hc : Cons s) (id : Val) :
    (segDelete s id).2 = (if (getDoc s.docs id).isNone then some (.err .keyNotFound) else none) ∧
    (segDelete s id).1.docs = (if (getDoc s.docs id).isNone then s.docs else delDoc s.docs id) := by
  unfold segDelete
  cases hold : getDoc s.docs id with
  | none => simp [failE]
  | some old =>
    have := delete_mapIdx_ok (s := s) (StoredM_ids hc.stored _ _ hold).1
    cases hm : mapIdx (fun idx => unindex idx old) s.indexes with
    | mk idxs e =>
      rw [hm] at this
      simp only at this
      subst this
      simp [hm]

end Uniflow.Index
