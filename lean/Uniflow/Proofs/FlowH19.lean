/-
C02, joint model, one-in-port node kinds, part 19: a `Write` accepted by the node's out-writer.
-/
import Uniflow.Proofs.FlowH18

namespace Uniflow.FlowH
open Uniflow.Tracer Uniflow.Node Uniflow.Flow Uniflow.FlowInv Uniflow.FlowG Uniflow.ATracer
open Uniflow.ATracer (getL_setOrDel getL_aset)

theorem nih_of (kinds : List Kind) (links : List (Nat × List Tgt)) (aa : Nat → A) (g : G) (h : HI kinds links aa D0 g) :
    NIH kinds.length aa g.nodes g.next := ⟨h.nodesLen, h.jb⟩

theorem HI_write_acc (kinds : List Kind) (links : List (Nat × List Tgt)) (hwf : GraphWF3 kinds links) (aa : Nat → A) (g : G)
    (h : HI kinds links aa D0 g) (n : Nat) (nd : Node) (inbox : List Pkt) (w : Wid) (q : Pkt)
    (ops : List Op) (hn : getNode g.nodes n = some nd)
    (ht : nd.threads = [{ inbox := inbox, pc := .emit (.write (some w) q :: ops) }])
    (hlne : getL links (wkey n w) ≠ []) (hw : w < maxW) :
    ∃ nd', Node.step nd (.op 0 true) = some (nd', []) ∧
      getNode (pushAllG (wkey n w) q.pay (getL links (wkey n w)) (rowPush g (wkey n w))).nodes n = some nd ∧
      HI kinds links (updA aa n (awrite (aa n) (some w) q.id (.pay q.pay) true).1) D0
        { pushAllG (wkey n w) q.pay (getL links (wkey n w)) (rowPush g (wkey n w)) with
          nodes := setNode (pushAllG (wkey n w) q.pay (getL links (wkey n w)) (rowPush g (wkey n w))).nodes n nd',
          log := pushedLog (rowPush g (wkey n w)) (wkey n w) q.pay (getL links (wkey n w)) q.id } := by
  have hN := hwf.small
  have hjb := h.jb n nd hn
  have hnl := h.nl n nd _ hn ht
  have hnN : n < kinds.length := (h.nodesLen n).mp (by rw [hn]; rfl)
  have hgl' : getL g.links (wkey n w) = getL links (wkey n w) := by rw [h.glinks]
  obtain ⟨hst, hjb', _⟩ := jb_op nd (aa n) g.next hjb inbox (.write (some w) q) ops ht true
  have hshape := write_shape g.log n nd (aa n) g.next hjb inbox (some w) q ops ht hnl
  have hshape' : ∃ p cs rest, (⟨p, 0, .cells cs⟩ : Req) ∈ (aa n).reqs ∧ linkedIds cs = q.id :: rest ∧
      remFor (.emit (.write (some w) q :: ops)) p = [] ∧ Unlogged g.log q.id ∧ aget g.log.owner q.id = some (qTag n) ∧
      q.id < g.next ∧ (∀ x ∈ inbox, x.id ≠ q.id) ∧
      (∀ y ∈ (aa n).reqs, q.id ∉ remFor (.emit (.write (some w) q :: ops)) y.p) := by
    rcases hshape with ⟨e, _, _⟩ | hsh
    · cases e
    · exact hsh
  obtain ⟨p, cs, rest, hX, hl, hrem0, hqU, hqo, hqlt, hki, hkr⟩ := hshape'
  have hnot : ∀ t' ∈ getL links (wkey n w), ∀ port, t' ≠ Tgt.node n port := by
    intro t' ht' port e
    subst e
    exact Nat.lt_irrefl _ (hwf.fwd n w n port hnN hw ht')
  let ts := getL links (wkey n w)
  let gb := rowPush g (wkey n w)
  let P := pushAllG (wkey n w) q.pay ts gb
  let lg' := pushedLog gb (wkey n w) q.pay ts q.id
  have hts : ∀ t ∈ ts, TOK kinds.length t := tok_of_mem3 kinds links hwf (wkey n w)
  obtain ⟨_, hnihP, hnodeP⟩ := deliverAll_eqH kinds.length hN aa (wkey n w) q.pay ts gb (nih_of kinds links aa g h) hts
  have hn1 : getNode P.nodes n = some nd := by
    show getNode (pushAllG (wkey n w) q.pay ts gb).nodes n = _
    rw [pushAllG_nodes_other (wkey n w) q.pay n ts gb hnot]; exact hn
  have hxl : LogExt g.log lg' q.id := pushedLog_ext g gb (wkey n w) q.pay ts q.id hqU rfl
  have hlt : ∀ id ∈ nlIds { inbox := inbox, pc := .emit (.write (some w) q :: ops) } (aa n), id < g.next := by
    intro id hid
    apply hjb.bnd id
    have := nlIds_sub _ (aa n) id hid
    rw [ht]; simpa using this
  have hoO : ∀ id, id < g.next → aget lg'.owner id = aget g.log.owner id := by
    intro id hid
    show aget P.log.owner id = _
    exact pushAllG_owner_old (wkey n w) q.pay ts gb id hid
  obtain ⟨w1, w2, w3, w4⟩ := nl_write_acc g.log lg' n (aa n) inbox w q ops hnl hjb.j.inv.nodup p cs rest hX hl hrem0
    (tr_of_ext g.log lg' q.id hxl) hki hkr (fun id hid => hoO id (hlt id hid))
  have hev : (acall (aa n) (opCall true (.write (some w) q))).2 = [] := w3
  rw [hev] at hst
  let nd' : Node := { nd with tr := (tcall nd.tr (opCall true (.write (some w) q))).1, threads := [{ inbox := inbox, pc := nextPc ops }] }
  let a' := (awrite (aa n) (some w) q.id (.pay q.pay) true).1
  refine ⟨nd', hst, hn1, ?_⟩
  have hts' := tag_sep n (Nat.lt_of_lt_of_le hnN hN)
  have hgetF : ∀ m, getNode (setNode P.nodes n nd') m = if m = n then some nd' else getNode P.nodes m :=
    fun m => getNode_setNode P.nodes n m nd' (by rw [hn1]; rfl)
  apply HI_pushed kinds links hwf aa g h (wkey n w) q.pay hlne gb rfl rfl rfl rfl rfl rfl
    (by simp only [gb, rowPush, newRow, hgl']) (Nat.le_refl _) h.rootsB q.id hqU hqlt
    (fun m => m = n) (updA aa n a') (setNode P.nodes n nd')
  · exact nodesLen_set' P.nodes _ n nd nd' hn1 hnihP.len
  · intro m ndm hm
    rw [hgetF m] at hm
    by_cases e : m = n
    · simp only [e, if_true, Option.some.injEq] at hm; subst hm; exact h.kindOK n nd hn
    · simp only [e, if_false] at hm
      have hmN : m < kinds.length := (hnihP.len m).mp (by rw [hm]; rfl)
      cases hgm : getNode g.nodes m with
      | none => have := (h.nodesLen m).mpr hmN; rw [hgm] at this; cases this
      | some nd0 =>
        have := hnodeP m nd0 hgm
        rw [hm] at this
        simp only [Option.some.injEq] at this
        rw [this]; exact h.kindOK m nd0 hgm
  · intro m ndm hm
    rw [hgetF m] at hm
    by_cases e : m = n
    · simp only [e, if_true, Option.some.injEq] at hm; subst hm; rw [e]; exact h.kindEq n nd hn
    · simp only [e, if_false] at hm
      have hmN : m < kinds.length := (hnihP.len m).mp (by rw [hm]; rfl)
      cases hgm : getNode g.nodes m with
      | none => have := (h.nodesLen m).mpr hmN; rw [hgm] at this; cases this
      | some nd0 =>
        have := hnodeP m nd0 hgm
        rw [hm] at this
        simp only [Option.some.injEq] at this
        rw [this]; exact h.kindEq m nd0 hgm
  · intro m hm
    have hm' : m ≠ n := hm
    exact ⟨by simp only [updA, hm', if_false], by rw [hgetF m]; simp only [hm', if_false]; rfl⟩
  · intro m hm; rw [hm]; exact hnN
  · intro m hm port hmem; rw [hm] at hmem; exact hnot _ hmem port rfl
  · intro m ndm hm hgm
    subst hm
    rw [hgetF m] at hgm
    simp only [if_true, Option.some.injEq] at hgm
    subst hgm
    simp only [updA, if_true]
    exact jb_mono _ _ _ _ hjb' (Nat.le_add_right _ _)
  · intro m ndm th hm hgm hth
    subst hm
    rw [hgetF m] at hgm
    simp only [if_true, Option.some.injEq] at hgm
    subst hgm
    simp only [nd', List.cons.injEq, and_true] at hth
    subst hth
    simp only [updA, if_true]
    exact w1
  · intro m ndm ndF hm hg0 hgF
    subst hm
    rw [hgetF m] at hgF
    simp only [if_true, Option.some.injEq] at hgF
    subst hgF
    rw [hn] at hg0; simp only [Option.some.injEq] at hg0; subst hg0
    simp only [updA, if_true]
    rw [heldN_of _ (aa m) _ ht, heldN_of nd' a' { inbox := inbox, pc := nextPc ops } rfl, w4]
  · exact Or.inr ⟨qTag n, hqo, fun m hm => hts'.1 m hm, hts'.2.1⟩
  · intro key'
    show pendH (updA aa n a') g.roots g.resp.length key' = _
    have hw64 : w < 64 := Nat.lt_of_lt_of_le hw (by decide)
    obtain ⟨hd1, hd2⟩ := wkey_div_mod n w hw64
    simp only [pendH]
    by_cases e1 : key' = srcKey
    · have : srcKey ≠ wkey n w := by
        rcases src_ne_wkey n w _ hnN hN with h1 | h1
        · exact h1
        · omega
      simp [e1, this]
    · simp only [e1, if_false]
      by_cases e2 : key' / 64 = n
      · simp only [updA, e2, if_true]
        show getL a'.wq (key' % 64) = _
        rw [w2, getL_aset]
        by_cases e3 : key' % 64 = w
        · have : key' = wkey n w := key_eq_wkey n w key' e2 e3
          rw [this, hd2]; simp
        · have : key' ≠ wkey n w := fun e4 => e3 (by rw [e4]; exact hd2)
          simp [e3, this]
      · have : key' ≠ wkey n w := fun e4 => e2 (by rw [e4]; exact hd1)
        simp [updA, e2, this]
  · exact ⟨h.respOK.1, rfl⟩

end Uniflow.FlowH
