/-
C02, joint model, part 4 of the invariant proof: the internal steps of a forward thread that touch
only their own node (read, link) and the external step "the action returns".
-/
import Uniflow.Proofs.FlowInv3

namespace Uniflow.FlowInv
open Uniflow.Tracer Uniflow.Node Uniflow.Flow
open Uniflow.NodeSpec (S EReq ESt Cur Rel curRead writesOf allIds)
open Uniflow.ATracer (getL_setOrDel getL_aset)

theorem getThread_single (th th' : Thread) (i : Nat) (h : getThread [th] i = some th') : i = 0 ∧ th' = th := by
  cases i with
  | zero => simp only [getThread, Option.some.injEq] at h; exact ⟨rfl, h.symm⟩
  | succ i => simp [getThread] at h

theorem rel_thread (s : S) (nd : Node) (nx : Nat) (hr : Rel s nd nx) (i : Nat) (th : Thread)
    (h : getThread nd.threads i = some th) : i = 0 ∧ th = { inbox := s.inbox, pc := NodeSpec.pcOf s.cur } := by
  rw [hr.threads] at h; exact getThread_single _ _ _ h

/-- a forward thread takes the next request from its inbox and enters the action -/
theorem FI_read (N : Nat) (links : List (Nat × List Tgt)) (ss : Nat → S) (g : G)
    (h : FI N links ss D0 g) (n : Nat) (nd nd' : Node) (p : Pkt) (rest : List Pkt)
    (hn : getNode g.nodes n = some nd) (hc : (ss n).cur = .idle) (hi : (ss n).inbox = p :: rest)
    (hst : Node.step nd (.read 0) = some (nd', [])) (hr' : Rel { (ss n) with inbox := rest, cur := .inAction p } nd' g.next) :
    FI N links (upd ss n { (ss n) with inbox := rest, cur := .inAction p }) D0
      { g with nodes := setNode g.nodes n nd' } := by
  have hub : Unlogged g.log g.next := h.logBound g.next (Nat.le_refl _)
  have key := FI_node_log N links ss D0 g h n nd nd' { (ss n) with inbox := rest, cur := .inAction p } g.log g.next g.next
    hn hr' (Nat.le_refl _)
    (by simp [heldOf, hc, hi, curRead]) (fun w => rfl) (logExt_refl g.log g.next hub) (fun _ _ => rfl) h.logBound
    (fun m _ => sep_fresh_node N links ss D0 g h g.next (Nat.le_refl _) m)
    (fun j => sep_fresh_sink N links ss D0 g h g.next (Nat.le_refl _) j)
    (fun r hr => h.reqsOK n r hr)
    (by simp only [CurOK]; exact h.inboxOK n p (by rw [hi]; simp))
    (fun q hq => h.inboxOK n q (by rw [hi]; simp [hq]))
    (ordAt_none g.log g.next g.next hub.2.1 hub.1)
  exact FI_congr N links _ D0 _ _ key rfl rfl rfl rfl rfl rfl rfl rfl rfl

/-- the `Link` call of a forward thread -/
theorem FI_link (N : Nat) (links : List (Nat × List Tgt)) (ss : Nat → S) (g : G)
    (h : FI N links ss D0 g) (n : Nat) (nd nd' : Node) (p q : Pkt) (w : Wid)
    (hn : getNode g.nodes n = some nd) (hc : (ss n).cur = .toLink p q w)
    (hr' : Rel { (ss n) with cur := .linked p q w } nd' g.next) :
    FI N links (upd ss n { (ss n) with cur := .linked p q w }) D0 { g with nodes := setNode g.nodes n nd' } := by
  have hub : Unlogged g.log g.next := h.logBound g.next (Nat.le_refl _)
  have hcur := h.curOK n
  rw [hc] at hcur
  have key := FI_node_log N links ss D0 g h n nd nd' { (ss n) with cur := .linked p q w } g.log g.next g.next
    hn hr' (Nat.le_refl _)
    (by simp [heldOf, hc, curRead]) (fun w => rfl) (logExt_refl g.log g.next hub) (fun _ _ => rfl) h.logBound
    (fun m _ => sep_fresh_node N links ss D0 g h g.next (Nat.le_refl _) m)
    (fun j => sep_fresh_sink N links ss D0 g h g.next (Nat.le_refl _) j)
    (fun r hr => h.reqsOK n r hr)
    (by simpa [CurOK] using hcur)
    (fun q hq => h.inboxOK n q hq)
    (ordAt_none g.log g.next g.next hub.2.1 hub.1)
  exact FI_congr N links _ D0 _ _ key rfl rfl rfl rfl rfl rfl rfl rfl rfl

theorem rel_nodup_ne (s : S) (nd : Node) (nx : Nat) (hr : Rel s nd nx) (x y : Pid)
    (hx : x ∈ NodeSpec.idsC s.cur) (hy : y ∈ s.inbox.map (·.id)) : x ≠ y := by
  have := hr.nodup
  simp only [allIds] at this
  rw [List.nodup_append] at this
  exact this.2.2 x (by simp [hx]) y hy

/-- the action of node `n` returns the fresh packet `q` (for writer `w`) -/
theorem FI_release (N : Nat) (links : List (Nat × List Tgt)) (hwf : TreeWF N links) (ss : Nat → S) (g : G)
    (h : FI N links ss D0 g) (n : Nat) (nd nd' : Node) (p : Pkt) (v : Val) (w : Wid) (hw : w < 2)
    (hn : getNode g.nodes n = some nd) (hc : (ss n).cur = .inAction p)
    (hr' : Rel { (ss n) with cur := .toLink p ⟨g.next, v⟩ w } nd' (g.next + 1)) :
    FI N links (upd ss n { (ss n) with cur := .toLink p ⟨g.next, v⟩ w }) D0
      { g with nodes := setNode g.nodes n nd', next := g.next + 1,
               log := { g.log with acts := aset g.log.acts p.id [g.next],
                                   owner := aset g.log.owner g.next (qTag n) } } := by
  have hnN : n < N := (h.nodesLen n).mp (by rw [hn]; rfl)
  have hcur := h.curOK n
  rw [hc] at hcur
  have hup : Unlogged g.log p.id := hcur
  have hrel := h.rel n nd hn
  have hplt : p.id < g.next := hrel.bound p.id (by simp [allIds, hc, NodeSpec.idsC])
  have hpne : p.id ≠ g.next := Nat.ne_of_lt hplt
  have hown_p : aget g.log.owner p.id = some (n * 64) := by
    have := h.ownNode n p.id (by simp [heldAt, hc, curRead])
    simpa [rkeyOf] using this
  let lg' : Log := { g.log with acts := aset g.log.acts p.id [g.next], owner := aset g.log.owner g.next (qTag n) }
  have hx : LogExt g.log lg' p.id := by
    refine ⟨hup, ?_⟩
    intro x hxne
    refine ⟨?_, rfl, rfl, rfl⟩
    simp only [lg', aget_aset, hxne, if_false]
  have hunext : Unlogged lg' g.next :=
    unlogged_ext g.log lg' p.id hx g.next (fun e => hpne e.symm) (h.logBound g.next (Nat.le_refl _))
  have key := FI_node_log N links ss D0 g h n nd nd' { (ss n) with cur := .toLink p ⟨g.next, v⟩ w } lg' (g.next + 1) p.id
    hn hr' (Nat.le_succ _)
    (by simp [heldOf, hc, curRead]) (fun w => rfl) hx
    (by intro id hid; simp only [lg', aget_aset]; have : id ≠ g.next := Nat.ne_of_lt hid; simp [this])
    (by
      intro id hid
      exact unlogged_ext g.log lg' p.id hx id
        (fun e => by rw [e] at hid; exact absurd (Nat.lt_of_lt_of_le (Nat.lt_succ_self _) hid) (Nat.lt_asymm hplt))
        (h.logBound id (Nat.le_of_succ_le hid)))
    (by
      intro m hm
      apply sep_node N links ss D0 g h p.id (n * 64) hown_p m <;> omega)
    (by
      intro j
      apply sep_sink N links ss D0 g h p.id (n * 64) hown_p j
      have := hwf.small; omega)
    (fun r hr => reqOK_ext g.log lg' p.id hx r (h.reqsOK n r hr))
    (by
      simp only [CurOK]
      refine ⟨⟨?_, ?_, ?_, ?_⟩, hunext, hw, ?_⟩
      · show aget g.log.echo p.id = none; exact hup.2.2.1
      · show aget g.log.sinkAns p.id = none; exact hup.2.2.2
      · show aget g.log.dels p.id = none; exact hup.2.1
      · simp [lg', aget_aset]
      · simp [lg', aget_aset])
    (by
      intro x hxi
      have hne : x.id ≠ p.id := fun e =>
        rel_nodup_ne _ nd g.next hrel p.id x.id (by simp [hc, NodeSpec.idsC]) (List.mem_map_of_mem hxi) e.symm
      exact unlogged_ext g.log lg' p.id hx x.id hne (h.inboxOK n x hxi))
    (by
      refine ⟨fun cs hcs => ?_, fun qs hqs => ?_⟩
      · have : aget lg'.dels p.id = none := hup.2.1
        rw [this] at hcs; cases hcs
      · have : aget lg'.acts p.id = some [g.next] := by simp [lg', aget_aset]
        rw [this] at hqs
        simp only [Option.some.injEq] at hqs
        subst hqs
        intro q hq
        simp only [List.mem_singleton] at hq
        subst hq
        exact ⟨hplt, Nat.lt_succ_self _⟩)
  exact FI_congr N links _ D0 _ _ key rfl rfl rfl rfl rfl rfl rfl rfl rfl

end Uniflow.FlowInv
