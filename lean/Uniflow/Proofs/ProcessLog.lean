/-
The run log of the process machine is sorted: read chronologically, the hooks registered on one
process before its termination appear with decreasing registration tokens.
-/
import Uniflow.Proofs.ProcessOrder

namespace Uniflow.Process

/-- newest-first log: a newer entry of the same process, both registered before termination,
has the smaller token (was registered earlier) -/
def LS (s : State) : Prop :=
  s.log.Pairwise (fun a b => s.owner a.tok = s.owner b.tok → s.late a.tok = false → s.late b.tok = false →
    a.tok < b.tok)

/-- a transformer that logs nothing and only allocates fresh tokens -/
structure Quiet (s s' : State) : Prop where
  log : s'.log = s.log
  next : s.nextTok ≤ s'.nextTok
  ghost : ∀ k, k < s.nextTok → s'.owner k = s.owner k ∧ s'.late k = s.late k

theorem quiet_refl (s : State) : Quiet s s := ⟨rfl, Nat.le_refl _, fun _ _ => ⟨rfl, rfl⟩⟩

theorem quiet_trans {a b c : State} (h1 : Quiet a b) (h2 : Quiet b c) : Quiet a c :=
  ⟨h2.log.trans h1.log, Nat.le_trans h1.next h2.next, fun k hk =>
    ⟨((h2.ghost k (Nat.lt_of_lt_of_le hk h1.next)).1).trans (h1.ghost k hk).1,
     ((h2.ghost k (Nat.lt_of_lt_of_le hk h1.next)).2).trans (h1.ghost k hk).2⟩⟩

theorem quiet_of_eq {s s' : State} (h1 : s'.log = s.log) (h2 : s'.nextTok = s.nextTok) (h3 : s'.owner = s.owner)
    (h4 : s'.late = s.late) : Quiet s s' :=
  ⟨h1, by omega, fun _ _ => by rw [h3, h4]; exact ⟨rfl, rfl⟩⟩

theorem quiet_alloc (s : State) (p : Nat) (l : Bool) : Quiet s (alloc s p l) := by
  refine ⟨rfl, by simp, ?_⟩
  intro k hk
  have e : k ≠ s.nextTok := by omega
  simp [upd_other _ _ e]

theorem quiet_exitFlip (s : State) (t p e : Nat) : Quiet s (exitFlip s t p e) := by
  unfold exitFlip; dsimp only; split <;> exact quiet_of_eq rfl rfl rfl rfl

theorem quiet_addHook (s : State) (t p : Nat) (k : HookKind) : Quiet s (addHook s t p k) := by
  unfold addHook; dsimp only
  split
  · exact quiet_trans (quiet_alloc s p true) (quiet_of_eq rfl rfl rfl rfl)
  · split
    · exact quiet_refl s
    · exact quiet_trans
        (b := setProc s p { s.procs p with hooks := (s.procs p).hooks ++ [{ kind := k, tok := s.nextTok }] })
        (quiet_of_eq rfl rfl rfl rfl) (quiet_alloc _ p false)

theorem quiet_mkChild (s : State) (p : Nat) : Quiet s (mkChild s p) := by
  refine ⟨rfl, by simp [mkChild], ?_⟩
  intro k hk
  have e : k ≠ s.nextTok := by omega
  simp [mkChild, upd_other _ _ e]

theorem quiet_waitDone (s : State) (q : Nat) : Quiet s (waitDone s q) := by
  have h := waitDone_ghost s q
  exact quiet_of_eq h.2.2.1 h.2.2.2.1 h.2.2.2.2.1 h.2.2.2.2.2

theorem quiet_startOp (s : State) (t : Nat) (op : Op) : Quiet s (startOp s t op) := by
  cases op with
  | new => exact quiet_of_eq rfl rfl rfl rfl
  | exit p e => simp only [startOp]; split
                · exact quiet_exitFlip s t p e
                · exact quiet_refl s
  | add p h => simp only [startOp]; split
               · exact quiet_addHook s t p _
               · exact quiet_refl s
  | fork p => simp only [startOp]; split
              · exact quiet_of_eq rfl rfl rfl rfl
              · exact quiet_refl s
  | join p => simp only [startOp]; split
              · exact quiet_of_eq rfl rfl rfl rfl
              · exact quiet_refl s
  | setv p k v => simp only [startOp]; split
                  · exact quiet_of_eq rfl rfl rfl rfl
                  · exact quiet_refl s
  | delv p k => simp only [startOp]; split
                · exact quiet_of_eq rfl rfl rfl rfl
                · exact quiet_refl s

theorem ls_quiet {s s' : State} (g : Good s) (l : LS s) (q : Quiet s s') : LS s' := by
  unfold LS at *
  rw [q.log]
  refine List.Pairwise.imp_of_mem ?_ l
  intro a b ha hb hab
  have h1 := q.ghost a.tok (g.log_lt ha)
  have h2 := q.ghost b.tok (g.log_lt hb)
  rw [h1.1, h1.2, h2.1, h2.2]
  exact hab

theorem ls_logMove {s : State} (g : Good s) (o : Ord s) (l : LS s) (t : Nat) (f : Frame) (h : Hook)
    (hs : List Hook) (rest : List Frame) (ht : t < s.nt) (hst : (s.threads t).stack = f :: rest)
    (hf : f.rem = h :: hs) : LS (logMove s t f h hs rest) := by
  have hfm : f ∈ (s.threads t).stack := by rw [hst]; simp
  have hhm : h ∈ f.rem := by rw [hf]; simp
  have hlt := g.frame_lt ht hfm hhm
  have hlog0 : cntL h.tok s.log = 0 := by
    have hc := (g.cons h.tok).1 hlt
    have h1 := cntS_mem_pos hfm hhm rfl
    have h2 := sumTo_ge (f := fun t => cntS h.tok (s.threads t).stack) ht
    simp only [total, framesCount] at hc
    omega
  unfold LS at *
  simp only [logMove_log, logMove_owner, logMove_late, List.pairwise_cons]
  refine ⟨?_, l⟩
  intro b hb hown hl1 hl2
  rcases Nat.lt_trichotomy h.tok b.tok with e | e | e
  · exact e
  · have := cntL_mem_pos hb e.symm; omega
  · have := o.logOrd b.tok h.tok e hlt hown.symm hl2 hl1 (cntL_mem_pos hb rfl)
    omega

theorem ls_step {s : State} (g : Good s) (o : Ord s) (l : LS s) (t : Nat) (a : Action) : LS (step s t a) := by
  unfold step
  split
  · rename_i ht
    cases a with
    | start op => simp only []; split
                  · exact ls_quiet g l (quiet_startOp s t op)
                  · exact l
    | cont =>
      unfold contStep
      dsimp only
      split
      · rename_i p hpc
        unfold forkReg
        exact ls_quiet g l (quiet_trans (b := mkChild (setThread s t { s.threads t with pc := .idle }) p)
          (quiet_trans (b := setThread s t { s.threads t with pc := .idle }) (quiet_of_eq rfl rfl rfl rfl)
            (quiet_mkChild _ p)) (quiet_addHook _ t p _))
      · split
        · exact ls_quiet g l (quiet_of_eq rfl rfl rfl rfl)
        · exact ls_quiet g l (quiet_of_eq rfl rfl rfl rfl)
      · exact l
      · split
        · exact l
        · rename_i f rest hst
          split
          · exact ls_quiet g l (quiet_of_eq rfl rfl rfl rfl)
          · rename_i h hs hf
            have g1 := good_logMove g t f h hs rest ht hst hf
            have l1 := ls_logMove g o l t f h hs rest ht hst hf
            unfold runHook
            dsimp only
            split
            · exact l1
            · exact ls_quiet g1 l1 (quiet_waitDone _ _)
            · exact ls_quiet g1 l1 (quiet_exitFlip _ t _ _)
  · exact l

theorem ls_run {s : State} (g : Good s) (o : Ord s) (l : LS s) (sched : List (Nat × Action)) :
    LS (run s sched) := by
  induction sched generalizing s with
  | nil => exact l
  | cons x xs ih => obtain ⟨t, a⟩ := x; exact ih (good_step g t a) (ord_step g o t a) (ls_step g o l t a)

theorem ls_init (nt : Nat) : LS (init nt) := by simp [LS, init]

end Uniflow.Process
