/-
C02, joint model over the abstract tracer, part 2: transport of the request invariant along a change of the ghost log
at one key (`Tr`), the reference answer of a complete request, the answers a flush emits.
-/
import Uniflow.Proofs.FlowH1

namespace Uniflow.FlowH
open Uniflow.Tracer Uniflow.Node Uniflow.Flow Uniflow.FlowInv Uniflow.FlowG Uniflow.ATracer
open Uniflow.ATracer (getL_setOrDel getL_aset)

/-- `lg'` agrees with `lg` away from key `k`, and keeps reference answers -/
structure Tr (lg lg' : Log) (k : Pid) : Prop where
  unl : ∀ id, id ≠ k → Unlogged lg id → Unlogged lg' id
  ra : ∀ q b, RA lg q b → RA lg' q b
  same : ∀ id, id ≠ k → aget lg'.acts id = aget lg.acts id ∧ aget lg'.echo id = aget lg.echo id ∧
    aget lg'.sinkAns id = aget lg.sinkAns id ∧ aget lg'.dels id = aget lg.dels id

theorem tr_refl (lg : Log) (k : Pid) : Tr lg lg k := ⟨fun _ _ h => h, fun _ _ h => h, fun _ _ => ⟨rfl, rfl, rfl, rfl⟩⟩

theorem tr_of_ext (lg lg' : Log) (k : Pid) (hx : LogExt lg lg' k) : Tr lg lg' k :=
  ⟨fun id hne h => unlogged_ext lg lg' k hx id hne h, fun q b h => ra_ext lg lg' k hx q b h,
   fun id hne => by obtain ⟨s1, s2, s3, s4⟩ := hx.2 id hne; exact ⟨s1, s3, s4, s2⟩⟩

theorem cellA_tr (lg lg' : Log) (k : Pid) (t : Tr lg lg' k) (n : Nat) (q : Pid) (c : Cell)
    (hk : ∀ q', c = .linked q' → q' ≠ k ∧ aget lg'.owner q' = aget lg.owner q')
    (h : CellA lg n q c) : CellA lg' n q c := by
  cases c with
  | linked q' =>
    obtain ⟨e, hu, hw⟩ := h
    subst e
    exact ⟨rfl, t.unl q' (hk q' rfl).1 hu, by rw [(hk q' rfl).2]; exact hw⟩
  | written q' w => exact h
  | filled a => exact t.ra q a h

theorem all2_cellA_tr (lg lg' : Log) (k : Pid) (t : Tr lg lg' k) (n : Nat) : ∀ (qs : List Pid) (cs : List Cell),
    (∀ q' ∈ linkedIds cs, q' ≠ k ∧ aget lg'.owner q' = aget lg.owner q') →
    All2 (CellA lg n) qs cs → All2 (CellA lg' n) qs cs
  | [], [], _, _ => trivial
  | q :: qs, c :: cs, hk, h => by
    refine ⟨cellA_tr lg lg' k t n q c ?_ h.1, all2_cellA_tr lg lg' k t n qs cs ?_ h.2⟩
    · intro q' e; subst e; exact hk q' (by simp [linkedIds])
    · intro q' hq'
      apply hk q'
      cases c <;> simp [linkedIds, hq']
  | [], _ :: _, _, h => absurd h (by simp [All2])
  | _ :: _, [], _, h => absurd h (by simp [All2])

/-- `Write` accepted: the linked cell of `k` becomes `written` -/
theorem all2_markWritten (lg lg' : Log) (k : Pid) (t : Tr lg lg' k) (n : Nat) (w : Wid) :
    ∀ (qs : List Pid) (cs : List Cell), (openIds cs).Nodup →
    (∀ q' ∈ linkedIds cs, q' ≠ k → aget lg'.owner q' = aget lg.owner q') →
    All2 (CellA lg n) qs cs → All2 (CellA lg' n) qs (markWritten k w cs)
  | [], [], _, _, _ => trivial
  | q :: qs, c :: cs, hnd, ho, h => by
    cases c with
    | linked q' =>
      simp only [openIds, List.nodup_cons] at hnd
      simp only [markWritten]
      by_cases e : q' = k
      · rw [if_pos e]
        refine ⟨h.1.1, all2_cellA_tr lg lg' k t n qs cs ?_ h.2⟩
        intro q2 hq2
        have hne : q2 ≠ k := fun e2 => hnd.1 (by rw [e, ← e2]; exact linkedIds_sub_open cs q2 hq2)
        exact ⟨hne, ho q2 (by simp [linkedIds, hq2]) hne⟩
      · rw [if_neg e]
        refine ⟨cellA_tr lg lg' k t n q _ (fun q2 e2 => by
          simp only [Cell.linked.injEq] at e2; subst e2; exact ⟨e, ho q' (by simp [linkedIds]) e⟩) h.1, ?_⟩
        exact all2_markWritten lg lg' k t n w qs cs hnd.2 (fun q2 hq2 => ho q2 (by simp [linkedIds, hq2])) h.2
    | written q' w' =>
      simp only [openIds, List.nodup_cons] at hnd
      exact ⟨h.1, all2_markWritten lg lg' k t n w qs cs hnd.2 (fun q2 hq2 => ho q2 (by simpa [linkedIds] using hq2)) h.2⟩
    | filled b =>
      simp only [openIds] at hnd
      exact ⟨t.ra q b h.1, all2_markWritten lg lg' k t n w qs cs hnd (fun q2 hq2 => ho q2 (by simpa [linkedIds] using hq2)) h.2⟩
  | [], _ :: _, _, _, h => absurd h (by simp [All2])
  | _ :: _, [], _, _, h => absurd h (by simp [All2])

/-- the answer to packet `k` arrives: its cell becomes `filled` -/
theorem all2_fillCell (lg lg' : Log) (k : Pid) (t : Tr lg lg' k) (n : Nat) (ans : Ans) (hra : RA lg' k ans) :
    ∀ (qs : List Pid) (cs : List Cell), (openIds cs).Nodup →
    (∀ q' ∈ linkedIds cs, q' ≠ k → aget lg'.owner q' = aget lg.owner q') →
    All2 (CellA lg n) qs cs → All2 (CellA lg' n) qs (fillCell k ans cs)
  | [], [], _, _, _ => trivial
  | q :: qs, c :: cs, hnd, ho, h => by
    have rest_tr : (openIds cs).Nodup → k ∉ openIds cs → All2 (CellA lg' n) qs cs := by
      intro _ hk
      apply all2_cellA_tr lg lg' k t n qs cs _ h.2
      intro q2 hq2
      have hne : q2 ≠ k := fun e2 => hk (e2 ▸ linkedIds_sub_open cs q2 hq2)
      exact ⟨hne, ho q2 (by cases c <;> simp [linkedIds, hq2]) hne⟩
    cases c with
    | linked q' =>
      simp only [openIds, List.nodup_cons] at hnd
      simp only [fillCell]
      by_cases e : q' = k
      · rw [if_pos e]
        exact ⟨by show RA lg' q ans; rw [← h.1.1, e]; exact hra, rest_tr hnd.2 (e ▸ hnd.1)⟩
      · rw [if_neg e]
        refine ⟨cellA_tr lg lg' k t n q _ (fun q2 e2 => by
          simp only [Cell.linked.injEq] at e2; subst e2; exact ⟨e, ho q' (by simp [linkedIds]) e⟩) h.1, ?_⟩
        exact all2_fillCell lg lg' k t n ans hra qs cs hnd.2 (fun q2 hq2 => ho q2 (by simp [linkedIds, hq2])) h.2
    | written q' w' =>
      simp only [openIds, List.nodup_cons] at hnd
      simp only [fillCell]
      by_cases e : q' = k
      · rw [if_pos e]
        have hq : q' = q := h.1
        exact ⟨by show RA lg' q ans; rw [← hq, e]; exact hra, rest_tr hnd.2 (e ▸ hnd.1)⟩
      · rw [if_neg e]
        exact ⟨h.1, all2_fillCell lg lg' k t n ans hra qs cs hnd.2 (fun q2 hq2 => ho q2 (by simpa [linkedIds] using hq2)) h.2⟩
    | filled b =>
      simp only [openIds] at hnd
      simp only [fillCell]
      exact ⟨t.ra q b h.1, all2_fillCell lg lg' k t n ans hra qs cs hnd (fun q2 hq2 => ho q2 (by simpa [linkedIds] using hq2)) h.2⟩
  | [], _ :: _, _, _, h => absurd h (by simp [All2])
  | _ :: _, [], _, _, h => absurd h (by simp [All2])

/-- a request that does not own `k` keeps its invariant along the log change -/
theorem reqA_tr (lg lg' : Log) (k : Pid) (t : Tr lg lg' k) (n : Nat) (pc pc' : PC) (y : Req)
    (hpc : remFor pc' y.p = remFor pc y.p) (hne : y.p ≠ k)
    (hl : ∀ q' ∈ linkedIds (cellsOfSt y.st), q' ≠ k ∧ aget lg'.owner q' = aget lg.owner q')
    (hr : ∀ q' ∈ remFor pc y.p, q' ≠ k ∧ aget lg'.owner q' = aget lg.owner q')
    (h : ReqA lg n pc y) : ReqA lg' n pc' y := by
  simp only [ReqA] at h ⊢
  rw [hpc]
  obtain ⟨s1, s2, s3, s4⟩ := t.same y.p hne
  cases hst : y.st with
  | direct w => rw [hst] at h; exact h
  | cells cs =>
    rw [hst] at h hl
    obtain ⟨qs, a1, a2, a3, a4, a5, a6, a7⟩ := h
    refine ⟨qs, all2_cellA_tr lg lg' k t n qs cs hl a1, by rw [s1]; exact a2, by rw [s2]; exact a3,
      by rw [s3]; exact a4, by rw [s4]; exact a5, a6, ?_⟩
    intro q' hq'
    obtain ⟨u, o⟩ := a7 q' hq'
    exact ⟨t.unl q' (hr q' hq').1 u, by rw [(hr q' hq').2]; exact o⟩

theorem reqB_tr (lg lg' : Log) (k : Pid) (t : Tr lg lg' k) (n : Nat) (pc pc' : PC) (y : Req)
    (hpc : remFor pc' y.p = remFor pc y.p) (hne : y.p ≠ k)
    (hl : ∀ q' ∈ linkedIds (cellsOfSt y.st), q' ≠ k ∧ aget lg'.owner q' = aget lg.owner q')
    (hr : ∀ q' ∈ remFor pc y.p, q' ≠ k ∧ aget lg'.owner q' = aget lg.owner q')
    (h : ReqB lg n pc y) : ReqB lg' n pc' y := by
  rcases h with h | ⟨v, e1, e2, e3⟩
  · exact Or.inl (reqA_tr lg lg' k t n pc pc' y hpc hne hl hr h)
  · exact Or.inr ⟨v, e1, t.ra y.p v e2, by rw [hpc]; exact e3⟩

theorem cells_ra (lg : Log) (n : Nat) : ∀ (qs : List Pid) (cs : List Cell), All2 (CellA lg n) qs cs →
    hasNil (cs.map cellVal) = false → ∃ f, allSome (qs.map (refAns lg f)) = some (cellsOf (cs.map cellVal))
  | [], [], _, _ => ⟨0, rfl⟩
  | q :: qs, c :: cs, h, hn => by
    cases c with
    | linked q' => simp [cellVal, hasNil] at hn
    | written q' w => simp [cellVal, hasNil] at hn
    | filled a =>
      simp only [List.map_cons, cellVal, hasNil] at hn
      obtain ⟨f2, h2⟩ := cells_ra lg n qs cs h.2 hn
      obtain ⟨f1, h1⟩ : RA lg q a := h.1
      refine ⟨f1 + f2, ?_⟩
      have e1 : refAns lg (f1 + f2) q = some a := refAns_fuel_le lg q a f1 h1 f2
      have e2 := allSome_congr (refAns lg f2) (refAns lg (f1 + f2)) qs _
        (fun c' _ b hb => refAns_fuel_ge lg c' b f2 (f1 + f2) hb (Nat.le_add_left _ _)) h2
      simp only [List.map_cons, allSome, e1, e2, cellVal, cellsOf]
  | [], _ :: _, h, _ => absurd h (by simp [All2])
  | _ :: _, [], h, _ => absurd h (by simp [All2])

/-- a complete request is answered with the reference answer of its packet -/
theorem ra_of_reqA (lg : Log) (n : Nat) (pc : PC) (x : Req) (b : Ans) (h : ReqB lg n pc x)
    (hb : reply x.st = some b) : RA lg x.p b := by
  rcases h with h | ⟨v, e1, e2, _⟩
  rotate_left
  · rw [e1] at hb
    simp only [reply, List.map_cons, List.map_nil, cellVal, hasNil, Bool.false_eq_true, if_false,
      Option.some.injEq] at hb
    rw [← hb]
    exact e2
  simp only [ReqA] at h
  cases hst : x.st with
  | direct w => rw [hst] at hb; simp [reply] at hb
  | cells cs =>
    rw [hst] at h hb
    obtain ⟨qs, a1, a2, a3, a4, a5, a6, _⟩ := h
    have hrem : remFor pc x.p = [] := by
      rcases a6 with e | e
      · exact e
      · rw [reply_none_of_linked cs (prot_of_allLinked cs e)] at hb; cases hb
    cases cs with
    | nil => simp [reply] at hb
    | cons c cs =>
      simp only [reply] at hb
      by_cases hn : hasNil ((c :: cs).map cellVal) = true
      · rw [if_pos hn] at hb; cases hb
      · rw [if_neg hn] at hb
        simp only [Option.some.injEq] at hb
        have hn' : hasNil ((c :: cs).map cellVal) = false := by simpa using hn
        obtain ⟨f, hf⟩ := cells_ra lg n qs (c :: cs) a1 hn'
        have hqne : qs ≠ [] := by
          intro e; rw [e] at a1; simp [All2] at a1
        rw [hrem, List.append_nil] at a2
        have hacts : aget lg.acts x.p = some qs := by rw [a2]; simp [optl, hqne]
        exact ⟨f + 1, by simp only [refAns, a3, a4, a5, hacts, hf, ← hb, joinCells]⟩

theorem reply_none_of_hasNil (cs : List Cell) (h : hasNil (cs.map cellVal) = true) : reply (.cells cs) = none := by
  cases cs with
  | nil => rfl
  | cons c cs => simp only [reply, h, if_true]

theorem updReq_map_p (p : Pid) (f : RSt → RSt) : ∀ (rs : List Req), (updReq p f rs).map (·.p) = rs.map (·.p)
  | [] => rfl
  | z :: zs => by
    simp only [updReq]
    split
    · simp
    · simp [updReq_map_p p f zs]

def ansOf (x : Req) : List (Pid × Ans) :=
  match reply x.st with
  | some b => [(x.p, b)]
  | none => []

theorem ansOf_fst : ∀ (pre : List Req), (∀ x ∈ pre, ∃ b, reply x.st = some b) →
    (pre.flatMap ansOf).map (·.1) = pre.map (·.p)
  | [], _ => rfl
  | x :: xs, h => by
    obtain ⟨b, hb⟩ := h x List.mem_cons_self
    simp only [List.flatMap_cons, List.map_append, List.map_cons, ansOf, hb, List.map_nil,
      ansOf_fst xs (fun y hy => h y (List.mem_cons_of_mem _ hy))]
    rfl

theorem allLinked_no_written : ∀ (cs : List Cell) (k : Pid) (w : Wid), allLinked cs = true → Cell.written k w ∉ cs
  | [], _, _, _ => by simp
  | c :: cs, k, w, h => by
    cases c with
    | linked q =>
      simp only [allLinked, Bool.true_and] at h
      simp only [List.mem_cons, not_or]
      exact ⟨by simp, allLinked_no_written cs k w h⟩
    | written q w' => simp [allLinked] at h
    | filled b => simp [allLinked] at h

end Uniflow.FlowH
