/-
C02, joint model, one-in-port node kinds, part 2: the steps of the node model, restated for `JB`.
-/
import Uniflow.Proofs.FlowH1

namespace Uniflow.FlowH
open Uniflow.Tracer Uniflow.Node Uniflow.Flow Uniflow.FlowInv Uniflow.FlowG Uniflow.ATracer

theorem jb_deliver (nd : Node) (a : A) (nx : Nat) (h : JB nd a nx) (th : Thread) (ht : nd.threads = [th])
    (c : Pid) (v : Val) (hc : nx ≤ c) :
    Node.step nd (.deliver 0 ⟨c, v⟩) =
      some ({ nd with threads := [{ th with inbox := th.inbox ++ [⟨c, v⟩] }] }, []) ∧
    JB { nd with threads := [{ th with inbox := th.inbox ++ [⟨c, v⟩] }] } a (c + 1) := by
  have hg : getThread nd.threads 0 = some th := by rw [ht]; rfl
  have hJ := jb_fut nd a nx h [c] (by simp) (by intro k hk; simp at hk; rw [hk]; exact hc)
  have hJ' := J_deliver nd a [] 0 ⟨c, v⟩ th (by simpa [introS] using hJ) hg
  have hset : setThread nd.threads 0 { th with inbox := th.inbox ++ [⟨c, v⟩] } =
      [{ th with inbox := th.inbox ++ [⟨c, v⟩] }] := by rw [ht]; rfl
  rw [hset] at hJ'
  refine ⟨by simp [Node.step, hg, hset], hJ', rfl, ?_, h.np, h.r0⟩
  intro k hk
  simp only [List.mem_append, List.flatMap_cons, List.flatMap_nil, List.append_nil, tids, List.map_append,
    List.map_cons, List.map_nil, List.mem_cons, List.mem_singleton] at hk
  have hold : ∀ k, k ∈ ids a.reqs ∨ k ∈ tids th → k < nx := by
    intro k hk'; apply h.bnd k
    rw [ht]; simpa [List.mem_append] using hk'
  rcases hk with hk | (hk | hk | hk) | hk
  · exact Nat.lt_succ_of_lt (Nat.lt_of_lt_of_le (hold k (Or.inl hk)) hc)
  · exact Nat.lt_succ_of_lt (Nat.lt_of_lt_of_le (hold k (Or.inr (by simp [tids, hk]))) hc)
  · rw [hk]; exact Nat.lt_succ_self _
  · simp at hk
  · exact Nat.lt_succ_of_lt (Nat.lt_of_lt_of_le (hold k (Or.inr (by simp [tids, hk]))) hc)

theorem bnd_of (nd : Node) (a : A) (nx : Nat) (h : JB nd a nx) (th : Thread) (ht : nd.threads = [th]) :
    ∀ k, k ∈ ids a.reqs ∨ k ∈ tids th → k < nx := by
  intro k hk; apply h.bnd k
  rw [ht]; simpa [List.mem_append] using hk

/-- the forward thread takes the next request (one-to-one / one-to-many: it enters the action) -/
theorem jb_read (nd : Node) (a : A) (nx : Nat) (h : JB nd a nx) (p : Pkt) (rest : List Pkt)
    (ht : nd.threads = [{ inbox := p :: rest, pc := .idle }]) (hk : ∀ k, nd.kind ≠ .manyToOne k) :
    Node.step nd (.read 0) =
      some ({ nd with tr := Tracer.read nd.tr 0 p.id, threads := [{ inbox := rest, pc := .action p [p] }] }, []) ∧
    JB { nd with tr := Tracer.read nd.tr 0 p.id, threads := [{ inbox := rest, pc := .action p [p] }] }
      (aread a 0 p.id) nx := by
  have hg : getThread nd.threads 0 = some { inbox := p :: rest, pc := .idle } := by rw [ht]; rfl
  obtain ⟨hpre, hJ'⟩ := J_read nd a [] 0 p rest (.action p [p]) nd.rows h.j hg (Or.inl ⟨[p], rfl⟩)
  have hset : setThread nd.threads 0 { inbox := rest, pc := PC.action p [p] } = [{ inbox := rest, pc := .action p [p] }] := by
    rw [ht]; rfl
  rw [hset] at hJ'
  have hb := bnd_of nd a nx h _ ht
  refine ⟨?_, ?_, rfl, ?_, h.np, ?_⟩
  · simp only [Node.step, hg]
    cases hkd : nd.kind with
    | manyToOne k => exact absurd hkd (hk k)
    | oneToOne => simp [hset]
    | oneToMany k => simp [hset]
  · have e : ({ nd with tr := Tracer.read nd.tr 0 p.id, rows := nd.rows, threads := [{ inbox := rest, pc := .action p [p] }] } : Node) =
        { nd with tr := Tracer.read nd.tr 0 p.id, threads := [{ inbox := rest, pc := .action p [p] }] } := rfl
    rw [← e]; exact hJ'
  · intro k hk'
    simp only [List.mem_append, List.flatMap_cons, List.flatMap_nil, List.append_nil, tids, pendIds] at hk'
    rcases hk' with hk' | hk'
    · simp only [aread, ids_append, idsR, cellsOfSt, openIds, List.mem_append, List.mem_singleton] at hk'
      rcases hk' with hk' | hk'
      · exact hb k (Or.inl hk')
      · rw [hk']; exact hb p.id (Or.inr (by simp [tids]))
    · exact hb k (Or.inr (by simp only [tids, pendIds, List.append_nil, List.map_cons, List.mem_cons]; right; exact hk'))
  · intro x hx
    simp only [aread, List.mem_append, List.mem_singleton] at hx
    rcases hx with hx | hx
    · exact h.r0 x hx
    · rw [hx]

/-- the action returns: the thread holds the `Link`/`Write` program of the request -/
theorem jb_finish (nd : Node) (a : A) (nx nx' : Nat) (h : JB nd a nx) (p : Pkt) (grp inbox : List Pkt)
    (ht : nd.threads = [{ inbox := inbox, pc := .action p grp }]) (o : Outcome) (ops : List Op)
    (hp : program nd.kind p o = some ops) (hnd : (introS (.finish 0 o)).Nodup)
    (hfr : ∀ k ∈ introS (.finish 0 o), nx ≤ k ∧ k < nx') (hle : nx ≤ nx') :
    Node.step nd (.finish 0 o) = some ({ nd with threads := [{ inbox := inbox, pc := .emit ops }] }, []) ∧
    JB { nd with threads := [{ inbox := inbox, pc := .emit ops }] } a nx' := by
  have hg : getThread nd.threads 0 = some { inbox := inbox, pc := .action p grp } := by rw [ht]; rfl
  have hJ := jb_fut nd a nx h (introS (.finish 0 o)) hnd (fun k hk => (hfr k hk).1)
  obtain ⟨hJ', _⟩ := J_finish nd a [] 0 o p grp inbox (by simpa using hJ) hg
  have hJ2 := hJ' ops hp
  have hset : setThread nd.threads 0 { inbox := inbox, pc := PC.emit ops } = [{ inbox := inbox, pc := .emit ops }] := by
    rw [ht]; rfl
  rw [hset] at hJ2
  have hb := bnd_of nd a nx h _ ht
  have hX : (⟨p.id, 0, .cells []⟩ : Req) ∈ a.reqs := by have := h.j.th 0 _ hg; simpa [ThOK] using this
  obtain ⟨_, hsub⟩ := program_ok nd.kind p o ops 0 0 a.reqs hp hX
  refine ⟨by simp [Node.step, hg, hp, hset], hJ2, rfl, ?_, h.np, h.r0⟩
  intro k hk
  simp only [List.mem_append, List.flatMap_cons, List.flatMap_nil, List.append_nil, tids, pendIds] at hk
  rcases hk with hk | hk | hk
  · exact Nat.lt_of_lt_of_le (hb k (Or.inl hk)) hle
  · exact Nat.lt_of_lt_of_le (hb k (Or.inr (by simp [tids, hk]))) hle
  · exact (hfr k (hsub.subset hk)).2

theorem pend_nextPc_sub (o : Op) (ops : List Op) : ∀ k ∈ pendIds (nextPc ops), k ∈ pendIds (.emit (o :: ops)) := by
  intro k hk
  cases ops with
  | nil => simp [nextPc, pendIds] at hk
  | cons o' ops' =>
    simp only [nextPc, pendIds] at hk ⊢
    cases o <;> simp [linkTargets, hk]

theorem step_op_eq (nd : Node) (inbox : List Pkt) (o : Op) (ops : List Op)
    (ht : nd.threads = [{ inbox := inbox, pc := .emit (o :: ops) }]) (acc : Bool) :
    Node.step nd (.op 0 acc) =
      some ({ nd with tr := (tcall nd.tr (opCall acc o)).1, threads := [{ inbox := inbox, pc := nextPc ops }] },
            (match o with
             | .link _ _ => []
             | .write w q => (Tracer.write nd.strict nd.tr w q.id (.pay q.pay) acc).2)) ∨ nd.strict = false := by
  by_cases hs : nd.strict = true
  · left
    cases ops <;> cases o <;> simp [Node.step, ht, getThread, setThread, nextPc, opCall, tcall, hs]
  · right; simpa using hs

/-- the thread makes the next `Link` / `Write` call of its program -/
theorem jb_op (nd : Node) (a : A) (nx : Nat) (h : JB nd a nx) (inbox : List Pkt) (o : Op) (ops : List Op)
    (ht : nd.threads = [{ inbox := inbox, pc := .emit (o :: ops) }]) (acc : Bool) :
    Node.step nd (.op 0 acc) =
      some ({ nd with tr := (tcall nd.tr (opCall acc o)).1, threads := [{ inbox := inbox, pc := nextPc ops }] },
            (acall a (opCall acc o)).2) ∧
    JB { nd with tr := (tcall nd.tr (opCall acc o)).1, threads := [{ inbox := inbox, pc := nextPc ops }] }
      (acall a (opCall acc o)).1 nx ∧ Pre a (opCall acc o) := by
  have hg : getThread nd.threads 0 = some { inbox := inbox, pc := .emit (o :: ops) } := by rw [ht]; rfl
  obtain ⟨hpre, hJ'⟩ := J_op nd a [] 0 acc inbox o ops h.j hg
  have hset : setThread nd.threads 0 { inbox := inbox, pc := nextPc ops } = [{ inbox := inbox, pc := nextPc ops }] := by
    rw [ht]; rfl
  rw [hset] at hJ'
  have hb := bnd_of nd a nx h _ ht
  obtain ⟨hev, _, _⟩ := call_refines a nd.tr (opCall acc o) h.j.trel h.j.inv hpre
  refine ⟨?_, ⟨hJ', rfl, ?_, h.np, ?_⟩, hpre⟩
  · rcases step_op_eq nd inbox o ops ht acc with he | he
    · rw [he]
      cases o with
      | link s t => simp [opCall, acall]
      | write w q =>
        simp only [opCall, tcall, h.j.strict] at hev ⊢
        rw [← hev]
    · rw [h.j.strict] at he; cases he
  · intro k hk
    simp only [List.mem_append, List.flatMap_cons, List.flatMap_nil, List.append_nil, tids] at hk
    rcases hk with hk | hk | hk
    · rcases acall_ids_sub a nd.tr (opCall acc o) h.j.trel h.j.inv hpre k hk with h1 | h1
      · exact hb k (Or.inl h1)
      · cases o with
        | link s t =>
          simp only [opCall, newIds, List.mem_singleton] at h1
          exact hb k (Or.inr (by simp [tids, pendIds, linkTargets, h1]))
        | write w q => simp [opCall, newIds] at h1
    · exact hb k (Or.inr (by simp [tids, hk]))
    · exact hb k (Or.inr (by simp only [tids, List.mem_append]; right; exact pend_nextPc_sub o ops k hk))
  · apply r0_of_answers a.reqs _ _ _ (acall_answers a (opCall acc o)) h.r0
    intro r _; cases o <;> rfl

/-- writer `w` hands the node an answer -/
theorem jb_answer (nd : Node) (a : A) (nx : Nat) (h : JB nd a nx) (w : Wid) (ans : Ans) (hq : getL a.wq w ≠ []) :
    Node.step nd (.answer w ans) =
      some ({ nd with tr := (receiveW nd.strict nd.tr w (some ans)).1 }, (acall a (.answer w ans)).2) ∧
    JB { nd with tr := (receiveW nd.strict nd.tr w (some ans)).1 } (acall a (.answer w ans)).1 nx := by
  have hJ' := J_answer nd a [] w ans h.j
  obtain ⟨hev, _, _⟩ := call_refines a nd.tr (.answer w ans) h.j.trel h.j.inv trivial
  have hw : getL nd.tr.writes w = getL a.wq w := by simp only [getL_eq, h.j.trel.writes w]
  refine ⟨?_, hJ', h.one, ?_, h.np, ?_⟩
  · simp only [Node.step, hw]
    cases hl : getL a.wq w with
    | nil => exact absurd hl hq
    | cons k rest =>
      simp only [tcall, h.j.strict] at hev ⊢
      rw [← hev]
  · intro k hk
    rw [List.mem_append] at hk
    rcases hk with hk | hk
    · rcases acall_ids_sub a nd.tr (.answer w ans) h.j.trel h.j.inv trivial k hk with h1 | h1
      · exact h.bnd k (List.mem_append_left _ h1)
      · simp [newIds] at h1
    · exact h.bnd k (List.mem_append_right _ hk)
  · exact r0_of_answers a.reqs _ _ _ (acall_answers a (.answer w ans)) h.r0 (fun _ _ => rfl)

end Uniflow.FlowH
