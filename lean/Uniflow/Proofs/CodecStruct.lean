/-
Struct decoding (`phase1` / `phase2`) on struct encodings, and the unrestricted round trip (Props/C16.lean).
Core Lean only.
-/
import Uniflow.Proofs.Codec

namespace Uniflow.Codec
open Uniflow.Value

theorem equal_refl' (a : Val) : equal a a = true :=
  (cmp_zero_iff_equal a a).mp (by have := cmp_antisymm a a; omega)

/-! ## The encoding of the zero value -/

theorem encodeL_replicate (t : GoType) (z : GoVal) : ∀ n, encodeL t (GoVals.replicate n z) = VList.replicate n (encode t z)
  | 0 => rfl
  | n + 1 => by simp [GoVals.replicate, VList.replicate, encodeL, encodeL_replicate t z n]

mutual
  theorem zeroDoc_eq : (t : GoType) → encode t (zero t) = zeroDoc t
    | .int _ | .uint _ | .f32 | .f64 | .str | .bool | .bytes | .barr _ | .time | .uuid | .any | .ptr _ | .slice _ | .map _ => by
      simp [zero, encode, zeroDoc]
    | .dur => by simp [zero, encode, zeroDoc, durMs]
    | .arr n t => by simp [zero, encode, zeroDoc, encodeL_replicate, zeroDoc_eq t]
    | .struct fs => by simp [zero, encode, zeroDoc, zeroDocF_eq fs .nil]
  theorem zeroDocF_eq : (fs : Fields) → ∀ acc, encodeFields fs (zeroFields fs) acc = zeroDocF fs acc
    | .nil, acc => by simp [zeroFields, encodeFields, zeroDocF]
    | .cons .named a t rest, acc => by
      simp only [zeroFields, encodeFields, zeroDocF, zeroDoc_eq t]; exact zeroDocF_eq rest _
    | .cons .omit a t rest, acc => by
      simp only [zeroFields, encodeFields, zeroDocF, zeroDoc_eq t, equal_refl', if_true]; exact zeroDocF_eq rest _
    | .cons .ignored a t rest, acc => by
      simp only [zeroFields, encodeFields, zeroDocF]; exact zeroDocF_eq rest _
    | .cons .inline a t rest, acc => by
      cases t <;> simp only [zeroFields, zero, encodeFields, zeroDocF] <;> first
        | exact zeroDocF_eq rest _
        | (rename_i fs'; rw [zeroDocF_eq fs' acc]; exact zeroDocF_eq rest _)
end

/-! ## Field shapes -/

inductive FShape : FMode → GoType → GoVal → Prop
  | nam (t v) : FShape .named t v
  | omi (t v) : FShape .omit t v
  | ign (t v) : FShape .ignored t v
  | istruct (fs' vs') : FShape .inline (.struct fs') (.struct vs')
  | imap (t' kvs) : FShape .inline (.map t') (.map kvs)
  | imapNil (t') : FShape .inline (.map t') .mapNil

theorem fshape {m : FMode} {a : Bytes} {t : GoType} {rest : Fields} {v : GoVal} {vs : GoVals}
    (hw : Fields.wf (.cons m a t rest) = true) (ht : hasTypeF (.cons m a t rest) (.cons v vs) = true) : FShape m t v := by
  simp only [hasTypeF, Bool.and_eq_true] at ht
  cases m
  · exact .nam t v
  · exact .omi t v
  · cases t <;> simp [Fields.wf] at hw
    · cases v <;> simp [hasType] at ht
      · exact .imapNil _
      · exact .imap _ _
    · cases v <;> simp [hasType] at ht
      exact .istruct _ _
  · exact .ign t v


theorem inlineKeys_nil : (fs : Fields) → (vs : GoVals) → inlineMaps fs = 0 → inlineKeys fs vs = []
  | .nil, vs, _ => by cases vs <;> simp [inlineKeys]
  | .cons m a t rest, .nil, _ => by simp [inlineKeys]
  | .cons m a t rest, .cons v vs, h => by
    cases m
    case inline =>
      cases t <;> simp only [inlineMaps] at h
      case map => omega
      case struct fs' =>
        have : inlineMaps rest = 0 := by omega
        simp [inlineKeys, inlineKeys_nil rest vs this]
      all_goals simp [inlineKeys, inlineKeys_nil rest vs h]
    all_goals
      simp only [inlineMaps] at h
      simp [inlineKeys, inlineKeys_nil rest vs h]

/-- a key that is neither an alias nor an inline-map key is not written -/
theorem lastF_none (k : Bytes) : (fs : Fields) → (vs : GoVals) → Fields.wf fs = true → hasTypeF fs vs = true →
    k ∉ aliases fs → k ∉ inlineKeys fs vs → lastF fs vs k = none
  | .nil, vs, _, _, _, _ => by cases vs <;> simp [lastF]
  | .cons m a t rest, .nil, _, ht, _, _ => by simp [hasTypeF] at ht
  | .cons m a t rest, .cons v vs, hw, ht, ha, hi => by
    have sh := fshape hw ht
    simp only [hasTypeF, Bool.and_eq_true] at ht
    cases sh with
    | nam =>
      simp only [Fields.wf, Bool.and_eq_true] at hw
      simp only [aliases, List.mem_cons, not_or] at ha
      simp only [inlineKeys] at hi
      simp [lastF, lastF_none k rest vs hw.2 ht.2 ha.2 hi, ha.1]
    | omi =>
      simp only [Fields.wf, Bool.and_eq_true] at hw
      simp only [aliases, List.mem_cons, not_or] at ha
      simp only [inlineKeys] at hi
      simp [lastF, lastF_none k rest vs hw.2 ht.2 ha.2 hi, ha.1]
    | ign =>
      simp only [Fields.wf, Bool.and_eq_true] at hw
      simp only [aliases] at ha
      simp only [inlineKeys] at hi
      simp [lastF, lastF_none k rest vs hw.2 ht.2 ha hi]
    | istruct fs' vs' =>
      simp only [Fields.wf, Bool.and_eq_true, decide_eq_true_eq] at hw
      simp only [aliases, List.mem_append, not_or] at ha
      simp only [inlineKeys] at hi
      simp only [hasType, Bool.and_eq_true] at ht
      have h1 := lastF_none k fs' vs' hw.1.1 ht.1.1 ha.1 (by rw [inlineKeys_nil fs' vs' hw.1.2]; simp)
      simp [lastF, lastF_none k rest vs hw.2 ht.2 ha.2 hi, h1]
    | imap t' kvs =>
      simp only [Fields.wf, Bool.and_eq_true] at hw
      simp only [aliases] at ha
      simp only [inlineKeys, List.mem_append, not_or] at hi
      simp [lastF, lastF_none k rest vs hw.2 ht.2 ha hi.2, lastKV_none_of_not_mem t' k kvs hi.1]
    | imapNil t' =>
      simp only [Fields.wf, Bool.and_eq_true] at hw
      simp only [aliases] at ha
      simp only [inlineKeys] at hi
      simp [lastF, lastF_none k rest vs hw.2 ht.2 ha hi]


/-! ## What struct decoding yields on a struct encoding -/

def kvsOf : GoVal → GoKVs
  | .map kvs => kvs
  | _ => .nil

/-- field by field: `ws` is what the struct decoder stores (`final = false`: after `phase1`, inline maps still
hold their placeholder; `final = true`: after `phase2`) -/
def Dec (final : Bool) : Fields → GoVals → GoVals → Prop
  | .cons m _ t rest, .cons v vs, .cons w ws =>
    (match m, t, v with
     | .named, _, _ => decodeField (decode t) (zero t) (encode t v) = .ok w
     | .omit, _, _ =>
       decodeField (decode t) (zero t) (if equal (encode t v) (zeroDoc t) then .nil else encode t v) = .ok w
     | .ignored, _, _ => w = zero t
     | .inline, .struct fs', .struct vs' => ∃ ws', w = .struct ws' ∧ Dec final fs' vs' ws'
     | .inline, .map t', v =>
       if final then ∃ kvs', w = .map kvs' ∧ decodeP (decode t') (encodeKV t' (kvsOf v) .nil) = .ok kvs'
       else w = .mapNil
     | _, _, _ => True) ∧ Dec final rest vs ws
  | .nil, .nil, .nil => True
  | _, _, _ => False

/-- the induction hypothesis of the round trip, per field -/
def FieldsIH : Fields → GoVals → Prop
  | .cons m _ t rest, .cons v vs =>
    (match m, t, v with
     | .named, _, _ => RTx t (encode t v)
     | .omit, _, _ => RTx t (encode t v)
     | .inline, .struct fs', .struct vs' => FieldsIH fs' vs'
     | .inline, .map t', .map kvs => ∀ k x, lastKV t' kvs k = some x → RTx t' x
     | _, _, _ => True) ∧ FieldsIH rest vs
  | _, _ => True

/-- the encoding of the (first) inline map of a struct value: what is left of the document after `phase1` -/
def inlDoc : Fields → GoVals → PList
  | .cons .inline _ (.map t') _, .cons v _ => encodeKV t' (kvsOf v) .nil
  | .cons _ _ _ rest, .cons _ vs => inlDoc rest vs
  | _, _ => .nil

theorem phase2_noinl : (fs : Fields) → (vs : GoVals) → (m : PList) → inlineMaps fs = 0 → phase2 fs vs m = .ok (vs, m)
  | .nil, vs, m, _ => by cases vs <;> simp [phase2]
  | .cons md a t rest, .nil, m, _ => by cases md <;> simp [phase2]
  | .cons md a t rest, .cons v vs, m, h => by
    cases md
    case inline =>
      cases t <;> simp only [inlineMaps] at h
      case map => omega
      case struct fs' =>
        have : inlineMaps rest = 0 := by omega
        simp [phase2, phase2_noinl rest vs m this, Res.map]
      all_goals simp [phase2, phase2_noinl rest vs m h, Res.map]
    all_goals
      simp only [inlineMaps] at h
      simp [phase2, phase2_noinl rest vs m h, Res.map]

theorem dec_final_of_noinl : (fs : Fields) → (vs ws : GoVals) → inlineMaps fs = 0 → Dec false fs vs ws → Dec true fs vs ws
  | .nil, vs, ws, _, h => by cases vs <;> cases ws <;> simp_all [Dec]
  | .cons md a t rest, .nil, ws, _, h => by simp [Dec] at h
  | .cons md a t rest, .cons v vs, .nil, _, h => by simp [Dec] at h
  | .cons md a t rest, .cons v vs, .cons w ws, hn, h => by
    cases md
    case inline =>
      cases t <;> simp only [inlineMaps] at hn
      case map => omega
      case struct fs' =>
        have h1 : inlineMaps fs' = 0 := by omega
        have h2 : inlineMaps rest = 0 := by omega
        cases v <;> simp only [Dec] at h ⊢
        case struct vs' =>
          obtain ⟨⟨ws', rfl, hd⟩, hr⟩ := h
          exact ⟨⟨ws', rfl, dec_final_of_noinl fs' vs' ws' h1 hd⟩, dec_final_of_noinl rest vs ws h2 hr⟩
        all_goals exact ⟨trivial, dec_final_of_noinl rest vs ws h2 h.2⟩
      all_goals
        simp only [Dec] at h ⊢
        exact ⟨trivial, dec_final_of_noinl rest vs ws hn h.2⟩
    all_goals
      simp only [inlineMaps] at hn
      simp only [Dec] at h ⊢
      exact ⟨h.1, dec_final_of_noinl rest vs ws hn h.2⟩


theorem decodeField_ok {d : Val → Res GoVal} {z : GoVal} {x : Val} (h : ∃ v', d x = .ok v') :
    ∃ w, decodeField d z x = .ok w := by
  cases x <;> simp [decodeField] <;> exact h

theorem mapGet_of_find {m : PList} {k : Bytes} {x : Val} (h : mapFind m k = some x) : mapGet m k = x := by
  simp [mapGet, h]

theorem mapGet_of_none {m : PList} {k : Bytes} (h : mapFind m k = none) : mapGet m k = .nil := by
  simp [mapGet, h]

/-- `phase1` on a document that agrees with the struct's encoding on the struct's aliases -/
theorem phase1_ok : (fs : Fields) → (vs : GoVals) → (m : PList) → Fields.wf fs = true → hasTypeF fs vs = true →
    sortedP m = true → (aliases fs).Nodup → (∀ k ∈ inlineKeys fs vs, k ∉ aliases fs) →
    (∀ a ∈ aliases fs, mapFind m a = lastF fs vs a) → FieldsIH fs vs →
    ∃ ws m1, phase1 fs m = .ok (ws, m1) ∧ sortedP m1 = true ∧
      (∀ k, mapFind m1 k = if k ∈ aliases fs then none else mapFind m k) ∧ Dec false fs vs ws
  | .nil, .nil, m, _, _, hs, _, _, _, _ => ⟨.nil, m, by simp [phase1], hs, by simp [aliases], by simp [Dec]⟩
  | .nil, .cons _ _, m, _, ht, _, _, _, _, _ => by simp [hasTypeF] at ht
  | .cons md a t rest, .nil, m, _, ht, _, _, _, _, _ => by simp [hasTypeF] at ht
  | .cons md a t rest, .cons v vs, m, hw, ht, hs, hnd, hdj, hag, hih => by
    have sh := fshape hw ht
    simp only [hasTypeF, Bool.and_eq_true] at ht
    cases sh with
    | nam =>
      simp only [Fields.wf, Bool.and_eq_true] at hw
      simp only [aliases, List.nodup_cons] at hnd
      simp only [inlineKeys, aliases, List.mem_cons, not_or] at hdj
      simp only [FieldsIH] at hih
      have hrn : lastF rest vs a = none :=
        lastF_none a rest vs hw.2 ht.2 hnd.1 (fun hk => (hdj a hk).1 rfl)
      have hfa : mapFind m a = some (encode t v) := by
        rw [hag a (by simp [aliases])]; simp [lastF, hrn]
      obtain ⟨w, hwd⟩ := decodeField_ok (z := zero t) (by obtain ⟨v', h1, _⟩ := hih.1; exact ⟨v', h1⟩)
      obtain ⟨ws, m1, hp, hs1, hf1, hd1⟩ := phase1_ok rest vs (mapDel m a) hw.2 ht.2 (sorted_del a m hs) hnd.2
        (fun k hk => (hdj k hk).2)
        (by
          intro a' ha'
          have hne : a' ≠ a := by intro e; subst e; exact hnd.1 ha'
          rw [find_del a a' m hs, if_neg hne, hag a' (by simp [aliases, ha'])]
          simp [lastF, hne])
        hih.2
      refine ⟨.cons w ws, m1, ?_, hs1, ?_, ?_⟩
      · simp [phase1, mapGet_of_find hfa, hwd, hp, Res.bind, Res.map]
      · intro k
        rw [hf1 k, find_del a k m hs]
        by_cases e : k = a
        · subst e; simp [aliases]
        · simp [aliases, e]
      · simp only [Dec]; exact ⟨hwd, hd1⟩
    | omi =>
      simp only [Fields.wf, Bool.and_eq_true] at hw
      simp only [aliases, List.nodup_cons] at hnd
      simp only [inlineKeys, aliases, List.mem_cons, not_or] at hdj
      simp only [FieldsIH] at hih
      have hrn : lastF rest vs a = none :=
        lastF_none a rest vs hw.2 ht.2 hnd.1 (fun hk => (hdj a hk).1 rfl)
      have hga : mapGet m a = (if equal (encode t v) (zeroDoc t) then Val.nil else encode t v) := by
        have := hag a (by simp [aliases])
        simp only [lastF, hrn] at this
        by_cases z : equal (encode t v) (zeroDoc t) = true
        · simp only [z, if_true] at this ⊢; exact mapGet_of_none this
        · have z' : equal (encode t v) (zeroDoc t) = false := by simpa using z
          simp only [z', Bool.false_eq_true, if_false] at this ⊢
          exact mapGet_of_find (by simpa using this)
      obtain ⟨w, hwd⟩ : ∃ w, decodeField (decode t) (zero t)
          (if equal (encode t v) (zeroDoc t) then Val.nil else encode t v) = .ok w := by
        split
        · exact ⟨zero t, by simp [decodeField]⟩
        · exact decodeField_ok (by obtain ⟨v', h1, _⟩ := hih.1; exact ⟨v', h1⟩)
      obtain ⟨ws, m1, hp, hs1, hf1, hd1⟩ := phase1_ok rest vs (mapDel m a) hw.2 ht.2 (sorted_del a m hs) hnd.2
        (fun k hk => (hdj k hk).2)
        (by
          intro a' ha'
          have hne : a' ≠ a := by intro e; subst e; exact hnd.1 ha'
          rw [find_del a a' m hs, if_neg hne, hag a' (by simp [aliases, ha'])]
          simp only [lastF]
          split <;> simp [hne])
        hih.2
      refine ⟨.cons w ws, m1, ?_, hs1, ?_, ?_⟩
      · simp [phase1, hga, hwd, hp, Res.bind, Res.map]
      · intro k
        rw [hf1 k, find_del a k m hs]
        by_cases e : k = a
        · subst e; simp [aliases]
        · simp [aliases, e]
      · simp only [Dec]; exact ⟨hwd, hd1⟩
    | ign =>
      simp only [Fields.wf, Bool.and_eq_true] at hw
      simp only [aliases] at hnd hdj hag ⊢
      simp only [inlineKeys] at hdj
      simp only [FieldsIH] at hih
      obtain ⟨ws, m1, hp, hs1, hf1, hd1⟩ := phase1_ok rest vs m hw.2 ht.2 hs hnd hdj
        (by intro a' ha'; rw [hag a' ha']; simp [lastF]) hih.2
      exact ⟨.cons (zero t) ws, m1, by simp [phase1, hp, Res.map], hs1, hf1, by simp [Dec, hd1]⟩
    | istruct fs' vs' =>
      simp only [Fields.wf, Bool.and_eq_true, decide_eq_true_eq] at hw
      simp only [aliases, List.nodup_append] at hnd
      simp only [inlineKeys, aliases, List.mem_append, not_or] at hdj
      simp only [FieldsIH] at hih
      simp only [hasType, Bool.and_eq_true] at ht
      have hik : inlineKeys fs' vs' = [] := inlineKeys_nil fs' vs' hw.1.2
      obtain ⟨ws1, m1, hp1, hs1, hf1, hd1⟩ := phase1_ok fs' vs' m hw.1.1 ht.1.1 hs hnd.1
        (by rw [hik]; simp)
        (by
          intro a' ha'
          rw [hag a' (by simp [aliases, ha'])]
          have : lastF rest vs a' = none :=
            lastF_none a' rest vs hw.2 ht.2 (fun hr => hnd.2.2 a' ha' a' hr rfl) (fun hk => (hdj a' hk).1 ha')
          simp [lastF, this])
        hih.1
      obtain ⟨ws, m2, hp2, hs2, hf2, hd2⟩ := phase1_ok rest vs m1 hw.2 ht.2 hs1 hnd.2.1
        (fun k hk => (hdj k hk).2)
        (by
          intro a' ha'
          have hn' : a' ∉ aliases fs' := fun h1 => hnd.2.2 a' h1 a' ha' rfl
          rw [hf1 a', if_neg hn', hag a' (by simp [aliases, ha'])]
          have : lastF fs' vs' a' = none := lastF_none a' fs' vs' hw.1.1 ht.1.1 hn' (by rw [hik]; simp)
          simp [lastF, this])
        hih.2
      refine ⟨.cons (.struct ws1) ws, m2, ?_, hs2, ?_, ?_⟩
      · simp [phase1, hp1, phase2_noinl fs' ws1 m1 hw.1.2, hp2, Res.bind, Res.map]
      · intro k
        rw [hf2 k, hf1 k]
        by_cases e1 : k ∈ aliases fs' <;> by_cases e2 : k ∈ aliases rest <;> simp [aliases, e1, e2]
      · simp only [Dec]; exact ⟨⟨ws1, rfl, hd1⟩, hd2⟩
    | imap t' kvs =>
      simp only [Fields.wf, Bool.and_eq_true] at hw
      simp only [aliases] at hnd hag ⊢
      simp only [inlineKeys, aliases, List.mem_append] at hdj
      simp only [FieldsIH] at hih
      obtain ⟨ws, m1, hp, hs1, hf1, hd1⟩ := phase1_ok rest vs m hw.2 ht.2 hs hnd
        (fun k hk => hdj k (Or.inr hk))
        (by
          intro a' ha'
          rw [hag a' ha']
          have : lastKV t' kvs a' = none :=
            lastKV_none_of_not_mem t' a' kvs (fun hk => hdj a' (Or.inl hk) ha')
          simp [lastF, this])
        hih.2
      exact ⟨.cons .mapNil ws, m1, by simp [phase1, zero, hp, Res.map], hs1, hf1, by simp only [Dec]; exact ⟨by simp, hd1⟩⟩
    | imapNil t' =>
      simp only [Fields.wf, Bool.and_eq_true] at hw
      simp only [aliases] at hnd hag hdj ⊢
      simp only [inlineKeys] at hdj
      simp only [FieldsIH] at hih
      obtain ⟨ws, m1, hp, hs1, hf1, hd1⟩ := phase1_ok rest vs m hw.2 ht.2 hs hnd hdj
        (by intro a' ha'; rw [hag a' ha']; simp [lastF]) hih.2
      exact ⟨.cons .mapNil ws, m1, by simp [phase1, zero, hp, Res.map], hs1, hf1, by simp only [Dec]; exact ⟨by simp, hd1⟩⟩


theorem decodeP_enc (t' : GoType) (kvs : GoKVs) (h : ∀ k x, lastKV t' kvs k = some x → RTx t' x) :
    ∃ kvs', decodeP (decode t') (encodeKV t' kvs .nil) = .ok kvs' ∧ ∀ k, lastKV t' kvs' k = lastKV t' kvs k := by
  have sp := fun k => encodeKV_spec t' k kvs .nil rfl
  obtain ⟨kvs', hd, hk⟩ := decodeP_sorted t' (encodeKV t' kvs .nil) (sp []).1 (by
    intro k x hf
    rw [(sp k).2] at hf
    simp [mapFind] at hf
    exact h k x hf)
  refine ⟨kvs', hd, ?_⟩
  intro k; rw [hk k, (sp k).2]; simp [mapFind]

theorem phase2_ok : (fs : Fields) → (vs ws : GoVals) → Fields.wf fs = true → hasTypeF fs vs = true →
    inlineMaps fs ≤ 1 → Dec false fs vs ws → FieldsIH fs vs →
    ∃ ws2 m2, phase2 fs ws (inlDoc fs vs) = .ok (ws2, m2) ∧ Dec true fs vs ws2
  | .nil, .nil, .nil, _, _, _, _, _ => ⟨.nil, inlDoc .nil .nil, by simp [phase2], by simp [Dec]⟩
  | .nil, .nil, .cons _ _, _, _, _, hd, _ => by simp [Dec] at hd
  | .nil, .cons _ _, _, _, ht, _, _, _ => by simp [hasTypeF] at ht
  | .cons md a t rest, .nil, _, _, ht, _, _, _ => by simp [hasTypeF] at ht
  | .cons md a t rest, .cons v vs, .nil, _, _, _, hd, _ => by simp [Dec] at hd
  | .cons md a t rest, .cons v vs, .cons w ws, hw, ht, hn, hd, hih => by
    have sh := fshape hw ht
    simp only [hasTypeF, Bool.and_eq_true] at ht
    cases sh with
    | nam =>
      simp only [Fields.wf, Bool.and_eq_true] at hw
      simp only [inlineMaps] at hn
      simp only [Dec] at hd
      simp only [FieldsIH] at hih
      obtain ⟨ws2, m2, hp, hd2⟩ := phase2_ok rest vs ws hw.2 ht.2 hn hd.2 hih.2
      exact ⟨.cons w ws2, m2, by simp [phase2, inlDoc, hp, Res.map], by simp only [Dec]; exact ⟨hd.1, hd2⟩⟩
    | omi =>
      simp only [Fields.wf, Bool.and_eq_true] at hw
      simp only [inlineMaps] at hn
      simp only [Dec] at hd
      simp only [FieldsIH] at hih
      obtain ⟨ws2, m2, hp, hd2⟩ := phase2_ok rest vs ws hw.2 ht.2 hn hd.2 hih.2
      exact ⟨.cons w ws2, m2, by simp [phase2, inlDoc, hp, Res.map], by simp only [Dec]; exact ⟨hd.1, hd2⟩⟩
    | ign =>
      simp only [Fields.wf, Bool.and_eq_true] at hw
      simp only [inlineMaps] at hn
      simp only [Dec] at hd
      simp only [FieldsIH] at hih
      obtain ⟨ws2, m2, hp, hd2⟩ := phase2_ok rest vs ws hw.2 ht.2 hn hd.2 hih.2
      exact ⟨.cons w ws2, m2, by simp [phase2, inlDoc, hp, Res.map], by simp only [Dec]; exact ⟨hd.1, hd2⟩⟩
    | istruct fs' vs' =>
      simp only [Fields.wf, Bool.and_eq_true, decide_eq_true_eq] at hw
      simp only [inlineMaps] at hn
      simp only [Dec] at hd
      simp only [FieldsIH] at hih
      obtain ⟨⟨ws', rfl, hd'⟩, hdr⟩ := hd
      obtain ⟨ws2, m2, hp, hd2⟩ := phase2_ok rest vs ws hw.2 ht.2 (by omega) hdr hih.2
      exact ⟨.cons (.struct ws') ws2, m2, by simp [phase2, inlDoc, hp, Res.map],
        by simp only [Dec]; exact ⟨⟨ws', rfl, dec_final_of_noinl fs' vs' ws' hw.1.2 hd'⟩, hd2⟩⟩
    | imap t' kvs =>
      simp only [Fields.wf, Bool.and_eq_true] at hw
      simp only [inlineMaps] at hn
      simp only [Dec] at hd
      simp only [FieldsIH] at hih
      have hr0 : inlineMaps rest = 0 := by omega
      obtain ⟨kvs', hdk, _⟩ := decodeP_enc t' kvs hih.1
      refine ⟨.cons (.map kvs') ws, .nil, ?_, ?_⟩
      · simp [phase2, inlDoc, kvsOf, hdk, phase2_noinl rest ws .nil hr0, Res.bind, Res.map]
      · simp only [Dec]
        exact ⟨by simp [kvsOf, hdk], dec_final_of_noinl rest vs ws hr0 hd.2⟩
    | imapNil t' =>
      simp only [Fields.wf, Bool.and_eq_true] at hw
      simp only [inlineMaps] at hn
      simp only [Dec] at hd
      have hr0 : inlineMaps rest = 0 := by omega
      refine ⟨.cons (.map .nil) ws, .nil, ?_, ?_⟩
      · simp [phase2, inlDoc, kvsOf, encodeKV, decodeP, phase2_noinl rest ws .nil hr0, Res.bind, Res.map]
      · simp only [Dec]
        exact ⟨by simp [kvsOf, encodeKV, decodeP], dec_final_of_noinl rest vs ws hr0 hd.2⟩

theorem inlDoc_sorted : (fs : Fields) → (vs : GoVals) → sortedP (inlDoc fs vs) = true
  | .nil, vs => by cases vs <;> simp [inlDoc, sortedP]
  | .cons md a t rest, .nil => by cases md <;> simp [inlDoc, sortedP]
  | .cons md a t rest, .cons v vs => by
    cases md
    case inline =>
      cases t
      case map t' => simp only [inlDoc]; exact (encodeKV_spec t' [] (kvsOf v) .nil rfl).1
      all_goals simp only [inlDoc]; exact inlDoc_sorted rest vs
    all_goals simp only [inlDoc]; exact inlDoc_sorted rest vs

/-- outside the aliases the struct encoding holds exactly the inline map's entries -/
theorem lastF_inl (k : Bytes) : (fs : Fields) → (vs : GoVals) → Fields.wf fs = true → hasTypeF fs vs = true →
    inlineMaps fs ≤ 1 → k ∉ aliases fs → lastF fs vs k = mapFind (inlDoc fs vs) k
  | .nil, vs, _, _, _, _ => by cases vs <;> simp [lastF, inlDoc, mapFind]
  | .cons md a t rest, .nil, _, ht, _, _ => by simp [hasTypeF] at ht
  | .cons md a t rest, .cons v vs, hw, ht, hn, ha => by
    have sh := fshape hw ht
    simp only [hasTypeF, Bool.and_eq_true] at ht
    cases sh with
    | nam =>
      simp only [Fields.wf, Bool.and_eq_true] at hw
      simp only [inlineMaps] at hn
      simp only [aliases, List.mem_cons, not_or] at ha
      simp [lastF, inlDoc, ← lastF_inl k rest vs hw.2 ht.2 hn ha.2, ha.1]
    | omi =>
      simp only [Fields.wf, Bool.and_eq_true] at hw
      simp only [inlineMaps] at hn
      simp only [aliases, List.mem_cons, not_or] at ha
      simp [lastF, inlDoc, ← lastF_inl k rest vs hw.2 ht.2 hn ha.2, ha.1]
    | ign =>
      simp only [Fields.wf, Bool.and_eq_true] at hw
      simp only [inlineMaps] at hn
      simp only [aliases] at ha
      simp [lastF, inlDoc, ← lastF_inl k rest vs hw.2 ht.2 hn ha]
    | istruct fs' vs' =>
      simp only [Fields.wf, Bool.and_eq_true, decide_eq_true_eq] at hw
      simp only [inlineMaps] at hn
      simp only [aliases, List.mem_append, not_or] at ha
      simp only [hasType, Bool.and_eq_true] at ht
      have h1 : lastF fs' vs' k = none :=
        lastF_none k fs' vs' hw.1.1 ht.1.1 ha.1 (by rw [inlineKeys_nil fs' vs' hw.1.2]; simp)
      simp [lastF, inlDoc, ← lastF_inl k rest vs hw.2 ht.2 (by omega) ha.2, h1]
    | imap t' kvs =>
      simp only [Fields.wf, Bool.and_eq_true] at hw
      simp only [inlineMaps] at hn
      simp only [aliases] at ha
      have hr0 : inlineMaps rest = 0 := by omega
      have h1 : lastF rest vs k = none :=
        lastF_none k rest vs hw.2 ht.2 ha (by rw [inlineKeys_nil rest vs hr0]; simp)
      simp [lastF, inlDoc, kvsOf, h1, (encodeKV_spec t' k kvs .nil rfl).2, mapFind]
    | imapNil t' =>
      simp only [Fields.wf, Bool.and_eq_true] at hw
      simp only [inlineMaps] at hn
      simp only [aliases] at ha
      have hr0 : inlineMaps rest = 0 := by omega
      have h1 : lastF rest vs k = none :=
        lastF_none k rest vs hw.2 ht.2 ha (by rw [inlineKeys_nil rest vs hr0]; simp)
      simp [lastF, inlDoc, kvsOf, encodeKV, h1, mapFind]

theorem inlDoc_none (k : Bytes) : (fs : Fields) → (vs : GoVals) → Fields.wf fs = true → hasTypeF fs vs = true →
    k ∉ inlineKeys fs vs → mapFind (inlDoc fs vs) k = none
  | .nil, vs, _, _, _ => by cases vs <;> simp [inlDoc, mapFind]
  | .cons md a t rest, .nil, _, ht, _ => by simp [hasTypeF] at ht
  | .cons md a t rest, .cons v vs, hw, ht, hi => by
    have sh := fshape hw ht
    simp only [hasTypeF, Bool.and_eq_true] at ht
    cases sh with
    | nam =>
      simp only [Fields.wf, Bool.and_eq_true] at hw
      simp only [inlineKeys] at hi
      simp [inlDoc, inlDoc_none k rest vs hw.2 ht.2 hi]
    | omi =>
      simp only [Fields.wf, Bool.and_eq_true] at hw
      simp only [inlineKeys] at hi
      simp [inlDoc, inlDoc_none k rest vs hw.2 ht.2 hi]
    | ign =>
      simp only [Fields.wf, Bool.and_eq_true] at hw
      simp only [inlineKeys] at hi
      simp [inlDoc, inlDoc_none k rest vs hw.2 ht.2 hi]
    | istruct fs' vs' =>
      simp only [Fields.wf, Bool.and_eq_true] at hw
      simp only [inlineKeys] at hi
      simp [inlDoc, inlDoc_none k rest vs hw.2 ht.2 hi]
    | imap t' kvs =>
      simp only [inlineKeys, List.mem_append, not_or] at hi
      simp [inlDoc, kvsOf, (encodeKV_spec t' k kvs .nil rfl).2, mapFind, lastKV_none_of_not_mem t' k kvs hi.1]
    | imapNil t' => simp [inlDoc, kvsOf, encodeKV, mapFind]


/-! ## Re-encoding what was decoded -/

theorem enc_nil_ty {t : GoType} {v : GoVal} (h : hasType t v = true) (he : encode t v = .nil) : zeroDoc t = .nil := by
  cases t <;> simp [zeroDoc] <;> cases v <;> simp [hasType] at h <;> simp [encode] at he

theorem field_rt {t : GoType} {x : Val} {w : GoVal} (hnil : x = .nil → zeroDoc t = .nil) (hr : RTx t x)
    (hd : decodeField (decode t) (zero t) x = .ok w) : encode t w = x := by
  obtain ⟨v', h1, h2⟩ := hr
  cases x <;> simp only [decodeField] at hd
  case nil =>
    cases hd
    rw [zeroDoc_eq t]; exact hnil rfl
  all_goals
    rw [h1] at hd; cases hd; exact h2

theorem dec_lastF (k : Bytes) : (fs : Fields) → (vs ws : GoVals) → Fields.wf fs = true → hasTypeF fs vs = true →
    Dec true fs vs ws → FieldsIH fs vs → lastF fs ws k = lastF fs vs k
  | .nil, .nil, .nil, _, _, _, _ => rfl
  | .nil, .nil, .cons _ _, _, _, hd, _ => by simp [Dec] at hd
  | .nil, .cons _ _, _, _, ht, _, _ => by simp [hasTypeF] at ht
  | .cons md a t rest, .nil, _, _, ht, _, _ => by simp [hasTypeF] at ht
  | .cons md a t rest, .cons v vs, .nil, _, _, hd, _ => by simp [Dec] at hd
  | .cons md a t rest, .cons v vs, .cons w ws, hw, ht, hd, hih => by
    have sh := fshape hw ht
    simp only [hasTypeF, Bool.and_eq_true] at ht
    cases sh with
    | nam =>
      simp only [Fields.wf, Bool.and_eq_true] at hw
      simp only [Dec] at hd
      simp only [FieldsIH] at hih
      have := field_rt (fun e => enc_nil_ty ht.1 e) hih.1 hd.1
      simp [lastF, this, dec_lastF k rest vs ws hw.2 ht.2 hd.2 hih.2]
    | omi =>
      simp only [Fields.wf, Bool.and_eq_true] at hw
      simp only [Dec] at hd
      simp only [FieldsIH] at hih
      have ihr := dec_lastF k rest vs ws hw.2 ht.2 hd.2 hih.2
      by_cases z : equal (encode t v) (zeroDoc t) = true
      · have hd1 := hd.1
        simp only [z, if_true, decodeField] at hd1
        cases hd1
        simp [lastF, z, zeroDoc_eq t, equal_refl', ihr]
      · have z' : equal (encode t v) (zeroDoc t) = false := by simpa using z
        have hd1 := hd.1
        simp only [z', Bool.false_eq_true, if_false] at hd1
        have := field_rt (fun e => enc_nil_ty ht.1 e) hih.1 hd1
        simp [lastF, this, z', ihr]
    | ign =>
      simp only [Fields.wf, Bool.and_eq_true] at hw
      simp only [Dec] at hd
      simp only [FieldsIH] at hih
      simp [lastF, dec_lastF k rest vs ws hw.2 ht.2 hd.2 hih.2]
    | istruct fs' vs' =>
      simp only [Fields.wf, Bool.and_eq_true, decide_eq_true_eq] at hw
      simp only [Dec] at hd
      simp only [FieldsIH] at hih
      simp only [hasType, Bool.and_eq_true] at ht
      obtain ⟨⟨ws', rfl, hd'⟩, hdr⟩ := hd
      simp [lastF, dec_lastF k fs' vs' ws' hw.1.1 ht.1.1 hd' hih.1, dec_lastF k rest vs ws hw.2 ht.2 hdr hih.2]
    | imap t' kvs =>
      simp only [Fields.wf, Bool.and_eq_true] at hw
      simp only [Dec] at hd
      simp only [FieldsIH] at hih
      obtain ⟨⟨kvs', rfl, hdk⟩, hdr⟩ := hd
      obtain ⟨kvs'', hdk', hk⟩ := decodeP_enc t' kvs hih.1
      simp only [kvsOf] at hdk
      rw [hdk'] at hdk; cases hdk
      simp [lastF, hk k, dec_lastF k rest vs ws hw.2 ht.2 hdr hih.2]
    | imapNil t' =>
      simp only [Fields.wf, Bool.and_eq_true] at hw
      simp only [Dec] at hd
      simp only [FieldsIH] at hih
      obtain ⟨⟨kvs', rfl, hdk⟩, hdr⟩ := hd
      simp only [kvsOf, encodeKV, decodeP] at hdk
      cases hdk
      simp [lastF, lastKV, dec_lastF k rest vs ws hw.2 ht.2 hdr hih.2]

/-- the struct decoder on a struct encoding -/
theorem struct_rt (fs : Fields) (vs : GoVals) (hw : (GoType.struct fs).wf = true)
    (ht : hasType (.struct fs) (.struct vs) = true) (hih : FieldsIH fs vs) :
    ∃ ws, decode (.struct fs) (encode (.struct fs) (.struct vs)) = .ok (.struct ws) ∧ Dec true fs vs ws ∧
      encode (.struct fs) (.struct ws) = encode (.struct fs) (.struct vs) := by
  simp only [GoType.wf, Bool.and_eq_true, decide_eq_true_eq] at hw
  simp only [hasType, Bool.and_eq_true, List.all_eq_true, Bool.not_eq_true', List.contains_eq_mem, decide_eq_false_iff_not] at ht
  obtain ⟨⟨hfw, hn1⟩, hnd⟩ := hw
  obtain ⟨htf, hdj⟩ := ht
  have sp := fun k => encodeFields_spec k fs vs .nil rfl
  obtain ⟨ws1, m1, hp1, hs1, hf1, hd1⟩ := phase1_ok fs vs (encodeFields fs vs .nil) hfw htf (sp []).1 hnd
    (fun k hk => hdj k hk)
    (by intro a _; rw [(sp a).2]; simp [mapFind]) hih
  have hm1 : m1 = inlDoc fs vs := by
    apply sorted_ext _ _ hs1 (inlDoc_sorted fs vs)
    intro k
    rw [hf1 k]
    by_cases e : k ∈ aliases fs
    · simp only [e, if_true]
      exact (inlDoc_none k fs vs hfw htf (fun hk => hdj k hk e)).symm
    · simp only [e, if_false]
      rw [(sp k).2]; simp only [mapFind, Option.or_none]
      exact lastF_inl k fs vs hfw htf hn1 e
  subst hm1
  obtain ⟨ws2, m2, hp2, hd2⟩ := phase2_ok fs vs ws1 hfw htf hn1 hd1 hih
  refine ⟨ws2, by simp [encode, decode, hp1, hp2, Res.bind, Res.map], hd2, ?_⟩
  simp only [encode]
  congr 1
  have sp2 := fun k => encodeFields_spec k fs ws2 .nil rfl
  apply sorted_ext _ _ (sp2 []).1 (sp []).1
  intro k
  rw [(sp2 k).2, (sp k).2, dec_lastF k fs vs ws2 hfw htf hd2 hih]


/-! ## The round trip for every well-formed type -/

mutual
  theorem rt_all : (v : GoVal) → ∀ t : GoType, t.wf = true → hasType t v = true → RTx t (encode t v)
    | .int v, t, _, h => by
      cases t <;> simp [hasType] at h
      exact ⟨.int v, by simp [encode, dec_int _ _ h], by simp [encode]⟩
    | .uint v, t, _, h => by
      cases t <;> simp [hasType] at h
      exact ⟨.uint v, by simp [encode, dec_uint _ _ h], by simp [encode]⟩
    | .f32 b, t, _, h => by
      cases t <;> simp [hasType] at h
      exact ⟨.f32 b, by simp [encode, dec_f32 _ h.2], by simp [encode]⟩
    | .f64 b, t, _, h => by
      cases t <;> simp [hasType] at h
      exact ⟨.f64 b, by simp [encode, dec_f64], by simp [encode]⟩
    | .str s, t, _, h => by
      cases t <;> simp [hasType] at h
      exact ⟨.str s, by simp [encode, dec_str], by simp [encode]⟩
    | .bool b, t, _, h => by
      cases t <;> simp [hasType] at h
      exact ⟨.bool b, by simp [encode, dec_bool], by simp [encode]⟩
    | .bytesNil, t, _, h => by
      cases t <;> simp [hasType] at h
      exact ⟨.bytes [], by simp [encode, dec_bytes], by simp [encode]⟩
    | .bytes bs, t, _, h => by
      cases t <;> simp [hasType] at h
      exact ⟨.bytes bs, by simp [encode, dec_bytes], by simp [encode]⟩
    | .barr bs, t, _, h => by
      cases t <;> simp [hasType] at h
      exact ⟨.barr bs, by simp [encode, dec_barr _ _ h.1], by simp [encode]⟩
    | .time ms lost, t, _, h => by
      cases t <;> simp [hasType] at h
      exact ⟨.time ms 0, by simp [encode, dec_time], by simp [encode]⟩
    | .dur ns, t, _, h => by
      cases t <;> simp [hasType] at h
      exact ⟨.dur (durOfMs (durMs ns)), by simp [encode, dec_dur], by simp [encode, durMs_back ns h]⟩
    | .uuid bs, t, _, h => by
      cases t <;> simp [hasType] at h
      exact ⟨.uuid bs, by simp [encode, dec_uuid _ h.1 h.2], by simp [encode]⟩
    | .ptrNil, t, _, h => by
      cases t <;> simp [hasType] at h
      exact ⟨.ptrNil, by simp [encode, decode], by simp [encode]⟩
    | .ptr v, t, hn, h => by
      cases t <;> simp [hasType] at h
      rename_i t'
      simp only [GoType.wf, Bool.and_eq_true] at hn
      obtain ⟨v', hd, he⟩ := rt_all v t' hn.2 h
      simp only [encode]
      cases hx : encode t' v with
      | nil => exact ⟨.ptrNil, by simp [decode], by simp [encode]⟩
      | _ =>
        rw [hx] at hd he
        exact ⟨.ptr v', by simp [decode, hd, Res.map], by simp [encode, he]⟩
    | .sliceNil, t, _, h => by
      cases t <;> simp [hasType] at h
      exact ⟨.slice .nil, by simp [encode, decode, decodeL, Res.map], by simp [encode, encodeL]⟩
    | .slice xs, t, hn, h => by
      cases t <;> simp [hasType] at h
      rename_i t'
      simp only [GoType.wf, Bool.and_eq_true] at hn
      obtain ⟨vs', hd, he, _⟩ := rt_allL xs t' hn.2 h
      exact ⟨.slice vs', by simp [encode, decode, hd, Res.map], by simp [encode, he]⟩
    | .arr xs, t, hn, h => by
      cases t <;> simp [hasType] at h
      rename_i n t'
      simp only [GoType.wf, Bool.and_eq_true] at hn
      obtain ⟨vs', hd, he, hl⟩ := rt_allL xs t' hn.2 h.2
      have hlen : ¬ (encodeL t' xs).length > n := by rw [encodeL_length]; omega
      refine ⟨.arr vs', ?_, by simp [encode, he]⟩
      simp [encode, decode, hlen, hd, Res.map, padTo_full _ n vs' (by omega)]
    | .mapNil, t, _, h => by
      cases t <;> simp [hasType] at h
      exact ⟨.map .nil, by simp [encode, decode, decodeP, Res.map], by simp [encode, encodeKV]⟩
    | .map kvs, t, hn, h => by
      cases t <;> simp [hasType] at h
      rename_i t'
      simp only [GoType.wf] at hn
      have sp := fun k => encodeKV_spec t' k kvs .nil rfl
      obtain ⟨kvs', hd, hk⟩ := decodeP_sorted t' (encodeKV t' kvs .nil) (sp []).1 (by
        intro k x hf
        rw [(sp k).2] at hf
        simp [mapFind] at hf
        exact rt_allKV kvs t' hn h.1 k x hf)
      exact ⟨.map kvs', by simp [encode, decode, hd, Res.map],
        by simp only [encode]; congr 1; exact rebuild_eq t' kvs' _ (sp []).1 hk⟩
    | .struct vs, t, hn, h => by
      cases t <;> try (simp [hasType] at h; done)
      rename_i fs
      have hfw : Fields.wf fs = true := by
        simp only [GoType.wf, Bool.and_eq_true] at hn; exact hn.1.1
      have htf : hasTypeF fs vs = true := by
        simp only [hasType, Bool.and_eq_true] at h; exact h.1
      obtain ⟨ws, hd, _, he⟩ := struct_rt fs vs hn h (rt_allF vs fs hfw htf)
      exact ⟨.struct ws, hd, he⟩
    | .anyNil, t, _, h => by
      cases t <;> simp [hasType] at h
      exact ⟨.anyNil, by simp [encode, dec_any .nil (by intro m; simp), generic], by simp [encode]⟩
    | .any t' v, t, _, h => by
      cases t <;> simp [hasType] at h
      have hg := gen_enc v t'
      have hne : ∀ m, encode t' v ≠ .err m := by
        intro m e; rw [e] at hg; simp [genDoc] at hg
      exact ⟨generic (encode t' v), by simp [encode, dec_any _ hne], by simpa [encode] using enc_generic _ hg⟩
  theorem rt_allL : (xs : GoVals) → ∀ t : GoType, t.wf = true → hasTypeL t xs = true →
      ∃ vs', decodeL (decode t) (encodeL t xs) = .ok vs' ∧ encodeL t vs' = encodeL t xs ∧ vs'.length = xs.length
    | .nil, _, _, _ => ⟨.nil, by simp [encodeL, decodeL], rfl, rfl⟩
    | .cons v vs, t, hn, h => by
      simp only [hasTypeL, Bool.and_eq_true] at h
      obtain ⟨v', hd, he⟩ := rt_all v t hn h.1
      obtain ⟨vs', hds, hes, hl⟩ := rt_allL vs t hn h.2
      exact ⟨.cons v' vs', by simp [encodeL, decodeL, hd, hds, Res.bind, Res.map], by simp [encodeL, he, hes],
        by simp [GoVals.length, hl]⟩
  theorem rt_allKV : (kvs : GoKVs) → ∀ t : GoType, t.wf = true → hasTypeKV t kvs = true →
      ∀ k x, lastKV t kvs k = some x → RTx t x
    | .nil, _, _, _, k, x, hf => by simp [lastKV] at hf
    | .cons k0 v kvs, t, hn, h, k, x, hf => by
      simp only [hasTypeKV, Bool.and_eq_true] at h
      simp only [lastKV] at hf
      cases hl : lastKV t kvs k with
      | some x' =>
        rw [hl] at hf; simp at hf; subst hf
        exact rt_allKV kvs t hn h.2 k x' hl
      | none =>
        rw [hl] at hf
        by_cases e : k = k0
        · simp [e] at hf; subst hf; exact rt_all v t hn h.1.2
        · simp [e] at hf
  theorem rt_allF : (vs : GoVals) → ∀ fs : Fields, Fields.wf fs = true → hasTypeF fs vs = true → FieldsIH fs vs
    | .nil, fs, _, _ => by cases fs <;> simp [FieldsIH]
    | .cons v vs, .nil, _, _ => by simp [FieldsIH]
    | .cons v vs, .cons md a t rest, hw, ht => by
      simp only [hasTypeF, Bool.and_eq_true] at ht
      cases md
      · simp only [Fields.wf, Bool.and_eq_true] at hw
        simp only [FieldsIH]; exact ⟨rt_all v t hw.1 ht.1, rt_allF vs rest hw.2 ht.2⟩
      · simp only [Fields.wf, Bool.and_eq_true] at hw
        simp only [FieldsIH]; exact ⟨rt_all v t hw.1 ht.1, rt_allF vs rest hw.2 ht.2⟩
      · cases t <;> try (simp [Fields.wf] at hw; done)
        case map t' =>
          simp only [Fields.wf, Bool.and_eq_true] at hw
          cases v <;> try (simp [hasType] at ht; done)
          case mapNil => simp only [FieldsIH]; exact ⟨trivial, rt_allF vs rest hw.2 ht.2⟩
          case map kvs =>
            simp only [hasType, Bool.and_eq_true] at ht
            simp only [FieldsIH]; exact ⟨rt_allKV kvs t' hw.1 ht.1.1, rt_allF vs rest hw.2 ht.2⟩
        case struct fs' =>
          simp only [Fields.wf, Bool.and_eq_true] at hw
          cases v <;> try (simp [hasType] at ht; done)
          case struct vs' =>
            simp only [hasType, Bool.and_eq_true] at ht
            simp only [FieldsIH]; exact ⟨rt_allF vs' fs' hw.1.1 ht.1.1, rt_allF vs rest hw.2 ht.2⟩
      · simp only [Fields.wf, Bool.and_eq_true] at hw
        simp only [FieldsIH]; exact ⟨trivial, rt_allF vs rest hw.2 ht.2⟩
end

end Uniflow.Codec
