/-
Vocabulary and helper lemmas for C18 (the property theorems are in `Props/C18.lean`).

Vocabulary (all by structural recursion over `Doc`):
  `AllStr P d`        every string of `d` – string leaves AND map keys – satisfies `P`
  `mapStr f d`        `d` with every string leaf and every map key replaced by `f` of it; nothing else changes
  `KeysDistinct f d`  in every map of `d` the keys are pairwise different after `f`
                      (`WF d := KeysDistinct id d`: what every Go `map[string]any` satisfies)
  `Same a b`          `a` and `b` are the same JSON value: equal leaves, lists equal element by
                      element, maps equal as *unordered* sets of entries (Go maps have no order)
-/
import Uniflow.Model.Template

namespace Uniflow.Template

mutual
def AllStr (P : String → Prop) : Doc → Prop
  | .null => True
  | .bool _ => True
  | .num _ => True
  | .str s => P s
  | .list xs => AllStrList P xs
  | .map kvs => AllStrMap P kvs
def AllStrList (P : String → Prop) : List Doc → Prop
  | [] => True
  | x :: xs => AllStr P x ∧ AllStrList P xs
def AllStrMap (P : String → Prop) : List (String × Doc) → Prop
  | [] => True
  | (k, v) :: r => P k ∧ AllStr P v ∧ AllStrMap P r
end

mutual
def mapStr (f : String → String) : Doc → Doc
  | .null => .null
  | .bool b => .bool b
  | .num n => .num n
  | .str s => .str (f s)
  | .list xs => .list (mapStrList f xs)
  | .map kvs => .map (mapStrMap f kvs)
def mapStrList (f : String → String) : List Doc → List Doc
  | [] => []
  | x :: xs => mapStr f x :: mapStrList f xs
def mapStrMap (f : String → String) : List (String × Doc) → List (String × Doc)
  | [] => []
  | (k, v) :: r => (f k, mapStr f v) :: mapStrMap f r
end

mutual
def KeysDistinct (f : String → String) : Doc → Prop
  | .null => True
  | .bool _ => True
  | .num _ => True
  | .str _ => True
  | .list xs => KeysDistinctList f xs
  | .map kvs => (kvs.map fun p => f p.1).Nodup ∧ KeysDistinctMap f kvs
def KeysDistinctList (f : String → String) : List Doc → Prop
  | [] => True
  | x :: xs => KeysDistinct f x ∧ KeysDistinctList f xs
def KeysDistinctMap (f : String → String) : List (String × Doc) → Prop
  | [] => True
  | (_, v) :: r => KeysDistinct f v ∧ KeysDistinctMap f r
end

/-- Well-formed document: map keys are pairwise different (true of every Go map). -/
def WF (d : Doc) : Prop := KeysDistinct id d

/-- A document without template action: no string leaf and no key contains `{{`. -/
def PlainDoc (d : Doc) : Prop := AllStr plain d

mutual
def Same : Doc → Doc → Prop
  | .null, b => b = .null
  | .bool x, b => b = .bool x
  | .num n, b => b = .num n
  | .str s, b => b = .str s
  | .list xs, b => ∃ ys, b = .list ys ∧ SameList xs ys
  | .map kvs, b => ∃ l kvs', b = .map kvs' ∧ SameMap kvs l ∧ kvs'.Perm l
def SameList : List Doc → List Doc → Prop
  | [], ys => ys = []
  | x :: xs, ys => ∃ y ys', ys = y :: ys' ∧ Same x y ∧ SameList xs ys'
def SameMap : List (String × Doc) → List (String × Doc) → Prop
  | [], l => l = []
  | (k, v) :: r, l => ∃ v' l', l = (k, v') :: l' ∧ Same v v' ∧ SameMap r l'
end

mutual
theorem Same.refl : ∀ d, Same d d
  | .null => by simp [Same]
  | .bool _ => by simp [Same]
  | .num _ => by simp [Same]
  | .str _ => by simp [Same]
  | .list xs => by
    simp only [Same]; exact ⟨xs, rfl, SameList.refl xs⟩
  | .map kvs => by
    simp only [Same]; exact ⟨kvs, kvs, rfl, SameMap.refl kvs, List.Perm.refl _⟩
theorem SameList.refl : ∀ xs, SameList xs xs
  | [] => by simp [SameList]
  | x :: xs => by
    simp only [SameList]; exact ⟨x, xs, rfl, Same.refl x, SameList.refl xs⟩
theorem SameMap.refl : ∀ kvs, SameMap kvs kvs
  | [] => by simp [SameMap]
  | (k, v) :: r => by
    simp only [SameMap]; exact ⟨v, r, rfl, Same.refl v, SameMap.refl r⟩
end

theorem SameMap_keys : ∀ (a l : List (String × Doc)), SameMap a l → l.map (·.1) = a.map (·.1)
  | [], l, h => by simp [SameMap] at h; simp [h]
  | (k, v) :: r, l, h => by
    simp only [SameMap] at h
    obtain ⟨v', l', rfl, _, hr⟩ := h
    simp [SameMap_keys r l' hr]

theorem mapStrMap_keys (f : String → String) :
    ∀ kvs, (mapStrMap f kvs).map (·.1) = kvs.map fun p => f p.1
  | [] => by simp [mapStrMap]
  | (k, v) :: r => by simp [mapStrMap, mapStrMap_keys f r]

-- `mapStr` with a function that is the identity on every string of the document.
mutual
theorem mapStr_id (f : String → String) : ∀ d, AllStr (fun s => f s = s) d → mapStr f d = d
  | .null, _ => by simp [mapStr]
  | .bool _, _ => by simp [mapStr]
  | .num _, _ => by simp [mapStr]
  | .str s, h => by simp only [AllStr] at h; simp [mapStr, h]
  | .list xs, h => by
    simp only [AllStr] at h; simp [mapStr, mapStrList_id f xs h]
  | .map kvs, h => by
    simp only [AllStr] at h; simp [mapStr, mapStrMap_id f kvs h]
theorem mapStrList_id (f : String → String) :
    ∀ xs, AllStrList (fun s => f s = s) xs → mapStrList f xs = xs
  | [], _ => by simp [mapStrList]
  | x :: xs, h => by
    simp only [AllStrList] at h
    simp [mapStrList, mapStr_id f x h.1, mapStrList_id f xs h.2]
theorem mapStrMap_id (f : String → String) :
    ∀ kvs, AllStrMap (fun s => f s = s) kvs → mapStrMap f kvs = kvs
  | [], _ => by simp [mapStrMap]
  | (k, v) :: r, h => by
    simp only [AllStrMap] at h
    simp [mapStrMap, h.1, mapStr_id f v h.2.1, mapStrMap_id f r h.2.2]
end

-- `KeysDistinct` only looks at `f` on the strings of the document.
mutual
theorem KeysDistinct_congr (f g : String → String) :
    ∀ d, AllStr (fun s => f s = g s) d → KeysDistinct g d → KeysDistinct f d
  | .null, _, _ => by simp [KeysDistinct]
  | .bool _, _, _ => by simp [KeysDistinct]
  | .num _, _, _ => by simp [KeysDistinct]
  | .str _, _, _ => by simp [KeysDistinct]
  | .list xs, h, hk => by
    simp only [AllStr] at h; simp only [KeysDistinct] at hk ⊢
    exact KeysDistinctList_congr f g xs h hk
  | .map kvs, h, hk => by
    simp only [AllStr] at h; simp only [KeysDistinct] at hk ⊢
    refine ⟨?_, KeysDistinctMap_congr f g kvs h hk.2⟩
    have : (kvs.map fun p => f p.1) = kvs.map fun p => g p.1 := keys_congr f g kvs h
    rw [this]; exact hk.1
theorem KeysDistinctList_congr (f g : String → String) :
    ∀ xs, AllStrList (fun s => f s = g s) xs → KeysDistinctList g xs → KeysDistinctList f xs
  | [], _, _ => by simp [KeysDistinctList]
  | x :: xs, h, hk => by
    simp only [AllStrList] at h; simp only [KeysDistinctList] at hk ⊢
    exact ⟨KeysDistinct_congr f g x h.1 hk.1, KeysDistinctList_congr f g xs h.2 hk.2⟩
theorem KeysDistinctMap_congr (f g : String → String) :
    ∀ kvs, AllStrMap (fun s => f s = g s) kvs → KeysDistinctMap g kvs → KeysDistinctMap f kvs
  | [], _, _ => by simp [KeysDistinctMap]
  | (k, v) :: r, h, hk => by
    simp only [AllStrMap] at h; simp only [KeysDistinctMap] at hk ⊢
    exact ⟨KeysDistinct_congr f g v h.2.1 hk.1, KeysDistinctMap_congr f g r h.2.2 hk.2⟩
theorem keys_congr (f g : String → String) :
    ∀ kvs : List (String × Doc), AllStrMap (fun s => f s = g s) kvs →
      (kvs.map fun p => f p.1) = kvs.map fun p => g p.1
  | [], _ => by simp
  | (k, v) :: r, h => by
    simp only [AllStrMap] at h
    simp [h.1, keys_congr f g r h.2.2]
end

mutual
theorem AllStr_mono {P Q : String → Prop} (hpq : ∀ s, P s → Q s) : ∀ d, AllStr P d → AllStr Q d
  | .null, _ => by simp [AllStr]
  | .bool _, _ => by simp [AllStr]
  | .num _, _ => by simp [AllStr]
  | .str s, h => by simp only [AllStr] at h ⊢; exact hpq s h
  | .list xs, h => by simp only [AllStr] at h ⊢; exact AllStrList_mono hpq xs h
  | .map kvs, h => by simp only [AllStr] at h ⊢; exact AllStrMap_mono hpq kvs h
theorem AllStrList_mono {P Q : String → Prop} (hpq : ∀ s, P s → Q s) :
    ∀ xs, AllStrList P xs → AllStrList Q xs
  | [], _ => by simp [AllStrList]
  | x :: xs, h => by
    simp only [AllStrList] at h ⊢; exact ⟨AllStr_mono hpq x h.1, AllStrList_mono hpq xs h.2⟩
theorem AllStrMap_mono {P Q : String → Prop} (hpq : ∀ s, P s → Q s) :
    ∀ kvs, AllStrMap P kvs → AllStrMap Q kvs
  | [], _ => by simp [AllStrMap]
  | (k, v) :: r, h => by
    simp only [AllStrMap] at h ⊢
    exact ⟨hpq k h.1, AllStr_mono hpq v h.2.1, AllStrMap_mono hpq r h.2.2⟩
end

/-! ### the insertion loop of `mapNode.execute` -/

/-- evaluated children whose key is a string, as map entries -/
def unstr (q : List (Doc × Doc)) : List (String × Doc) :=
  q.filterMap fun p => match p.1 with
    | .str k => some (k, p.2)
    | _ => none

def strPairs (l : List (String × Doc)) : List (Doc × Doc) := l.map fun p => (.str p.1, p.2)

theorem unstr_strPairs : ∀ l, unstr (strPairs l) = l
  | [] => by simp [unstr, strPairs]
  | (k, v) :: r => by
    have := unstr_strPairs r
    simp only [unstr, strPairs] at this ⊢
    simp [this]

theorem setKey_fresh (k : String) (v : Doc) :
    ∀ acc : List (String × Doc), k ∉ acc.map (·.1) → setKey k v acc = acc ++ [(k, v)]
  | [], _ => by simp [setKey]
  | (k', v') :: r, h => by
    simp only [List.map_cons, List.mem_cons, not_or] at h
    have hne : ¬ k' = k := fun e => h.1 e.symm
    simp [setKey, hne, setKey_fresh k v r h.2]

/-- With string keys that are pairwise different and new, the loop just appends the entries:
no entry is lost, overwritten or changed. -/
theorem insertAll_fresh :
    ∀ (q : List (Doc × Doc)) (acc : List (String × Doc)),
      (∀ p ∈ q, ∃ k, p.1 = .str k) →
      ((unstr q).map (·.1)).Nodup →
      (∀ k ∈ (unstr q).map (·.1), k ∉ acc.map (·.1)) →
      insertAll q acc = .ok (acc ++ unstr q)
  | [], acc, _, _, _ => by simp [insertAll, unstr]
  | (kd, v) :: r, acc, hstr, hnd, hdis => by
    obtain ⟨k, hk⟩ := hstr (kd, v) (by simp)
    simp only at hk; subst hk
    have hun : unstr ((Doc.str k, v) :: r) = (k, v) :: unstr r := by
      simp [unstr]
    rw [hun] at hnd hdis ⊢
    simp only [List.map_cons, List.nodup_cons] at hnd
    have hk_acc : k ∉ acc.map (·.1) := hdis k (by simp)
    simp only [insertAll]
    rw [setKey_fresh k v acc hk_acc]
    rw [insertAll_fresh r (acc ++ [(k, v)]) (fun p hp => hstr p (by simp [hp])) hnd.2]
    · simp
    · intro k' hk' hmem
      simp only [List.map_append, List.map_cons, List.map_nil, List.mem_append, List.mem_singleton] at hmem
      rcases hmem with h | h
      · exact hdis k' (by simp [hk']) h
      · subst h; exact hnd.1 hk'

/-- `ord` enumerates exactly the children it is given (any order). -/
def OrdPerm (ord : List (Doc × Doc) → List (Doc × Doc)) : Prop := ∀ l, (ord l).Perm l

theorem insertAll_ord (ord : List (Doc × Doc) → List (Doc × Doc)) (hord : OrdPerm ord)
    (l : List (String × Doc)) (hnd : (l.map (·.1)).Nodup) :
    ∃ kvs, insertAll (ord (strPairs l)) [] = .ok kvs ∧ kvs.Perm l := by
  have hp := hord (strPairs l)
  have hstr : ∀ p ∈ ord (strPairs l), ∃ k, p.1 = .str k := by
    intro p hp'
    have : p ∈ strPairs l := hp.mem_iff.mp hp'
    simp only [strPairs, List.mem_map] at this
    obtain ⟨a, _, rfl⟩ := this
    exact ⟨a.1, rfl⟩
  have hperm : (unstr (ord (strPairs l))).Perm l := by
    have := List.Perm.filterMap (fun p : Doc × Doc => match p.1 with
      | .str k => some (k, p.2)
      | _ => none) hp
    have h2 := unstr_strPairs l
    simp only [unstr] at h2 ⊢
    rw [h2] at this; exact this
  have hnd' : ((unstr (ord (strPairs l))).map (·.1)).Nodup :=
    (hperm.map (·.1)).nodup_iff.mpr hnd
  refine ⟨unstr (ord (strPairs l)), ?_, hperm⟩
  have := insertAll_fresh (ord (strPairs l)) [] hstr hnd' (by simp)
  simpa using this

end Uniflow.Template
