/-
C02: the node programs follow the tracer's call protocol under every schedule with fresh packet
ids (`C02.node_protocol`).  Invariant `J`: per forward thread the remaining program is
"links then writes", the writes' packets are exactly the currently linked cells of the thread's
request followed by the pending links, the request stays in the abstract state while ops remain;
a counting invariant gives freshness of inbox packets and pending link targets.
-/
import Uniflow.Proofs.ATracer

namespace Uniflow.ATracer
open Uniflow.Tracer Uniflow.Node

/-! ### cells -/

def linkedIds : List Cell → List Pid
  | [] => []
  | .linked q :: cs => q :: linkedIds cs
  | _ :: cs => linkedIds cs

def allLinked : List Cell → Bool
  | [] => true
  | .linked _ :: cs => allLinked cs
  | _ :: _ => false

theorem linkedIds_append (cs cs' : List Cell) : linkedIds (cs ++ cs') = linkedIds cs ++ linkedIds cs' := by
  induction cs with
  | nil => rfl
  | cons c cs ih => cases c <;> simp [linkedIds, ih]

theorem allLinked_append (cs cs' : List Cell) : allLinked (cs ++ cs') = (allLinked cs && allLinked cs') := by
  induction cs with
  | nil => simp [allLinked]
  | cons c cs ih => cases c <;> simp [allLinked, ih]

theorem linkedIds_sub_open (cs : List Cell) : ∀ k ∈ linkedIds cs, k ∈ openIds cs := by
  induction cs with
  | nil => simp [linkedIds]
  | cons c cs ih =>
    intro k hk
    cases c with
    | linked q => simp only [linkedIds, List.mem_cons] at hk; simp only [openIds, List.mem_cons]
                  rcases hk with h | h; exact Or.inl h; exact Or.inr (ih k h)
    | written q w => simp only [linkedIds] at hk; simp [openIds, ih k hk]
    | filled a => simp only [linkedIds] at hk; simp [openIds, ih k hk]

theorem isLinked_of_mem (k : Pid) (cs : List Cell) (h : k ∈ linkedIds cs) : isLinked k cs = true := by
  induction cs with
  | nil => simp [linkedIds] at h
  | cons c cs ih =>
    cases c with
    | linked q =>
      simp only [linkedIds, List.mem_cons] at h
      simp only [isLinked, Bool.or_eq_true, decide_eq_true_eq]
      rcases h with h | h; exact Or.inl h.symm; exact Or.inr (ih h)
    | written q w => simp only [linkedIds] at h; simp [isLinked, ih h]
    | filled a => simp only [linkedIds] at h; simp [isLinked, ih h]

theorem mem_linkedIds_of_isLinked (k : Pid) (cs : List Cell) (h : isLinked k cs = true) : k ∈ linkedIds cs := by
  induction cs with
  | nil => simp [isLinked] at h
  | cons c cs ih =>
    cases c with
    | linked q =>
      simp only [isLinked, Bool.or_eq_true, decide_eq_true_eq] at h
      simp only [linkedIds, List.mem_cons]
      rcases h with h | h; exact Or.inl h.symm; exact Or.inr (ih h)
    | written q w => simp only [isLinked] at h; simp [linkedIds, ih h]
    | filled a => simp only [isLinked] at h; simp [linkedIds, ih h]

/-- writing / filling the first linked cell removes it from the linked ids -/
theorem linkedIds_markWritten_head (k : Pid) (w : Wid) (cs : List Cell) (rest : List Pid)
    (h : linkedIds cs = k :: rest) : linkedIds (markWritten k w cs) = rest := by
  induction cs with
  | nil => simp [linkedIds] at h
  | cons c cs ih =>
    cases c with
    | linked q =>
      simp only [linkedIds, List.cons.injEq] at h
      simp [markWritten, h.1, linkedIds, h.2]
    | written q w' => simp only [linkedIds] at h; simp [markWritten, linkedIds, ih h]
    | filled a => simp only [linkedIds] at h; simp [markWritten, linkedIds, ih h]

theorem linkedIds_fillCell_head (k : Pid) (a : Ans) (cs : List Cell) (rest : List Pid)
    (hnd : (openIds cs).Nodup) (h : linkedIds cs = k :: rest) : linkedIds (fillCell k a cs) = rest := by
  induction cs with
  | nil => simp [linkedIds] at h
  | cons c cs ih =>
    cases c with
    | linked q =>
      simp only [linkedIds, List.cons.injEq] at h
      simp [fillCell, h.1, linkedIds, h.2]
    | written q w' =>
      simp only [linkedIds] at h
      simp only [openIds, List.nodup_cons] at hnd
      have hk : k ∈ openIds cs := linkedIds_sub_open cs k (by rw [h]; simp)
      have : q ≠ k := fun e => hnd.1 (e ▸ hk)
      simp [fillCell, this, linkedIds, ih hnd.2 h]
    | filled b => simp only [linkedIds] at h; simp only [openIds] at hnd; simp [fillCell, linkedIds, ih hnd h]

/-- filling a cell that is not linked leaves the linked ids alone -/
theorem linkedIds_fillCell_other (k : Pid) (a : Ans) (cs : List Cell) (h : k ∉ linkedIds cs) :
    linkedIds (fillCell k a cs) = linkedIds cs := by
  induction cs with
  | nil => rfl
  | cons c cs ih =>
    cases c with
    | linked q =>
      simp only [linkedIds, List.mem_cons, not_or] at h
      have : q ≠ k := fun e => h.1 e.symm
      simp [fillCell, this, linkedIds, ih h.2]
    | written q w => simp only [linkedIds] at h; simp only [fillCell]; split <;> simp [linkedIds, ih h]
    | filled b => simp only [linkedIds] at h; simp [fillCell, linkedIds, ih h]

theorem allLinked_open (cs : List Cell) (h : allLinked cs = true) : openIds cs = linkedIds cs := by
  induction cs with
  | nil => rfl
  | cons c cs ih => cases c <;> simp_all [allLinked, openIds, linkedIds]

theorem reply_none_of_linked (cs : List Cell) (h : cs = [] ∨ linkedIds cs ≠ []) : reply (.cells cs) = none := by
  rcases h with h | h
  · subst h; rfl
  · cases cs with
    | nil => simp [linkedIds] at h
    | cons c cs' =>
      have hn : hasNil ((c :: cs').map cellVal) = true := by
        generalize c :: cs' = l at h
        induction l with
        | nil => simp [linkedIds] at h
        | cons d l ih =>
          cases d with
          | linked q => simp [cellVal, hasNil]
          | written q w => simp [cellVal, hasNil]
          | filled b => simp only [linkedIds] at h; simp [cellVal, hasNil, ih h]
      simp only [reply]; rw [if_pos hn]

/-! ### membership of a request in the abstract state under the operations -/

theorem mem_updReq_ne (rs : List Req) (p : Pid) (f : RSt → RSt) (x : Req) (hx : x ∈ rs) (hne : x.p ≠ p) :
    x ∈ updReq p f rs := by
  induction rs with
  | nil => simp at hx
  | cons y ys ih =>
    simp only [updReq]
    by_cases e : y.p = p
    · rw [if_pos e]
      rcases List.mem_cons.mp hx with e2 | hx'
      · subst e2; exact absurd e hne
      · simp [hx']
    · rw [if_neg e]
      rcases List.mem_cons.mp hx with e2 | hx'
      · subst e2; simp
      · simp [ih hx']

theorem mem_flushR (r : Rid) (rs : List Req) (x : Req) (hx : x ∈ rs) (hrep : reply x.st = none) :
    x ∈ (flushR r rs).1 := by
  induction rs with
  | nil => simp at hx
  | cons y ys ih =>
    simp only [flushR]
    by_cases hyr : y.r = r
    · simp only [hyr, if_true]
      cases hy : reply y.st with
      | none => exact hx
      | some a =>
        rcases List.mem_cons.mp hx with e | hx'
        · subst e; rw [hrep] at hy; cases hy
        · exact ih hx'
    · simp only [hyr, if_false]
      rcases List.mem_cons.mp hx with e | hx'
      · subst e; simp
      · simp [ih hx']

/-- `rs'` is `rs` with request `p'` updated by `f`, possibly followed by a flush -/
def Eff (rs rs' : List Req) (p' : Pid) (f : RSt → RSt) : Prop :=
  rs' = updReq p' f rs ∨ ∃ r, rs' = (flushR r (updReq p' f rs)).1

theorem afterFill_eff (a : A) (rs : List Req) (p' : Pid) (f : RSt → RSt) (p : Pid) :
    (afterFill a (updReq p' f rs) p).1.reqs = a.reqs ∨ Eff rs (afterFill a (updReq p' f rs) p).1.reqs p' f := by
  cases hf : findReq p (updReq p' f rs) with
  | none => left; simp [afterFill, hf]
  | some x =>
    cases hr : reply x.st with
    | none => right; left; simp [afterFill, hf, hr]
    | some b => right; right; exact ⟨x.r, by simp [afterFill, hf, hr]⟩

theorem afill_reqs (a : A) (k : Pid) (ans : Ans) :
    (afill a k ans).1.reqs = a.reqs ∨
    Eff a.reqs (afill a k ans).1.reqs k (fun _ => .cells [.filled ans]) ∨
    (findReq k a.reqs = none ∧ ∃ x, ownerOf k a.reqs = some x ∧ Eff a.reqs (afill a k ans).1.reqs x.p (fillSt k ans)) := by
  simp only [afill]
  cases hf : findReq k a.reqs with
  | some x =>
    obtain ⟨xp, xr, xst⟩ := x
    cases xst with
    | direct w =>
      rcases afterFill_eff a a.reqs k (fun _ => .cells [.filled ans]) k with h | h
      · exact Or.inl h
      · exact Or.inr (Or.inl h)
    | cells cs =>
      cases cs with
      | nil =>
        rcases afterFill_eff a a.reqs k (fun _ => .cells [.filled ans]) k with h | h
        · exact Or.inl h
        · exact Or.inr (Or.inl h)
      | cons c cs => left; rfl
  | none =>
    cases ho : ownerOf k a.reqs with
    | none => left; rfl
    | some x =>
      rcases afterFill_eff a a.reqs x.p (fillSt k ans) x.p with h | h
      · exact Or.inl h
      · exact Or.inr (Or.inr ⟨rfl, x, rfl, h⟩)

/-- a request survives an update-then-flush if its (possibly updated) state is incomplete -/
theorem stable_eff (rs rs' : List Req) (p' : Pid) (f : RSt → RSt) (x : Req) (hnd : (ids rs).Nodup)
    (hx : x ∈ rs) (he : Eff rs rs' p' f) :
    (x.p ≠ p' → reply x.st = none → x ∈ rs') ∧
    (x.p = p' → reply (f x.st) = none → ({ x with st := f x.st } : Req) ∈ rs') := by
  constructor
  · intro hne hrep
    have h1 := mem_updReq_ne rs p' f x hx hne
    rcases he with e | ⟨r, e⟩
    · rw [e]; exact h1
    · rw [e]; exact mem_flushR r _ x h1 hrep
  · intro heq hrep
    have hf : findReq p' rs = some x := heq ▸ findReq_of_mem rs x hnd hx
    have h1 := mem_updReq rs p' f x hf
    rcases he with e | ⟨r, e⟩
    · rw [e]; exact h1
    · rw [e]; exact mem_flushR r _ _ h1 hrep

def Keeps (rs' : List Req) (p : Pid) (j : Rid) (cs : List Cell) : Prop :=
  ∃ cs', (⟨p, j, .cells cs'⟩ : Req) ∈ rs' ∧ linkedIds cs' = linkedIds cs ∧ (cs = [] → cs' = []) ∧
    (allLinked cs = true → allLinked cs' = true)

theorem keeps_refl (rs : List Req) (p : Pid) (j : Rid) (cs : List Cell) (h : (⟨p, j, .cells cs⟩ : Req) ∈ rs) :
    Keeps rs p j cs := ⟨cs, h, rfl, id, id⟩

/-- a fill of a packet that is neither the request itself nor one of its linked cells keeps the request -/
theorem afill_keeps (a : A) (k : Pid) (ans : Ans) (hnd : (ids a.reqs).Nodup) (p : Pid) (j : Rid) (cs : List Cell)
    (hX : (⟨p, j, .cells cs⟩ : Req) ∈ a.reqs) (hprot : cs = [] ∨ linkedIds cs ≠ [])
    (hkp : k ≠ p) (hkl : k ∉ linkedIds cs) : Keeps (afill a k ans).1.reqs p j cs := by
  have hrepX : reply (.cells cs) = none := reply_none_of_linked cs hprot
  rcases afill_reqs a k ans with h | h | ⟨hfn, x, hown, h⟩
  · rw [h]; exact keeps_refl _ _ _ _ hX
  · have := (stable_eff a.reqs _ k _ _ hnd hX h).1 (fun e => hkp e.symm) hrepX
    exact keeps_refl _ _ _ _ this
  · obtain ⟨hxm, cs2, hst2, hk2⟩ := ownerOf_spec k a.reqs x hown
    by_cases e : p = x.p
    · -- the owner is our request
      have hxeq : x = ⟨p, j, .cells cs⟩ :=
        mem_unique a.reqs x _ p hnd hxm hX (by simp [idsR, e]) (by simp [idsR])
      subst hxeq
      simp only [RSt.cells.injEq] at hst2; subst hst2
      have hl : linkedIds (fillCell k ans cs) = linkedIds cs := linkedIds_fillCell_other k ans cs hkl
      have hprot' : fillCell k ans cs = [] ∨ linkedIds (fillCell k ans cs) ≠ [] := by
        rcases hprot with h0 | h0
        · subst h0; simp [openIds] at hk2
        · right; rw [hl]; exact h0
      have := (stable_eff a.reqs _ p _ _ hnd hX h).2 rfl (by simpa [fillSt] using reply_none_of_linked _ hprot')
      refine ⟨fillCell k ans cs, by simpa [fillSt] using this, hl, ?_, ?_⟩
      · intro h0; subst h0; simp [openIds] at hk2
      · intro hal; rw [allLinked_open cs hal] at hk2; exact absurd hk2 hkl
    · have := (stable_eff a.reqs _ x.p _ _ hnd hX h).1 e hrepX
      exact keeps_refl _ _ _ _ this

/-- the call is not one of the thread's own calls on request `p` with cells `cs` -/
def NotOwn (p : Pid) (cs : List Cell) : Call → Prop
  | .read _ _ => True
  | .link p' _ => p' ≠ p
  | .write _ k _ _ => k ≠ p ∧ k ∉ linkedIds cs
  | .answer _ _ => True

theorem open_nodup_of_mem (rs : List Req) (p : Pid) (j : Rid) (cs : List Cell) (hnd : (ids rs).Nodup)
    (hX : (⟨p, j, .cells cs⟩ : Req) ∈ rs) : p ∉ openIds cs ∧ (openIds cs).Nodup := by
  have := idsR_nodup rs _ hnd hX
  simpa [idsR, cellsOfSt] using this

theorem linked_not_written (cs : List Cell) (k : Pid) (w : Wid) (hnd : (openIds cs).Nodup)
    (hl : k ∈ linkedIds cs) (hw : Cell.written k w ∈ cs) : False := by
  induction cs with
  | nil => simp at hw
  | cons c cs ih =>
    cases c with
    | linked q =>
      simp only [openIds, List.nodup_cons] at hnd
      simp only [linkedIds, List.mem_cons] at hl
      rcases List.mem_cons.mp hw with e | hw'
      · cases e
      · rcases hl with e | hl
        · exact hnd.1 (e ▸ written_mem_open cs k w hw')
        · exact ih hnd.2 hl hw'
    | written q w' =>
      simp only [openIds, List.nodup_cons] at hnd
      simp only [linkedIds] at hl
      rcases List.mem_cons.mp hw with e | hw'
      · injection e with e1 _; exact hnd.1 (e1 ▸ linkedIds_sub_open cs k hl)
      · exact ih hnd.2 hl hw'
    | filled b =>
      simp only [openIds] at hnd; simp only [linkedIds] at hl
      rcases List.mem_cons.mp hw with e | hw'
      · cases e
      · exact ih hnd hl hw'

/-- an owed packet is neither a `cells` request nor one of its linked cells -/
theorem owed_not_own (rs : List Req) (k : Pid) (w : Wid) (hnd : (ids rs).Nodup) (ho : Owed rs k w)
    (p : Pid) (j : Rid) (cs : List Cell) (hX : (⟨p, j, .cells cs⟩ : Req) ∈ rs) : k ≠ p ∧ k ∉ linkedIds cs := by
  obtain ⟨hpo, hndo⟩ := open_nodup_of_mem rs p j cs hnd hX
  obtain ⟨y, hy, hyo⟩ := ho
  constructor
  · intro e; subst e
    rcases hyo with ⟨h1, h2⟩ | ⟨cs2, h1, h2⟩
    · have := mem_unique rs y _ k hnd hy hX (by simp [idsR, h1]) (by simp [idsR])
      subst this; simp at h2
    · have := mem_unique rs y _ k hnd hy hX (by simp [idsR, h1, cellsOfSt, written_mem_open cs2 k w h2]) (by simp [idsR])
      subst this; simp only [RSt.cells.injEq] at h1; subst h1
      exact hpo (written_mem_open _ k w h2)
  · intro hl
    have hko : k ∈ openIds cs := linkedIds_sub_open cs k hl
    rcases hyo with ⟨h1, h2⟩ | ⟨cs2, h1, h2⟩
    · have := mem_unique rs y _ k hnd hy hX (by simp [idsR, h1]) (by simp [idsR, cellsOfSt, hko])
      subst this; simp at h2
    · have := mem_unique rs y _ k hnd hy hX (by simp [idsR, h1, cellsOfSt, written_mem_open cs2 k w h2])
        (by simp [idsR, cellsOfSt, hko])
      subst this; simp only [RSt.cells.injEq] at h1; subst h1
      exact linked_not_written _ k w hndo hl h2

theorem foreign_keeps (a : A) (c : Call) (hi : Inv a) (p : Pid) (j : Rid) (cs : List Cell)
    (hX : (⟨p, j, .cells cs⟩ : Req) ∈ a.reqs) (hprot : cs = [] ∨ linkedIds cs ≠ [])
    (hc : NotOwn p cs c) : Keeps (acall a c).1.reqs p j cs := by
  have hnd := hi.nodup
  cases c with
  | read r p' => exact keeps_refl _ _ _ _ (by simp [acall, aread, hX])
  | link p' q =>
    simp only [NotOwn] at hc
    simp only [acall, alink]
    by_cases e : p' = q
    · simp only [e, if_true]; exact keeps_refl _ _ _ _ hX
    · simp only [e, if_false]
      cases hf : findReq p' a.reqs with
      | none => exact keeps_refl _ _ _ _ hX
      | some x =>
        obtain ⟨xp, xr, xst⟩ := x
        cases xst with
        | direct w => exact keeps_refl _ _ _ _ hX
        | cells cs2 => exact keeps_refl _ _ _ _ (mem_updReq_ne _ _ _ _ hX (fun e2 => hc e2.symm))
  | write w k pay acc =>
    simp only [NotOwn] at hc
    obtain ⟨hkp, hkl⟩ := hc
    by_cases hacc : w.isSome = true ∧ acc = true
    · obtain ⟨hw, ha⟩ := hacc
      obtain ⟨w0, rfl⟩ := Option.isSome_iff_exists.mp hw
      subst ha
      simp only [acall, awrite]
      cases hf : findReq k a.reqs with
      | some x =>
        obtain ⟨xp, xr, xst⟩ := x
        cases xst with
        | direct w => exact keeps_refl _ _ _ _ hX
        | cells cs2 =>
          cases cs2 with
          | nil => exact keeps_refl _ _ _ _ (mem_updReq_ne _ _ _ _ hX (fun e2 => hkp e2.symm))
          | cons c2 cs2 => exact keeps_refl _ _ _ _ hX
      | none =>
        cases ho : ownerOf k a.reqs with
        | none => exact keeps_refl _ _ _ _ hX
        | some x =>
          obtain ⟨hxm, cs2, hst2, hk2⟩ := ownerOf_spec k a.reqs x ho
          obtain ⟨xp, xr, xst⟩ := x
          simp only at hst2; subst hst2
          simp only
          by_cases hl : isLinked k cs2 = true
          · simp only [hl, if_true]
            by_cases e : p = xp
            · exfalso
              subst e
              have := mem_unique a.reqs _ _ p hnd hxm hX (by simp [idsR]) (by simp [idsR])
              simp only [Req.mk.injEq, RSt.cells.injEq] at this
              obtain ⟨_, _, e3⟩ := this; subst e3
              exact hkl (mem_linkedIds_of_isLinked k cs2 hl)
            · exact keeps_refl _ _ _ _ (mem_updReq_ne _ _ _ _ hX e)
          · simp only [hl]; exact keeps_refl _ _ _ _ hX
    · have e1 : awrite a w k pay acc = afill a k pay := by
        cases w <;> cases acc <;> simp_all [awrite]
      simp only [acall, e1]
      exact afill_keeps a k pay hnd p j cs hX hprot hkp hkl
  | answer w ans =>
    simp only [acall, aanswer]
    cases hq : getL a.wq w with
    | nil => exact keeps_refl _ _ _ _ hX
    | cons k rest =>
      simp only
      have ho := hi.owed w k (by rw [hq]; simp)
      obtain ⟨hkp, hkl⟩ := owed_not_own a.reqs k w hnd ho p j cs hX
      exact afill_keeps { a with wq := setOrDel a.wq w rest } k ans hnd p j cs hX hprot hkp hkl

/-! ### threads -/

/-- the packets the remaining program still registers with `Link`; `Link(p, p)` (the action returned its input
packet) registers nothing – `Tracer.Link` ignores it -/
def linkTargets : List Op → List Pid
  | [] => []
  | .link s t :: ops => if s = t then linkTargets ops else t :: linkTargets ops
  | .write _ _ :: ops => linkTargets ops

def pendIds : PC → List Pid
  | .emit ops => linkTargets ops
  | _ => []

def tids (th : Thread) : List Pid := th.inbox.map (·.id) ++ pendIds th.pc

def mkOps (p : Pid) (lk : List Pid) (wr : List (Wid × Pkt)) : List Op :=
  lk.map (Op.link p) ++ wr.map (fun x => Op.write (some x.1) x.2)

def Prot (cs : List Cell) : Prop := cs = [] ∨ linkedIds cs ≠ []

/-- the remaining program of a forward thread on reader `i` -/
def OpsOK (rs : List Req) (i : Rid) (ops : List Op) : Prop :=
  ∃ p cs, (⟨p, i, .cells cs⟩ : Req) ∈ rs ∧
    ((cs = [] ∧ ∃ w q, (ops = [Op.write w q] ∨ ops = [Op.link p p, Op.write w q]) ∧ q.id = p) ∨
     (∃ lk wr, ops = mkOps p lk wr ∧ wr.map (·.2.id) = linkedIds cs ++ lk ∧
        (lk ≠ [] → allLinked cs = true) ∧ wr ≠ [] ∧ p ∉ lk))

def ThOK (rs : List Req) (i : Rid) (th : Thread) : Prop :=
  match th.pc with
  | .idle => True
  | .action p _ => (⟨p.id, i, .cells []⟩ : Req) ∈ rs
  | .emit ops => OpsOK rs i ops

theorem prot_of_allLinked (cs : List Cell) (h : allLinked cs = true) : Prot cs := by
  cases cs with
  | nil => exact Or.inl rfl
  | cons c cs => cases c <;> simp_all [allLinked, Prot, linkedIds]

theorem prot_of_shape (cs : List Cell) (lk : List Pid) (wr : List (Wid × Pkt))
    (h1 : wr.map (·.2.id) = linkedIds cs ++ lk) (h2 : lk ≠ [] → allLinked cs = true) (h3 : wr ≠ []) : Prot cs := by
  by_cases hl : lk = []
  · subst hl
    right; intro e; rw [e] at h1; simp at h1; exact h3 h1
  · exact prot_of_allLinked cs (h2 hl)

def KeepsAll (rs rs' : List Req) (j : Rid) : Prop :=
  ∀ p cs, (⟨p, j, .cells cs⟩ : Req) ∈ rs → Prot cs → Keeps rs' p j cs

theorem thok_of_keeps (rs rs' : List Req) (j : Rid) (th : Thread) (hk : KeepsAll rs rs' j)
    (h : ThOK rs j th) : ThOK rs' j th := by
  unfold ThOK at h ⊢
  cases hpc : th.pc with
  | idle => trivial
  | action p g =>
    simp only [hpc] at h ⊢
    obtain ⟨cs', h1, _, h3, _⟩ := hk p.id [] h (Or.inl rfl)
    rw [h3 rfl] at h1; exact h1
  | emit ops =>
    simp only [hpc] at h ⊢
    obtain ⟨p, cs, hX, hsh⟩ := h
    rcases hsh with ⟨hcs, w, q, ho, hq⟩ | ⟨lk, wr, ho, h1, h2, h3, h4⟩
    · obtain ⟨cs', g1, _, g3, _⟩ := hk p cs hX (Or.inl hcs)
      exact ⟨p, cs', g1, Or.inl ⟨g3 hcs, w, q, ho, hq⟩⟩
    · obtain ⟨cs', g1, g2, _, g4⟩ := hk p cs hX (prot_of_shape cs lk wr h1 h2 h3)
      exact ⟨p, cs', g1, Or.inr ⟨lk, wr, ho, by rw [g2]; exact h1, fun hl => g4 (h2 hl), h3, h4⟩⟩

/-! ### the thread's own calls -/

theorem own_link (a : A) (p t : Pid) (i : Rid) (cs : List Cell) (hnd : (ids a.reqs).Nodup)
    (hX : (⟨p, i, .cells cs⟩ : Req) ∈ a.reqs) (hpt : p ≠ t) :
    (⟨p, i, .cells (cs ++ [.linked t])⟩ : Req) ∈ (alink a p t).reqs := by
  have hf := findReq_of_mem a.reqs _ hnd hX
  simp only [alink, hpt, if_false, hf]
  exact mem_updReq a.reqs p _ _ hf

theorem own_write_acc (a : A) (p k : Pid) (i : Rid) (w : Wid) (pay : Ans) (cs : List Cell) (rest : List Pid)
    (hnd : (ids a.reqs).Nodup) (hX : (⟨p, i, .cells cs⟩ : Req) ∈ a.reqs) (hl : linkedIds cs = k :: rest) :
    (⟨p, i, .cells (markWritten k w cs)⟩ : Req) ∈ (awrite a (some w) k pay true).1.reqs := by
  have hkl : k ∈ linkedIds cs := by rw [hl]; simp
  have hko := linkedIds_sub_open cs k hkl
  have hf := findReq_of_mem a.reqs _ hnd hX
  have hown := ownerOf_of_mem k a.reqs _ cs hnd hX rfl hko
  have hfk := findReq_cell_none a.reqs _ k hnd hX (by simpa [cellsOfSt] using hko)
  simp only [awrite, hfk, hown, isLinked_of_mem k cs hkl, if_true]
  exact mem_updReq a.reqs p _ _ hf

theorem own_write_rej (a : A) (p k : Pid) (i : Rid) (pay : Ans) (cs : List Cell) (rest : List Pid)
    (hnd : (ids a.reqs).Nodup) (hX : (⟨p, i, .cells cs⟩ : Req) ∈ a.reqs) (hl : linkedIds cs = k :: rest)
    (hrest : rest ≠ []) :
    (⟨p, i, .cells (fillCell k pay cs)⟩ : Req) ∈ (afill a k pay).1.reqs := by
  have hkl : k ∈ linkedIds cs := by rw [hl]; simp
  have hko := linkedIds_sub_open cs k hkl
  obtain ⟨_, hndo⟩ := open_nodup_of_mem a.reqs p i cs hnd hX
  have hf := findReq_of_mem a.reqs _ hnd hX
  have hown := ownerOf_of_mem k a.reqs _ cs hnd hX rfl hko
  have hfk := findReq_cell_none a.reqs _ k hnd hX (by simpa [cellsOfSt] using hko)
  have hl' := linkedIds_fillCell_head k pay cs rest hndo hl
  have hrep : reply (.cells (fillCell k pay cs)) = none :=
    reply_none_of_linked _ (Or.inr (by rw [hl']; exact hrest))
  have hf1 : findReq p (updReq p (fillSt k pay) a.reqs) = some ⟨p, i, .cells (fillCell k pay cs)⟩ :=
    findReq_upd a.reqs p _ _ hf
  simp only [afill, hfk, hown, afterFill, hf1, hrep]
  exact mem_updReq a.reqs p _ _ hf

theorem getThread_setThread (ths : List Thread) (i j : Nat) (th' : Thread) (hi : (getThread ths i).isSome = true) :
    getThread (setThread ths i th') j = if j = i then some th' else getThread ths j := by
  induction ths generalizing i j with
  | nil => simp [getThread] at hi
  | cons t ts ih =>
    cases i with
    | zero =>
      cases j with
      | zero => simp [setThread, getThread]
      | succ j => simp [setThread, getThread]
    | succ i =>
      cases j with
      | zero => simp [setThread, getThread]
      | succ j =>
        simp only [setThread, getThread] at hi ⊢
        rw [ih i j hi]; simp

theorem count_flatMap_setThread (f : Thread → List Pid) (ths : List Thread) (i : Nat) (th th' : Thread)
    (h : getThread ths i = some th) (k : Pid) :
    ((setThread ths i th').flatMap f).count k + (f th).count k = (ths.flatMap f).count k + (f th').count k := by
  induction ths generalizing i with
  | nil => simp [getThread] at h
  | cons t ts ih =>
    cases i with
    | zero =>
      simp only [getThread, Option.some.injEq] at h; subst h
      simp only [setThread, List.flatMap_cons, List.count_append]; omega
    | succ i =>
      simp only [getThread] at h
      have := ih i h
      simp only [setThread, List.flatMap_cons, List.count_append]; omega

theorem count_le_of_mem_sub (l' l nw : List Pid) (hnd : l'.Nodup) (hs : ∀ k ∈ l', k ∈ l ∨ k ∈ nw) (k : Pid) :
    l'.count k ≤ l.count k + nw.count k := by
  by_cases hk : k ∈ l'
  · have h1 : l'.count k ≤ 1 := by rw [List.Nodup.count hnd]; split <;> omega
    rcases hs k hk with h | h
    · have := List.count_pos_iff.mpr h; omega
    · have := List.count_pos_iff.mpr h; omega
  · rw [List.count_eq_zero.mpr hk]; omega

def newIds : Call → List Pid
  | .read _ p => [p]
  | .link p q => if p = q then [] else [q]
  | _ => []

theorem acall_ids_sub (a : A) (t : T) (c : Call) (h : TRel a t) (hi : Inv a) (hp : Pre a c) :
    ∀ k ∈ ids (acall a c).1.reqs, k ∈ ids a.reqs ∨ k ∈ newIds c := by
  cases c with
  | read r p =>
    intro k hk
    simp only [acall, aread, ids_append, idsR, cellsOfSt, openIds, List.mem_append, List.mem_singleton] at hk
    simpa [newIds] using hk
  | link p q =>
    intro k hk
    simp only [acall, alink] at hk
    by_cases e : p = q
    · simp only [e, if_true] at hk; exact Or.inl hk
    · simp only [e, if_false] at hk
      rcases hp with e2 | ⟨x, cs, hx, hst, hq⟩
      · exact absurd e2 e
      · obtain ⟨xp, xr, xst⟩ := x
        simp only at hst; subst hst
        simp only [hx] at hk
        rcases ids_upd_sub a.reqs p _ _ hx k hk with h1 | h1
        · exact Or.inl h1
        · simp only [idsR, cellsOfSt, openIds_append, openIds, List.mem_cons, List.mem_append, List.not_mem_nil,
            or_false] at h1
          have hxm := findReq_mem p a.reqs _ hx
          rcases h1 with h1 | h1 | h1
          · left; rw [h1]; exact mem_ids_of_mem hxm.1 (by simp [idsR])
          · left; exact mem_ids_of_mem hxm.1 (by simp [idsR, cellsOfSt, h1])
          · right; simp [newIds, h1, e]
  | write w k0 pay acc =>
    intro k hk; left
    by_cases hacc : w.isSome = true ∧ acc = true
    · obtain ⟨hw, ha⟩ := hacc
      obtain ⟨w0, rfl⟩ := Option.isSome_iff_exists.mp hw
      subst ha
      rcases hp with ⟨r, hx⟩ | ⟨x, cs, hxm, hst, hl⟩
      · obtain ⟨a', t', h1, _, _, _, h5⟩ := trel_awrite_direct a t w0 k0 r pay h hi hx
        simp only [acall, h1] at hk; exact h5 k hk
      · obtain ⟨a', t', h1, _, _, _, h5⟩ := trel_awrite_cell a t w0 k0 pay x cs h hi hxm hst hl
        simp only [acall, h1] at hk; exact h5 k hk
    · obtain ⟨a', t', h1, _, _, _, h5⟩ := trel_awrite_rej a t w k0 pay acc h hi hacc hp
      have e1 : (awrite a w k0 pay acc).1 = a' := by rw [h1]
      simp only [acall, e1] at hk; exact h5 k hk
  | answer w ans =>
    intro k hk; left
    obtain ⟨a', t', h1, _, _, _, h5⟩ := trel_aanswer a t w ans h hi
    have e1 : (aanswer a w ans).1 = a' := by rw [h1]
    simp only [acall, e1] at hk; exact h5 k hk

theorem acall_count (a : A) (t : T) (c : Call) (h : TRel a t) (hi : Inv a) (hp : Pre a c) (k : Pid) :
    (ids (acall a c).1.reqs).count k ≤ (ids a.reqs).count k + (newIds c).count k :=
  count_le_of_mem_sub _ _ _ (call_refines a t c h hi hp).2.2.nodup (acall_ids_sub a t c h hi hp) k

theorem linkTargets_mkOps (p : Pid) (lk : List Pid) (wr : List (Wid × Pkt)) (hp : p ∉ lk) :
    linkTargets (mkOps p lk wr) = lk := by
  simp only [mkOps]
  induction lk with
  | nil =>
    simp only [List.map_nil, List.nil_append]
    induction wr with
    | nil => rfl
    | cons x xs ih => simpa [linkTargets] using ih
  | cons t ts ih =>
    simp only [List.mem_cons, not_or] at hp
    simp only [List.map_cons, List.cons_append, linkTargets, hp.1, if_false, ih hp.2]

/-- ids introduced by a step (same definition as `introduced` in Props/C02.lean) -/
def introS : Step → List Pid
  | .deliver _ p => [p.id]
  | .finish _ (.err q) => [q.id]
  | .finish _ (.outs qs) => (cellsOf qs).map (·.id)
  | _ => []

theorem validOuts_sub (n i : Nat) (qs : List (Option Pkt)) :
    ((validOuts n i qs).map (·.2.id)).Sublist ((cellsOf qs).map (·.id)) := by
  induction qs generalizing i with
  | nil => simp [validOuts, cellsOf]
  | cons q qs ih =>
    cases q with
    | none => simpa [validOuts, cellsOf] using ih (i + 1)
    | some q =>
      simp only [validOuts, cellsOf, List.map_cons]
      split
      · simp only [List.map_cons]; exact List.Sublist.cons_cons _ (ih (i + 1))
      · exact List.Sublist.cons _ (ih (i + 1))

/-- the program a node builds from an action's result has the links-then-writes shape and its link
targets are among the ids the `finish` step introduced – when these are new packets, or the result is the input
packet itself (then nothing is linked) -/
theorem program_ok (k : Kind) (p : Pkt) (o : Outcome) (ops : List Op) (i j : Rid) (rs : List Req)
    (h : program k p o = some ops) (hX : (⟨p.id, i, .cells []⟩ : Req) ∈ rs)
    (hs : (∀ x ∈ introS (.finish j o), x ≠ p.id) ∨ introS (.finish j o) = [p.id]) :
    OpsOK rs i ops ∧ (linkTargets ops).Sublist (introS (.finish j o)) ∧
      (introS (.finish j o) = [p.id] → linkTargets ops = []) := by
  have two : ∀ (w : Wid) (q : Pkt), (q.id ≠ p.id ∨ q.id = p.id) →
      OpsOK rs i [.link p.id q.id, .write (some w) q] ∧
      (linkTargets [.link p.id q.id, .write (some w) q]).Sublist [q.id] ∧
      ([q.id] = [p.id] → linkTargets [.link p.id q.id, .write (some w) q] = []) := by
    intro w q hq
    by_cases e : q.id = p.id
    · refine ⟨⟨p.id, [], hX, Or.inl ⟨rfl, some w, q, Or.inr (by rw [e]), e⟩⟩, ?_, ?_⟩
      · simp [linkTargets, e]
      · intro _; simp [linkTargets, e]
    · have e' : ¬ p.id = q.id := fun h => e h.symm
      refine ⟨⟨p.id, [], hX, Or.inr ⟨[q.id], [(w, q)], rfl, rfl, fun _ => rfl, by simp, by simpa using e'⟩⟩, ?_, ?_⟩
      · simp [linkTargets, e']
      · intro h; simp only [List.cons.injEq, and_true] at h; exact absurd h e
  have echo : OpsOK rs i [.write none p] := ⟨p.id, [], hX, Or.inl ⟨rfl, none, p, Or.inl rfl, rfl⟩⟩
  have em : ∀ q : Pkt, q.id ≠ p.id ∨ q.id = p.id := fun q => (Classical.em (q.id = p.id)).symm
  cases o with
  | err q =>
    simp only [program, Option.some.injEq] at h; subst h
    simpa [introS] using two errW q (em q)
  | outs qs =>
    cases k with
    | oneToOne =>
      simp only [program] at h
      match qs, h with
      | [some q], h =>
        simp only [Option.some.injEq] at h; subst h
        simpa [introS, cellsOf] using two (outW 0) q (em q)
      | [], h =>
        simp only [Option.some.injEq] at h; subst h
        exact ⟨echo, by simp [linkTargets], fun _ => by simp [linkTargets]⟩
      | none :: _, h =>
        simp only [Option.some.injEq] at h; subst h
        exact ⟨echo, by simp [linkTargets], fun _ => by simp [linkTargets]⟩
      | some _ :: _ :: _, h =>
        simp only [Option.some.injEq] at h; subst h
        exact ⟨echo, by simp [linkTargets], fun _ => by simp [linkTargets]⟩
    | oneToMany n =>
      simp only [program] at h
      cases hv : validOuts n 0 qs with
      | nil =>
        simp only [hv, Option.some.injEq] at h; subst h
        exact ⟨echo, by simp [linkTargets], fun _ => by simp [linkTargets]⟩
      | cons v vs =>
        simp only [hv, Option.some.injEq] at h
        have hsub := validOuts_sub n 0 qs
        rw [hv] at hsub
        rcases hs with hs | hs
        · have hp : p.id ∉ (v :: vs).map (·.2.id) := fun hm => hs _ (hsub.subset hm) rfl
          have hops : ops = mkOps p.id ((v :: vs).map (·.2.id)) ((v :: vs).map (fun iq => (outW iq.1, iq.2))) := by
            rw [← h]; simp [mkOps, List.map_map, Function.comp_def]
          refine ⟨⟨p.id, [], hX, Or.inr ⟨_, _, hops, by simp [linkedIds, List.map_map, Function.comp_def],
            fun _ => rfl, by simp, hp⟩⟩, ?_, ?_⟩
          · rw [hops, linkTargets_mkOps _ _ _ hp]; exact hsub
          · intro e
            exact absurd rfl (hs p.id (by rw [e]; simp))
        · -- the result is the input packet on one existing port
          simp only [introS] at hs
          rw [hs] at hsub
          have hvs : (v :: vs).map (·.2.id) = [p.id] := by
            have h1 := hsub.length_le
            simp only [List.length_map, List.length_cons, List.length_nil] at h1
            have : vs = [] := by cases vs with | nil => rfl | cons _ _ => simp at h1
            subst this
            have := hsub.subset (List.mem_cons_self)
            simpa using this
          have hvs' : vs = [] ∧ v.2.id = p.id := by
            cases vs with
            | nil => simpa using hvs
            | cons _ _ => simp at hvs
          obtain ⟨rfl, hvp⟩ := hvs'
          have hops : ops = [.link p.id v.2.id, .write (some (outW v.1)) v.2] := by rw [← h]; rfl
          rw [hops]
          obtain ⟨t1, _, t3⟩ := two (outW v.1) v.2 (Or.inr hvp)
          have t4 := t3 (by rw [hvp])
          exact ⟨t1, by rw [t4]; exact List.nil_sublist _, fun _ => t4⟩
    | manyToOne n =>
      simp only [program] at h
      match qs, h with
      | [some q], h =>
        simp only [Option.some.injEq] at h; subst h
        simpa [introS, cellsOf] using two (outW 0) q (em q)
      | [], h =>
        simp only [Option.some.injEq] at h; subst h
        exact ⟨echo, by simp [linkTargets], fun _ => by simp [linkTargets]⟩
      | none :: _, h =>
        simp only [Option.some.injEq] at h; subst h
        exact ⟨echo, by simp [linkTargets], fun _ => by simp [linkTargets]⟩
      | some _ :: _ :: _, h =>
        simp only [Option.some.injEq] at h; subst h
        exact ⟨echo, by simp [linkTargets], fun _ => by simp [linkTargets]⟩

structure J (n : Node) (a : A) (fut : List Pid) : Prop where
  strict : n.strict = true
  trel : TRel a n.tr
  inv : Inv a
  cnt : ∀ k, (ids a.reqs).count k + (n.threads.flatMap tids).count k + fut.count k ≤ 1
  th : ∀ i th, getThread n.threads i = some th → ThOK a.reqs i th

theorem count_le_flatMap (f : Thread → List Pid) (ths : List Thread) (i : Nat) (th : Thread)
    (h : getThread ths i = some th) (k : Pid) : (f th).count k ≤ (ths.flatMap f).count k := by
  induction ths generalizing i with
  | nil => simp [getThread] at h
  | cons t ts ih =>
    cases i with
    | zero => simp only [getThread, Option.some.injEq] at h; subst h; simp [List.count_append]
    | succ i => simp only [getThread] at h; have := ih i h; simp only [List.flatMap_cons, List.count_append]; omega

theorem fresh_of_thread (n : Node) (a : A) (fut : List Pid) (hJ : J n a fut) (i : Nat) (th : Thread)
    (h : getThread n.threads i = some th) (k : Pid) (hk : k ∈ tids th) : k ∉ ids a.reqs := by
  intro hm
  have h1 := List.count_pos_iff.mpr hm
  have h2 := List.count_pos_iff.mpr hk
  have h3 := count_le_flatMap tids n.threads i th h k
  have := hJ.cnt k
  omega

theorem notown_other (rs : List Req) (hnd : (ids rs).Nodup) (p p' : Pid) (i j : Rid) (cs cs' : List Cell)
    (hXi : (⟨p, i, .cells cs⟩ : Req) ∈ rs) (hXj : (⟨p', j, .cells cs'⟩ : Req) ∈ rs) (hij : i ≠ j)
    (k : Pid) (hk : k ∈ idsR (⟨p, i, .cells cs⟩ : Req)) : k ≠ p' ∧ k ∉ linkedIds cs' := by
  constructor
  · intro e
    have := mem_unique rs _ _ k hnd hXi hXj hk (by simp [idsR, e])
    simp only [Req.mk.injEq] at this; exact hij this.2.1
  · intro hl
    have := mem_unique rs _ _ k hnd hXi hXj hk (by simp [idsR, cellsOfSt, linkedIds_sub_open cs' k hl])
    simp only [Req.mk.injEq] at this; exact hij this.2.1

theorem thok_other (a : A) (c : Call) (hi : Inv a) (j : Rid) (th : Thread) (hth : ThOK a.reqs j th)
    (hno : ∀ p cs, (⟨p, j, .cells cs⟩ : Req) ∈ a.reqs → NotOwn p cs c) : ThOK (acall a c).1.reqs j th :=
  thok_of_keeps _ _ _ _ (fun p cs hX hp => foreign_keeps a c hi p j cs hX hp (hno p cs hX)) hth

theorem thok_pc (rs : List Req) (i : Rid) (th th' : Thread) (h : th'.pc = th.pc) (ht : ThOK rs i th) : ThOK rs i th' := by
  unfold ThOK at ht ⊢; rw [h]; exact ht

theorem proto_single (a : A) (c : Call) (rest : List Call) (hp : Pre a c) (hr : Protocol (acall a c).1 rest) :
    Protocol a ([c] ++ rest) := ⟨hp, hr⟩


theorem J_deliver (n : Node) (a : A) (fut' : List Pid) (i : Rid) (p : Pkt) (th : Thread)
    (hJ : J n a (introS (.deliver i p) ++ fut')) (hg : getThread n.threads i = some th) :
    J { n with threads := setThread n.threads i { th with inbox := th.inbox ++ [p] } } a fut' := by
  refine ⟨hJ.strict, hJ.trel, hJ.inv, ?_, ?_⟩
  · intro k
    have h1 := hJ.cnt k
    have h2 := count_flatMap_setThread tids n.threads i th { th with inbox := th.inbox ++ [p] } hg k
    simp only [tids, introS, List.map_append, List.map_cons, List.map_nil, List.count_append] at h1 h2 ⊢
    omega
  · intro j thj hj
    simp only [getThread_setThread n.threads i j _ (by rw [hg]; rfl)] at hj
    by_cases e : j = i
    · subst e; simp only [if_true, Option.some.injEq] at hj; subst hj
      exact thok_pc _ _ th _ rfl (hJ.th j th hg)
    · simp only [e, if_false] at hj; exact hJ.th j thj hj

theorem J_skip (n : Node) (a : A) (l fut' : List Pid) (hJ : J n a (l ++ fut')) : J n a fut' := by
  refine ⟨hJ.strict, hJ.trel, hJ.inv, ?_, hJ.th⟩
  intro k; have := hJ.cnt k; simp only [List.count_append] at this; omega

/-- the action of thread `i` returns; `l` = the new packet ids its program will register -/
theorem J_finishG (n : Node) (a : A) (l fut' : List Pid) (i : Rid) (o : Outcome) (p : Pkt) (g : List Pkt)
    (inbox : List Pkt) (hJ : J n a (l ++ fut'))
    (hg : getThread n.threads i = some { inbox := inbox, pc := .action p g })
    (hs : (∀ x ∈ introS (.finish i o), x ≠ p.id) ∨ introS (.finish i o) = [p.id])
    (hl : ∀ ops, program n.kind p o = some ops → (linkTargets ops).Sublist l) :
    (∀ ops, program n.kind p o = some ops →
      J { n with threads := setThread n.threads i { inbox := inbox, pc := .emit ops } } a fut') ∧
    (J { n with panic := true, threads := setThread n.threads i { inbox := inbox, pc := .idle } } a fut') := by
  have hX : (⟨p.id, i, .cells []⟩ : Req) ∈ a.reqs := by
    have := hJ.th i _ hg; simpa [ThOK] using this
  constructor
  · intro ops hp
    obtain ⟨hok, _, _⟩ := program_ok n.kind p o ops i i a.reqs hp hX hs
    refine ⟨hJ.strict, hJ.trel, hJ.inv, ?_, ?_⟩
    · intro k
      have h1 := hJ.cnt k
      have h2 := count_flatMap_setThread tids n.threads i _ { inbox := inbox, pc := .emit ops } hg k
      have h3 := (hl ops hp).count_le k
      simp only [tids, pendIds, List.count_append, List.count_nil] at h1 h2 ⊢
      omega
    · intro j thj hj
      simp only [getThread_setThread n.threads i j _ (by rw [hg]; rfl)] at hj
      by_cases e : j = i
      · subst e; simp only [if_true, Option.some.injEq] at hj; subst hj
        simpa [ThOK] using hok
      · simp only [e, if_false] at hj; exact hJ.th j thj hj
  · refine ⟨hJ.strict, hJ.trel, hJ.inv, ?_, ?_⟩
    · intro k
      have h1 := hJ.cnt k
      have h2 := count_flatMap_setThread tids n.threads i _ { inbox := inbox, pc := .idle } hg k
      simp only [tids, pendIds, List.count_append, List.count_nil] at h1 h2 ⊢
      omega
    · intro j thj hj
      simp only [getThread_setThread n.threads i j _ (by rw [hg]; rfl)] at hj
      by_cases e : j = i
      · subst e; simp only [if_true, Option.some.injEq] at hj; subst hj; simp [ThOK]
      · simp only [e, if_false] at hj; exact hJ.th j thj hj

/-- the packets the action returned are new -/
theorem fresh_finish (n : Node) (a : A) (fut' : List Pid) (i : Rid) (o : Outcome) (p : Pkt) (g : List Pkt)
    (inbox : List Pkt) (hJ : J n a (introS (.finish i o) ++ fut'))
    (hg : getThread n.threads i = some { inbox := inbox, pc := .action p g }) :
    ∀ x ∈ introS (.finish i o), x ≠ p.id := by
  have hX : (⟨p.id, i, .cells []⟩ : Req) ∈ a.reqs := by
    have := hJ.th i _ hg; simpa [ThOK] using this
  intro x hx e
  have h1 := hJ.cnt x
  have h2 : 0 < (ids a.reqs).count x := List.count_pos_iff.mpr (by rw [e]; exact mem_ids_of_mem hX (by simp [idsR]))
  have h3 : 0 < (introS (.finish i o)).count x := List.count_pos_iff.mpr hx
  simp only [List.count_append] at h1
  omega

theorem J_finish (n : Node) (a : A) (fut' : List Pid) (i : Rid) (o : Outcome) (p : Pkt) (g : List Pkt)
    (inbox : List Pkt) (hJ : J n a (introS (.finish i o) ++ fut'))
    (hg : getThread n.threads i = some { inbox := inbox, pc := .action p g }) :
    (∀ ops, program n.kind p o = some ops →
      J { n with threads := setThread n.threads i { inbox := inbox, pc := .emit ops } } a fut') ∧
    (J { n with panic := true, threads := setThread n.threads i { inbox := inbox, pc := .idle } } a fut') := by
  have hX : (⟨p.id, i, .cells []⟩ : Req) ∈ a.reqs := by
    have := hJ.th i _ hg; simpa [ThOK] using this
  have hs := fresh_finish n a fut' i o p g inbox hJ hg
  exact J_finishG n a _ fut' i o p g inbox hJ hg (Or.inl hs)
    (fun ops hp => (program_ok n.kind p o ops i i a.reqs hp hX (Or.inl hs)).2.1)

/-- the action returns its INPUT packet (`return inPck, nil`, `return nil, inPck`, `[inPck]` on one port): no packet
id is new, nothing will be linked -/
theorem J_finish_same (n : Node) (a : A) (fut' : List Pid) (i : Rid) (o : Outcome) (p : Pkt) (g : List Pkt)
    (inbox : List Pkt) (hJ : J n a fut')
    (hg : getThread n.threads i = some { inbox := inbox, pc := .action p g })
    (hs : introS (.finish i o) = [p.id]) :
    (∀ ops, program n.kind p o = some ops →
      J { n with threads := setThread n.threads i { inbox := inbox, pc := .emit ops } } a fut') ∧
    (J { n with panic := true, threads := setThread n.threads i { inbox := inbox, pc := .idle } } a fut') := by
  have hX : (⟨p.id, i, .cells []⟩ : Req) ∈ a.reqs := by
    have := hJ.th i _ hg; simpa [ThOK] using this
  exact J_finishG n a [] fut' i o p g inbox (by simpa using hJ) hg (Or.inr hs)
    (fun ops hp => by rw [(program_ok n.kind p o ops i i a.reqs hp hX (Or.inr hs)).2.2 hs]; exact List.nil_sublist _)

theorem J_call (n n' : Node) (a : A) (fut : List Pid) (c : Call) (hJ : J n a fut) (hp : Pre a c)
    (hs : n'.strict = true) (htr : n'.tr = (tcall n.tr c).1)
    (hcnt : ∀ k, (n'.threads.flatMap tids).count k + (newIds c).count k ≤ (n.threads.flatMap tids).count k)
    (hth : ∀ j th, getThread n'.threads j = some th → ThOK (acall a c).1.reqs j th) :
    J n' (acall a c).1 fut := by
  obtain ⟨_, h2, h3⟩ := call_refines a n.tr c hJ.trel hJ.inv hp
  refine ⟨hs, by rw [htr]; exact h2, h3, ?_, hth⟩
  intro k
  have := acall_count a n.tr c hJ.trel hJ.inv hp k
  have := hcnt k
  have := hJ.cnt k
  omega

theorem J_answer (n : Node) (a : A) (fut : List Pid) (w : Wid) (ans : Ans) (hJ : J n a fut) :
    J { n with tr := (receiveW n.strict n.tr w (some ans)).1 } (acall a (.answer w ans)).1 fut := by
  refine J_call n _ a fut (.answer w ans) hJ trivial ?_ ?_ ?_ ?_
  · exact hJ.strict
  · simp [tcall, hJ.strict]
  · intro k; simp [newIds]
  · intro j th hj
    exact thok_other a _ hJ.inv j th (hJ.th j th hj) (fun _ _ _ => trivial)

theorem J_read (n : Node) (a : A) (fut : List Pid) (i : Rid) (p : Pkt) (rest : List Pkt) (pc' : PC)
    (rows' : List (List (Option Pkt)))
    (hJ : J n a fut) (hg : getThread n.threads i = some { inbox := p :: rest, pc := .idle })
    (hpc : (∃ g, pc' = .action p g) ∨ pc' = .emit [.write none p]) :
    Pre a (.read i p.id) ∧
    J { n with tr := Tracer.read n.tr i p.id, rows := rows',
               threads := setThread n.threads i { inbox := rest, pc := pc' } } (acall a (.read i p.id)).1 fut := by
  have hfresh : p.id ∉ ids a.reqs := fresh_of_thread n a fut hJ i _ hg p.id (by simp [tids])
  refine ⟨hfresh, ?_⟩
  refine J_call n _ a fut (.read i p.id) hJ hfresh ?_ ?_ ?_ ?_
  · exact hJ.strict
  · rfl
  · intro k
    have h2 := count_flatMap_setThread tids n.threads i _ { inbox := rest, pc := pc' } hg k
    have hpend : pendIds pc' = [] := by rcases hpc with ⟨g, e⟩ | e <;> simp [e, pendIds, linkTargets]
    have e1 : tids { inbox := p :: rest, pc := .idle } = [p.id] ++ rest.map (·.id) := by simp [tids, pendIds]
    have e2 : tids { inbox := rest, pc := pc' } = rest.map (·.id) := by simp [tids, hpend]
    rw [e1, e2] at h2
    simp only [List.count_append, newIds] at h2 ⊢
    omega
  · intro j thj hj
    simp only [getThread_setThread n.threads i j _ (by rw [hg]; rfl)] at hj
    have hmem : (⟨p.id, i, .cells []⟩ : Req) ∈ (acall a (.read i p.id)).1.reqs := by simp [acall, aread]
    by_cases e : j = i
    · subst e; simp only [if_true, Option.some.injEq] at hj; subst hj
      rcases hpc with ⟨g, e⟩ | e
      · subst e; simpa [ThOK] using hmem
      · subst e; simp only [ThOK]; exact ⟨p.id, [], hmem, Or.inl ⟨rfl, none, p, Or.inl rfl, rfl⟩⟩
    · simp only [e, if_false] at hj
      exact thok_other a _ hJ.inv j thj (hJ.th j thj hj) (fun _ _ _ => trivial)

def nextPc : List Op → PC
  | [] => .idle
  | o :: ops => .emit (o :: ops)

def opCall (acc : Bool) : Op → Call
  | .link s t => .link s t
  | .write w q => .write w q.id (.pay q.pay) acc

theorem mkOps_ne_nil (p : Pid) (lk : List Pid) (wr : List (Wid × Pkt)) (h : wr ≠ []) : mkOps p lk wr ≠ [] := by
  cases wr with
  | nil => exact absurd rfl h
  | cons x xs => simp [mkOps]

theorem nextPc_ne (ops : List Op) (h : ops ≠ []) : nextPc ops = .emit ops := by
  cases ops with
  | nil => exact absurd rfl h
  | cons o ops => rfl

theorem J_op (n : Node) (a : A) (fut : List Pid) (i : Rid) (acc : Bool) (inbox : List Pkt) (o : Op) (ops : List Op)
    (hJ : J n a fut) (hg : getThread n.threads i = some { inbox := inbox, pc := .emit (o :: ops) }) :
    Pre a (opCall acc o) ∧
    J { n with tr := (tcall n.tr (opCall acc o)).1,
               threads := setThread n.threads i { inbox := inbox, pc := nextPc ops } }
      (acall a (opCall acc o)).1 fut := by
  have hnd := hJ.inv.nodup
  have hok : OpsOK a.reqs i (o :: ops) := by have := hJ.th i _ hg; simpa [ThOK] using this
  obtain ⟨p, cs, hX, hsh⟩ := hok
  have hfX := findReq_of_mem a.reqs _ hnd hX
  -- other threads
  have hoth : ∀ k ∈ idsR (⟨p, i, .cells cs⟩ : Req), ∀ j, j ≠ i → ∀ p' cs',
      (⟨p', j, .cells cs'⟩ : Req) ∈ a.reqs → k ≠ p' ∧ k ∉ linkedIds cs' :=
    fun k hk j hji p' cs' hXj => notown_other a.reqs hnd p p' i j cs cs' hX hXj (fun e => hji e.symm) k hk
  have hothers : ∀ (c : Call), (∀ j, j ≠ i → ∀ p' cs', (⟨p', j, .cells cs'⟩ : Req) ∈ a.reqs → NotOwn p' cs' c) →
      ∀ j thj, j ≠ i → getThread n.threads j = some thj → ThOK (acall a c).1.reqs j thj :=
    fun c hno j thj hji hj => thok_other a c hJ.inv j thj (hJ.th j thj hj) (hno j hji)
  -- generic assembly
  have assemble : ∀ (c : Call), opCall acc o = c → Pre a c →
      (∀ k, (newIds c).count k + (linkTargets ops).count k ≤ (linkTargets (o :: ops)).count k) →
      (∀ j, j ≠ i → ∀ p' cs', (⟨p', j, .cells cs'⟩ : Req) ∈ a.reqs → NotOwn p' cs' c) →
      (ops ≠ [] → OpsOK (acall a c).1.reqs i ops) →
      Pre a (opCall acc o) ∧
      J { n with tr := (tcall n.tr (opCall acc o)).1,
                 threads := setThread n.threads i { inbox := inbox, pc := nextPc ops } }
        (acall a (opCall acc o)).1 fut := by
    intro c hc hpre hcount hno hself
    rw [hc]
    refine ⟨hpre, ?_⟩
    refine J_call n _ a fut c hJ hpre ?_ ?_ ?_ ?_
    · exact hJ.strict
    · rfl
    · intro k
      have h2 := count_flatMap_setThread tids n.threads i _ { inbox := inbox, pc := nextPc ops } hg k
      have h3 := hcount k
      have hp' : pendIds (nextPc ops) = linkTargets ops := by cases ops <;> rfl
      have e1 : tids { inbox := inbox, pc := .emit (o :: ops) } = inbox.map (·.id) ++ linkTargets (o :: ops) := rfl
      have e2 : tids { inbox := inbox, pc := nextPc ops } = inbox.map (·.id) ++ linkTargets ops := by
        simp [tids, hp']
      rw [e1, e2] at h2
      simp only [List.count_append] at h2 ⊢
      omega
    · intro j thj hj
      simp only [getThread_setThread n.threads i j _ (by rw [hg]; rfl)] at hj
      by_cases e : j = i
      · subst e; simp only [if_true, Option.some.injEq] at hj; subst hj
        by_cases hops : ops = []
        · subst hops; simp [ThOK, nextPc]
        · simp only [ThOK, nextPc_ne ops hops]; exact hself hops
      · simp only [e, if_false] at hj
        exact hothers c hno j thj e hj
  rcases hsh with ⟨hcs, w, q, hoq | hoq, hqp⟩ | ⟨lk, wr, hoq, h1, h2, h3, h4⟩
  · -- echo of the request itself / write of the request itself
    simp only [List.cons.injEq] at hoq
    obtain ⟨rfl, rfl⟩ := hoq
    subst hcs
    apply assemble (.write w q.id (.pay q.pay) acc) rfl
    · exact Or.inl ⟨i, by rw [hqp]; exact hfX⟩
    · intro k; simp [newIds, linkTargets]
    · intro j hji p' cs' hXj
      exact hoth q.id (by simp [idsR, hqp]) j hji p' cs' hXj
    · intro h; exact absurd rfl h
  · -- `Link(p, p)`: the action returned its input packet
    simp only [List.cons.injEq] at hoq
    obtain ⟨rfl, rfl⟩ := hoq
    subst hcs
    apply assemble (.link p p) rfl
    · exact Or.inl rfl
    · intro k; simp [newIds, linkTargets]
    · intro j hji p' cs' hXj
      exact (hoth p (by simp [idsR]) j hji p' cs' hXj).1
    · intro _
      have e : (acall a (.link p p)).1 = a := by simp [acall, alink]
      rw [e]
      exact ⟨p, [], hX, Or.inl ⟨rfl, w, q, Or.inl rfl, hqp⟩⟩
  · cases lk with
    | cons t lk' =>
      simp only [mkOps, List.map_cons, List.cons_append, List.cons.injEq] at hoq
      obtain ⟨rfl, hops⟩ := hoq
      have hops' : ops = mkOps p lk' wr := hops
      have hpt : p ≠ t := fun e => h4 (by simp [e])
      have htf : t ∉ ids a.reqs :=
        fresh_of_thread n a fut hJ i _ hg t (by simp [tids, pendIds, linkTargets, hpt])
      apply assemble (.link p t) rfl
      · exact Or.inr ⟨_, cs, hfX, rfl, htf⟩
      · intro k; simp only [newIds, linkTargets, hpt, if_false, List.count_cons, List.count_nil]; omega
      · intro j hji p' cs' hXj
        exact (hoth p (by simp [idsR]) j hji p' cs' hXj).1
      · intro _
        have hal : allLinked cs = true := h2 (by simp)
        refine ⟨p, cs ++ [.linked t], own_link a p t i cs hnd hX hpt, Or.inr ⟨lk', wr, hops', ?_, ?_, h3,
          fun hm => h4 (List.mem_cons_of_mem _ hm)⟩⟩
        · rw [h1, linkedIds_append]; simp [linkedIds]
        · intro _; rw [allLinked_append, hal]; rfl
    | nil =>
      cases wr with
      | nil => exact absurd rfl h3
      | cons x wr' =>
        simp only [mkOps, List.map_nil, List.nil_append, List.map_cons, List.cons.injEq] at hoq
        obtain ⟨rfl, hops⟩ := hoq
        have hops' : ops = mkOps p [] wr' := by simp [mkOps, hops]
        simp only [List.map_cons, List.append_nil] at h1
        have hl : linkedIds cs = x.2.id :: wr'.map (·.2.id) := h1.symm
        have hkl : x.2.id ∈ linkedIds cs := by rw [hl]; simp
        have hko := linkedIds_sub_open cs _ hkl
        apply assemble (.write (some x.1) x.2.id (.pay x.2.pay) acc) rfl
        · exact Or.inr ⟨_, cs, hX, rfl, isLinked_of_mem _ cs hkl⟩
        · intro k; simp [newIds, linkTargets]
        · intro j hji p' cs' hXj
          exact hoth x.2.id (by simp [idsR, cellsOfSt, hko]) j hji p' cs' hXj
        · intro hne
          have hwr' : wr' ≠ [] := by intro e; subst e; exact hne (by simp [hops', mkOps])
          cases acc with
          | true =>
            refine ⟨p, markWritten x.2.id x.1 cs, own_write_acc a p x.2.id i x.1 (.pay x.2.pay) cs _ hnd hX hl,
              Or.inr ⟨[], wr', hops', ?_, fun h => absurd rfl h, hwr', by simp⟩⟩
            rw [linkedIds_markWritten_head _ _ cs _ hl]; simp
          | false =>
            have hrest : wr'.map (·.2.id) ≠ [] := by simpa using hwr'
            have e1 : (acall a (.write (some x.1) x.2.id (.pay x.2.pay) false)).1 = (afill a x.2.id (.pay x.2.pay)).1 := by
              simp [acall, awrite]
            obtain ⟨_, hndo⟩ := open_nodup_of_mem a.reqs p i cs hnd hX
            refine ⟨p, fillCell x.2.id (.pay x.2.pay) cs, ?_, Or.inr ⟨[], wr', hops', ?_, fun h => absurd rfl h, hwr', by simp⟩⟩
            · rw [e1]; exact own_write_rej a p x.2.id i _ cs _ hnd hX hl hrest
            · rw [linkedIds_fillCell_head _ _ cs _ hndo hl]; simp

theorem protocol_run : ∀ (sched : List Step) (n : Node) (a : A),
    J n a (sched.flatMap introS) → Protocol a (callsOf n sched) := by
  intro sched
  induction sched with
  | nil => intro n a _; trivial
  | cons st sts ih =>
    intro n a hJ
    simp only [List.flatMap_cons] at hJ
    simp only [callsOf]
    cases h : Node.step n st with
    | none => exact ih n a (J_skip n a _ _ hJ)
    | some x =>
      obtain ⟨n', ev⟩ := x
      simp only
      cases st with
      | deliver i p =>
        simp only [Node.step] at h
        split at h
        · simp at h
        · rename_i th hg
          simp only [Option.some.injEq, Prod.mk.injEq] at h
          obtain ⟨rfl, _⟩ := h
          simp only [stepCalls, List.nil_append]
          exact ih _ a (J_deliver n a _ i p th hJ hg)
      | read i =>
        simp only [Node.step] at h
        split at h
        · rename_i p rest hg
          have hJ' : J n a (sts.flatMap introS) := by simpa [introS] using hJ
          have hsc : stepCalls n (.read i) = [.read i p.id] := by simp only [stepCalls, hg]
          rw [hsc]
          cases hk : n.kind with
          | manyToOne k =>
            simp only [hk] at h
            cases hr : rgRead k i p n.rows with
            | mk rows' grp =>
              simp only [hr, Option.some.injEq, Prod.mk.injEq] at h
              obtain ⟨rfl, _⟩ := h
              have hpc : (∃ g, (match grp with | some g => PC.action p g | none => PC.emit [.write none p]) = .action p g) ∨
                  (match grp with | some g => PC.action p g | none => PC.emit [.write none p]) = .emit [.write none p] := by
                cases grp with
                | some g => exact Or.inl ⟨g, rfl⟩
                | none => exact Or.inr rfl
              obtain ⟨hp, hJn⟩ := J_read n a _ i p rest _ rows' hJ' hg hpc
              simp only [hk] at hJn
              exact proto_single a _ _ hp (ih _ _ hJn)
          | oneToOne =>
            simp only [hk, Option.some.injEq, Prod.mk.injEq] at h
            obtain ⟨rfl, _⟩ := h
            obtain ⟨hp, hJn⟩ := J_read n a _ i p rest (.action p [p]) n.rows hJ' hg (Or.inl ⟨_, rfl⟩)
            simp only [hk] at hJn
            exact proto_single a _ _ hp (ih _ _ hJn)
          | oneToMany k =>
            simp only [hk, Option.some.injEq, Prod.mk.injEq] at h
            obtain ⟨rfl, _⟩ := h
            obtain ⟨hp, hJn⟩ := J_read n a _ i p rest (.action p [p]) n.rows hJ' hg (Or.inl ⟨_, rfl⟩)
            simp only [hk] at hJn
            exact proto_single a _ _ hp (ih _ _ hJn)
        · simp at h
      | finish i o =>
        simp only [Node.step] at h
        split at h
        · rename_i inbox p g hg
          obtain ⟨h1, h2⟩ := J_finish n a _ i o p g inbox hJ hg
          simp only [stepCalls, List.nil_append]
          cases hp : program n.kind p o with
          | some ops =>
            simp only [hp, Option.some.injEq, Prod.mk.injEq] at h
            obtain ⟨rfl, _⟩ := h
            exact ih _ a (h1 ops hp)
          | none =>
            simp only [hp, Option.some.injEq, Prod.mk.injEq] at h
            obtain ⟨rfl, _⟩ := h
            exact ih _ a h2
        · simp at h
      | op i acc =>
        simp only [Node.step] at h
        split at h
        · rename_i inbox o ops hg
          have hJ' : J n a (sts.flatMap introS) := by simpa [introS] using hJ
          obtain ⟨hp, hJn⟩ := J_op n a _ i acc inbox o ops hJ' hg
          have hsc : stepCalls n (.op i acc) = [opCall acc o] := by
            simp only [stepCalls, hg]; cases o <;> rfl
          rw [hsc]
          have hn' : n' = { n with tr := (tcall n.tr (opCall acc o)).1,
                                   threads := setThread n.threads i { inbox := inbox, pc := nextPc ops } } := by
            cases o with
            | link s t =>
              simp only [Option.some.injEq, Prod.mk.injEq] at h
              obtain ⟨rfl, _⟩ := h
              cases ops <;> rfl
            | write w q =>
              simp only [Option.some.injEq, Prod.mk.injEq] at h
              obtain ⟨rfl, _⟩ := h
              simp only [opCall, tcall, hJ.strict]
              cases ops <;> rfl
          rw [hn']
          exact proto_single a _ _ hp (ih _ _ hJn)
        · simp at h
      | answer w ans =>
        simp only [Node.step] at h
        split at h
        · simp at h
        · rename_i x xs hg
          have hJ' : J n a (sts.flatMap introS) := by simpa [introS] using hJ
          simp only [Option.some.injEq, Prod.mk.injEq] at h
          obtain ⟨rfl, _⟩ := h
          have hsc : stepCalls n (.answer w ans) = [.answer w ans] := by simp only [stepCalls, hg]
          rw [hsc]
          exact proto_single a _ _ trivial (ih _ _ (J_answer n a _ w ans hJ'))

theorem J_init (k : Kind) (fut : List Pid) (hnd : fut.Nodup) : J (Node.mk k) {} fut := by
  refine ⟨rfl, trel_init, inv_init, ?_, ?_⟩
  · intro x
    have h1 : (ids ({} : A).reqs).count x = 0 := by simp [ids]
    have h2 : ((Node.mk k).threads.flatMap tids).count x = 0 := by
      apply List.count_eq_zero.mpr
      simp only [Node.mk, List.mem_flatMap, List.mem_replicate, not_exists, not_and]
      intro th hth; rw [hth.2]; simp [tids, pendIds]
    have h3 : fut.count x ≤ 1 := by rw [List.Nodup.count hnd]; split <;> omega
    omega
  · intro i th hth
    have : th = {} := by
      have hm : th ∈ (Node.mk k).threads := by
        clear hnd
        generalize (Node.mk k).threads = ths at hth
        induction ths generalizing i with
        | nil => simp [getThread] at hth
        | cons t ts ih =>
          cases i with
          | zero => simp only [getThread, Option.some.injEq] at hth; simp [hth]
          | succ i => simp only [getThread] at hth; exact List.mem_cons_of_mem _ (ih i hth)
      simp only [Node.mk, List.mem_replicate] at hm; exact hm.2
    subst this; simp [ThOK]

/-- node programs follow the call protocol under every schedule with fresh packet ids -/
theorem node_protocol (k : Kind) (sched : List Step) (hnd : (sched.flatMap introS).Nodup) :
    Protocol {} (callsOf (Node.mk k) sched) :=
  protocol_run sched (Node.mk k) {} (J_init k _ hnd)

/-- the reply a (complete) request is answered with, as an event on its reader -/
def replyOfReq (x : Req) : List Ev := replyEv x.r x

def newReads : Call → Rid → List Pid
  | .read r p, r' => if r = r' then [p] else []
  | _, _ => []

def readLog : List Call → Rid → List Pid
  | [], _ => []
  | c :: cs, r => newReads c r ++ readLog cs r

/-- what one call answers: `popped` = the requests answered by it, in order, in the state they had -/
def Answers (rs rs' : List Req) (ev : List Ev) (nr : Rid → List Pid) : Prop :=
  ∃ popped : List Req, ev = popped.flatMap replyOfReq ∧ (∀ x ∈ popped, ∃ b, reply x.st = some b) ∧
    ∀ r, (rs.filter (fun x => x.r = r)).map (·.p) ++ nr r =
      (popped.filter (fun x => x.r = r)).map (·.p) ++ (rs'.filter (fun x => x.r = r)).map (·.p)

theorem answers_none (rs rs' : List Req) (h : ∀ r, (rs'.filter (fun x => x.r = r)).map (·.p) = (rs.filter (fun x => x.r = r)).map (·.p)) :
    Answers rs rs' [] (fun _ => []) := ⟨[], rfl, by simp, fun r => by simp [h r]⟩

theorem answers_flush (rs : List Req) (p' : Pid) (f : RSt → RSt) (r0 : Rid) :
    Answers rs (flushR r0 (updReq p' f rs)).1 (flushR r0 (updReq p' f rs)).2 (fun _ => []) := by
  obtain ⟨pre, h1, h2, h3, _⟩ := flushR_spec r0 (updReq p' f rs)
  have hpre : ∀ x ∈ pre, x.r = r0 := by
    intro x hx
    have : x ∈ (updReq p' f rs).filter (fun x => x.r = r0) := by rw [h1]; simp [hx]
    simpa using (List.mem_filter.mp this).2
  refine ⟨pre, ?_, h2, ?_⟩
  · rw [h3]
    clear h1 h2 h3
    induction pre with
    | nil => rfl
    | cons x xs ih =>
      have hx := hpre x (by simp)
      simp only [List.flatMap_cons, replyOfReq, hx]
      rw [ih (fun y hy => hpre y (by simp [hy]))]
  · intro r
    by_cases e : r = r0
    · subst e
      have hf : pre.filter (fun x => x.r = r) = pre := List.filter_eq_self.mpr (fun x hx => by simp [hpre x hx])
      rw [hf, List.append_nil, ← readsOf_upd rs p' f r, h1, List.map_append]
    · have hf : pre.filter (fun x => x.r = r) = [] :=
        List.filter_eq_nil_iff.mpr (fun x hx => by simp [hpre x hx]; exact fun e2 => e e2.symm)
      rw [hf, List.append_nil, filter_flushR_other r0 r _ e, readsOf_upd]; simp

theorem afterFill_answers (a : A) (rs : List Req) (p' : Pid) (f : RSt → RSt) (p : Pid) :
    Answers rs (afterFill a (updReq p' f rs) p).1.reqs (afterFill a (updReq p' f rs) p).2 (fun _ => []) ∨
    ((afterFill a (updReq p' f rs) p).1.reqs = a.reqs ∧ (afterFill a (updReq p' f rs) p).2 = []) := by
  cases hf : findReq p (updReq p' f rs) with
  | none => right; simp [afterFill, hf]
  | some x =>
    cases hr : reply x.st with
    | none =>
      left; simp only [afterFill, hf, hr]
      exact answers_none _ _ (fun r => readsOf_upd rs p' f r)
    | some b =>
      left; simp only [afterFill, hf, hr]
      exact answers_flush rs p' f x.r

theorem afill_answers (a : A) (k : Pid) (ans : Ans) :
    Answers a.reqs (afill a k ans).1.reqs (afill a k ans).2 (fun _ => []) := by
  have same : ∀ (x : A × List Ev), x.1.reqs = a.reqs → x.2 = [] → Answers a.reqs x.1.reqs x.2 (fun _ => []) :=
    fun x h1 h2 => by rw [h1, h2]; exact answers_none _ _ (fun _ => rfl)
  simp only [afill]
  cases hf : findReq k a.reqs with
  | some x =>
    obtain ⟨xp, xr, xst⟩ := x
    cases xst with
    | direct w =>
      rcases afterFill_answers a a.reqs k (fun _ => .cells [.filled ans]) k with h | ⟨h1, h2⟩
      · exact h
      · exact same _ h1 h2
    | cells cs =>
      cases cs with
      | nil =>
        rcases afterFill_answers a a.reqs k (fun _ => .cells [.filled ans]) k with h | ⟨h1, h2⟩
        · exact h
        · exact same _ h1 h2
      | cons c cs => exact same _ rfl rfl
  | none =>
    cases ho : ownerOf k a.reqs with
    | none => exact same _ rfl rfl
    | some x =>
      rcases afterFill_answers a a.reqs x.p (fillSt k ans) x.p with h | ⟨h1, h2⟩
      · exact h
      · exact same _ h1 h2

theorem acall_answers (a : A) (c : Call) :
    Answers a.reqs (acall a c).1.reqs (acall a c).2 (newReads c) := by
  have same : ∀ (x : A × List Ev), x.1.reqs = a.reqs → x.2 = [] → Answers a.reqs x.1.reqs x.2 (fun _ => []) :=
    fun x h1 h2 => by rw [h1, h2]; exact answers_none _ _ (fun _ => rfl)
  have upd : ∀ (x : A × List Ev) p' f, x.1.reqs = updReq p' f a.reqs → x.2 = [] → Answers a.reqs x.1.reqs x.2 (fun _ => []) :=
    fun x p' f h1 h2 => by rw [h1, h2]; exact answers_none _ _ (fun r => readsOf_upd a.reqs p' f r)
  cases c with
  | read r p =>
    refine ⟨[], rfl, by simp, ?_⟩
    intro r'
    simp only [acall, aread, newReads, List.filter_append, List.map_append, List.filter_nil, List.map_nil,
      List.nil_append, List.filter_cons]
    by_cases e : r = r' <;> simp [e]
  | link p q =>
    have : newReads (.link p q) = fun _ => [] := rfl
    rw [this]
    simp only [acall, alink]
    by_cases e : p = q
    · simp only [e, if_true]; exact same (a, []) rfl rfl
    · simp only [e, if_false]
      cases hf : findReq p a.reqs with
      | none => exact same (_, []) rfl rfl
      | some x =>
        obtain ⟨xp, xr, xst⟩ := x
        cases xst with
        | direct w => exact same (_, []) rfl rfl
        | cells cs => exact upd (_, []) p _ rfl rfl
  | write w k pay acc =>
    have : newReads (.write w k pay acc) = fun _ => [] := rfl
    rw [this]
    by_cases hacc : w.isSome = true ∧ acc = true
    · obtain ⟨hw, ha⟩ := hacc
      obtain ⟨w0, rfl⟩ := Option.isSome_iff_exists.mp hw
      subst ha
      simp only [acall, awrite]
      cases hf : findReq k a.reqs with
      | some x =>
        obtain ⟨xp, xr, xst⟩ := x
        cases xst with
        | direct w => exact same (_, []) rfl rfl
        | cells cs =>
          cases cs with
          | nil => exact upd (_, []) k _ rfl rfl
          | cons c cs => exact same (_, []) rfl rfl
      | none =>
        cases ho : ownerOf k a.reqs with
        | none => exact same (_, []) rfl rfl
        | some x =>
          obtain ⟨xp, xr, xst⟩ := x
          cases xst with
          | direct w => exact same (_, []) rfl rfl
          | cells cs =>
            simp only
            by_cases hl : isLinked k cs = true
            · simp only [hl, if_true]; exact answers_none _ _ (fun r => readsOf_upd a.reqs xp _ r)
            · simp only [hl]; exact same (_, []) rfl rfl
    · have e1 : awrite a w k pay acc = afill a k pay := by
        cases w <;> cases acc <;> simp_all [awrite]
      simp only [acall, e1]; exact afill_answers a k pay
  | answer w ans =>
    have : newReads (.answer w ans) = fun _ => [] := rfl
    rw [this]
    simp only [acall, aanswer]
    cases hq : getL a.wq w with
    | nil => exact same (a, []) rfl rfl
    | cons k rest => exact afill_answers { a with wq := setOrDel a.wq w rest } k ans

/-- Whole runs of the abstract tracer: the replies are those of a list `popped` of requests – each
complete when answered, answered with `reply` (= `Join` of its cells) – and for every reader the
requests read (initially held ++ read during the run) are, in read order, exactly the answered
ones followed by the ones still held: every request is answered at most once, in read order. -/
theorem arun_answers (cs : List Call) : ∀ a : A,
    Answers a.reqs (arun a cs).1.reqs (arun a cs).2 (readLog cs) := by
  induction cs with
  | nil => intro a; exact ⟨[], rfl, by simp, fun r => by simp [arun, readLog]⟩
  | cons c cs ih =>
    intro a
    obtain ⟨p1, e1, c1, o1⟩ := acall_answers a c
    obtain ⟨p2, e2, c2, o2⟩ := ih (acall a c).1
    refine ⟨p1 ++ p2, ?_, ?_, ?_⟩
    · simp only [arun, e1, e2, List.flatMap_append]
    · intro x hx; rcases List.mem_append.mp hx with h | h
      · exact c1 x h
      · exact c2 x h
    · intro r
      simp only [arun, readLog, List.filter_append, List.map_append]
      rw [← List.append_assoc, o1 r, List.append_assoc, o2 r, List.append_assoc]

/-- the answers held by the filled cells, in link order -/
def filledAns : List Cell → List Ans
  | [] => []
  | .filled a :: cs => a :: filledAns cs
  | _ :: cs => filledAns cs

theorem cellsOf_map_filled (cs : List Cell) (h : hasNil (cs.map cellVal) = false) :
    cellsOf (cs.map cellVal) = filledAns cs ∧ cs = (filledAns cs).map Cell.filled := by
  induction cs with
  | nil => exact ⟨rfl, rfl⟩
  | cons c cs ih =>
    cases c with
    | linked q => simp [cellVal, hasNil] at h
    | written q w => simp [cellVal, hasNil] at h
    | filled b =>
      simp only [List.map_cons, cellVal, hasNil] at h
      obtain ⟨h1, h2⟩ := ih h
      exact ⟨by simp [cellVal, cellsOf, filledAns, h1], by simp only [filledAns, List.map_cons]; rw [← h2]⟩

/-- a request is answered only when it has at least one derived packet and all of them are answered;
the reply is `Join` of those answers in link order -/
theorem reply_content (st : RSt) (a : Ans) (h : reply st = some a) :
    ∃ cs, st = .cells cs ∧ cs ≠ [] ∧ cs = (filledAns cs).map Cell.filled ∧ a = join (filledAns cs) := by
  cases st with
  | direct w => simp [reply] at h
  | cells cs =>
    cases cs with
    | nil => simp [reply] at h
    | cons c cs =>
      simp only [reply] at h
      by_cases hn : hasNil ((c :: cs).map cellVal) = true
      · rw [if_pos hn] at h; cases h
      · rw [if_neg hn] at h
        have hn' : hasNil ((c :: cs).map cellVal) = false := by simpa using hn
        obtain ⟨h1, h2⟩ := cellsOf_map_filled (c :: cs) hn'
        refine ⟨c :: cs, rfl, by simp, h2, ?_⟩
        simp only [Option.some.injEq] at h
        rw [← h, joinCells, h1]

theorem errsOf_ne_of_mem (as : List Ans) (ms : List Nat) (h : Ans.pay (.err ms) ∈ as) : errsOf as ≠ [] := by
  induction as with
  | nil => simp at h
  | cons a as ih =>
    rcases List.mem_cons.mp h with e | h'
    · subst e; simp [errsOf]
    · cases a with
      | empty => simpa [errsOf] using ih h'
      | pay v => cases v <;> simp [errsOf, ih h']

/-- an error among the answers to the derived packets makes the reply an error (with two or more
derived packets; with exactly one the reply is that answer itself) -/
theorem join_error_dominates (a b : Ans) (as : List Ans) (ms : List Nat) (h : Ans.pay (.err ms) ∈ a :: b :: as) :
    ∃ ms', join (a :: b :: as) = .pay (.err ms') := by
  have hne := errsOf_ne_of_mem _ ms h
  simp only [join]
  cases he : errsOf (a :: b :: as) with
  | nil => exact absurd he hne
  | cons e es => exact ⟨_, rfl⟩

theorem join_single (a : Ans) : join [a] = a := rfl

/-- a write nobody accepted (or `Write(nil, pck)`) answers the packet with itself -/
theorem write_refused_is_echo (a : A) (w : Option Wid) (k : Pid) (pay : Ans) (acc : Bool)
    (h : ¬ (w.isSome = true ∧ acc = true)) : awrite a w k pay acc = afill a k pay := by
  cases w <;> cases acc <;> simp_all [awrite]

/-- filling cell `k` changes nothing but the open cell with id `k`, which becomes `filled ans` -/
theorem fillCell_spec (k : Pid) (ans : Ans) (cs : List Cell) (hnd : (openIds cs).Nodup) (hk : k ∈ openIds cs) :
    ∃ pre c post, cs = pre ++ c :: post ∧ openIds [c] = [k] ∧ fillCell k ans cs = pre ++ Cell.filled ans :: post := by
  induction cs with
  | nil => simp [openIds] at hk
  | cons c cs ih =>
    cases c with
    | linked q =>
      simp only [openIds, List.nodup_cons, List.mem_cons] at hnd hk
      by_cases e : q = k
      · exact ⟨[], .linked q, cs, rfl, by simp [openIds, e], by simp [fillCell, e]⟩
      · obtain ⟨pre, c, post, h1, h2, h3⟩ := ih hnd.2 (by rcases hk with h | h; exact absurd h.symm e; exact h)
        exact ⟨.linked q :: pre, c, post, by simp [h1], h2, by simp [fillCell, e, h3]⟩
    | written q w =>
      simp only [openIds, List.nodup_cons, List.mem_cons] at hnd hk
      by_cases e : q = k
      · exact ⟨[], .written q w, cs, rfl, by simp [openIds, e], by simp [fillCell, e]⟩
      · obtain ⟨pre, c, post, h1, h2, h3⟩ := ih hnd.2 (by rcases hk with h | h; exact absurd h.symm e; exact h)
        exact ⟨.written q w :: pre, c, post, by simp [h1], h2, by simp [fillCell, e, h3]⟩
    | filled b =>
      simp only [openIds] at hnd hk
      obtain ⟨pre, c, post, h1, h2, h3⟩ := ih hnd hk
      exact ⟨.filled b :: pre, c, post, by simp [h1], h2, by simp [fillCell, h3]⟩

end Uniflow.ATracer
