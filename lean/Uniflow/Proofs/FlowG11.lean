/-
C02, joint model, general links, part 11: `gWrite` computed; the internal steps (`threadStep`, `backStep`,
`settle`) preserve the invariant.
-/
import Uniflow.Proofs.FlowG10

namespace Uniflow.FlowG
open Uniflow.Tracer Uniflow.Node Uniflow.Flow Uniflow.FlowInv
open Uniflow.NodeSpec (S EReq ESt Cur Rel curRead writesOf allIds flushS flushT markDone)
open Uniflow.ATracer (getL_setOrDel getL_aset)

/-- the invariant, with the ghost state hidden -/
def GIe (N : Nat) (links : List (Nat × List Tgt)) (g : G) : Prop := ∃ ss, GI N links ss D0 g

theorem pushedLog_ext (g gb : G) (key : Nat) (v : Val) (ts : List Tgt) (qid : Pid) (hqU : Unlogged g.log qid)
    (e_log : gb.log = g.log) : LogExt g.log (pushedLog gb key v ts qid) qid := by
  obtain ⟨_, _, _, _, _, f_acts, f_dels, f_echo, f_sa⟩ := pushAllG_frame key v ts gb
  refine ⟨hqU, fun p hp => ⟨?_, ?_, ?_, ?_⟩⟩
  · show aget (pushAllG key v ts gb).log.acts p = _; rw [f_acts, e_log]
  · show aget (aset (pushAllG key v ts gb).log.dels qid _) p = _; rw [aget_aset, f_dels, e_log]; simp [hp]
  · show aget (pushAllG key v ts gb).log.echo p = _; rw [f_echo, e_log]
  · show aget (pushAllG key v ts gb).log.sinkAns p = _; rw [f_sa, e_log]

theorem pushNodes_other (nodes : List Node) (t : Tgt) (c : Pid) (v : Val) (n : Nat)
    (h : ∀ port, t ≠ .node n port) : getNode (pushNodes nodes t c v) n = getNode nodes n := by
  cases t with
  | sink _ => rfl
  | node m port =>
    have hne : n ≠ m := fun e => h port (by rw [e])
    simp only [pushNodes]
    cases hg : getNode nodes m with
    | none => rfl
    | some nd =>
      simp only []
      cases hs : Node.step nd (.deliver port ⟨c, v⟩) with
      | none => rfl
      | some r =>
        simp only []
        rw [getNode_setNode nodes m n r.1 (by rw [hg]; rfl)]; simp [hne]

theorem pushAllG_nodes_other (key : Nat) (v : Val) (n : Nat) : ∀ (ts : List Tgt) (g : G),
    (∀ t ∈ ts, ∀ port, t ≠ .node n port) → getNode (pushAllG key v ts g).nodes n = getNode g.nodes n
  | [], _, _ => rfl
  | t :: ts, g, h => by
    simp only [pushAllG]
    rw [pushAllG_nodes_other key v n ts (pushG g key v t) (fun t' h' => h t' (List.mem_cons_of_mem _ h'))]
    exact pushNodes_other g.nodes t g.next v n (h t List.mem_cons_self)

theorem pushAllS_reqs (N : Nat) (hN : N ≤ 1000) (v : Val) (ts : List Tgt) (ss : Nat → S) (c : Pid) (n : Nat)
    (hts : ∀ t ∈ ts, TOK N t) : (pushAllS v ts ss c n).reqs = (ss n).reqs := by
  by_cases hn : n < N
  · exact (pushAllS_spec N hN v ts ss c n (Nat.lt_of_lt_of_le hn hN) hts).1
  · rw [pushAllS_dflt N v ts ss c n (Nat.le_of_not_lt hn) hts]

/-- the writer gets a new row -/
def newRow (g : G) (key : Nat) (k : Nat) : Flow.Writer :=
  Flow.Writer.mk ((gw g.writers key).rows ++ [List.replicate k none]) (gw g.writers key).queue

def rowPush (g : G) (key : Nat) : G :=
  { g with writers := aset g.writers key (newRow g key (getL g.links key).length) }

theorem gWrite_eqG (N : Nat) (ss : Nat → S) (g : G) (key : Nat) (qid : Pid) (v : Val)
    (hni : NI N ss g.nodes g.next) (hl : getL g.links key ≠ []) (hts : ∀ t ∈ getL g.links key, TOK N t)
    (hd : aget g.log.dels qid = none) :
    gWrite g key qid v =
      ({ pushAllG key v (getL g.links key) (rowPush g key) with
          log := pushedLog (rowPush g key) key v (getL g.links key) qid }, true) ∧
    NI N (pushAllS v (getL g.links key) ss g.next)
      (pushAllG key v (getL g.links key) (rowPush g key)).nodes (g.next + (getL g.links key).length) := by
  obtain ⟨e1, h1⟩ := deliverAll_eq N key v (getL g.links key) (rowPush g key) ss hni hts
  refine ⟨?_, h1⟩
  obtain ⟨_, _, _, _, _, _, f_dels, _, _⟩ := pushAllG_frame key v (getL g.links key) (rowPush g key)
  have hd' : getL (pushAllG key v (getL g.links key) (rowPush g key)).log.dels qid = [] := by
    rw [f_dels]; show getL g.log.dels qid = []; simp [getL, hd]
  cases hL : getL g.links key with
  | nil => exact absurd hL hl
  | cons t ts =>
    rw [hL] at e1 hd'
    have hrp : rowPush g key = { g with writers := aset g.writers key (newRow g key (t :: ts).length) } := by
      simp only [rowPush, hL]
    simp only [gWrite, hL, getWriter_eq]
    simp only [newRow] at hrp
    rw [← hrp, e1]
    simp only [pushedLog, hd', List.nil_append]

end Uniflow.FlowG
