/-
C02, joint model, one-in-port node kinds, part 28: class T2 is contained in class T3; a workflow of class T3 with
a one-to-many node, fan-out over its two out ports and fan-in.
-/
import Uniflow.Proofs.FlowH27

namespace Uniflow.FlowH
open Uniflow.Tracer Uniflow.Node Uniflow.Flow Uniflow.FlowInv Uniflow.FlowG Uniflow.ATracer

theorem graphWF3_of_graphWF (N : Nat) (links : List (Nat × List Tgt)) (h : GraphWF N links) :
    GraphWF3 (List.replicate N .oneToOne) links := by
  refine ⟨by simpa using h.small, ?_, h.nodupT, ?_, h.src, ?_, ?_⟩
  · intro k hk; rw [(List.mem_replicate.mp hk).2]; trivial
  · intro key m port hm; simpa using h.tnode key m port hm
  · intro key hk
    rcases h.keys key hk with e | ⟨n, w, h1, h2, e⟩
    · exact Or.inl e
    · exact Or.inr ⟨n, w, by simpa using h1, Nat.lt_of_lt_of_le h2 (by decide), e⟩
  · intro n w m port hn hw hm
    have hn' : n < N := by simpa using hn
    by_cases hw2 : w < 2
    · exact h.fwd n w m port hn' hw2 hm
    · exfalso
      have hne : getL links (wkey n w) ≠ [] := by intro e; rw [e] at hm; simp at hm
      have hw8 : w < 8 := hw
      rcases h.keys (wkey n w) hne with e | ⟨n', w', _, h2, e⟩
      · have := h.small; simp only [wkey, srcKey, srcNode] at e; omega
      · simp only [wkey] at e; omega

theorem extT3_of_extT1 (kinds : List Kind) (hk : ∀ k ∈ kinds, k = .oneToOne) (e : Ext) (h : ExtT1 e) : ExtT3 kinds e := by
  cases e with
  | send _ => trivial
  | sinkAnswer _ _ => trivial
  | release n r =>
    cases r with
    | out v =>
      simp only [ExtT3]
      cases hn : kinds[n]? with
      | none => exact Or.inl rfl
      | some k => right; left; rw [hk k (List.mem_of_getElem? hn)]
    | err v => trivial
    | same => exact h.elim
    | many _ => exact h.elim
    | drop => exact h.elim
    | sames _ => exact h.elim

/-- source → node 0 (one-to-many, 2 out ports); out[0] → node 1, out[1] → node 2; both feed node 3's in-port
(fan-in); node 3 → sink 0 -/
def forkLinks : List (Nat × List Tgt) :=
  [(srcKey, [.node 0 0]), (wkey 0 1, [.node 1 0]), (wkey 0 2, [.node 2 0]), (wkey 1 1, [.node 3 0]),
   (wkey 2 1, [.node 3 0]), (wkey 3 1, [.sink 0])]

def forkKinds : List Kind := [.oneToMany 2, .oneToOne, .oneToOne, .oneToOne]

theorem fork_getL (key : Nat) : getL forkLinks key =
    if key = srcKey then [.node 0 0] else if key = wkey 0 1 then [.node 1 0]
    else if key = wkey 0 2 then [.node 2 0] else if key = wkey 1 1 then [.node 3 0]
    else if key = wkey 2 1 then [.node 3 0] else if key = wkey 3 1 then [.sink 0] else [] := by
  simp only [forkLinks, getL, aget, srcKey, srcNode, wkey]
  by_cases e1 : key = 1000 * 64 + 1
  · subst e1; simp
  · by_cases e2 : key = 0 * 64 + 1
    · subst e2; simp
    · by_cases e3 : key = 0 * 64 + 2
      · subst e3; simp
      · by_cases e4 : key = 1 * 64 + 1
        · subst e4; simp
        · by_cases e5 : key = 2 * 64 + 1
          · subst e5; simp
          · by_cases e6 : key = 3 * 64 + 1
            · subst e6; simp
            · simp [e1, e2, e3, e4, e5, e6]

theorem fork_wf : GraphWF3 forkKinds forkLinks := by
  refine ⟨by decide, ?_, ?_, ?_, ?_, ?_, ?_⟩
  · intro k hk
    simp only [forkKinds, List.mem_cons, List.mem_nil_iff, or_false] at hk
    rcases hk with e | e | e | e <;> subst e <;> simp [KindOK, maxW]
  · intro key; rw [fork_getL]
    repeat' split
    all_goals simp [rkeyOf]
  · intro key m port hm
    rw [fork_getL] at hm
    repeat' split at hm
    all_goals simp at hm
    all_goals simp [forkKinds]; omega
  · rw [fork_getL]; simp
  · intro key hk
    rw [fork_getL] at hk
    by_cases h0 : key = srcKey
    · left; exact h0
    · right
      rw [if_neg h0] at hk
      by_cases h1 : key = wkey 0 1
      · exact ⟨0, 1, by decide, by decide, h1⟩
      · rw [if_neg h1] at hk
        by_cases h2 : key = wkey 0 2
        · exact ⟨0, 2, by decide, by decide, h2⟩
        · rw [if_neg h2] at hk
          by_cases h3 : key = wkey 1 1
          · exact ⟨1, 1, by decide, by decide, h3⟩
          · rw [if_neg h3] at hk
            by_cases h4 : key = wkey 2 1
            · exact ⟨2, 1, by decide, by decide, h4⟩
            · rw [if_neg h4] at hk
              by_cases h5 : key = wkey 3 1
              · exact ⟨3, 1, by decide, by decide, h5⟩
              · rw [if_neg h5] at hk; exact absurd rfl hk
  · intro n w m port hn hw hm
    rw [fork_getL] at hm
    have hn4 : n < 4 := hn
    have hw8 : w < 8 := hw
    have h0 : ¬ (wkey n w = srcKey) := by simp only [wkey, srcKey, srcNode]; omega
    rw [if_neg h0] at hm
    by_cases h1 : wkey n w = wkey 0 1
    · rw [if_pos h1] at hm; simp only [wkey] at h1; simp at hm; omega
    · rw [if_neg h1] at hm
      by_cases h2 : wkey n w = wkey 0 2
      · rw [if_pos h2] at hm; simp only [wkey] at h2; simp at hm; omega
      · rw [if_neg h2] at hm
        by_cases h3 : wkey n w = wkey 1 1
        · rw [if_pos h3] at hm; simp only [wkey] at h3; simp at hm; omega
        · rw [if_neg h3] at hm
          by_cases h4 : wkey n w = wkey 2 1
          · rw [if_pos h4] at hm; simp only [wkey] at h4; simp at hm; omega
          · rw [if_neg h4] at hm
            by_cases h5 : wkey n w = wkey 3 1
            · rw [if_pos h5] at hm; simp at hm
            · rw [if_neg h5] at hm; simp at hm

end Uniflow.FlowH
