/-
C02, joint model, one-in-port node kinds, part 29: class T4 – an action may return NO packet (a one-to-many
action returning nothing, or packets on non-existent ports only): the request is answered with itself.
-/
import Uniflow.Proofs.FlowH28

namespace Uniflow.FlowH
open Uniflow.Tracer Uniflow.Node Uniflow.Flow Uniflow.FlowInv Uniflow.FlowG Uniflow.ATracer
open Uniflow.ATracer (getL_setOrDel getL_aset)

/-- the action returned nothing: the program is the single `Write(nil, in)` -/
theorem nl_finish_echo (lg : Log) (n : Nat) (a : A) (p : Pkt) (grp inbox : List Pkt)
    (h : NL lg n { inbox := inbox, pc := .action p grp } a) :
    NL lg n { inbox := inbox, pc := .emit [.write none p] } a := by
  refine ⟨h.inb, h.own, ?_, ?_, ?_⟩
  · intro x hx
    rcases h.req x hx with hr | ⟨v, e1, e2, _⟩
    · left; simpa [ReqA, remFor, remOps] using hr
    · exact Or.inr ⟨v, e1, e2, rfl⟩
  · intro x hx hst
    rcases h.nz x hx hst with e | ⟨pk, grp', e, e2⟩ | ⟨q, e, _⟩
    · simp [remFor] at e
    · simp only [PC.action.injEq] at e
      exact Or.inr (Or.inr ⟨p, rfl, by rw [e.1]; exact e2⟩)
    · cases e
  · intro w q hm; simp at hm

theorem HI_finish_echo (kinds : List Kind) (links : List (Nat × List Tgt)) (aa : Nat → A) (g : G)
    (h : HI kinds links aa D0 g) (n : Nat) (nd : Node) (p : Pkt) (grp inbox : List Pkt)
    (hn : getNode g.nodes n = some nd) (ht : nd.threads = [{ inbox := inbox, pc := .action p grp }])
    (o : Outcome) (nx : Nat) (hp : program nd.kind p o = some [.write none p])
    (hnd : (introS (.finish 0 o)).Nodup) (hfr : ∀ k ∈ introS (.finish 0 o), g.next ≤ k ∧ k < nx) (hle : g.next ≤ nx) :
    ∃ nd', Node.step nd (.finish 0 o) = some (nd', []) ∧
      HI kinds links aa D0 { g with nodes := setNode g.nodes n nd', next := nx } := by
  have hjb := h.jb n nd hn
  have hnl := h.nl n nd _ hn ht
  obtain ⟨hst, hjb'⟩ := jb_finish nd (aa n) g.next nx hjb p grp inbox ht o _ hp hnd hfr hle
  refine ⟨_, hst, ?_⟩
  have hub : Unlogged g.log nx := h.logBound nx hle
  have key := HI_node_step kinds links aa D0 g h n nd
    { nd with threads := [{ inbox := inbox, pc := .emit [.write none p] }] } (aa n) g.log nx nx hn rfl hjb'
    (by
      intro th hth
      simp only [List.cons.injEq, and_true] at hth
      subst hth
      exact nl_finish_echo g.log n (aa n) p grp inbox hnl)
    hle
    (by rw [heldN_of _ (aa n) { inbox := inbox, pc := .emit [.write none p] } rfl, heldN_of nd (aa n) _ ht])
    (fun _ => rfl) (logExt_refl g.log nx hub) (fun _ _ => rfl)
    (fun id hid => h.logBound id (Nat.le_trans hle hid)) (Or.inl hle) (ordAt_none g.log nx nx hub.2.1 hub.1)
  rw [updA_self] at key
  exact HI_congr kinds links _ D0 _ _ key rfl rfl rfl rfl rfl rfl rfl rfl rfl

/-- the schedules of class T4 = T3 plus: a one-to-many action returns nothing (`drop`) or any list of
packets (`many`, possibly none on an existing port) -/
def ExtT4 (kinds : List Kind) : Ext → Prop
  | .send _ => True
  | .sinkAnswer _ _ => True
  | .release n (.out _) => kinds[n]? = none ∨ kinds[n]? = some .oneToOne ∨ ∃ k, kinds[n]? = some (.oneToMany (k + 1))
  | .release _ (.err _) => True
  | .release n (.many _) => kinds[n]? = none ∨ ∃ k, kinds[n]? = some (.oneToMany k)
  | .release n .drop => kinds[n]? = none ∨ ∃ k, kinds[n]? = some (.oneToMany k)
  | _ => False

def ProgE (kind : Kind) (p : Pkt) (o : Outcome) (c nx : Pid) : Prop :=
  program kind p o = some [.write none p] ∧ (introS (.finish 0 o)).Nodup ∧
    (∀ k ∈ introS (.finish 0 o), c ≤ k ∧ k < nx) ∧ c ≤ nx

theorem HIe_relTail_echo (kinds : List Kind) (links : List (Nat × List Tgt)) (hwf : GraphWF3 kinds links) (g g' : G)
    (h : HIe kinds links g) (n : Nat) (nd : Node) (p : Pkt) (grp inbox : List Pkt)
    (hn : getNode g.nodes n = some nd) (ht : nd.threads = [{ inbox := inbox, pc := .action p grp }])
    (o : Outcome) (nx : Pid) (hpo : ProgE nd.kind p o g.next nx) (hs : relTail g n nd p o nx = some g') :
    HIe kinds links g' := by
  obtain ⟨aa, h⟩ := h
  obtain ⟨hp, hnd, hfr, hle⟩ := hpo
  obtain ⟨nd', hst, key⟩ := HI_finish_echo kinds links aa g h n nd p grp inbox hn ht o nx hp hnd hfr hle
  simp only [relTail, hst, hp, writeIds, List.filter, bne_self_eq_false, Option.some.injEq] at hs
  subst hs
  apply HIe_settle kinds links hwf
  exact ⟨aa, HI_congr kinds links _ D0 _ _ key rfl rfl rfl rfl rfl rfl rfl rfl rfl⟩

theorem prog_many4 (k : Nat) (p : Pkt) (c : Pid) (vs : List (Option Val)) :
    ProgOK (.oneToMany k) p (.outs (allocOuts vs c).1) c (allocOuts vs c).2 ∨
    ProgE (.oneToMany k) p (.outs (allocOuts vs c).1) c (allocOuts vs c).2 := by
  obtain ⟨a1, a2, a3⟩ := allocOuts_ids vs c
  cases hvl : validOuts k 0 (allocOuts vs c).1 with
  | nil =>
    right
    exact ⟨by simp only [program, hvl], by simpa [introS] using a1, by simpa [introS] using a2, a3⟩
  | cons x xs =>
    left
    refine ⟨(x :: xs).map (fun iq => Op.link p.id iq.2.id) ++ (x :: xs).map (fun iq => Op.write (some (outW iq.1)) iq.2),
      by simp only [program, hvl], ?_, by simpa [introS] using a1, by simpa [introS] using a2, a3⟩
    simp [linkTargets]

theorem HIe_release4 (kinds : List Kind) (links : List (Nat × List Tgt)) (hwf : GraphWF3 kinds links) (g g' : G) (n : Nat)
    (r : Flow.Rel) (hr : ExtT4 kinds (.release n r)) (h : HIe kinds links g) (hs : release g n r = some g') :
    HIe kinds links g' := by
  cases r with
  | same => exact hr.elim
  | sames _ => exact hr.elim
  | out v => exact HIe_release kinds links hwf g g' n (.out v) hr h hs
  | err v => exact HIe_release kinds links hwf g g' n (.err v) trivial h hs
  | many vs =>
    obtain ⟨aa, h⟩ := h
    have h0 : HI kinds links aa D0 (clearObs g) := HI_congr kinds links aa D0 g _ h rfl rfl rfl rfl rfl rfl rfl rfl rfl
    simp only [release] at hs
    cases hn : getNode (clearObs g).nodes n with
    | none => simp [hn] at hs
    | some nd =>
      simp only [hn] at hs
      have hjb := h0.jb n nd hn
      obtain ⟨th, hth⟩ := threads_one nd hjb.one
      cases hat : actionThread nd.threads 0 with
      | none => simp [hat] at hs
      | some ip =>
        obtain ⟨i, p⟩ := ip
        rw [hth] at hat
        obtain ⟨ei, grp, hthe⟩ := action_single th i p hat
        subst ei
        rw [hthe] at hth
        have hat' : actionThread nd.threads 0 = some (0, p) := by rw [hth]; rfl
        simp only [hat'] at hs
        have hk := h0.kindEq n nd hn
        simp only [ExtT4] at hr
        rw [hk] at hr
        rcases hr with e | ⟨k, e⟩
        · cases e
        · simp only [Option.some.injEq] at e
          rcases prog_many4 k p (clearObs g).next vs with hpo | hpo
          · rw [← e] at hpo
            exact HIe_relTail kinds links hwf (clearObs g) g' ⟨aa, h0⟩ n nd p grp th.inbox hn hth _ _ hpo hs
          · rw [← e] at hpo
            exact HIe_relTail_echo kinds links hwf (clearObs g) g' ⟨aa, h0⟩ n nd p grp th.inbox hn hth _ _ hpo hs
  | drop =>
    obtain ⟨aa, h⟩ := h
    have h0 : HI kinds links aa D0 (clearObs g) := HI_congr kinds links aa D0 g _ h rfl rfl rfl rfl rfl rfl rfl rfl rfl
    simp only [release] at hs
    cases hn : getNode (clearObs g).nodes n with
    | none => simp [hn] at hs
    | some nd =>
      simp only [hn] at hs
      have hjb := h0.jb n nd hn
      obtain ⟨th, hth⟩ := threads_one nd hjb.one
      cases hat : actionThread nd.threads 0 with
      | none => simp [hat] at hs
      | some ip =>
        obtain ⟨i, p⟩ := ip
        rw [hth] at hat
        obtain ⟨ei, grp, hthe⟩ := action_single th i p hat
        subst ei
        rw [hthe] at hth
        have hat' : actionThread nd.threads 0 = some (0, p) := by rw [hth]; rfl
        simp only [hat'] at hs
        have hk := h0.kindEq n nd hn
        simp only [ExtT4] at hr
        rw [hk] at hr
        rcases hr with e | ⟨k, e⟩
        · cases e
        · simp only [Option.some.injEq] at e
          have hpo : ProgE nd.kind p (.outs []) (clearObs g).next (clearObs g).next := by
            rw [e]
            exact ⟨by simp [program, validOuts], by simp [introS, cellsOf], by simp [introS, cellsOf], Nat.le_refl _⟩
          exact HIe_relTail_echo kinds links hwf (clearObs g) g' ⟨aa, h0⟩ n nd p grp th.inbox hn hth _ _ hpo hs

theorem HIe_runExt4 (kinds : List Kind) (links : List (Nat × List Tgt)) (hwf : GraphWF3 kinds links) (es : List Ext) :
    ∀ (g : G), (∀ e ∈ es, ExtT4 kinds e) → HIe kinds links g → HIe kinds links (runExt g es) := by
  induction es with
  | nil => intro g _ h; exact h
  | cons e es ih =>
    intro g he h
    simp only [runExt]
    apply ih _ (fun e' he' => he e' (List.mem_cons_of_mem _ he'))
    have hee := he e (by simp)
    cases e with
    | send v => exact HIe_send kinds links hwf g v h
    | sinkAnswer k a =>
      simp only [ext]
      cases hs : sinkAnswer g k a with
      | none => exact h
      | some g' => exact HIe_sinkAnswer kinds links hwf g g' k a h hs
    | release n r =>
      simp only [ext]
      cases hs : release g n r with
      | none => exact h
      | some g' => exact HIe_release4 kinds links hwf g g' n r hee h hs

theorem extT4_of_extT3 (kinds : List Kind) (e : Ext) (h : ExtT3 kinds e) : ExtT4 kinds e := by
  cases e with
  | send _ => trivial
  | sinkAnswer _ _ => trivial
  | release n r =>
    cases r with
    | out v => exact h
    | err v => trivial
    | same => exact h.elim
    | drop => exact h.elim
    | sames _ => exact h.elim
    | many vs =>
      obtain ⟨k, e, _⟩ := h
      exact Or.inr ⟨k, e⟩

end Uniflow.FlowH
