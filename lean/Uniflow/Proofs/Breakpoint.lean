/-
Helper lemmas for C19 (release on close): which program counters a terminal state of
`Uniflow.Breakpoint` can still contain once `done` (and `d.done`) is closed.
-/
import Uniflow.Model.Breakpoint

namespace Uniflow.Breakpoint

/-- No action is enabled. -/
def Terminal (s : St) : Prop := ∀ a, step s a = none

def Pc.isRet : Pc → Bool
  | .ret _ => true
  | _ => false

theorem anyT_false (s : St) (p : Nat → Bool) : anyT s p = false ↔ ∀ t, t < s.nt → p t = false := by
  unfold anyT
  rw [List.any_eq_false]
  constructor
  · intro h t ht
    have := h t (List.mem_range.mpr ht)
    simpa using this
  · intro h t ht
    have := h t (List.mem_range.mp ht)
    simp [this]

section
variable (s : St) (hT : Terminal s)
include hT

theorem term_hooks (h : Nat) (hh : h < s.nh) (hd : s.done (s.hbp h) = true) : s.hpc h = .returned := by
  have := hT (.hdone h)
  cases hp : s.hpc h <;> simp [step, hh, hd, hp] at this
  rfl

theorem term_no_dSel (t : Nat) (ht : t < s.nt) (hd : s.done (s.tbp t) = true) : s.pc t ≠ .dSel := by
  intro h
  have := hT (.tau t)
  simp [step, tau, ht, h, hd] at this

theorem term_no_nSel (t : Nat) (ht : t < s.nt) (hd : s.done (s.tbp t) = true) : s.pc t ≠ .nSel := by
  intro h
  have := hT (.tau t)
  simp [step, tau, ht, h, hd] at this

theorem term_rmu_free (b : Nat) (hd : s.done b = true) : rmuHeld s b = false := by
  unfold rmuHeld
  rw [anyT_false]
  intro t ht
  by_cases hb : s.tbp t = b
  · have h1 := term_no_dSel s hT t ht (by rw [hb]; exact hd)
    have h2 := term_no_nSel s hT t ht (by rw [hb]; exact hd)
    simp [h1, h2]
  · simp [hb]

theorem term_no_nLock (t : Nat) (ht : t < s.nt) (hd : s.done (s.tbp t) = true) : s.pc t ≠ .nLock := by
  intro h
  have hr := term_rmu_free s hT (s.tbp t) hd
  have := hT (.tau t)
  simp only [step, tau, ht, if_true, h, hr] at this
  cases hc : s.cur (s.tbp t) <;> simp [hc] at this

theorem term_no_cRmu (t : Nat) (ht : t < s.nt) (hd : s.done (s.tbp t) = true) : s.pc t ≠ .cRmu := by
  intro h
  have hr := term_rmu_free s hT (s.tbp t) hd
  have := hT (.tau t)
  simp only [step, tau, ht, if_true, h, hr] at this
  cases hp : s.prog t <;> simp [hp] at this

theorem term_wmu_free (b : Nat) (hd : s.done b = true) : wmuHeld s b = false := by
  unfold wmuHeld
  rw [anyT_false]
  intro t ht
  by_cases hb : s.tbp t = b
  · have h1 := term_no_cRmu s hT t ht (by rw [hb]; exact hd)
    simp [h1]
  · simp [hb]

theorem term_no_cWmu (t : Nat) (ht : t < s.nt) (hd : s.done (s.tbp t) = true) : s.pc t ≠ .cWmu := by
  intro h
  have hw := term_wmu_free s hT (s.tbp t) hd
  have := hT (.tau t)
  simp only [step, tau, ht, if_true, h, hw, hd] at this
  cases hp : s.prog t <;> simp [hp] at this

/-- `Next`, `Done`, `d.next` cannot be left at their first step. -/
theorem term_no_start_bp (t : Nat) (ht : t < s.nt) (hd : s.done (s.tbp t) = true)
    (hp : s.prog t = .next ∨ s.prog t = .done ∨ s.prog t = .dnext) : s.pc t ≠ .start := by
  intro h
  have hr := term_rmu_free s hT (s.tbp t) hd
  have := hT (.tau t)
  rcases hp with hp | hp | hp <;>
  · simp only [step, tau, ht, if_true, h, hp, hr] at this
    cases hc : s.cur (s.tbp t) <;> simp [hc] at this

theorem term_no_start_close (t : Nat) (ht : t < s.nt) (hd : s.done (s.tbp t) = true)
    (hp : s.prog t = .close) : s.pc t ≠ .start := by
  intro h
  have hw := term_wmu_free s hT (s.tbp t) hd
  have := hT (.tau t)
  simp [step, tau, ht, h, hp, hw, hd] at this

theorem term_no_xSend (hdd : s.ddone = true) (t : Nat) (ht : t < s.nt) : s.pc t ≠ .xSend := by
  intro h
  have := hT (.tau t)
  simp [step, tau, ht, h, hdd] at this

theorem term_no_pSel (hdd : s.ddone = true) (t : Nat) (ht : t < s.nt) : s.pc t ≠ .pSel := by
  intro h
  have := hT (.tau t)
  simp [step, tau, ht, h, hdd] at this

theorem term_drmu_free (hdd : s.ddone = true) : drmuHeld s = false := by
  unfold drmuHeld
  rw [anyT_false]
  intro t ht
  have h1 := term_no_pSel s hT hdd t ht
  simp [h1]

theorem term_no_qRmu (hdd : s.ddone = true) (t : Nat) (ht : t < s.nt) : s.pc t ≠ .qRmu := by
  intro h
  have hr := term_drmu_free s hT hdd
  have := hT (.tau t)
  simp [step, tau, ht, h, hr] at this

/-- Every breakpoint a thread works on is closed. -/
def AllDone (s : St) : Prop := ∀ t, t < s.nt → s.done (s.tbp t) = true

theorem term_dwmu_free (hd : AllDone s) (hdd : s.ddone = true) : dwmuHeld s = false := by
  unfold dwmuHeld
  rw [anyT_false]
  intro t ht
  have h1 := term_no_cWmu s hT t ht (hd t ht)
  have h2 := term_no_cRmu s hT t ht (hd t ht)
  have h3 := term_no_qRmu s hT hdd t ht
  simp [h1, h2, h3]

theorem term_no_start_dbg (hd : AllDone s) (hdd : s.ddone = true) (t : Nat) (ht : t < s.nt)
    (hp : s.prog t = .pause ∨ s.prog t = .step ∨ s.prog t = .remove ∨ s.prog t = .dclose) :
    s.pc t ≠ .start := by
  intro h
  have hr := term_drmu_free s hT hdd
  have hw := term_dwmu_free s hT hd hdd
  have := hT (.tau t)
  rcases hp with hp | hp | hp | hp
  · simp only [step, tau, ht, if_true, h, hp, hr] at this
    cases hc : s.dcur <;> simp [hc] at this
  · simp only [step, tau, ht, if_true, h, hp, hr] at this
    cases hc : s.dcur <;> simp [hc] at this
  · simp only [step, tau, ht, if_true, h, hp, hw] at this
    cases hc : s.reg (s.tbp t) <;> simp [hc] at this
  · simp only [step, tau, ht, if_true, h, hp, hw, hdd] at this
    simp at this

end

end Uniflow.Breakpoint

/-! ### the measure decreases along every step -/

namespace Uniflow.Breakpoint

theorem sumTo_congr (n : Nat) (f g : Nat → Nat) (h : ∀ i, i < n → f i = g i) : sumTo n f = sumTo n g := by
  induction n with
  | zero => rfl
  | succ n ih =>
    simp only [sumTo]
    rw [ih (fun i hi => h i (Nat.lt_succ_of_lt hi)), h n (Nat.lt_succ_self n)]

theorem sumTo_setf (n : Nat) (f : Nat → Nat) (i v : Nat) (hi : i < n) :
    sumTo n (setf f i v) + f i = sumTo n f + v := by
  induction n with
  | zero => omega
  | succ n ih =>
    simp only [sumTo]
    by_cases h : i = n
    · subst h
      have : sumTo i (setf f i v) = sumTo i f := by
        apply sumTo_congr; intro j hj; simp [setf]; omega
      simp [this, setf]; omega
    · have := ih (by omega)
      have h2 : setf f i v n = f n := by simp [setf]; omega
      omega

/-- Thread part of the measure after moving thread `t` to program counter `v` on breakpoint `b'`. -/
theorem T_update (n nb : Nat) (prog : Nat → Prog) (pc : Nat → Pc) (tbp : Nat → Nat) (t : Nat) (v : Pc)
    (b' : Nat) (ht : t < n) :
    sumTo n (fun j => rank nb (setf tbp t b' j) (prog j) (setf pc t v j)) + rank nb (tbp t) (prog t) (pc t) =
      sumTo n (fun j => rank nb (tbp j) (prog j) (pc j)) + rank nb b' (prog t) v := by
  have h := sumTo_setf n (fun j => rank nb (tbp j) (prog j) (pc j)) t (rank nb b' (prog t) v) ht
  have e : sumTo n (fun j => rank nb (setf tbp t b' j) (prog j) (setf pc t v j)) =
      sumTo n (setf (fun j => rank nb (tbp j) (prog j) (pc j)) t (rank nb b' (prog t) v)) := by
    apply sumTo_congr; intro j _
    by_cases hj : j = t <;> simp [setf, hj]
  rw [e]; exact h

theorem setf_self {α : Type} (f : Nat → α) (t : Nat) : setf f t (f t) = f := by
  funext j; by_cases h : j = t <;> simp [setf, h]

theorem H_update (n : Nat) (hpc : Nat → HPc) (h : Nat) (v : HPc) (hh : h < n) :
    sumTo n (fun j => hrank (setf hpc h v j)) + hrank (hpc h) =
      sumTo n (fun j => hrank (hpc j)) + hrank v := by
  have h0 := sumTo_setf n (fun j => hrank (hpc j)) h (hrank v) hh
  have e : sumTo n (fun j => hrank (setf hpc h v j)) = sumTo n (setf (fun j => hrank (hpc j)) h (hrank v)) := by
    apply sumTo_congr; intro j _
    by_cases hj : j = h <;> simp [setf, hj]
  rw [e]; exact h0

@[simp] theorem rank_ret (nb b : Nat) (p : Prog) (r : Bool) : rank nb b p (.ret r) = 0 := by cases p <;> rfl
@[simp] theorem rank_xSend (nb b : Nat) (p : Prog) : rank nb b p .xSend = 1 := by cases p <;> rfl
@[simp] theorem rank_nSel (nb b : Nat) (p : Prog) : rank nb b p .nSel = 2 := by cases p <;> rfl
@[simp] theorem rank_nLock (nb b : Nat) (p : Prog) : rank nb b p .nLock = 3 := by cases p <;> rfl
@[simp] theorem rank_dSel (nb b : Nat) (p : Prog) : rank nb b p .dSel = 4 := by cases p <;> rfl
@[simp] theorem rank_pSel (nb b : Nat) (p : Prog) : rank nb b p .pSel = 1 := by cases p <;> rfl
@[simp] theorem rank_qRmu (nb b : Nat) (p : Prog) : rank nb b p .qRmu = 1 := by cases p <;> rfl
theorem rank_cRmu (nb b : Nat) (p : Prog) :
    rank nb b p .cRmu = if p = .dclose then 3 * (nb - b) + 2 else 2 := by cases p <;> rfl
theorem rank_cWmu (nb b : Nat) (p : Prog) :
    rank nb b p .cWmu = if p = .dclose then 3 * (nb - b) + 3 else 3 := by cases p <;> rfl

theorem rank_afterDone (nb b : Nat) (p : Prog) (r : Bool) : rank nb b p (afterDone p r) ≤ 3 := by
  cases p <;> simp [afterDone]
theorem rank_afterNext (nb b : Nat) (p : Prog) (r : Bool) : rank nb b p (afterNext p r) ≤ 1 := by
  cases p <;> cases r <;> simp [afterNext]

/-- A step that only moves thread `t` to a program counter of smaller rank. -/
theorem measure_pc_lt (s s' : St) (t : Nat) (v : Pc) (ht : t < s.nt) (hnb : s'.nb = s.nb)
    (hnh : s'.nh = s.nh) (hhpc : s'.hpc = s.hpc) (hnt : s'.nt = s.nt) (hprog : s'.prog = s.prog)
    (htbp : s'.tbp = s.tbp) (hpc : s'.pc = setf s.pc t v)
    (hr : rank s.nb (s.tbp t) (s.prog t) v < rank s.nb (s.tbp t) (s.prog t) (s.pc t)) :
    measure s' < measure s := by
  unfold measure
  rw [hnb, hnh, hhpc, hnt, hprog, htbp, hpc]
  have := T_update s.nt s.nb s.prog s.pc s.tbp t v (s.tbp t) ht
  rw [setf_self] at this
  omega

/-- … and to breakpoint `b'` (the loop of `Debugger.Close`). -/
theorem measure_pcb_lt (s s' : St) (t : Nat) (v : Pc) (b' : Nat) (ht : t < s.nt) (hnb : s'.nb = s.nb)
    (hnh : s'.nh = s.nh) (hhpc : s'.hpc = s.hpc) (hnt : s'.nt = s.nt) (hprog : s'.prog = s.prog)
    (htbp : s'.tbp = setf s.tbp t b') (hpc : s'.pc = setf s.pc t v)
    (hr : rank s.nb b' (s.prog t) v < rank s.nb (s.tbp t) (s.prog t) (s.pc t)) :
    measure s' < measure s := by
  unfold measure
  rw [hnb, hnh, hhpc, hnt, hprog, htbp, hpc]
  have := T_update s.nt s.nb s.prog s.pc s.tbp t v b' ht
  omega

theorem nextReg_spec (s : St) (start b : Nat) (h : nextReg s start = some b) : start ≤ b ∧ b < s.nb := by
  unfold nextReg at h
  have h1 := List.find?_some h
  have h2 := List.mem_of_find?_eq_some h
  simp at h1
  exact ⟨h1.1, List.mem_range.mp h2⟩

/-- `Debugger.Close` moving on from breakpoint `b` (at `cWmu` or `cRmu`). -/
theorem measure_dcloseNext (s0 s : St) (t b : Nat) (ht : t < s.nt) (hp : s.prog t = .dclose) (hb : s.tbp t = b)
    (hpc : s.pc t = .cWmu ∨ s.pc t = .cRmu) (hm : measure s = measure s0) :
    measure (dcloseNext s t b) < measure s0 := by
  rw [← hm]
  unfold dcloseNext
  split
  next b' hn =>
    obtain ⟨h1, h2⟩ := nextReg_spec s (b + 1) b' hn
    refine measure_pcb_lt s _ t .cWmu b' ht rfl rfl rfl rfl rfl rfl rfl ?_
    rcases hpc with h | h <;> simp [h, hp, hb, rank_cWmu, rank_cRmu] <;> omega
  next hn =>
    refine measure_pc_lt s _ t .qRmu ht rfl rfl rfl rfl rfl rfl rfl ?_
    rcases hpc with h | h <;> simp [h, hp, rank_cWmu, rank_cRmu]

theorem measure_spawn (s : St) (t c : Nat) (ht : t < s.nt) (hpc : s.pc t = .start) (hp : s.prog t = .step) :
    measure (({ s with pc := setf s.pc t .pSel } : St).addThread .dnext c) < measure s := by
  unfold measure St.addThread
  simp only [sumTo]
  have e : sumTo s.nt (fun j => rank s.nb (setf s.tbp s.nt c j) (setf s.prog s.nt Prog.dnext j)
        (setf (setf s.pc t Pc.pSel) s.nt Pc.start j)) =
      sumTo s.nt (fun j => rank s.nb (s.tbp j) (s.prog j) (setf s.pc t .pSel j)) := by
    apply sumTo_congr
    intro j hj
    have : j ≠ s.nt := by omega
    simp [setf, this]
  rw [e]
  have := T_update s.nt s.nb s.prog s.pc s.tbp t .pSel (s.tbp t) ht
  rw [setf_self] at this
  simp [hpc, hp, rank, setf] at this ⊢
  omega

theorem tau_measure (s s' : St) (t : Nat) (h : tau s t = some s') : measure s' < measure s := by
  unfold tau at h
  split at h
  next ht =>
    have h1 := rank_afterDone s.nb (s.tbp t) (s.prog t) true
    have h2 := rank_afterDone s.nb (s.tbp t) (s.prog t) false
    have h3 := rank_afterNext s.nb (s.tbp t) (s.prog t) true
    have h4 := rank_afterNext s.nb (s.tbp t) (s.prog t) false
    simp only [] at h
    split at h
    all_goals (repeat' (split at h))
    all_goals (first | (simp at h; done) | skip)
    all_goals (simp only [Option.some.injEq] at h; subst h)
    all_goals (first
      | (refine measure_pc_lt s _ t _ ht rfl rfl rfl rfl rfl rfl rfl ?_
         first | (simp [*, rank, afterDone, afterNext, rank_cWmu, rank_cRmu]; done)
               | (simp only [*] at *; simp [rank_cWmu, rank_cRmu] at *; omega))
      | skip)
    all_goals (first
      | (exact measure_dcloseNext s s t _ ht (by assumption) rfl (Or.inl (by assumption)) rfl)
      | (exact measure_dcloseNext s _ t _ ht (by assumption) rfl (Or.inr (by assumption)) rfl)
      | (exact measure_spawn s t _ ht (by assumption) (by assumption))
      | (refine measure_pc_lt s _ t _ ht rfl rfl rfl rfl rfl rfl rfl ?_
         simp only [*, rank_cWmu, rank_cRmu]; split <;> omega)
      | (refine measure_pcb_lt s _ t _ _ ht rfl rfl rfl rfl rfl rfl rfl ?_
         simp [*, rank, rank_cWmu]; omega)
      | skip)
  next => simp at h

theorem T_update' (n nb : Nat) (prog : Nat → Prog) (pc : Nat → Pc) (tbp : Nat → Nat) (t : Nat) (v : Pc)
    (ht : t < n) :
    sumTo n (fun j => rank nb (tbp j) (prog j) (setf pc t v j)) + rank nb (tbp t) (prog t) (pc t) =
      sumTo n (fun j => rank nb (tbp j) (prog j) (pc j)) + rank nb (tbp t) (prog t) v := by
  have := T_update n nb prog pc tbp t v (tbp t) ht
  rw [setf_self] at this
  exact this

theorem step_measure (s s' : St) (a : Act) (h : step s a = some s') : measure s' < measure s := by
  cases a with
  | tau t => exact tau_measure s s' t h
  | hdone hk =>
    simp only [step] at h
    split at h
    next hc =>
      cases hp : s.hpc hk with
      | sendIn =>
        rw [hp] at h; simp only [Option.some.injEq] at h; subst h
        have := H_update s.nh s.hpc hk .waitOut hc.1
        unfold measure
        simp only [hp, hrank] at this ⊢
        omega
      | waitOut =>
        rw [hp] at h; simp only [Option.some.injEq] at h; subst h
        have := H_update s.nh s.hpc hk .returned hc.1
        unfold measure
        simp only [hp, hrank] at this ⊢
        omega
      | returned => rw [hp] at h; simp at h
    next => simp at h
  | recvIn t hk =>
    simp only [step] at h
    split at h
    next hc =>
      simp only [Option.some.injEq] at h; subst h
      have h1 := H_update s.nh s.hpc hk .waitOut hc.2.1
      have h2 := T_update' s.nt s.nb s.prog s.pc s.tbp t (afterNext (s.prog t) true) hc.1
      have h3 := rank_afterNext s.nb (s.tbp t) (s.prog t) true
      unfold measure
      simp only [hc.2.2.1, hc.2.2.2.1, hrank, rank_nSel] at h1 h2 ⊢
      omega
    next => simp at h
  | sendOut t hk =>
    simp only [step] at h
    split at h
    next hc =>
      simp only [Option.some.injEq] at h; subst h
      have h1 := H_update s.nh s.hpc hk .returned hc.2.1
      have h2 := T_update' s.nt s.nb s.prog s.pc s.tbp t (afterDone (s.prog t) true) hc.1
      have h3 := rank_afterDone s.nb (s.tbp t) (s.prog t) true
      unfold measure
      simp only [hc.2.2.1, hc.2.2.2.1, hrank, rank_dSel] at h1 h2 ⊢
      omega
    next => simp at h
  | dRecv p x =>
    simp only [step] at h
    split at h
    next hc =>
      simp only [Option.some.injEq] at h; subst h
      have hne : x ≠ p := by
        intro e; subst e; rw [hc.2.2.1] at hc; exact absurd hc.2.2.2 (by decide)
      have h1 := T_update' s.nt s.nb s.prog s.pc s.tbp p (.ret true) hc.1
      have h2 := T_update' s.nt s.nb s.prog (setf s.pc p (.ret true)) s.tbp x (.ret true) hc.2.1
      have e : setf s.pc p (.ret true) x = s.pc x := by simp [setf, hne]
      unfold measure
      simp only [e, hc.2.2.1, hc.2.2.2, rank_ret, rank_pSel, rank_xSend] at h1 h2 ⊢
      omega
    next => simp at h

/-! ### `done` / `d.done` stay closed -/

theorem dcloseNext_flags (s : St) (t b : Nat) :
    (dcloseNext s t b).done = s.done ∧ (dcloseNext s t b).ddone = s.ddone := by
  unfold dcloseNext; split <;> exact ⟨rfl, rfl⟩

theorem tau_flags (s s' : St) (t : Nat) (h : tau s t = some s') :
    (∀ b, s.done b = true → s'.done b = true) ∧ (s.ddone = true → s'.ddone = true) := by
  unfold tau at h
  split at h
  next ht =>
    simp only [] at h
    split at h
    all_goals (repeat' (split at h))
    all_goals (first | (simp at h; done) | skip)
    all_goals (simp only [Option.some.injEq] at h; subst h)
    all_goals (first
      | (simp [St.addThread]; done)
      | (simp only [dcloseNext_flags]; simp; done)
      | (refine ⟨fun b hb => ?_, fun h => ?_⟩ <;> simp_all [setf] <;> (try split) <;> simp_all; done)
      | skip)
  next => simp at h

theorem step_flags (s s' : St) (a : Act) (h : step s a = some s') :
    (∀ b, s.done b = true → s'.done b = true) ∧ (s.ddone = true → s'.ddone = true) := by
  cases a with
  | tau t => exact tau_flags s s' t h
  | hdone hk =>
    simp only [step] at h
    split at h
    · split at h <;> first | (simp only [Option.some.injEq] at h; subst h; simp) | simp at h
    · simp at h
  | recvIn t hk =>
    simp only [step] at h
    split at h
    · simp only [Option.some.injEq] at h; subst h; simp
    · simp at h
  | sendOut t hk =>
    simp only [step] at h
    split at h
    · simp only [Option.some.injEq] at h; subst h; simp
    · simp at h
  | dRecv p x =>
    simp only [step] at h
    split at h
    · simp only [Option.some.injEq] at h; subst h; simp
    · simp at h

/-! ### well-formedness is invariant -/

theorem wf_pc (s s' : St) (t : Nat) (v : Pc) (hw : WF s)
    (hnb : s'.nb = s.nb) (hnh : s'.nh = s.nh) (hhbp : s'.hbp = s.hbp) (hnt : s'.nt = s.nt)
    (hprog : s'.prog = s.prog) (htbp : s'.tbp = s.tbp) (hpc : s'.pc = setf s.pc t v)
    (hv : okPc (s.prog t) v = true) (hdcur : s'.dcur = s.dcur ∨ s'.dcur = none) : WF s' := by
  obtain ⟨h1, h2, h3, h4⟩ := hw
  refine ⟨?_, ?_, ?_, ?_⟩
  · intro j hj
    rw [hnt] at hj
    rw [hprog, hpc]
    by_cases h : j = t
    · subst h; simpa [setf] using hv
    · simpa [setf, h] using h1 j hj
  · intro j hj; rw [hnt] at hj; rw [htbp, hnb]; exact h2 j hj
  · intro j hj; rw [hnh] at hj; rw [hhbp, hnb]; exact h3 j hj
  · intro c hc
    rw [hnb]
    rcases hdcur with e | e
    · rw [e] at hc; exact h4 c hc
    · rw [e] at hc; cases hc

theorem wf_pcb (s s' : St) (t : Nat) (v : Pc) (b' : Nat) (hw : WF s)
    (hnb : s'.nb = s.nb) (hnh : s'.nh = s.nh) (hhbp : s'.hbp = s.hbp) (hnt : s'.nt = s.nt)
    (hprog : s'.prog = s.prog) (htbp : s'.tbp = setf s.tbp t b') (hb : b' < s.nb)
    (hpc : s'.pc = setf s.pc t v) (hv : okPc (s.prog t) v = true) (hdcur : s'.dcur = s.dcur) : WF s' := by
  obtain ⟨h1, h2, h3, h4⟩ := hw
  refine ⟨?_, ?_, ?_, ?_⟩
  · intro j hj
    rw [hnt] at hj
    rw [hprog, hpc]
    by_cases h : j = t
    · subst h; simpa [setf] using hv
    · simpa [setf, h] using h1 j hj
  · intro j hj
    rw [hnt] at hj
    rw [htbp, hnb]
    by_cases h : j = t
    · subst h; simpa [setf] using hb
    · simpa [setf, h] using h2 j hj
  · intro j hj; rw [hnh] at hj; rw [hhbp, hnb]; exact h3 j hj
  · intro c hc; rw [hnb]; rw [hdcur] at hc; exact h4 c hc

theorem wf_dcloseNext (s : St) (t b : Nat) (hw : WF s) (hp : s.prog t = .dclose) : WF (dcloseNext s t b) := by
  unfold dcloseNext
  split
  next b' hn =>
    exact wf_pcb s _ t .cWmu b' hw rfl rfl rfl rfl rfl rfl (nextReg_spec s _ _ hn).2 rfl (by simp [hp, okPc]) rfl
  next =>
    exact wf_pc s _ t .qRmu hw rfl rfl rfl rfl rfl rfl rfl (by simp [hp, okPc]) (Or.inl rfl)

theorem wf_addHook (s : St) (b : Nat) (hb : b < s.nb) (hw : WF s) : WF (s.addHook b) := by
  obtain ⟨h1, h2, h3, h4⟩ := hw
  refine ⟨h1, h2, ?_, h4⟩
  intro j hj
  simp only [St.addHook] at hj ⊢
  by_cases h : j = s.nh
  · subst h; simpa [setf] using hb
  · have : j < s.nh := by omega
    simpa [setf, h] using h3 j this

theorem wf_addThread (s : St) (p : Prog) (b : Nat) (hb : b < s.nb) (hw : WF s) : WF (s.addThread p b) := by
  obtain ⟨h1, h2, h3, h4⟩ := hw
  refine ⟨?_, ?_, h3, h4⟩
  · intro j hj
    simp only [St.addThread] at hj ⊢
    by_cases h : j = s.nt
    · subst h; cases p <;> simp [setf, okPc]
    · have : j < s.nt := by omega
      simpa [setf, h] using h1 j this
  · intro j hj
    simp only [St.addThread] at hj ⊢
    by_cases h : j = s.nt
    · subst h; simpa [setf] using hb
    · have : j < s.nt := by omega
      simpa [setf, h] using h2 j this

theorem wf_init (nb : Nat) : WF (St.init nb) := by
  refine ⟨?_, ?_, ?_, ?_⟩ <;> intro j hj <;> simp_all [St.init, St.empty, okPc]

theorem tau_wf (s s' : St) (t : Nat) (hw : WF s) (h : tau s t = some s') : WF s' := by
  unfold tau at h
  split at h
  next ht =>
    have hwt := hw.1 t ht
    simp only [] at h
    split at h
    all_goals (repeat' (split at h))
    all_goals (first | (simp at h; done) | skip)
    all_goals (simp only [Option.some.injEq] at h; subst h)
    all_goals (first
      | (refine wf_pc s _ t _ hw rfl rfl rfl rfl rfl rfl rfl ?_ (Or.inl rfl)
         cases hp : s.prog t <;> simp_all [okPc, afterDone, afterNext]; done)
      | (refine wf_pc s _ t _ hw rfl rfl rfl rfl rfl rfl rfl ?_ (Or.inr rfl)
         cases hp : s.prog t <;> simp_all [okPc]; done)
      | (exact wf_dcloseNext s t _ hw (by assumption))
      | (refine wf_dcloseNext _ t _ (wf_pc s _ t (s.pc t) hw rfl rfl rfl rfl rfl rfl (setf_self _ _).symm hwt (Or.inl rfl)) (by assumption))
      | (refine wf_addThread _ .dnext _ (hw.2.2.2 _ (by assumption)) ?_
         exact wf_pc s _ t .pSel hw rfl rfl rfl rfl rfl rfl rfl (by simp_all [okPc]) (Or.inl rfl))
      | (refine wf_pcb s _ t .cWmu _ hw rfl rfl rfl rfl rfl rfl (nextReg_spec s _ _ (by assumption)).2 rfl ?_ rfl
         simp_all [okPc])
      | skip)
  next => simp at h

theorem step_wf (s s' : St) (a : Act) (hw : WF s) (h : step s a = some s') : WF s' := by
  cases a with
  | tau t => exact tau_wf s s' t hw h
  | hdone hk =>
    simp only [step] at h
    split at h
    · split at h <;> first | (simp only [Option.some.injEq] at h; subst h; exact hw) | simp at h
    · simp at h
  | recvIn t hk =>
    simp only [step] at h
    split at h
    next hc =>
      simp only [Option.some.injEq] at h; subst h
      have hwt := hw.1 t hc.1
      refine wf_pc s _ t _ hw rfl rfl rfl rfl rfl rfl rfl ?_ (Or.inl rfl)
      cases hp : s.prog t <;> simp_all [okPc, afterNext]
    next => simp at h
  | sendOut t hk =>
    simp only [step] at h
    split at h
    next hc =>
      simp only [Option.some.injEq] at h; subst h
      have hwt := hw.1 t hc.1
      refine wf_pc s _ t _ hw rfl rfl rfl rfl rfl rfl rfl ?_ (Or.inl rfl)
      cases hp : s.prog t <;> simp_all [okPc, afterDone]
    next => simp at h
  | dRecv p x =>
    simp only [step] at h
    split at h
    next hc =>
      simp only [Option.some.injEq] at h; subst h
      obtain ⟨h1, h2, h3, h4⟩ := hw
      refine ⟨?_, h2, h3, ?_⟩
      · intro j hj
        by_cases e1 : j = x
        · subst e1; simp [setf, okPc]
        · by_cases e2 : j = p
          · subst e2; simp [setf, e1, okPc]
          · simpa [setf, e1, e2] using h1 j hj
      · intro c hcur
        simp only [Option.some.injEq] at hcur
        subst hcur
        exact h2 x hc.2.1
    next => simp at h

theorem run_wf (s s' : St) (sched : List Act) (hw : WF s) (h : run s sched = some s') : WF s' := by
  induction sched generalizing s with
  | nil => simp [run] at h; subst h; exact hw
  | cons a as ih =>
    simp only [run] at h
    cases hs : step s a with
    | none => simp [hs] at h
    | some s1 => rw [hs] at h; exact ih s1 (step_wf s s1 a hw hs) h

end Uniflow.Breakpoint
