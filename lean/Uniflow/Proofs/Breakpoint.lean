/-
Helper lemmas for C19 (release on close): which program counters a terminal state of
`Uniflow.Breakpoint` can still contain once `done` (and `d.done`) is closed.
-/
import Uniflow.Model.Breakpoint

namespace Uniflow.Breakpoint

/-- No action is enabled. -/
def Terminal (s : St) : Prop := ∀ a, step s a = none

def Pc.isRet : Pc → Bool
  | .ret _ => true
  | _ => false

theorem anyT_false (s : St) (p : Nat → Bool) : anyT s p = false ↔ ∀ t, t < s.nt → p t = false := by
  unfold anyT
  rw [List.any_eq_false]
  constructor
  · intro h t ht
    have := h t (List.mem_range.mpr ht)
    simpa using this
  · intro h t ht
    have := h t (List.mem_range.mp ht)
    simp [this]

section
variable (s : St) (hT : Terminal s)
include hT

theorem term_hooks (hd : s.done = true) (h : Nat) (hh : h < s.nh) : s.hpc h = .returned := by
  have := hT (.hdone h)
  cases hp : s.hpc h <;> simp [step, hh, hd, hp] at this
  rfl

theorem term_no_dSel (hd : s.done = true) (t : Nat) (ht : t < s.nt) : s.pc t ≠ .dSel := by
  intro h
  have := hT (.tau t)
  simp [step, tau, ht, h, hd] at this

theorem term_no_nSel (hd : s.done = true) (t : Nat) (ht : t < s.nt) : s.pc t ≠ .nSel := by
  intro h
  have := hT (.tau t)
  simp [step, tau, ht, h, hd] at this

theorem term_rmu_free (hd : s.done = true) : rmuHeld s = false := by
  unfold rmuHeld
  rw [anyT_false]
  intro t ht
  have h1 := term_no_dSel s hT hd t ht
  have h2 := term_no_nSel s hT hd t ht
  simp [h1, h2]

theorem term_no_nLock (hd : s.done = true) (t : Nat) (ht : t < s.nt) : s.pc t ≠ .nLock := by
  intro h
  have hr := term_rmu_free s hT hd
  have := hT (.tau t)
  simp only [step, tau, ht, if_true, h, hr] at this
  cases hc : s.cur <;> simp [hc] at this

theorem term_no_cRmu (hd : s.done = true) (t : Nat) (ht : t < s.nt) : s.pc t ≠ .cRmu := by
  intro h
  have hr := term_rmu_free s hT hd
  have := hT (.tau t)
  simp only [step, tau, ht, if_true, h, hr] at this
  cases hp : s.prog t <;> simp [hp] at this

theorem term_wmu_free (hd : s.done = true) : wmuHeld s = false := by
  unfold wmuHeld
  rw [anyT_false]
  intro t ht
  have h1 := term_no_cRmu s hT hd t ht
  simp [h1]

theorem term_no_cWmu (hd : s.done = true) (t : Nat) (ht : t < s.nt) : s.pc t ≠ .cWmu := by
  intro h
  have hw := term_wmu_free s hT hd
  have := hT (.tau t)
  simp only [step, tau, ht, if_true, h, hw, hd] at this
  cases hp : s.prog t <;> simp [hp] at this

/-- `Next`, `Done`, `d.next` cannot be left at their first step. -/
theorem term_no_start_bp (hd : s.done = true) (t : Nat) (ht : t < s.nt)
    (hp : s.prog t = .next ∨ s.prog t = .done ∨ s.prog t = .dnext) : s.pc t ≠ .start := by
  intro h
  have hr := term_rmu_free s hT hd
  have := hT (.tau t)
  rcases hp with hp | hp | hp <;>
  · simp only [step, tau, ht, if_true, h, hp, hr] at this
    cases hc : s.cur <;> simp [hc] at this

theorem term_no_start_close (hd : s.done = true) (t : Nat) (ht : t < s.nt)
    (hp : s.prog t = .close) : s.pc t ≠ .start := by
  intro h
  have hw := term_wmu_free s hT hd
  have := hT (.tau t)
  simp [step, tau, ht, h, hp, hw, hd] at this

theorem term_no_xSend (hdd : s.ddone = true) (t : Nat) (ht : t < s.nt) : s.pc t ≠ .xSend := by
  intro h
  have := hT (.tau t)
  simp [step, tau, ht, h, hdd] at this

theorem term_no_pSel (hdd : s.ddone = true) (t : Nat) (ht : t < s.nt) : s.pc t ≠ .pSel := by
  intro h
  have := hT (.tau t)
  simp [step, tau, ht, h, hdd] at this

theorem term_drmu_free (hdd : s.ddone = true) : drmuHeld s = false := by
  unfold drmuHeld
  rw [anyT_false]
  intro t ht
  have h1 := term_no_pSel s hT hdd t ht
  simp [h1]

theorem term_no_qRmu (hdd : s.ddone = true) (t : Nat) (ht : t < s.nt) : s.pc t ≠ .qRmu := by
  intro h
  have hr := term_drmu_free s hT hdd
  have := hT (.tau t)
  simp [step, tau, ht, h, hr] at this

theorem term_dwmu_free (hd : s.done = true) (hdd : s.ddone = true) : dwmuHeld s = false := by
  unfold dwmuHeld
  rw [anyT_false]
  intro t ht
  have h1 := term_no_cWmu s hT hd t ht
  have h2 := term_no_cRmu s hT hd t ht
  have h3 := term_no_qRmu s hT hdd t ht
  simp [h1, h2, h3]

theorem term_no_start_dbg (hd : s.done = true) (hdd : s.ddone = true) (t : Nat) (ht : t < s.nt)
    (hp : s.prog t = .pause ∨ s.prog t = .step ∨ s.prog t = .remove ∨ s.prog t = .dclose) :
    s.pc t ≠ .start := by
  intro h
  have hr := term_drmu_free s hT hdd
  have hw := term_dwmu_free s hT hd hdd
  have := hT (.tau t)
  rcases hp with hp | hp | hp | hp
  · simp only [step, tau, ht, if_true, h, hp, hr] at this
    cases hc : s.dcur <;> simp [hc] at this
  · simp only [step, tau, ht, if_true, h, hp, hr] at this
    simp at this
  · simp only [step, tau, ht, if_true, h, hp, hw] at this
    cases hc : s.reg <;> simp [hc] at this
  · simp only [step, tau, ht, if_true, h, hp, hw, hdd] at this
    simp at this

end

end Uniflow.Breakpoint

/-! ### the measure decreases along every step -/

namespace Uniflow.Breakpoint

theorem sumTo_congr (n : Nat) (f g : Nat → Nat) (h : ∀ i, i < n → f i = g i) : sumTo n f = sumTo n g := by
  induction n with
  | zero => rfl
  | succ n ih =>
    simp only [sumTo]
    rw [ih (fun i hi => h i (Nat.lt_succ_of_lt hi)), h n (Nat.lt_succ_self n)]

theorem sumTo_setf (n : Nat) (f : Nat → Nat) (i v : Nat) (hi : i < n) :
    sumTo n (setf f i v) + f i = sumTo n f + v := by
  induction n with
  | zero => omega
  | succ n ih =>
    simp only [sumTo]
    by_cases h : i = n
    · subst h
      have : sumTo i (setf f i v) = sumTo i f := by
        apply sumTo_congr; intro j hj; simp [setf]; omega
      simp [this, setf]; omega
    · have := ih (by omega)
      have h2 : setf f i v n = f n := by simp [setf]; omega
      omega

/-- Thread part of the measure after moving thread `t` to `v`. -/
theorem T_update (n : Nat) (prog : Nat → Prog) (pc : Nat → Pc) (t : Nat) (v : Pc) (ht : t < n) :
    sumTo n (fun j => rank (prog j) (setf pc t v j)) + rank (prog t) (pc t) =
      sumTo n (fun j => rank (prog j) (pc j)) + rank (prog t) v := by
  have h := sumTo_setf n (fun j => rank (prog j) (pc j)) t (rank (prog t) v) ht
  have e : sumTo n (fun j => rank (prog j) (setf pc t v j)) =
      sumTo n (setf (fun j => rank (prog j) (pc j)) t (rank (prog t) v)) := by
    apply sumTo_congr; intro j _
    by_cases hj : j = t <;> simp [setf, hj]
  rw [e]; exact h

theorem H_update (n : Nat) (hpc : Nat → HPc) (h : Nat) (v : HPc) (hh : h < n) :
    sumTo n (fun j => hrank (setf hpc h v j)) + hrank (hpc h) =
      sumTo n (fun j => hrank (hpc j)) + hrank v := by
  have h0 := sumTo_setf n (fun j => hrank (hpc j)) h (hrank v) hh
  have e : sumTo n (fun j => hrank (setf hpc h v j)) = sumTo n (setf (fun j => hrank (hpc j)) h (hrank v)) := by
    apply sumTo_congr; intro j _
    by_cases hj : j = h <;> simp [setf, hj]
  rw [e]; exact h0

@[simp] theorem rank_ret (p : Prog) (b : Bool) : rank p (.ret b) = 0 := by cases p <;> rfl
@[simp] theorem rank_xSend (p : Prog) : rank p .xSend = 1 := by cases p <;> rfl
@[simp] theorem rank_nSel (p : Prog) : rank p .nSel = 2 := by cases p <;> rfl
@[simp] theorem rank_nLock (p : Prog) : rank p .nLock = 3 := by cases p <;> rfl
@[simp] theorem rank_dSel (p : Prog) : rank p .dSel = 4 := by cases p <;> rfl
@[simp] theorem rank_pSel (p : Prog) : rank p .pSel = 1 := by cases p <;> rfl
@[simp] theorem rank_qRmu (p : Prog) : rank p .qRmu = 1 := by cases p <;> rfl
@[simp] theorem rank_cRmu (p : Prog) : rank p .cRmu = 2 := by cases p <;> rfl
@[simp] theorem rank_cWmu (p : Prog) : rank p .cWmu = 3 := by cases p <;> rfl

theorem rank_afterDone (p : Prog) (r : Bool) : rank p (afterDone p r) ≤ 3 := by
  cases p <;> simp [afterDone]
theorem rank_afterNext (p : Prog) (r : Bool) : rank p (afterNext p r) ≤ 1 := by
  cases p <;> cases r <;> simp [afterNext]

/-- A step that only moves thread `t` to a program counter of smaller rank. -/
theorem measure_pc_lt (s s' : St) (t : Nat) (v : Pc) (ht : t < s.nt)
    (hnh : s'.nh = s.nh) (hhpc : s'.hpc = s.hpc) (hnt : s'.nt = s.nt) (hprog : s'.prog = s.prog)
    (hpc : s'.pc = setf s.pc t v) (hr : rank (s.prog t) v < rank (s.prog t) (s.pc t)) :
    measure s' < measure s := by
  unfold measure
  rw [hnh, hhpc, hnt, hprog, hpc]
  have := T_update s.nt s.prog s.pc t v ht
  omega

theorem measure_spawn (s : St) (t : Nat) (ht : t < s.nt) (hpc : s.pc t = .start) (hp : s.prog t = .step) :
    measure (({ s with pc := setf s.pc t .pSel } : St).addThread .dnext) < measure s := by
  unfold measure St.addThread
  simp only [sumTo]
  have e : sumTo s.nt (fun j => rank (setf s.prog s.nt Prog.dnext j) (setf (setf s.pc t Pc.pSel) s.nt Pc.start j)) =
      sumTo s.nt (fun j => rank (s.prog j) (setf s.pc t .pSel j)) := by
    apply sumTo_congr
    intro j hj
    have : j ≠ s.nt := by omega
    simp [setf, this]
  rw [e]
  have := T_update s.nt s.prog s.pc t .pSel ht
  simp [hpc, hp, rank, setf] at this ⊢
  omega

theorem tau_measure (s s' : St) (t : Nat) (h : tau s t = some s') : measure s' < measure s := by
  unfold tau at h
  split at h
  next ht =>
    have h1 := rank_afterDone (s.prog t) true
    have h2 := rank_afterDone (s.prog t) false
    have h3 := rank_afterNext (s.prog t) true
    have h4 := rank_afterNext (s.prog t) false
    split at h
    all_goals (repeat' (split at h))
    all_goals (first | (simp at h; done) | skip)
    all_goals (simp only [Option.some.injEq] at h; subst h)
    all_goals (first | (refine measure_pc_lt s _ t _ ht rfl rfl rfl rfl rfl ?_; first | (simp [*, rank, afterDone, afterNext]; done) | (simp only [*] at *; simp at *; omega)) | skip)
    exact measure_spawn s t ht (by assumption) (by assumption)
  next => simp at h

theorem step_measure (s s' : St) (a : Act) (h : step s a = some s') : measure s' < measure s := by
  cases a with
  | tau t => exact tau_measure s s' t h
  | hdone hk =>
    simp only [step] at h
    split at h
    next hc =>
      cases hp : s.hpc hk with
      | sendIn =>
        rw [hp] at h; simp only [Option.some.injEq] at h; subst h
        have := H_update s.nh s.hpc hk .waitOut hc.1
        unfold measure
        simp only [hp, hrank] at this ⊢
        omega
      | waitOut =>
        rw [hp] at h; simp only [Option.some.injEq] at h; subst h
        have := H_update s.nh s.hpc hk .returned hc.1
        unfold measure
        simp only [hp, hrank] at this ⊢
        omega
      | returned => rw [hp] at h; simp at h
    next => simp at h
  | recvIn t hk =>
    simp only [step] at h
    split at h
    next hc =>
      simp only [Option.some.injEq] at h; subst h
      have h1 := H_update s.nh s.hpc hk .waitOut hc.2.1
      have h2 := T_update s.nt s.prog s.pc t (afterNext (s.prog t) true) hc.1
      have h3 := rank_afterNext (s.prog t) true
      unfold measure
      simp only [hc.2.2.1, hc.2.2.2, hrank, rank_nSel] at h1 h2 ⊢
      omega
    next => simp at h
  | sendOut t hk =>
    simp only [step] at h
    split at h
    next hc =>
      simp only [Option.some.injEq] at h; subst h
      have h1 := H_update s.nh s.hpc hk .returned hc.2.1
      have h2 := T_update s.nt s.prog s.pc t (afterDone (s.prog t) true) hc.1
      have h3 := rank_afterDone (s.prog t) true
      unfold measure
      simp only [hc.2.2.1, hc.2.2.2, hrank, rank_dSel] at h1 h2 ⊢
      omega
    next => simp at h
  | dRecv p x =>
    simp only [step] at h
    split at h
    next hc =>
      simp only [Option.some.injEq] at h; subst h
      have hne : x ≠ p := by
        intro e; subst e; rw [hc.2.2.1] at hc; exact absurd hc.2.2.2 (by decide)
      have h1 := T_update s.nt s.prog s.pc p (.ret true) hc.1
      have h2 := T_update s.nt s.prog (setf s.pc p (.ret true)) x (.ret true) hc.2.1
      have e : setf s.pc p (.ret true) x = s.pc x := by simp [setf, hne]
      unfold measure
      simp only [e, hc.2.2.1, hc.2.2.2, rank_ret, rank_pSel, rank_xSend] at h1 h2 ⊢
      omega
    next => simp at h


/-! ### `done` / `d.done` stay closed, and who closes them -/

theorem tau_flags (s s' : St) (t : Nat) (h : tau s t = some s') :
    (s.done = true → s'.done = true) ∧ (s.ddone = true → s'.ddone = true) := by
  unfold tau at h
  split at h
  next ht =>
    split at h
    all_goals (repeat' (split at h))
    all_goals (first | (simp at h; done) | skip)
    all_goals (simp only [Option.some.injEq] at h; subst h)
    all_goals (first | (simp [St.addThread]; done) | skip)
  next => simp at h

theorem step_flags (s s' : St) (a : Act) (h : step s a = some s') :
    (s.done = true → s'.done = true) ∧ (s.ddone = true → s'.ddone = true) := by
  cases a with
  | tau t => exact tau_flags s s' t h
  | hdone hk =>
    simp only [step] at h
    split at h
    · split at h <;> first | (simp only [Option.some.injEq] at h; subst h; simp) | simp at h
    · simp at h
  | recvIn t hk =>
    simp only [step] at h
    split at h
    · simp only [Option.some.injEq] at h; subst h; simp
    · simp at h
  | sendOut t hk =>
    simp only [step] at h
    split at h
    · simp only [Option.some.injEq] at h; subst h; simp
    · simp at h
  | dRecv p x =>
    simp only [step] at h
    split at h
    · simp only [Option.some.injEq] at h; subst h; simp
    · simp at h

/-! ### well-formedness is invariant -/

theorem wf_setf (s : St) (t : Nat) (v : Pc) (hw : WF s) (hv : okPc (s.prog t) v = true) :
    ∀ j, j < s.nt → okPc (s.prog j) (setf s.pc t v j) = true := by
  intro j hj
  by_cases h : j = t
  · subst h; simpa [setf] using hv
  · simpa [setf, h] using hw j hj

theorem tau_wf (s s' : St) (t : Nat) (hw : WF s) (h : tau s t = some s') : WF s' := by
  unfold tau at h
  split at h
  next ht =>
    have hwt := hw t ht
    split at h
    all_goals (repeat' (split at h))
    all_goals (first | (simp at h; done) | skip)
    all_goals (simp only [Option.some.injEq] at h; subst h)
    all_goals (first | (apply wf_setf s t _ hw; cases hp : s.prog t <;> simp_all [okPc, afterDone, afterNext]; done) | skip)
    · intro j hj
      simp only [St.addThread] at hj ⊢
      by_cases hjn : j = s.nt
      · subst hjn; simp [setf, okPc]
      · have hj' : j < s.nt := by omega
        have := wf_setf s t .pSel hw (by simp_all [okPc]) j hj'
        simpa [setf, hjn] using this
  next => simp at h

theorem step_wf (s s' : St) (a : Act) (hw : WF s) (h : step s a = some s') : WF s' := by
  cases a with
  | tau t => exact tau_wf s s' t hw h
  | hdone hk =>
    simp only [step] at h
    split at h
    · split at h <;> first | (simp only [Option.some.injEq] at h; subst h; exact hw) | simp at h
    · simp at h
  | recvIn t hk =>
    simp only [step] at h
    split at h
    next hc =>
      simp only [Option.some.injEq] at h; subst h
      have hwt := hw t hc.1
      apply wf_setf s t _ hw
      cases hp : s.prog t <;> simp_all [okPc, afterNext]
    next => simp at h
  | sendOut t hk =>
    simp only [step] at h
    split at h
    next hc =>
      simp only [Option.some.injEq] at h; subst h
      have hwt := hw t hc.1
      apply wf_setf s t _ hw
      cases hp : s.prog t <;> simp_all [okPc, afterDone]
    next => simp at h
  | dRecv p x =>
    simp only [step] at h
    split at h
    next hc =>
      simp only [Option.some.injEq] at h; subst h
      intro j hj
      by_cases h1 : j = x
      · subst h1; simp [setf, okPc]
      · by_cases h2 : j = p
        · subst h2; simp [setf, h1, okPc]
        · simpa [setf, h1, h2] using hw j hj
    next => simp at h

theorem run_wf (s s' : St) (sched : List Act) (hw : WF s) (h : run s sched = some s') : WF s' := by
  induction sched generalizing s with
  | nil => simp [run] at h; subst h; exact hw
  | cons a as ih =>
    simp only [run] at h
    cases hs : step s a with
    | none => simp [hs] at h
    | some s1 => rw [hs] at h; exact ih s1 (step_wf s s1 a hw hs) h

theorem wf_addHook (s : St) (hw : WF s) : WF s.addHook := hw

theorem wf_addThread (s : St) (p : Prog) (hw : WF s) : WF (s.addThread p) := by
  intro j hj
  simp only [St.addThread] at hj ⊢
  by_cases hjn : j = s.nt
  · subst hjn; cases p <;> simp [setf, okPc]
  · have hj' : j < s.nt := by omega
    simpa [setf, hjn] using hw j hj'

theorem wf_init : WF St.init := by
  intro j hj
  simp [St.init, St.empty, okPc]


end Uniflow.Breakpoint
