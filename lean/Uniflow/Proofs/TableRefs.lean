/-
`references_exact`: after every well-formed history the reverse-reference index of the
symbol-table model has exactly the support of the forward references among the present symbols
(through the fixed `unlinks` filter).
-/
import Uniflow.Props.C06

namespace Uniflow.Table

/-- `{ID: e.id, Name: e.name, Port: e.port}` belongs in `references[t][i]`: the present symbol
`e.id` lists, under its out-port `e.port`, a reference with in-port `i` and name field `e.name`
that names the present symbol `t` of the same namespace. -/
def RefSpec (st : State) (t i : Nat) (e : Ref) : Prop :=
  ∃ S T, aget e.id st.symbols = some S ∧ aget t st.symbols = some T ∧ T.ns = S.ns ∧
    ∃ np ∈ S.ports, np.1 = e.port ∧ ∃ r ∈ np.2, Names st S.ns r t ∧ r.port = i ∧ r.name = e.name

structure RInv (st : State) : Prop extends TInv st where
  refs : ∀ t i e, e ∈ refsAt st.references t i ↔ RefSpec st t i e
  inner : ∀ t m, aget t st.references = some m → (keys m).Nodup

abbrev Refs := List (Nat × PortMap)

def InnerOK (refs : Refs) : Prop := ∀ t m, aget t refs = some m → (keys m).Nodup

/-! ### the three updates of the index -/

theorem refsAt_addRef (refs : Refs) (t i : Nat) (x : Ref) (t' i' : Nat) (e : Ref) :
    e ∈ refsAt (addRef refs t i x) t' i' ↔ e ∈ refsAt refs t' i' ∨ (t' = t ∧ i' = i ∧ e = x) := by
  unfold addRef refsAt
  simp only [aget_aset]
  by_cases ht : t' = t
  · subst ht
    simp only [if_true, aget_aset]
    by_cases hi : i' = i
    · subst hi
      simp only [if_true, true_and, List.mem_append, List.mem_singleton]
      cases aget t' refs with
      | none => simp [aget]
      | some m => simp only
    · simp only [hi, if_false, false_and, and_false, or_false]
      cases aget t' refs with
      | none => simp [aget]
      | some m => simp only
  · simp [ht]

theorem innerOK_addRef (refs : Refs) (t i : Nat) (x : Ref) (h : InnerOK refs) : InnerOK (addRef refs t i x) := by
  intro t' m' hm
  unfold addRef at hm
  rw [aget_aset] at hm
  split at hm
  · cases hm
    apply nodup_keys_aset
    cases ha : aget t refs with
    | none => simp [keys]
    | some m => exact h t m ha
  · exact h t' m' hm

def innerAt (refs : Refs) (t : Nat) : PortMap := match aget t refs with | none => [] | some m => m
def listAt (m : PortMap) (i : Nat) : List Ref := match aget i m with | none => [] | some l => l

theorem refsAt_eq (refs : Refs) (t i : Nat) : refsAt refs t i = listAt (innerAt refs t) i := by
  unfold refsAt listAt innerAt
  cases aget t refs with
  | none => simp [aget]
  | some m => rfl

theorem innerAt_aset (refs : Refs) (t t' : Nat) (M : PortMap) :
    innerAt (aset t M refs) t' = if t' = t then M else innerAt refs t' := by
  unfold innerAt; rw [aget_aset]; by_cases h : t' = t <;> simp [h]

theorem listAt_aset (m : PortMap) (i i' : Nat) (L : List Ref) :
    listAt (aset i L m) i' = if i' = i then L else listAt m i' := by
  unfold listAt; rw [aget_aset]; by_cases h : i' = i <;> simp [h]

theorem listAt_adel (m : PortMap) (i i' : Nat) :
    listAt (adel i m) i' = if i' = i then [] else listAt m i' := by
  unfold listAt; rw [aget_adel]; by_cases h : i' = i <;> simp [h]

theorem filterRef_eq (refs : Refs) (t i sbId name : Nat) :
    filterRef refs t i sbId name =
      if (listAt (innerAt refs t) i).filter (keepRef sbId name) ≠ [] then
        aset t (aset i ((listAt (innerAt refs t) i).filter (keepRef sbId name)) (innerAt refs t)) refs
      else aset t (adel i (innerAt refs t)) refs := rfl

theorem refsAt_filterRef (refs : Refs) (t i sbId name : Nat) (t' i' : Nat) (e : Ref) :
    e ∈ refsAt (filterRef refs t i sbId name) t' i' ↔
      e ∈ refsAt refs t' i' ∧ ¬(t' = t ∧ i' = i ∧ e.id = sbId ∧ e.port = name) := by
  have hkeep : ∀ e : Ref, keepRef sbId name e = true ↔ ¬(e.id = sbId ∧ e.port = name) := by
    intro e; unfold keepRef
    simp only [Bool.or_eq_true, decide_eq_true_eq, ne_eq]
    constructor
    · rintro (h | h) ⟨h1, h2⟩; exact h h1; exact h h2
    · intro h; by_cases h1 : e.id = sbId
      · exact Or.inr (fun h2 => h ⟨h1, h2⟩)
      · exact Or.inl h1
  rw [filterRef_eq, refsAt_eq, refsAt_eq]
  by_cases ht : t' = t
  · subst ht
    by_cases hne : (listAt (innerAt refs t') i).filter (keepRef sbId name) ≠ []
    · rw [if_pos hne, innerAt_aset, if_pos rfl, listAt_aset]
      by_cases hi : i' = i
      · subst hi
        simp only [if_true, List.mem_filter, hkeep, true_and]
      · simp only [hi, if_false, false_and, and_false, not_false_eq_true, and_true]
    · rw [if_neg hne, innerAt_aset, if_pos rfl, listAt_adel]
      by_cases hi : i' = i
      · subst hi
        simp only [if_true, List.not_mem_nil, true_and, false_iff]
        intro ⟨h1, h2⟩
        have : e ∈ (listAt (innerAt refs t') i').filter (keepRef sbId name) :=
          List.mem_filter.mpr ⟨h1, (hkeep e).mpr h2⟩
        have hne' : (listAt (innerAt refs t') i').filter (keepRef sbId name) = [] := by
          cases hq : (listAt (innerAt refs t') i').filter (keepRef sbId name) with
          | nil => rfl
          | cons a b => rw [hq] at hne; exact absurd (by simp) hne
        rw [hne'] at this; cases this
      · simp only [hi, if_false, false_and, and_false, not_false_eq_true, and_true]
  · split <;> simp [innerAt_aset, ht]

theorem innerOK_filterRef (refs : Refs) (t i sbId name : Nat) (h : InnerOK refs) :
    InnerOK (filterRef refs t i sbId name) := by
  intro t' m' hm
  rw [filterRef_eq] at hm
  have hm0 : (keys (innerAt refs t)).Nodup := by
    unfold innerAt
    cases ha : aget t refs with
    | none => simp [keys]
    | some m => exact h t m ha
  split at hm
  · rw [aget_aset] at hm
    split at hm
    · cases hm; exact nodup_keys_aset _ _ hm0
    · exact h t' m' hm
  · rw [aget_aset] at hm
    split at hm
    · cases hm; exact nodup_keys_adel _ hm0
    · exact h t' m' hm

theorem refsAt_adel (refs : Refs) (k t i : Nat) :
    refsAt (adel k refs) t i = if t = k then [] else refsAt refs t i := by
  unfold refsAt
  rw [aget_adel]
  by_cases h : t = k <;> simp [h]

/-! ### `links` on the index -/

def OutR (st : State) (sb : Sym) (name : Nat) (port : Ref) (t i : Nat) (e : Ref) : Prop :=
  ∃ ref, aget (resolve st sb.ns port) st.symbols = some ref ∧ ref.ns = sb.ns ∧
    t = ref.id ∧ i = port.port ∧ e = ⟨sb.id, port.name, name⟩

def InR (sb ref : Sym) (name : Nat) (port : Ref) (t i : Nat) (e : Ref) : Prop :=
  (port.id = sb.id ∨ (port.name ≠ 0 ∧ port.name = sb.name)) ∧
    t = sb.id ∧ i = port.port ∧ e = ⟨ref.id, port.name, name⟩

theorem linkOut_refs (st : State) (sb : Sym) (name : Nat) (acc : Acc) (port : Ref) (t i : Nat) (e : Ref) :
    e ∈ refsAt (linkOut st sb name acc port).1 t i ↔ e ∈ refsAt acc.1 t i ∨ OutR st sb name port t i e := by
  unfold linkOut OutR
  cases h : aget (resolve st sb.ns port) st.symbols with
  | none => simp
  | some ref =>
    simp only [Option.some.injEq, exists_eq_left']
    by_cases hns : ref.ns = sb.ns
    · simp only [hns, if_true, true_and, refsAt_addRef]
    · simp [hns]

theorem linkIn_refs (sb ref : Sym) (name : Nat) (acc : Acc) (port : Ref) (t i : Nat) (e : Ref) :
    e ∈ refsAt (linkIn sb ref name acc port).1 t i ↔ e ∈ refsAt acc.1 t i ∨ InR sb ref name port t i e := by
  unfold linkIn InR
  by_cases hc : port.id = sb.id ∨ (port.name ≠ 0 ∧ port.name = sb.name)
  · simp only [hc, if_true, true_and, refsAt_addRef]
  · simp [hc]

theorem links_refs_mem (o : Ord) (ho : o.Valid) (st : State) (sb : Sym) (t i : Nat) (e : Ref) :
    e ∈ refsAt (links o st sb).references t i ↔
      e ∈ refsAt st.references t i ∨
      (∃ np ∈ sb.ports, ∃ port ∈ np.2, OutR st sb np.1 port t i e) ∨
      (∃ p ∈ st.symbols, p.2.ns = sb.ns ∧ ∃ np ∈ p.2.ports, ∃ port ∈ np.2, InR sb p.2 np.1 port t i e) := by
  have hin2 : ∀ (ref : Sym) (nps : List (Nat × List Ref)) (a : Acc),
      e ∈ refsAt (nps.foldl (fun (acc : Acc) np => np.2.foldl (linkIn sb ref np.1) acc) a).1 t i ↔
        e ∈ refsAt a.1 t i ∨ ∃ np ∈ nps, ∃ port ∈ np.2, InR sb ref np.1 port t i e := fun ref nps a =>
    foldl_mem_iff (A := Acc) (fun a => refsAt a.1 t i)
      (fun (acc : Acc) np => np.2.foldl (linkIn sb ref np.1) acc)
      (fun np e => ∃ port ∈ np.2, InR sb ref np.1 port t i e)
      (fun a np e => foldl_mem_iff (A := Acc) (fun a => refsAt a.1 t i) (linkIn sb ref np.1)
        (fun port e => InR sb ref np.1 port t i e) (fun a x e => linkIn_refs sb ref np.1 a x t i e) np.2 a e)
      nps a e
  have hsym : ∀ (a : Acc) (p : Nat × Sym) (e : Ref),
      e ∈ refsAt (linkInSym o sb a p).1 t i ↔
        e ∈ refsAt a.1 t i ∨ (p.2.ns = sb.ns ∧ ∃ np ∈ p.2.ports, ∃ port ∈ np.2, InR sb p.2 np.1 port t i e) := by
    intro a p e'
    have hin2' : ∀ (ref : Sym) (nps : List (Nat × List Ref)) (a : Acc),
      e' ∈ refsAt (nps.foldl (fun (acc : Acc) np => np.2.foldl (linkIn sb ref np.1) acc) a).1 t i ↔
        e' ∈ refsAt a.1 t i ∨ ∃ np ∈ nps, ∃ port ∈ np.2, InR sb ref np.1 port t i e' := fun ref nps a =>
      foldl_mem_iff (A := Acc) (fun a => refsAt a.1 t i)
        (fun (acc : Acc) np => np.2.foldl (linkIn sb ref np.1) acc)
        (fun np e => ∃ port ∈ np.2, InR sb ref np.1 port t i e)
        (fun a np e => foldl_mem_iff (A := Acc) (fun a => refsAt a.1 t i) (linkIn sb ref np.1)
          (fun port e => InR sb ref np.1 port t i e) (fun a x e => linkIn_refs sb ref np.1 a x t i e) np.2 a e)
        nps a e'
    unfold linkInSym
    by_cases hns : p.2.ns = sb.ns
    · simp only [hns, ne_eq, not_true_eq_false, if_false, true_and]
      rw [hin2']
      simp only [(ho.2.1 2 p.2.ports).mem_iff]
    · simp only [ne_eq, hns, not_false_eq_true, if_true, false_and, or_false]
  unfold links
  simp only
  have h1 := foldl_mem_iff (A := Acc) (fun a => refsAt a.1 t i) (linkInSym o sb)
    (fun p e => p.2.ns = sb.ns ∧ ∃ np ∈ p.2.ports, ∃ port ∈ np.2, InR sb p.2 np.1 port t i e)
    hsym (o.syms 1 st.symbols)
    ((o.ports 1 sb.ports).foldl (fun (acc : Acc) np => np.2.foldl (linkOut st sb np.1) acc)
      (st.references, st.links)) e
  refine h1.trans ?_
  have h2 := foldl_mem_iff (A := Acc) (fun a => refsAt a.1 t i)
    (fun (acc : Acc) np => np.2.foldl (linkOut st sb np.1) acc)
    (fun np e => ∃ port ∈ np.2, OutR st sb np.1 port t i e)
    (fun a np e => foldl_mem_iff (A := Acc) (fun a => refsAt a.1 t i) (linkOut st sb np.1)
      (fun port e => OutR st sb np.1 port t i e) (fun a x e => linkOut_refs st sb np.1 a x t i e) np.2 a e)
    (o.ports 1 sb.ports) (st.references, st.links) e
  simp only at h2
  rw [h2]
  simp only [(ho.2.1 1 sb.ports).mem_iff, (ho.1 1 st.symbols).mem_iff, or_assoc]

theorem links_innerOK (o : Ord) (st : State) (sb : Sym) (h : InnerOK st.references) :
    InnerOK (links o st sb).references := by
  unfold links
  simp only
  refine foldl_inv (A := Acc) (fun a => InnerOK a.1) _ _ ?_ _ ?_
  · intro a p _ ha
    unfold linkInSym
    split
    · exact ha
    · refine foldl_inv (A := Acc) (fun a => InnerOK a.1) _ _ ?_ _ ha
      intro a np _ ha
      refine foldl_inv (A := Acc) (fun a => InnerOK a.1) _ _ ?_ _ ha
      intro a port _ ha
      unfold linkIn
      split
      · exact innerOK_addRef _ _ _ _ ha
      · exact ha
  · refine foldl_inv (A := Acc) (fun a => InnerOK a.1) _ _ ?_ _ h
    intro a np _ ha
    refine foldl_inv (A := Acc) (fun a => InnerOK a.1) _ _ ?_ _ ha
    intro a port _ ha
    unfold linkOut
    cases aget (resolve st sb.ns port) st.symbols with
    | none => exact ha
    | some ref =>
      simp only
      split
      · exact innerOK_addRef _ _ _ _ ha
      · exact ha


/-! ### `unlinks` on the index -/

theorem foldl_mem_and {A X E : Type} (π : A → List E) (g : A → X → A) (Q : X → E → Prop)
    (hg : ∀ a x e, e ∈ π (g a x) ↔ e ∈ π a ∧ ¬ Q x e) (xs : List X) (a : A) (e : E) :
    e ∈ π (xs.foldl g a) ↔ e ∈ π a ∧ ∀ x ∈ xs, ¬ Q x e := by
  induction xs generalizing a with
  | nil => simp
  | cons x xs ih =>
    simp only [List.foldl_cons, ih, hg, List.mem_cons, forall_eq_or_imp, and_assoc]

def UnlR (st : State) (sb : Sym) (name : Nat) (port : Ref) (t i : Nat) (e : Ref) : Prop :=
  ∃ ref, aget (resolve st sb.ns port) st.symbols = some ref ∧ t = ref.id ∧ i = port.port ∧
    e.id = sb.id ∧ e.port = name

theorem unlinkOut_refs (st : State) (sb : Sym) (name : Nat) (acc : Acc) (port : Ref) (t i : Nat) (e : Ref) :
    e ∈ refsAt (unlinkOut st sb name acc port).1 t i ↔ e ∈ refsAt acc.1 t i ∧ ¬ UnlR st sb name port t i e := by
  unfold unlinkOut UnlR
  cases h : aget (resolve st sb.ns port) st.symbols with
  | none => simp
  | some ref =>
    simp only [Option.some.injEq, exists_eq_left', refsAt_filterRef]

theorem unlinks_refs_mem (o : Ord) (ho : o.Valid) (st : State) (sb : Sym) (t i : Nat) (e : Ref) :
    e ∈ refsAt (unlinks o st sb).references t i ↔
      t ≠ sb.id ∧ e ∈ refsAt st.references t i ∧
        ∀ np ∈ sb.ports, ∀ port ∈ np.2, ¬ UnlR st sb np.1 port t i e := by
  unfold unlinks
  simp only
  rw [refsAt_adel]
  by_cases ht : t = sb.id
  · simp [ht]
  · simp only [ht, if_false, ne_eq, not_false_eq_true, true_and]
    have h2 := foldl_mem_and (A := Acc) (fun a => refsAt a.1 t i)
      (fun (acc : Acc) np => np.2.foldl (unlinkOut st sb np.1) acc)
      (fun np e => ∃ port ∈ np.2, UnlR st sb np.1 port t i e)
      (fun a np e => by
        have := foldl_mem_and (A := Acc) (fun a => refsAt a.1 t i) (unlinkOut st sb np.1)
          (fun port e => UnlR st sb np.1 port t i e) (fun a x e => unlinkOut_refs st sb np.1 a x t i e) np.2 a e
        refine this.trans ?_
        simp only [not_exists, not_and])
      (o.ports 3 sb.ports) (st.references, st.links) e
    simp only at h2
    rw [h2]
    simp only [(ho.2.1 3 sb.ports).mem_iff, not_exists, not_and]

theorem unlinks_innerOK (o : Ord) (st : State) (sb : Sym) (h : InnerOK st.references) :
    InnerOK (unlinks o st sb).references := by
  unfold unlinks
  simp only
  have : InnerOK ((o.ports 3 sb.ports).foldl (fun (acc : Acc) np => np.2.foldl (unlinkOut st sb np.1) acc)
      (st.references, st.links)).1 := by
    refine foldl_inv (A := Acc) (fun a => InnerOK a.1) _ _ ?_ _ h
    intro a np _ ha
    refine foldl_inv (A := Acc) (fun a => InnerOK a.1) _ _ ?_ _ ha
    intro a port _ ha
    unfold unlinkOut
    cases aget (resolve st sb.ns port) st.symbols with
    | none => exact ha
    | some ref => exact innerOK_filterRef _ _ _ _ _ ha
  intro t m hm
  rw [aget_adel] at hm
  split at hm
  · cases hm
  · exact this t m hm

/-! ### transfer of `RefSpec` -/

theorem refspec_adel (st st' : State) (id : Nat) (hs : st'.symbols = adel id st.symbols) (t i : Nat) (e : Ref) :
    RefSpec st' t i e ↔ RefSpec st t i e ∧ e.id ≠ id ∧ t ≠ id := by
  unfold RefSpec Names
  simp only [hs, aget_adel]
  constructor
  · rintro ⟨S, T, h1, h2, h3, np, hnp, hn, r, hr, hN, hp⟩
    split at h1
    · cases h1
    · rename_i hsrc
      split at h2
      · cases h2
      · rename_i hdst
        refine ⟨⟨S, T, h1, h2, h3, np, hnp, hn, r, hr, ?_, hp⟩, hsrc, hdst⟩
        rcases hN with h | ⟨a, b, s, hs', c⟩
        · exact Or.inl h
        · simp only [hdst, if_false] at hs'
          exact Or.inr ⟨a, b, s, hs', c⟩
  · rintro ⟨⟨S, T, h1, h2, h3, np, hnp, hn, r, hr, hN, hp⟩, hsrc, hdst⟩
    refine ⟨S, T, by simp [hsrc, h1], by simp [hdst, h2], h3, np, hnp, hn, r, hr, ?_, hp⟩
    rcases hN with h | ⟨a, b, s, hs', c⟩
    · exact Or.inl h
    · exact Or.inr ⟨a, b, s, by simp [hdst, hs'], c⟩

theorem refspec_aset (st st' : State) (sb : Sym) (hs : st'.symbols = aset sb.id sb st.symbols)
    (hfresh : aget sb.id st.symbols = none) (t i : Nat) (e : Ref) :
    RefSpec st t i e ↔ RefSpec st' t i e ∧ e.id ≠ sb.id ∧ t ≠ sb.id := by
  unfold RefSpec Names
  simp only [hs, aget_aset]
  constructor
  · rintro ⟨S, T, h1, h2, h3, np, hnp, hn, r, hr, hN, hp⟩
    have hsrc : e.id ≠ sb.id := by intro e'; rw [e', hfresh] at h1; cases h1
    have hdst : t ≠ sb.id := by intro e'; rw [e', hfresh] at h2; cases h2
    refine ⟨⟨S, T, by simp [hsrc, h1], by simp [hdst, h2], h3, np, hnp, hn, r, hr, ?_, hp⟩, hsrc, hdst⟩
    rcases hN with h | ⟨a, b, s, hs', c⟩
    · exact Or.inl h
    · exact Or.inr ⟨a, b, s, by simp [hdst, hs'], c⟩
  · rintro ⟨⟨S, T, h1, h2, h3, np, hnp, hn, r, hr, hN, hp⟩, hsrc, hdst⟩
    simp only [hsrc, if_false] at h1
    simp only [hdst, if_false] at h2
    refine ⟨S, T, h1, h2, h3, np, hnp, hn, r, hr, ?_, hp⟩
    rcases hN with h | ⟨a, b, s, hs', c⟩
    · exact Or.inl h
    · simp only [hdst, if_false] at hs'
      exact Or.inr ⟨a, b, s, hs', c⟩

theorem refspec_congr {st st' : State} (hs : st'.symbols = st.symbols) (t i : Nat) (e : Ref) :
    RefSpec st' t i e ↔ RefSpec st t i e := by
  unfold RefSpec Names; rw [hs]


/-! ### the invariant through `free` and `insert` -/

theorem rinv_congr {st st' : State} (h : RInv st) (hs : st'.symbols = st.symbols)
    (hn : st'.namespaces = st.namespaces) (hl : st'.links = st.links) (hr : st'.references = st.references) :
    RInv st' := by
  refine ⟨tinv_congr h.toTInv hs hn hl, ?_, ?_⟩
  · intro t i e; rw [hr, refspec_congr hs]; exact h.refs t i e
  · rw [hr]; exact h.inner

theorem freeRest_references (o : Ord) (st1 : State) (sb : Sym) (id : Nat) :
    (freeRest o st1 sb id).references = (unlinks o st1 sb).references := by
  unfold freeRest closeSym
  simp only
  split <;> split <;> rfl

theorem rinv_freeRest (o : Ord) (ho : o.Valid) (st : State) (sb : Sym) (id : Nat) (h : RInv st)
    (hsb : aget id st.symbols = some sb) : RInv (freeRest o st sb id) := by
  have hid : sb.id = id := h.keyId id sb hsb
  have hsym := freeRest_symbols o st sb id
  refine ⟨tinv_freeRest o st sb id h.toTInv hsb, ?_, ?_⟩
  · intro t i e
    rw [freeRest_references, unlinks_refs_mem o ho, refspec_adel st _ id hsym, h.refs t i e, hid]
    constructor
    · rintro ⟨h1, h2, h3⟩
      refine ⟨h2, ?_, h1⟩
      intro he
      obtain ⟨S, T, a1, a2, a3, np, hnp, hn, r, hr, hN, hp, _⟩ := h2
      rw [he, hsb] at a1; cases a1
      refine h3 np hnp r hr ⟨T, ?_, (h.keyId t T a2).symm, hp.symm, he.trans hid.symm, hn.symm⟩
      rw [(resolve_iff h.toTBase sb.ns r t T a2).mpr hN]; exact a2
    · rintro ⟨h1, h2, h3⟩
      refine ⟨h3, h1, ?_⟩
      rintro np hnp port hport ⟨ref, _, _, _, he, _⟩
      exact h2 (he.trans hid)
  · rw [freeRest_references]; exact unlinks_innerOK o st sb h.inner

theorem rinv_free (o : Ord) (ho : o.Valid) (st : State) (id : Nat) (h : RInv st) : RInv (free o st id).1 := by
  rw [free_eq]
  cases hs : aget id st.symbols with
  | none => exact h
  | some sb =>
    simp only
    have ht := unload_table o st sb
    have h1 : RInv (unload o st sb).1 := by
      rw [ht]; exact rinv_congr h rfl rfl rfl rfl
    split
    · exact rinv_freeRest o ho _ sb id h1 (by rw [ht]; exact hs)
    · exact h1

theorem stored_references (st : State) (sb : Sym) : (stored st sb).references = st.references := by
  unfold stored; simp only; split <;> rfl

theorem rinv_insert (o : Ord) (ho : o.Valid) (st : State) (sb : Sym) (h : RInv st)
    (hfresh : aget sb.id st.symbols = none) (hwf : sb.wf) (hnf : NameFree st sb) :
    RInv (insert o st sb).1 := by
  have hT := tinv_insert o ho st sb h.toTInv hfresh hwf hnf
  obtain ⟨hsym, hlnk, _⟩ := stored_fields st sb
  have hb : TBase (stored st sb) := tbase_stored st sb h.toTBase hfresh hwf hnf
  have hself : aget sb.id (stored st sb).symbols = some sb := by rw [hsym]; simp [aget_aset]
  have hfin : (insert o st sb).1.references = (links o (stored st sb) sb).references := by
    rw [insert_eq, load_table]
  have hfinS : (insert o st sb).1.symbols = (stored st sb).symbols := by
    rw [insert_eq, load_table]; rfl
  refine ⟨hT, ?_, ?_⟩
  · intro t i e
    rw [hfin, refspec_congr hfinS, links_refs_mem o ho, stored_references, h.refs t i e,
      refspec_aset st (stored st sb) sb hsym hfresh t i e]
    constructor
    · rintro (⟨h1, _, _⟩ | ⟨np, hnp, port, hport, ref, hr, hns, ht, hi, he⟩ |
        ⟨p, hp, hns, np, hnp, port, hport, hc, ht, hi, he⟩)
      · exact h1
      · subst he; subst hi
        have hid : ref.id = resolve (stored st sb) sb.ns port := hb.keyId _ _ hr
        refine ⟨sb, ref, hself, by rw [ht, hid]; exact hr, hns, np, hnp, rfl, port, hport, ?_, rfl, rfl⟩
        rw [ht, hid]
        exact (resolve_iff hb sb.ns port _ ref hr).mp rfl
      · subst he; subst hi; subst ht
        obtain ⟨k, ref⟩ := p
        have hk : aget k (stored st sb).symbols = some ref := aget_of_mem hb.nodup hp
        have hid : ref.id = k := hb.keyId _ _ hk
        simp only at hns hnp hport hc ⊢
        refine ⟨ref, sb, by rw [hid]; exact hk, hself, hns.symm, np, hnp, rfl, port, hport, ?_, rfl, rfl⟩
        have hpw : port.wf := (hb.wf k ref hk).2 np hnp port hport
        rcases hc with hc | ⟨hc1, hc2⟩
        · exact Or.inl ⟨by rw [hc]; exact hwf.1, hc⟩
        · rcases hpw with ⟨_, h2⟩ | ⟨h1, h2⟩
          · exact absurd h2 hc1
          · exact Or.inr ⟨h1, h2, sb, hself, hns.symm, hc2.symm⟩
    · rintro ⟨S, T, h1, h2, h3, np, hnp, hn, r, hr, hN, hp, hnm⟩
      by_cases hsrc : e.id = sb.id
      · right; left
        rw [hsrc, hself] at h1; cases h1
        have hres : resolve (stored st sb) sb.ns r = t := (resolve_iff hb sb.ns r t T h2).mpr hN
        refine ⟨np, hnp, r, hr, T, by rw [hres]; exact h2, h3, (hb.keyId _ _ h2).symm, hp.symm, ?_⟩
        cases e; simp_all
      · by_cases hdst : t = sb.id
        · right; right
          rw [hdst, hself] at h2; cases h2
          refine ⟨(e.id, S), mem_of_aget h1, h3.symm, np, hnp, r, hr, ?_, hdst, hp.symm, ?_⟩
          · rcases hN with ⟨_, h⟩ | ⟨_, h0, s, hs, _, h2'⟩
            · exact Or.inl (h.trans hdst)
            · rw [hdst, hself] at hs; cases hs
              exact Or.inr ⟨h0, h2'.symm⟩
          · have := hb.keyId _ _ h1
            cases e; simp_all
        · left
          exact ⟨⟨S, T, h1, h2, h3, np, hnp, hn, r, hr, hN, hp, hnm⟩, hsrc, hdst⟩
  · rw [hfin]
    apply links_innerOK
    rw [stored_references]; exact h.inner

theorem rinv_freeAll (o : Ord) (ho : o.Valid) (st : State) (l : List Sym) (h : RInv st) :
    RInv (freeAll o st l).1 := by
  induction l generalizing st with
  | nil => exact h
  | cons x xs ih =>
    unfold freeAll
    have h1 := rinv_free o ho st x.id h
    cases hf : free o st x.id with
    | mk st1 rb =>
      obtain ⟨r, b⟩ := rb
      rw [hf] at h1
      cases r with
      | ok => exact ih st1 h1
      | err es => exact h1
      | panic => exact h1

theorem rinv_step (o : Ord) (ho : o.Valid) (st : State) (op : Op) (h : RInv st) (hw : WfOp st op) :
    RInv (step o st op).1 := by
  cases op with
  | insert sb =>
    rw [step_insert_eq]
    have h1 := rinv_free o ho st sb.id h
    split
    · rename_i hok
      have hfs := fun k => free_symbols o st sb.id k
      simp only [hok, true_and] at hfs
      refine rinv_insert o ho _ sb h1 (by rw [hfs]; simp) hw.1 ?_
      intro hn k t hk h2 h3
      rw [hfs] at hk
      split at hk
      · cases hk
      · exact hw.2 hn k t hk h2 h3
    · exact h1
  | free id => exact rinv_free o ho st id h
  | close =>
    rw [step_close_eq]
    cases closeOrder o st with
    | none => exact h
    | some l => exact rinv_freeAll o ho st l h

theorem rinv_init : RInv {} := by
  refine ⟨tinv_init, ?_, ?_⟩
  · intro t i e
    constructor
    · intro h; cases h
    · rintro ⟨S, T, h, _⟩; cases h
  · intro t m h; cases h

theorem rinv_run (o : Ord) (ho : o.Valid) (h : List Op) (st : State) (hi : RInv st) (hw : WfRun o st h) :
    RInv (run o st h) := by
  induction h generalizing st with
  | nil => exact hi
  | cons op ops ih => exact ih _ (rinv_step o ho st op hi hw.1) hw.2

end Uniflow.Table
