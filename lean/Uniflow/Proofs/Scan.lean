/-
The planned scan of `store.find` returns exactly the matching documents (Props/C10.lean `find_eq_ref`,
Props/C11.lean `find_index_independent`): in a state satisfying the index invariant (Proofs/IndexInv.lean), with index
keys that are field names and well-formed index filters, a scan within the plan's bounds (`C11.plan_sound`) over an
applicable index (`implied_sound`) followed by the residual `match` yields the documents `refMatch` lets through, in id
order. Core Lean only.
-/
import Uniflow.Proofs.IndexInv
import Uniflow.Proofs.Partial

namespace Uniflow.Index
open Uniflow.Value Uniflow.Store Uniflow.Plan Uniflow.Query

/-! ### `explain` picks the plan of an applicable index -/

theorem choose_mem : ∀ (l : List (List Level)) (best : List Level), choose best l = best ∨ choose best l ∈ l
  | [], best => Or.inl rfl
  | p :: ps, best => by
    simp only [choose]
    rcases choose_mem ps (if best.isEmpty || p.length > best.length then p else best) with h | h
    · rw [h]
      split
      · exact Or.inr List.mem_cons_self
      · exact Or.inl rfl
    · exact Or.inr (List.mem_cons_of_mem _ h)

/-- a non-empty plan is the plan of the keys of an applicable index -/
theorem explain_src {idxs : List Index} {f : Val} (h : explain (idxs.map descOf) f ≠ []) :
    ∃ idx ∈ idxs, applicable f (descOf idx) = true ∧ explain (idxs.map descOf) f = plan idx.keys f := by
  unfold explain at h ⊢
  rcases choose_mem (((List.map descOf idxs).filter (applicable f)).map (fun d => plan d.1 f) |>.filter (!·.isEmpty)) [] with h0 | h0
  · exact absurd h0 h
  · simp only [List.mem_filter, List.mem_map] at h0
    obtain ⟨⟨desc, ⟨⟨idx, hi, rfl⟩, happ⟩, hp⟩, _⟩ := h0
    exact ⟨idx, hi, happ, hp.symm⟩

/-! ### bounds do not distinguish `Compare`-equal keys -/

theorem inb_congr {b : Bounds} {x y : Val} (h : cmp x y = 0) (hy : inb b y = true) : inb b x = true := by
  rw [inb_iff] at hy ⊢
  have := C14.cmp_antisymm x y
  refine ⟨hy.1.imp id fun h1 => C14.cmp_trans _ _ _ h1 (by omega), hy.2.imp id fun h1 => C14.cmp_trans _ _ _ (by omega) h1⟩

/-! ### following one document through the levels of a plan -/

/-- the section still holds, under the remaining keys `ks`, a leaf of the document `d` stored under `i` -/
def TracksK (cur : Section) (ks : List Val) (i : Val) (d : PList) : Prop :=
  ∃ ents, (ks, ents) ∈ cur ∧ ∃ e ∈ ents, cmp e.2 i = 0 ∧ tupCmp e.1 (ks.map (mget d)) = 0

theorem track_level {cur : Section} {k : Val} {ks : List Val} {i : Val} {d : PList} {b : Bounds}
    (h : TracksK cur (k :: ks) i d) (hb : inb b (mget d k) = true) : TracksK (scanLevel cur ⟨k, b⟩) ks i d := by
  obtain ⟨ents, hm, e, he, hid, ht⟩ := h
  cases he1 : e.1 with
  | nil => rw [he1] at ht; simp [tupCmp] at ht
  | cons x xs =>
    rw [he1] at ht
    simp only [List.map_cons, tupCmp] at ht
    rw [lexStep_zero] at ht
    refine ⟨(ents.filter fun e => match e.1 with | x :: _ => inb b x | [] => false).map fun e => (e.1.tail, e.2),
      ?_, (xs, e.2), ?_, hid, ht.2⟩
    · unfold scanLevel
      rw [List.mem_filterMap]
      exact ⟨(k :: ks, ents), hm, by simp [C14.equal_refl] <;> rfl⟩
    · rw [List.mem_map]
      refine ⟨e, ?_, by simp [he1]⟩
      rw [List.mem_filter]
      exact ⟨he, by simp only [he1]; exact inb_congr ht.1 hb⟩

theorem track_plan (f : Val) {i : Val} {d : PList} : ∀ (ks : List Val) (cur : Section), TracksK cur ks i d →
    within (plan ks f) d = true → ∃ ks', TracksK ((plan ks f).foldl scanLevel cur) ks' i d
  | [], cur, h, _ => ⟨[], by simpa [plan] using h⟩
  | k :: ks, cur, h, hw => by
    simp only [plan] at hw ⊢
    cases hp : planV k f with
    | none => exact ⟨k :: ks, by simpa using h⟩
    | some b =>
      rw [hp] at hw
      simp only [within, Bool.and_eq_true] at hw
      simp only [List.foldl_cons]
      exact track_plan f ks _ (track_level h hw.1) hw.2

/-! ### every id a section names is stored -/

def SecStored (docs : List (Val × PList)) (cur : Section) : Prop :=
  ∀ sec ∈ cur, ∀ e ∈ sec.2, (getDoc docs e.2).isSome = true

theorem SecStored_scanLevel {docs : List (Val × PList)} {cur : Section} (l : Level) (h : SecStored docs cur) :
    SecStored docs (scanLevel cur l) := by
  intro sec hs e he
  unfold scanLevel at hs
  rw [List.mem_filterMap] at hs
  obtain ⟨⟨ks, ents⟩, hm, hf⟩ := hs
  cases ks with
  | nil => simp at hf
  | cons k ks' =>
    simp only at hf
    split at hf
    · simp only [Option.some.injEq] at hf
      subst hf
      simp only [List.mem_map, List.mem_filter] at he
      obtain ⟨e0, ⟨he0, _⟩, rfl⟩ := he
      exact h _ hm e0 he0
    · simp at hf

theorem SecStored_foldl {docs : List (Val × PList)} : ∀ (p : List Level) {cur : Section}, SecStored docs cur →
    SecStored docs (p.foldl scanLevel cur)
  | [], _, h => h
  | l :: p, _, h => by simp only [List.foldl_cons]; exact SecStored_foldl p (SecStored_scanLevel l h)

/-! ### shape of the indexes: field-name keys, well-formed filters -/

/-- the hypotheses of `plan_sound` and `implied_sound` on one index -/
def GoodIdx (idx : Index) : Prop :=
  (∀ k ∈ idx.keys, FieldKey k) ∧ ∀ φ, idx.filter = some φ → wf φ = true

/-- an admitted document: the index filter, when well-formed, holds of it by the reference evaluation -/
theorem admits_of_ref {idx : Index} (hg : GoodIdx idx) {d : PList}
    (h : ∀ φ, idx.filter = some φ → refMatch (some (.map d)) φ = true) : idx.admits d = true := by
  unfold Index.admits
  cases hf : idx.filter with
  | none => rfl
  | some φ =>
    simp only
    unfold holds
    have := matchV_ref φ (hg.2 φ hf) (some (.map d))
    simp only [valOf, Option.getD_some, Option.isSome_some] at this
    rw [this, h φ hf]

/-! ### the scan -/

theorem filter_map_filter {α β : Type} (g : α → β) (q : α → Bool) (m : β → Bool) (l : List α)
    (h : ∀ a ∈ l, m (g a) = true → q a = true) : ((l.filter q).map g).filter m = (l.map g).filter m := by
  induction l with
  | nil => rfl
  | cons a l ih =>
    have ih' := ih (fun a' ha' => h a' (by simp [ha']))
    by_cases hm : m (g a) = true
    · have hq := h a (by simp) hm
      simp [hq, hm, ih']
    · by_cases hq : q a = true
      · simp [hq, hm, ih']
      · simp [hq, hm, ih']

/-- **`find` = reference filter**, whatever the indexes: in a state satisfying the index invariant whose indexes have
field-name keys and well-formed filters, `find` with a well-formed filter returns the stored documents the reference
evaluation lets through, in id order. -/
theorem find_ref {s : State} (hfull : Full s) (hgood : ∀ idx ∈ s.indexes, GoodIdx idx) {f : Val} (hw : wf f = true) :
    find s (some f) = .ok ((s.docs.map (·.2)).filter fun d => refMatch (some (.map d)) f) := by
  have hv : validate f = none := by
    have := validate_wf f; cases hv : validate f <;> simp [hv, hw] at this ⊢
  simp only [find, hv]
  by_cases hp : explain (s.indexes.map descOf) f = []
  · simp [hp, residual_ref hw]
  · have hne : (explain (s.indexes.map descOf) f).isEmpty = false := by
      cases he : explain (s.indexes.map descOf) f <;> simp_all
    simp only [hne, Bool.false_eq_true, if_false]
    obtain ⟨X, hX, happ, hplan⟩ := explain_src hp
    rw [hplan]
    have hstart : SecStored s.docs (s.indexes.map fun i => (i.keys, i.entries)) := by
      intro sec hs e he
      rw [List.mem_map] at hs
      obtain ⟨idx, hi, rfl⟩ := hs
      obtain ⟨d, hd, _⟩ := hfull.cons.exact idx hi e he
      simp [hd]
    have hfin := SecStored_foldl (plan X.keys f) hstart
    -- all ids are stored: `Range` does not panic
    have hall : (((plan X.keys f).foldl scanLevel (s.indexes.map fun i => (i.keys, i.entries))).flatMap
        fun (x : List Val × List (List Val × Val)) => x.2.map (·.2)).all (fun id => (getDoc s.docs id).isSome) = true := by
      rw [List.all_eq_true]
      intro id hid
      rw [List.mem_flatMap] at hid
      obtain ⟨sec, hs, hid⟩ := hid
      rw [List.mem_map] at hid
      obtain ⟨e, he, rfl⟩ := hid
      exact hfin sec hs e he
    simp only [rangeSection, hall, if_true]
    rw [residual_ref hw]
    congr 1
    apply filter_map_filter
    -- every matching stored document is among the scanned ids
    intro p hpd hm
    have hXkeys : X.keys ≠ [] := by
      intro h0; rw [hplan, h0] at hp; exact hp (by simp [plan])
    have hadm : X.admits p.2 = true := by
      apply admits_of_ref (hgood X hX)
      intro φ hφ
      have : implied φ (pinned f) = true := by simpa [applicable, descOf, hφ] using happ
      exact implied_sound ((hgood X hX).2 φ hφ) this hm
    obtain ⟨e, he, hid, ht⟩ := hfull.complete X hX hXkeys p hpd hadm
    have hwithin : within (plan X.keys f) p.2 = true := by
      exact plan_within X.keys f p.2 (hgood X hX).1 hm
    have htr : TracksK (s.indexes.map fun i => (i.keys, i.entries)) X.keys p.1 p.2 :=
      ⟨X.entries, by rw [List.mem_map]; exact ⟨X, hX, rfl⟩, e, he, hid, ht⟩
    obtain ⟨ks', ents, hsec, e', he', hid', _⟩ := track_plan f X.keys _ htr hwithin
    simp only [List.any_eq_true, decide_eq_true_eq]
    exact ⟨e'.2, by rw [List.mem_flatMap]; exact ⟨_, hsec, by rw [List.mem_map]; exact ⟨e', he', rfl⟩⟩, hid'⟩

end Uniflow.Index
