/-
C02, joint model, all node kinds, part 19: the schedules of class T5, the step `release`, schedules, safety.
-/
import Uniflow.Proofs.FlowN18s

namespace Uniflow.FlowN
open Uniflow.Tracer Uniflow.Node Uniflow.Flow Uniflow.FlowInv Uniflow.FlowG Uniflow.ATracer Uniflow.FlowH Uniflow.FlowM
open Uniflow.ATracer (getL_setOrDel getL_aset)

/-- the schedules of class T5 = T4 plus the actions of many-to-one nodes: the action (it runs in the thread of the
in-port whose packet completed the group) returns one new packet (`out`), one new error packet (`err`) or nothing
(`drop`: the completing packet is answered with itself) -/
def ExtT5 (kinds : List Kind) : Ext → Prop
  | .send _ => True
  | .sinkAnswer _ _ => True
  | .release n (.out _) => kinds[n]? = none ∨ kinds[n]? = some .oneToOne ∨ (∃ k, kinds[n]? = some (.oneToMany (k + 1))) ∨
      ∃ k, kinds[n]? = some (.manyToOne k)
  | .release _ (.err _) => True
  | .release n (.many _) => kinds[n]? = none ∨ ∃ k, kinds[n]? = some (.oneToMany k)
  | .release n .drop => kinds[n]? = none ∨ (∃ k, kinds[n]? = some (.oneToMany k)) ∨ ∃ k, kinds[n]? = some (.manyToOne k)
  | _ => False

theorem extT5_of_extT4 (kinds : List Kind) (e : Ext) (h : ExtT4 kinds e) : ExtT5 kinds e := by
  cases e with
  | send _ => trivial
  | sinkAnswer _ _ => trivial
  | release n r =>
    cases r with
    | out v =>
      rcases h with h | h | h
      · exact Or.inl h
      · exact Or.inr (Or.inl h)
      · exact Or.inr (Or.inr (Or.inl h))
    | err v => trivial
    | same => exact h.elim
    | drop =>
      rcases h with h | h
      · exact Or.inl h
      · exact Or.inr (Or.inl h)
    | sames _ => exact h.elim
    | mixed _ => exact h.elim
    | many vs => exact h

theorem prog_out_j (k : Nat) (p : Pkt) (c : Pid) (v : Val) (hpc : p.id < c) :
    ProgOK (.manyToOne k) p (.outs [some { id := c, pay := v }]) c (c + 1) :=
  ⟨_, rfl, by simp [linkTargets, Nat.ne_of_lt hpc], by simp [introS, cellsOf], by simp [introS, cellsOf], Nat.le_succ _⟩

/-- the schedules of class T6 = T5 plus actions that return their INPUT packet ONCE: `same` (any node kind:
pass-through, `return inPck, nil`) and `sames 1` (`[inPck]`); `sames 0` is `drop` -/
def ExtT6 (kinds : List Kind) : Ext → Prop
  | .release _ .same => True
  | .release n (.sames k) => k = 1 ∨
      (k = 0 ∧ (kinds[n]? = none ∨ (∃ m, kinds[n]? = some (.oneToMany m)) ∨ ∃ m, kinds[n]? = some (.manyToOne m)))
  | e => ExtT5 kinds e

theorem extT6_of_extT5 (kinds : List Kind) (e : Ext) (h : ExtT5 kinds e) : ExtT6 kinds e := by
  cases e with
  | send _ => exact h
  | sinkAnswer _ _ => exact h
  | release n r =>
    cases r with
    | same => exact h.elim
    | sames _ => exact h.elim
    | mixed _ => exact h.elim
    | out v => exact h
    | err v => exact h
    | many vs => exact h
    | drop => exact h

/-- the schedules of class T7 = T6 plus: an action of ANY node kind – also one-to-one – may return nothing (`drop`,
`sames 0`): the request is answered with itself (one-to-one: since the fix of `OneToOneNode.forward`) -/
def ExtT7 (kinds : List Kind) : Ext → Prop
  | .release _ .drop => True
  | .release n (.sames k) => k ≤ 1 ∨ kinds[n]? = none ∨ ∃ m, kinds[n]? = some (.oneToMany m)
  | .release n (.mixed _) => kinds[n]? = none ∨ ∃ m, kinds[n]? = some (.oneToMany m)
  | e => ExtT6 kinds e

theorem extT7_of_extT6 (kinds : List Kind) (e : Ext) (h : ExtT6 kinds e) : ExtT7 kinds e := by
  cases e with
  | send _ => exact h
  | sinkAnswer _ _ => exact h
  | release n r =>
    cases r with
    | same => exact h
    | sames k =>
      rcases h with h | ⟨h, _⟩
      · exact Or.inl (by omega)
      · exact Or.inl (by omega)
    | mixed _ => exact h.elim
    | out v => exact h
    | err v => exact h
    | many vs => exact h
    | drop => trivial

theorem progE_nil (kind : Kind) (p : Pkt) (c : Pid) : ProgE kind p (.outs []) c c := by
  cases kind with
  | oneToOne => exact ⟨by simp [program], by simp [introS, cellsOf], by simp [introS, cellsOf], Nat.le_refl _⟩
  | oneToMany _ =>
    exact ⟨by simp [program, validOuts], by simp [introS, cellsOf], by simp [introS, cellsOf], Nat.le_refl _⟩
  | manyToOne _ => exact ⟨by simp [program], by simp [introS, cellsOf], by simp [introS, cellsOf], Nat.le_refl _⟩

/-- a node kind with ONE out port: whatever list of packets the action's result is, the program is `Link; Write` of
the single packet `[q]`, or the echo `Write(nil, in)` -/
theorem prog_single (kind : Kind) (hk : kind = .oneToOne ∨ ∃ m, kind = .manyToOne m) (p : Pkt) (c nx : Pid)
    (qs : List (Option Pkt)) (a1 : ((cellsOf qs).map (·.id)).Nodup)
    (a2 : ∀ id ∈ (cellsOf qs).map (·.id), c ≤ id ∧ id < nx) (a3 : c ≤ nx) (hpc : p.id < c) :
    ProgOK kind p (.outs qs) c nx ∨ ProgE kind p (.outs qs) c nx := by
  have echo : ∀ qs' : List (Option Pkt), qs' = qs → program kind p (.outs qs') = some [.write none p] →
      ProgOK kind p (.outs qs) c nx ∨ ProgE kind p (.outs qs) c nx := by
    intro qs' e hp
    subst e
    exact Or.inr ⟨hp, by simpa [introS] using a1, by simpa [introS] using a2, a3⟩
  match qs, a1, a2, echo with
  | [some q], a1, a2, _ =>
    left
    have hq : c ≤ q.id := (a2 q.id (by simp [cellsOf])).1
    have hne : ¬ p.id = q.id := fun e => by rw [e] at hpc; exact Nat.lt_irrefl _ (Nat.lt_of_lt_of_le hpc hq)
    refine ⟨[.link p.id q.id, .write (some (outW 0)) q], ?_, by simp [linkTargets, hne],
      by simpa [introS] using a1, by simpa [introS] using a2, a3⟩
    rcases hk with e | ⟨m, e⟩ <;> subst e <;> rfl
  | [], _, _, echo => exact echo [] rfl (by rcases hk with e | ⟨m, e⟩ <;> subst e <;> rfl)
  | none :: qs', _, _, echo => exact echo _ rfl (by rcases hk with e | ⟨m, e⟩ <;> subst e <;> rfl)
  | some q :: x :: qs', _, _, echo => exact echo _ rfl (by rcases hk with e | ⟨m, e⟩ <;> subst e <;> rfl)

/-- every result shape of every node kind: new packets on some out ports / nothing -/
theorem prog_any (kind : Kind) (p : Pkt) (c : Pid) (vs : List (Option Val)) (hpc : p.id < c) :
    ProgOK kind p (.outs (allocOuts vs c).1) c (allocOuts vs c).2 ∨
    ProgE kind p (.outs (allocOuts vs c).1) c (allocOuts vs c).2 := by
  obtain ⟨a1, a2, a3⟩ := allocOuts_ids vs c
  cases kind with
  | oneToMany k => exact prog_many4 k p c vs hpc
  | oneToOne => exact prog_single .oneToOne (Or.inl rfl) p c _ _ a1 a2 a3 hpc
  | manyToOne m => exact prog_single (.manyToOne m) (Or.inr ⟨m, rfl⟩) p c _ _ a1 a2 a3 hpc

/-- the action running in a node returns – ANY result the node code permits: a new packet, the in packet itself
(handed on as a copy), an error packet, new packets / the in packet on several out ports, nothing -/
theorem HIe_release (kinds : List Kind) (links : List (Nat × List Tgt)) (hwf : GraphWF5 kinds links) (g g' : G) (n : Nat)
    (r : Flow.Rel) (h : HIe kinds links g) (hs : release g n r = some g') :
    HIe kinds links g' := by
  obtain ⟨aa, h⟩ := h
  have h0 : HI kinds links aa D0 (clearObs g) := HI_congr kinds links aa D0 g _ h rfl rfl rfl rfl rfl rfl rfl rfl rfl
  simp only [release] at hs
  cases hn : getNode (clearObs g).nodes n with
  | none => simp [hn] at hs
  | some nd =>
    simp only [hn] at hs
    cases hat : actionThread nd.threads 0 with
    | none => simp [hat] at hs
    | some ip =>
      obtain ⟨i, p⟩ := ip
      obtain ⟨j, grp, inbox, ei, hg⟩ := actionThread_spec nd.threads 0 i p hat
      rw [Nat.zero_add] at ei
      subst ei
      simp only [hat] at hs
      have hX : (⟨p.id, i, .cells []⟩ : Req) ∈ (aa n).reqs := by
        have := (h0.jb n nd hn).j.th i _ hg; simpa [ThOK] using this
      have hplt : p.id < (clearObs g).next :=
        (h0.jb n nd hn).bnd p.id (List.mem_append_left _ (mem_ids_of_mem hX (by simp [idsR])))
      have tail : ∀ (o : Outcome) (nx : Pid), relTail (clearObs g) n nd i p o nx = some g' →
          (ProgOK nd.kind p o (clearObs g).next nx ∨ ProgE nd.kind p o (clearObs g).next nx) → HIe kinds links g' := by
        intro o nx hs' hpo
        rcases hpo with hpo | hpo
        · exact HIe_relTail kinds links hwf (clearObs g) g' ⟨aa, h0⟩ n nd i p grp inbox hn hg o nx hpo hs'
        · exact HIe_relTail_echo kinds links hwf (clearObs g) g' ⟨aa, h0⟩ n nd i p grp inbox hn hg o nx hpo hs'
      cases r with
      | err v => exact tail _ _ hs (Or.inl (prog_err nd.kind p _ v hplt))
      | drop => exact tail _ _ hs (Or.inr (progE_nil nd.kind p _))
      | out v => exact tail _ _ hs (prog_any nd.kind p (clearObs g).next [some v] hplt)
      | same => exact tail _ _ hs (prog_any nd.kind p (clearObs g).next [some p.pay] hplt)
      | many vs => exact tail _ _ hs (prog_any nd.kind p (clearObs g).next vs hplt)
      | sames k => exact tail _ _ hs (prog_any nd.kind p (clearObs g).next (List.replicate k (some p.pay)) hplt)
      | mixed vs => exact tail _ _ hs (prog_any nd.kind p (clearObs g).next _ hplt)

theorem HIe_ext (kinds : List Kind) (links : List (Nat × List Tgt)) (hwf : GraphWF5 kinds links) (g : G) (e : Ext)
    (h : HIe kinds links g) : HIe kinds links (ext g e) := by
  cases e with
  | send v => exact HIe_send kinds links hwf g v h
  | sinkAnswer k a =>
    simp only [ext]
    cases hs : sinkAnswer g k a with
    | none => exact h
    | some g' => exact HIe_sinkAnswer kinds links hwf g g' k a h hs
  | release n r =>
    simp only [ext]
    cases hs : release g n r with
    | none => exact h
    | some g' => exact HIe_release kinds links hwf g g' n r h hs

theorem HIe_runExt (kinds : List Kind) (links : List (Nat × List Tgt)) (hwf : GraphWF5 kinds links) (es : List Ext) :
    ∀ (g : G), HIe kinds links g → HIe kinds links (runExt g es) := by
  induction es with
  | nil => intro g h; exact h
  | cons e es ih =>
    intro g h
    simp only [runExt]
    exact ih _ (HIe_ext kinds links hwf g e h)

theorem HIe_init (kinds : List Kind) (links : List (Nat × List Tgt)) (hwf : GraphWF5 kinds links) :
    HIe kinds links (initG kinds links) := ⟨_, HI_init kinds links hwf⟩

/-- safety: the i-th response the source has received is the reference answer of its i-th request -/
theorem HIe_safety (kinds : List Kind) (links : List (Nat × List Tgt)) (g : G) (h : HIe kinds links g) :
    ∀ (i : Nat) (a : Ans), g.resp[i]? = some a → ∃ p, g.roots[i]? = some p ∧ ∃ f, refAns g.log f p = some a := by
  obtain ⟨aa, h⟩ := h
  intro i a hi
  obtain ⟨p, hp, hra⟩ := FlowInv.all2_index _ _ _ h.respOK.2 i a hi
  rw [List.getElem?_take] at hp
  split at hp
  · exact ⟨p, hp, hra⟩
  · cases hp

end Uniflow.FlowN
