/-
C02, joint model, all node kinds, part 19: the schedules of class T5, the step `release`, schedules, safety.
-/
import Uniflow.Proofs.FlowN18s

namespace Uniflow.FlowN
open Uniflow.Tracer Uniflow.Node Uniflow.Flow Uniflow.FlowInv Uniflow.FlowG Uniflow.ATracer Uniflow.FlowH Uniflow.FlowM
open Uniflow.ATracer (getL_setOrDel getL_aset)

/-- the schedules of class T5 = T4 plus the actions of many-to-one nodes: the action (it runs in the thread of the
in-port whose packet completed the group) returns one new packet (`out`), one new error packet (`err`) or nothing
(`drop`: the completing packet is answered with itself) -/
def ExtT5 (kinds : List Kind) : Ext → Prop
  | .send _ => True
  | .sinkAnswer _ _ => True
  | .release n (.out _) => kinds[n]? = none ∨ kinds[n]? = some .oneToOne ∨ (∃ k, kinds[n]? = some (.oneToMany (k + 1))) ∨
      ∃ k, kinds[n]? = some (.manyToOne k)
  | .release _ (.err _) => True
  | .release n (.many _) => kinds[n]? = none ∨ ∃ k, kinds[n]? = some (.oneToMany k)
  | .release n .drop => kinds[n]? = none ∨ (∃ k, kinds[n]? = some (.oneToMany k)) ∨ ∃ k, kinds[n]? = some (.manyToOne k)
  | _ => False

theorem extT5_of_extT4 (kinds : List Kind) (e : Ext) (h : ExtT4 kinds e) : ExtT5 kinds e := by
  cases e with
  | send _ => trivial
  | sinkAnswer _ _ => trivial
  | release n r =>
    cases r with
    | out v =>
      rcases h with h | h | h
      · exact Or.inl h
      · exact Or.inr (Or.inl h)
      · exact Or.inr (Or.inr (Or.inl h))
    | err v => trivial
    | same => exact h.elim
    | drop =>
      rcases h with h | h
      · exact Or.inl h
      · exact Or.inr (Or.inl h)
    | sames _ => exact h.elim
    | mixed _ => exact h.elim
    | many vs => exact h

theorem prog_out_j (k : Nat) (p : Pkt) (c : Pid) (v : Val) (hpc : p.id < c) :
    ProgOK (.manyToOne k) p (.outs [some { id := c, pay := v }]) c (c + 1) :=
  ⟨_, rfl, by simp [linkTargets, Nat.ne_of_lt hpc], by simp [introS, cellsOf], by simp [introS, cellsOf], Nat.le_succ _⟩

/-- the schedules of class T6 = T5 plus actions that return their INPUT packet ONCE: `same` (any node kind:
pass-through, `return inPck, nil`) and `sames 1` (`[inPck]`); `sames 0` is `drop` -/
def ExtT6 (kinds : List Kind) : Ext → Prop
  | .release _ .same => True
  | .release n (.sames k) => k = 1 ∨
      (k = 0 ∧ (kinds[n]? = none ∨ (∃ m, kinds[n]? = some (.oneToMany m)) ∨ ∃ m, kinds[n]? = some (.manyToOne m)))
  | e => ExtT5 kinds e

theorem extT6_of_extT5 (kinds : List Kind) (e : Ext) (h : ExtT5 kinds e) : ExtT6 kinds e := by
  cases e with
  | send _ => exact h
  | sinkAnswer _ _ => exact h
  | release n r =>
    cases r with
    | same => exact h.elim
    | sames _ => exact h.elim
    | mixed _ => exact h.elim
    | out v => exact h
    | err v => exact h
    | many vs => exact h
    | drop => exact h

/-- the schedules of class T7 = T6 plus: an action of ANY node kind – also one-to-one – may return nothing (`drop`,
`sames 0`): the request is answered with itself (one-to-one: since the fix of `OneToOneNode.forward`) -/
def ExtT7 (kinds : List Kind) : Ext → Prop
  | .release _ .drop => True
  | .release n (.sames k) => k ≤ 1 ∨ kinds[n]? = none ∨ ∃ m, kinds[n]? = some (.oneToMany m)
  | .release n (.mixed _) => kinds[n]? = none ∨ ∃ m, kinds[n]? = some (.oneToMany m)
  | e => ExtT6 kinds e

theorem extT7_of_extT6 (kinds : List Kind) (e : Ext) (h : ExtT6 kinds e) : ExtT7 kinds e := by
  cases e with
  | send _ => exact h
  | sinkAnswer _ _ => exact h
  | release n r =>
    cases r with
    | same => exact h
    | sames k =>
      rcases h with h | ⟨h, _⟩
      · exact Or.inl (by omega)
      · exact Or.inl (by omega)
    | mixed _ => exact h.elim
    | out v => exact h
    | err v => exact h
    | many vs => exact h
    | drop => trivial

theorem progE_nil (kind : Kind) (p : Pkt) (c : Pid) : ProgE kind p (.outs []) c c := by
  cases kind with
  | oneToOne => exact ⟨by simp [program], by simp [introS, cellsOf], by simp [introS, cellsOf], Nat.le_refl _⟩
  | oneToMany _ =>
    exact ⟨by simp [program, validOuts], by simp [introS, cellsOf], by simp [introS, cellsOf], Nat.le_refl _⟩
  | manyToOne _ => exact ⟨by simp [program], by simp [introS, cellsOf], by simp [introS, cellsOf], Nat.le_refl _⟩

theorem HIe_release (kinds : List Kind) (links : List (Nat × List Tgt)) (hwf : GraphWF5 kinds links) (g g' : G) (n : Nat)
    (r : Flow.Rel) (hr : ExtT7 kinds (.release n r)) (h : HIe kinds links g) (hs : release g n r = some g') :
    HIe kinds links g' := by
  obtain ⟨aa, h⟩ := h
  have h0 : HI kinds links aa D0 (clearObs g) := HI_congr kinds links aa D0 g _ h rfl rfl rfl rfl rfl rfl rfl rfl rfl
  simp only [release] at hs
  cases hn : getNode (clearObs g).nodes n with
  | none => simp [hn] at hs
  | some nd =>
    simp only [hn] at hs
    cases hat : actionThread nd.threads 0 with
    | none => simp [hat] at hs
    | some ip =>
      obtain ⟨i, p⟩ := ip
      obtain ⟨j, grp, inbox, ei, hg⟩ := actionThread_spec nd.threads 0 i p hat
      rw [Nat.zero_add] at ei
      subst ei
      simp only [hat] at hs
      have hk := h0.kindEq n nd hn
      have hX : (⟨p.id, i, .cells []⟩ : Req) ∈ (aa n).reqs := by
        have := (h0.jb n nd hn).j.th i _ hg; simpa [ThOK] using this
      have hplt : p.id < (clearObs g).next :=
        (h0.jb n nd hn).bnd p.id (List.mem_append_left _ (mem_ids_of_mem hX (by simp [idsR])))
      have tailS : ∀ (o : Outcome), relTail (clearObs g) n nd i p o (clearObs g).next = some g' →
          ProgS nd.kind p o → HIe kinds links g' := fun o hs' hpo =>
        HIe_relTail_same kinds links hwf (clearObs g) g' ⟨aa, h0⟩ n nd i p grp inbox hn hg o hpo hs'
      have tail : ∀ (o : Outcome) (nx : Pid), relTail (clearObs g) n nd i p o nx = some g' →
          (ProgOK nd.kind p o (clearObs g).next nx ∨ ProgE nd.kind p o (clearObs g).next nx) → HIe kinds links g' := by
        intro o nx hs' hpo
        rcases hpo with hpo | hpo
        · exact HIe_relTail kinds links hwf (clearObs g) g' ⟨aa, h0⟩ n nd i p grp inbox hn hg o nx hpo hs'
        · exact HIe_relTail_echo kinds links hwf (clearObs g) g' ⟨aa, h0⟩ n nd i p grp inbox hn hg o nx hpo hs'
      cases r with
      | same =>
        -- the node hands its tracer a copy of the in packet: as `out` with the same payload
        apply tail _ _ hs
        cases hkd : nd.kind with
        | oneToOne => exact Or.inl (prog_out .oneToOne p _ p.pay hplt (Or.inl rfl))
        | manyToOne m => exact Or.inl (prog_out_j m p _ p.pay hplt)
        | oneToMany m => exact prog_many4 m p (clearObs g).next [some p.pay] hplt
      | sames k =>
        -- copies of the in packet on the out ports 0..k-1: as `many` with the same payload
        apply tail _ _ hs
        cases hkd : nd.kind with
        | oneToMany m => exact prog_many4 m p (clearObs g).next (List.replicate k (some p.pay)) hplt
        | oneToOne =>
          simp only [ExtT7] at hr
          rw [hk, hkd] at hr
          rcases hr with hr | hr | ⟨m, hr⟩
          · cases k with
            | zero => exact Or.inr (progE_nil .oneToOne p _)
            | succ k =>
              have : k = 0 := by omega
              subst this
              exact Or.inl (prog_out .oneToOne p _ p.pay hplt (Or.inl rfl))
          · cases hr
          · cases hr
        | manyToOne m' =>
          simp only [ExtT7] at hr
          rw [hk, hkd] at hr
          rcases hr with hr | hr | ⟨m, hr⟩
          · cases k with
            | zero => exact Or.inr (progE_nil (.manyToOne m') p _)
            | succ k =>
              have : k = 0 := by omega
              subst this
              exact Or.inl (prog_out_j m' p _ p.pay hplt)
          · cases hr
          · cases hr
      | mixed vs =>
        simp only [ExtT7] at hr
        rw [hk] at hr
        rcases hr with e | ⟨m, e⟩
        · cases e
        · simp only [Option.some.injEq] at e
          apply tail _ _ hs
          rw [e]; exact prog_many4 m p (clearObs g).next _ hplt
      | err v => exact tail _ _ hs (Or.inl (prog_err nd.kind p _ v hplt))
      | out v =>
        simp only [ExtT7, ExtT6, ExtT5] at hr
        rw [hk] at hr
        simp only [Option.some.injEq] at hr
        apply tail _ _ hs
        left
        rcases hr with e | e | ⟨k, e⟩ | ⟨k, e⟩
        · cases e
        · exact prog_out nd.kind p _ v hplt (Or.inl e)
        · exact prog_out nd.kind p _ v hplt (Or.inr ⟨k, e⟩)
        · rw [e]; exact prog_out_j k p _ v hplt
      | many vs =>
        simp only [ExtT7, ExtT6, ExtT5] at hr
        rw [hk] at hr
        rcases hr with e | ⟨k, e⟩
        · cases e
        · simp only [Option.some.injEq] at e
          apply tail _ _ hs
          rw [e]; exact prog_many4 k p (clearObs g).next vs hplt
      | drop => exact tail _ _ hs (Or.inr (progE_nil nd.kind p _))

theorem HIe_ext (kinds : List Kind) (links : List (Nat × List Tgt)) (hwf : GraphWF5 kinds links) (g : G) (e : Ext)
    (he : ExtT7 kinds e) (h : HIe kinds links g) : HIe kinds links (ext g e) := by
  cases e with
  | send v => exact HIe_send kinds links hwf g v h
  | sinkAnswer k a =>
    simp only [ext]
    cases hs : sinkAnswer g k a with
    | none => exact h
    | some g' => exact HIe_sinkAnswer kinds links hwf g g' k a h hs
  | release n r =>
    simp only [ext]
    cases hs : release g n r with
    | none => exact h
    | some g' => exact HIe_release kinds links hwf g g' n r he h hs

theorem HIe_runExt (kinds : List Kind) (links : List (Nat × List Tgt)) (hwf : GraphWF5 kinds links) (es : List Ext) :
    ∀ (g : G), (∀ e ∈ es, ExtT7 kinds e) → HIe kinds links g → HIe kinds links (runExt g es) := by
  induction es with
  | nil => intro g _ h; exact h
  | cons e es ih =>
    intro g he h
    simp only [runExt]
    exact ih _ (fun e' he' => he e' (List.mem_cons_of_mem _ he'))
      (HIe_ext kinds links hwf g e (he e (by simp)) h)

theorem HIe_init (kinds : List Kind) (links : List (Nat × List Tgt)) (hwf : GraphWF5 kinds links) :
    HIe kinds links (initG kinds links) := ⟨_, HI_init kinds links hwf⟩

/-- safety: the i-th response the source has received is the reference answer of its i-th request -/
theorem HIe_safety (kinds : List Kind) (links : List (Nat × List Tgt)) (g : G) (h : HIe kinds links g) :
    ∀ (i : Nat) (a : Ans), g.resp[i]? = some a → ∃ p, g.roots[i]? = some p ∧ ∃ f, refAns g.log f p = some a := by
  obtain ⟨aa, h⟩ := h
  intro i a hi
  obtain ⟨p, hp, hra⟩ := FlowInv.all2_index _ _ _ h.respOK.2 i a hi
  rw [List.getElem?_take] at hp
  split at hp
  · exact ⟨p, hp, hra⟩
  · cases hp

end Uniflow.FlowN
