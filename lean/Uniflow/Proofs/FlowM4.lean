/-
C02, joint model, nodes with several in-ports, part 4: thread `i` – an accepted `Write`; the answer to a derived
packet of a request of reader `r` arrives (refused `Write` or downstream answer): cell filled, the complete prefix of
reader `r` answered; the echo `Write(nil, in)`.
-/
import Uniflow.Proofs.FlowM3

namespace Uniflow.FlowM
open Uniflow.Tracer Uniflow.Node Uniflow.Flow Uniflow.FlowInv Uniflow.FlowG Uniflow.ATracer Uniflow.FlowH

theorem nlt_write_acc (lg lg' : Log) (n : Nat) (i : Rid) (a : A) (inbox : List Pkt) (w : Wid) (q : Pkt) (ops : List Op)
    (h : NLt lg n i { inbox := inbox, pc := .emit (.write (some w) q :: ops) } a) (hnd : (ids a.reqs).Nodup)
    (p : Pid) (cs : List Cell) (rest : List Pid) (hX : (⟨p, i, .cells cs⟩ : Req) ∈ a.reqs)
    (hl : linkedIds cs = q.id :: rest) (hrem0 : remFor (.emit (.write (some w) q :: ops)) p = [])
    (t : Tr lg lg' q.id) (hki : ∀ x ∈ inbox, x.id ≠ q.id)
    (hkr : ∀ y ∈ a.reqs, y.r = i → y.p ≠ p → q.id ∉ remFor (.emit (.write (some w) q :: ops)) y.p)
    (ho : ∀ id ∈ nlIdsT i { inbox := inbox, pc := .emit (.write (some w) q :: ops) } a,
      aget lg'.owner id = aget lg.owner id) :
    NLt lg' n i { inbox := inbox, pc := nextPc ops } (awrite a (some w) q.id (.pay q.pay) true).1 ∧
    (awrite a (some w) q.id (.pay q.pay) true).1.wq = aset a.wq w (getL a.wq w ++ [q.id]) ∧
    (awrite a (some w) q.id (.pay q.pay) true).2 = [] ∧
    (awrite a (some w) q.id (.pay q.pay) true).1.reqs =
      updReq p (fun st => match st with | .cells cs => .cells (markWritten q.id w cs) | s => s) a.reqs := by
  have hkl : q.id ∈ linkedIds cs := by rw [hl]; simp
  have hko := linkedIds_sub_open cs q.id hkl
  have hown := ownerOf_of_mem q.id a.reqs _ cs hnd hX rfl hko
  have hfk := findReq_cell_none a.reqs _ q.id hnd hX (by simpa [cellsOfSt] using hko)
  have hres : awrite a (some w) q.id (.pay q.pay) true =
      ({ a with reqs := updReq p (fun st => match st with | .cells cs => .cells (markWritten q.id w cs) | s => s) a.reqs,
                wq := aset a.wq w (getL a.wq w ++ [q.id]) }, []) := by
    simp only [awrite, hfk, hown, isLinked_of_mem q.id cs hkl, if_true]
    rfl
  rw [hres]
  refine ⟨?_, rfl, rfl, rfl⟩
  have hpc : ∀ p', remFor (nextPc ops) p' = remFor (.emit (.write (some w) q :: ops)) p' := by
    intro p'; rw [remFor_next]; rfl
  have hpne : p ≠ q.id := fun e => (open_nodup_of_mem a.reqs p i cs hnd hX).1 (e ▸ hko)
  apply nlt_upd lg lg' n i inbox _ (nextPc ops) a _ q.id h hnd ⟨p, i, .cells cs⟩ hX rfl
    (by simp [idsR, cellsOfSt, hko]) _ rfl t hpc (fun _ _ e => by cases e)
    (fun w' q' e => by
      rcases e with e | e
      · simp only [PC.emit.injEq, List.cons.injEq, Op.write.injEq] at e
        exact Or.inr (Or.inr (by rw [e.1.2]))
      · simp at e)
    (wOK_next _ ops h.wb) hki hkr ho
  · rcases h.req _ hX rfl with hr | ⟨v, e1, _, _⟩
    rotate_left
    · simp only [RSt.cells.injEq] at e1; rw [e1] at hl; simp [linkedIds] at hl
    left
    simp only [ReqA] at hr ⊢
    rw [hpc]
    obtain ⟨qs, a1, a2, a3, a4, a5, a6, a7⟩ := hr
    obtain ⟨s1, s2, s3, s4⟩ := t.same p hpne
    refine ⟨qs, ?_, by rw [s1]; exact a2, by rw [s2]; exact a3, by rw [s3]; exact a4, by rw [s4]; exact a5,
      Or.inl hrem0, ?_⟩
    · exact all2_markWritten lg lg' q.id t n w qs cs (open_nodup_of_mem a.reqs p i cs hnd hX).2
        (fun q' hq' _ => ho _ (nlT_linked i _ a _ hX rfl q' hq')) a1
    · intro q' hq'; rw [hrem0] at hq'; simp at hq'
  · intro e
    simp only [RSt.cells.injEq] at e
    cases cs with
    | nil => simp [linkedIds] at hl
    | cons c cs' => cases c <;> simp [markWritten] at e <;> split at e <;> simp at e

/-- the action returned its input packet and the out-writer accepted it: the request itself is awaited on the writer -/
theorem nlt_write_self_acc (lg lg' : Log) (n : Nat) (i : Rid) (a : A) (inbox : List Pkt) (w : Wid) (q : Pkt)
    (h : NLt lg n i { inbox := inbox, pc := .emit [.write (some w) q] } a) (hnd : (ids a.reqs).Nodup)
    (hX : (⟨q.id, i, .cells []⟩ : Req) ∈ a.reqs) (t : Tr lg lg' q.id) (hki : ∀ x ∈ inbox, x.id ≠ q.id)
    (ho : ∀ id ∈ nlIdsT i { inbox := inbox, pc := .emit [.write (some w) q] } a,
      aget lg'.owner id = aget lg.owner id) :
    NLt lg' n i { inbox := inbox, pc := nextPc [] } (awrite a (some w) q.id (.pay q.pay) true).1 ∧
    (awrite a (some w) q.id (.pay q.pay) true).1.wq = aset a.wq w (getL a.wq w ++ [q.id]) ∧
    (awrite a (some w) q.id (.pay q.pay) true).2 = [] ∧
    (awrite a (some w) q.id (.pay q.pay) true).1.reqs = updReq q.id (fun _ => .direct w) a.reqs := by
  have hf := findReq_of_mem a.reqs _ hnd hX
  have hres : awrite a (some w) q.id (.pay q.pay) true =
      ({ a with reqs := updReq q.id (fun _ => .direct w) a.reqs, wq := aset a.wq w (getL a.wq w ++ [q.id]) }, []) := by
    simp only [awrite, hf]
  rw [hres]
  refine ⟨?_, rfl, rfl, rfl⟩
  apply nlt_upd lg lg' n i inbox _ (nextPc []) a _ q.id h hnd ⟨q.id, i, .cells []⟩ hX rfl (by simp [idsR])
    (fun _ => .direct w) rfl t (fun _ => rfl) (fun _ _ e => by cases e)
    (fun w' q' e => by
      rcases e with e | e
      · simp only [PC.emit.injEq, List.cons.injEq, Op.write.injEq, and_true] at e
        exact Or.inr (Or.inl (by rw [e.2]))
      · simp at e) trivial hki (fun y _ _ _ hm => by simp [remFor, remOps] at hm) ho
  · exact Or.inl (by simp [ReqA, remFor, nextPc])
  · intro e; cases e

/-- after the update of the request list to `rs1`: answer the complete prefix of reader `r` if the request `p` is complete -/
theorem nlt_afterFill (lg : Log) (n : Nat) (r : Rid) (th : Thread) (a : A) (rs1 : List Req) (p : Pid) (st1 : RSt)
    (h1 : NLt lg n r th { a with reqs := rs1 }) (hf1 : findReq p rs1 = some ⟨p, r, st1⟩) :
    ∃ ds : List (Pid × Ans), NLt lg n r th (afterFill a rs1 p).1 ∧
      (afterFill a rs1 p).2 = ds.map (fun d => Ev.reply r d.2) ∧ (∀ d ∈ ds, RA lg d.1 d.2) ∧
      (rs1.filter (fun x => x.r = r)).map (·.p) =
        ds.map (·.1) ++ ((afterFill a rs1 p).1.reqs.filter (fun x => x.r = r)).map (·.p) ∧
      (∀ j, j ≠ r → (afterFill a rs1 p).1.reqs.filter (fun x => x.r = j) = rs1.filter (fun x => x.r = j)) ∧
      (afterFill a rs1 p).1.wq = a.wq := by
  simp only [afterFill, hf1]
  cases hrep : reply st1 with
  | none => exact ⟨[], h1, rfl, by simp, by simp, fun _ _ => rfl, rfl⟩
  | some b =>
    obtain ⟨pre, e1, e2, e3, e4⟩ := flush_dsR r rs1
    have hsub := flushR_sublist r rs1
    refine ⟨pre.flatMap ansOf, nlt_sub lg n r th _ _ h1 (fun y hy _ => hsub.subset hy), e2, ?_, ?_, ?_, rfl⟩
    · intro d hd
      simp only [List.mem_flatMap, ansOf] at hd
      obtain ⟨x, hx', hd⟩ := hd
      cases hb : reply x.st with
      | none => rw [hb] at hd; simp at hd
      | some b' =>
        rw [hb] at hd
        simp only [List.mem_singleton] at hd
        subst hd
        obtain ⟨hm, hr⟩ := e4 x hx'
        exact ra_of_reqA lg n th.pc x b' (h1.req x hm hr) hb
    · show (rs1.filter _).map _ = _
      rw [e1, List.map_append, ansOf_fst pre e3]
    · intro j hj
      exact filter_flushR_other r j rs1 hj

end Uniflow.FlowM
