/-
C02, joint model, nodes with several in-ports, part 5: a cell of a request of reader `r` is filled (refused `Write`,
downstream answer), the echo `Write(nil, in)` – each followed by the answers to the complete prefix of reader `r`.
-/
import Uniflow.Proofs.FlowM4

namespace Uniflow.FlowM
open Uniflow.Tracer Uniflow.Node Uniflow.Flow Uniflow.FlowInv Uniflow.FlowG Uniflow.ATracer Uniflow.FlowH

/-- the requests of the other readers after an update of one request of reader `r` and a flush of reader `r` -/
theorem others_kept (a : A) (x : Req) (hnd : (ids a.reqs).Nodup) (hx : x ∈ a.reqs) (f : RSt → RSt) (a' : A)
    (hsub : ∀ y ∈ a'.reqs, y ∈ updReq x.p f a.reqs) :
    ∀ y ∈ a'.reqs, y.r ≠ x.r → y ∈ a.reqs := by
  intro y hy hne
  rcases mem_updReq_cases x.p f a.reqs y (nodup_p _ hnd) (hsub y hy) with ⟨h1, _⟩ | ⟨z, h1, h2, h3⟩
  · exact h1
  · have hze : z = x := mem_unique a.reqs z x x.p hnd h1 hx (by simp [idsR, h2]) (by simp [idsR])
    subst hze
    rw [h3] at hne; exact absurd rfl hne

theorem nlt_fill (lg lg' : Log) (n : Nat) (r : Rid) (inbox : List Pkt) (pc pc' : PC) (a : A) (k : Pid) (ans : Ans)
    (h : NLt lg n r { inbox := inbox, pc := pc } a) (hpc : ∀ p', remFor pc' p' = remFor pc p')
    (hact : ∀ pk grp, pc = .action pk grp → pc' = .action pk grp)
    (hact2 : ∀ w q', (pc = .emit [.write w q'] ∨ pc = .emit [.link q'.id q'.id, .write w q']) → pc' = pc ∨ q'.id = k)
    (hwb' : wOK pc') (hnd : (ids a.reqs).Nodup)
    (p : Pid) (cs : List Cell) (hX : (⟨p, r, .cells cs⟩ : Req) ∈ a.reqs) (hk : k ∈ openIds cs)
    (hrem0 : remFor pc p = []) (t : Tr lg lg' k) (hki : ∀ x ∈ inbox, x.id ≠ k)
    (hkr : ∀ y ∈ a.reqs, y.r = r → y.p ≠ p → k ∉ remFor pc y.p)
    (ho : ∀ id ∈ nlIdsT r { inbox := inbox, pc := pc } a, aget lg'.owner id = aget lg.owner id)
    (hra : RA lg' k ans) :
    ∃ ds : List (Pid × Ans), NLt lg' n r { inbox := inbox, pc := pc' } (afill a k ans).1 ∧
      (afill a k ans).2 = ds.map (fun d => Ev.reply r d.2) ∧ (∀ d ∈ ds, RA lg' d.1 d.2) ∧
      (a.reqs.filter (fun x => x.r = r)).map (·.p) =
        ds.map (·.1) ++ ((afill a k ans).1.reqs.filter (fun x => x.r = r)).map (·.p) ∧
      (∀ y ∈ (afill a k ans).1.reqs, y.r ≠ r → y ∈ a.reqs) ∧
      (∀ j, j ≠ r → ((afill a k ans).1.reqs.filter (fun x => x.r = j)).map (·.p) = (a.reqs.filter (fun x => x.r = j)).map (·.p)) ∧
      (afill a k ans).1.wq = a.wq := by
  have hf := findReq_of_mem a.reqs _ hnd hX
  have hown := ownerOf_of_mem k a.reqs _ cs hnd hX rfl hk
  have hfk := findReq_cell_none a.reqs _ k hnd hX (by simpa [cellsOfSt] using hk)
  have hpne : p ≠ k := fun e => (open_nodup_of_mem a.reqs p r cs hnd hX).1 (e ▸ hk)
  have h1 : NLt lg' n r { inbox := inbox, pc := pc' } { a with reqs := updReq p (fillSt k ans) a.reqs } := by
    apply nlt_upd lg lg' n r inbox pc pc' a _ k h hnd ⟨p, r, .cells cs⟩ hX rfl
      (by simp [idsR, cellsOfSt, hk]) (fillSt k ans) rfl t hpc hact
      (fun w q' e => by rcases hact2 w q' e with e1 | e1; exact Or.inl e1; exact Or.inr (Or.inr e1)) hwb' hki hkr ho
    · rcases h.req _ hX rfl with hr | ⟨v, e1, _, _⟩
      rotate_left
      · simp only [RSt.cells.injEq] at e1; rw [e1] at hk; simp [openIds] at hk
      left
      simp only [ReqA, fillSt] at hr ⊢
      rw [hpc, hrem0] at *
      obtain ⟨qs, a1, a2, a3, a4, a5, _, _⟩ := hr
      obtain ⟨s1, s2, s3, s4⟩ := t.same p hpne
      refine ⟨qs, ?_, by rw [s1]; exact a2, by rw [s2]; exact a3, by rw [s3]; exact a4, by rw [s4]; exact a5,
        Or.inl rfl, by simp⟩
      exact all2_fillCell lg lg' k t n ans hra qs cs (open_nodup_of_mem a.reqs p r cs hnd hX).2
        (fun q' hq' _ => ho _ (nlT_linked r _ a _ hX rfl q' hq')) a1
    · intro e
      simp only [fillSt, RSt.cells.injEq] at e
      cases cs with
      | nil => simp [openIds] at hk
      | cons c cs' => cases c <;> simp [fillCell] at e <;> split at e <;> simp at e
  have hf1 : findReq p (updReq p (fillSt k ans) a.reqs) = some ⟨p, r, fillSt k ans (.cells cs)⟩ :=
    findReq_upd a.reqs p _ _ hf
  obtain ⟨ds, d1, d2, d3, d4, d5, d6⟩ := nlt_afterFill lg' n r _ a _ p _ h1 hf1
  have he : afill a k ans = afterFill a (updReq p (fillSt k ans) a.reqs) p := by
    simp only [afill, hfk, hown]
  rw [he]
  refine ⟨ds, d1, d2, d3, ?_, ?_, ?_, d6⟩
  · rw [← d4]; exact (readsOf_upd a.reqs p _ r).symm
  · apply others_kept a ⟨p, r, .cells cs⟩ hnd hX (fillSt k ans)
    intro y hy
    simp only [afterFill, hf1] at hy
    cases hrep : reply (fillSt k ans (.cells cs)) with
    | none => rw [hrep] at hy; exact hy
    | some b => rw [hrep] at hy; exact (flushR_sublist r _).subset hy
  · intro j hj
    rw [d5 j hj]; exact readsOf_upd a.reqs p _ j

/-- a request of reader `i` that derived nothing (`cells []`) or was written itself (`direct`) gets its answer `ans`
– itself (the echo `Write(nil, in)`, a refused write of the request packet) or the answer to the write of the request
packet –: it and the complete requests behind it on reader `i` are answered -/
theorem nlt_self_fill (lg lg' : Log) (n : Nat) (i : Rid) (inbox : List Pkt) (pc pc' : PC) (a : A) (P : Pid) (st0 : RSt)
    (ans : Ans) (h : NLt lg n i { inbox := inbox, pc := pc } a) (hnd : (ids a.reqs).Nodup)
    (hX : (⟨P, i, st0⟩ : Req) ∈ a.reqs) (hst0 : st0 = .cells [] ∨ ∃ w, st0 = .direct w)
    (t : Tr lg lg' P) (hra : RA lg' P ans) (hpc : ∀ p', remFor pc' p' = remFor pc p') (hrem0 : remFor pc P = [])
    (hact : ∀ pk grp, pc = .action pk grp → pc' = .action pk grp)
    (hact2 : ∀ w q', (pc = .emit [.write w q'] ∨ pc = .emit [.link q'.id q'.id, .write w q']) → pc' = pc ∨ q'.id = P)
    (hwb' : wOK pc') (hki : ∀ x ∈ inbox, x.id ≠ P)
    (hkr : ∀ y ∈ a.reqs, y.r = i → y.p ≠ P → P ∉ remFor pc y.p)
    (ho : ∀ id ∈ nlIdsT i { inbox := inbox, pc := pc } a, aget lg'.owner id = aget lg.owner id) :
    ∃ ds : List (Pid × Ans), NLt lg' n i { inbox := inbox, pc := pc' } (afill a P ans).1 ∧
      (afill a P ans).2 = ds.map (fun d => Ev.reply i d.2) ∧ (∀ d ∈ ds, RA lg' d.1 d.2) ∧
      (a.reqs.filter (fun x => x.r = i)).map (·.p) =
        ds.map (·.1) ++ ((afill a P ans).1.reqs.filter (fun x => x.r = i)).map (·.p) ∧
      (∀ y ∈ (afill a P ans).1.reqs, y.r ≠ i → y ∈ a.reqs) ∧
      (∀ j, j ≠ i → ((afill a P ans).1.reqs.filter (fun x => x.r = j)).map (·.p) =
        (a.reqs.filter (fun x => x.r = j)).map (·.p)) ∧
      (afill a P ans).1.wq = a.wq := by
  have hf := findReq_of_mem a.reqs _ hnd hX
  have h1 : NLt lg' n i { inbox := inbox, pc := pc' }
      { a with reqs := updReq P (fun _ => RSt.cells [.filled ans]) a.reqs } := by
    apply nlt_upd lg lg' n i inbox pc pc' a _ P h hnd ⟨P, i, st0⟩ hX rfl (by simp [idsR])
      (fun _ => RSt.cells [.filled ans]) rfl t hpc hact
      (fun w q' e => by rcases hact2 w q' e with e1 | e1; exact Or.inl e1; exact Or.inr (Or.inl e1)) hwb' hki hkr ho
    · exact Or.inr ⟨ans, rfl, hra, by rw [hpc]; exact hrem0⟩
    · intro e; cases e
  have hf1 : findReq P (updReq P (fun _ => RSt.cells [.filled ans]) a.reqs) =
      some ⟨P, i, .cells [.filled ans]⟩ := findReq_upd a.reqs P _ _ hf
  obtain ⟨ds, d1, d2, d3, d4, d5, d6⟩ := nlt_afterFill lg' n i _ a _ P _ h1 hf1
  have he : afill a P ans = afterFill a (updReq P (fun _ => RSt.cells [.filled ans]) a.reqs) P := by
    rcases hst0 with e | ⟨w, e⟩ <;> subst e <;> simp only [afill, hf]
  rw [he]
  refine ⟨ds, d1, d2, d3, ?_, ?_, ?_, d6⟩
  · rw [← d4]; exact (readsOf_upd a.reqs P _ i).symm
  · apply others_kept a ⟨P, i, st0⟩ hnd hX (fun _ => RSt.cells [.filled ans])
    intro y hy
    simp only [afterFill, hf1] at hy
    have hrep : reply (.cells [.filled ans]) = some ans := by
      simp [reply, cellVal, hasNil, joinCells, cellsOf, join]
    rw [hrep] at hy; exact (flushR_sublist i _).subset hy
  · intro j hj
    rw [d5 j hj]; exact readsOf_upd a.reqs P _ j

/-- `Write(nil, in)` / a refused `Write(w, in)` by thread `i`: the request answers itself -/
theorem nlt_echo_self (lg lg' : Log) (n : Nat) (i : Rid) (inbox : List Pkt) (a : A) (w : Option Wid) (q : Pkt)
    (h : NLt lg n i { inbox := inbox, pc := .emit [.write w q] } a) (hnd : (ids a.reqs).Nodup)
    (hX : (⟨q.id, i, .cells []⟩ : Req) ∈ a.reqs)
    (hx : LogExt lg lg' q.id) (hecho : aget lg'.echo q.id = some q.pay) (hki : ∀ x ∈ inbox, x.id ≠ q.id)
    (ho : ∀ id ∈ nlIdsT i { inbox := inbox, pc := .emit [.write w q] } a, aget lg'.owner id = aget lg.owner id) :
    ∃ ds : List (Pid × Ans), NLt lg' n i { inbox := inbox, pc := .idle } (afill a q.id (.pay q.pay)).1 ∧
      (afill a q.id (.pay q.pay)).2 = ds.map (fun d => Ev.reply i d.2) ∧ (∀ d ∈ ds, RA lg' d.1 d.2) ∧
      (a.reqs.filter (fun x => x.r = i)).map (·.p) =
        ds.map (·.1) ++ ((afill a q.id (.pay q.pay)).1.reqs.filter (fun x => x.r = i)).map (·.p) ∧
      (∀ y ∈ (afill a q.id (.pay q.pay)).1.reqs, y.r ≠ i → y ∈ a.reqs) ∧
      (∀ j, j ≠ i → ((afill a q.id (.pay q.pay)).1.reqs.filter (fun x => x.r = j)).map (·.p) =
        (a.reqs.filter (fun x => x.r = j)).map (·.p)) ∧
      (afill a q.id (.pay q.pay)).1.wq = a.wq :=
  nlt_self_fill lg lg' n i inbox _ .idle a q.id (.cells []) (.pay q.pay) h hnd hX (Or.inl rfl)
    (tr_of_ext lg lg' q.id hx) (ra_echo lg' q.id q.pay hecho) (fun _ => rfl) rfl (fun _ _ e => by cases e)
    (fun w' q' e => by
      rcases e with e | e
      · simp only [PC.emit.injEq, List.cons.injEq, Op.write.injEq, and_true] at e
        exact Or.inr (by rw [e.2])
      · simp at e) trivial hki
    (fun y _ _ _ hm => by simp [remFor, remOps] at hm) ho

end Uniflow.FlowM
