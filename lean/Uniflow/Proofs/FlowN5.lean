/-
C02, joint model, all node kinds, part 12: a node completes requests (a refused `Write`, a downstream
answer) – the replies become a debt towards the feeding writers and are routed; a sink answers.
-/
import Uniflow.Proofs.FlowN4

namespace Uniflow.FlowN
open Uniflow.Tracer Uniflow.Node Uniflow.Flow Uniflow.FlowInv Uniflow.FlowG Uniflow.ATracer Uniflow.FlowH Uniflow.FlowM
open Uniflow.ATracer (getL_setOrDel getL_aset)

theorem HI_debt (kinds : List Kind) (links : List (Nat × List Tgt)) (hwf : GraphWF5 kinds links) (aa : Nat → A) (g : G)
    (h : HI kinds links aa D0 g) (n0 : Nat) (nd0 nd' : Node) (a' : A) (lg' : Log) (k : Pid)
    (ws' : List (Nat × Flow.Writer)) (ds : List (Pid × Ans)) (r : Nat) (hr : r < 63)
    (hn0 : getNode g.nodes n0 = some nd0) (hkind : nd'.kind = nd0.kind)
    (hjb' : JBm nd' a' g.next) (hnl' : NLm lg' n0 nd' a') (hthr' : nd'.threads.length = nd0.threads.length)
    (hrdr' : ∀ x ∈ a'.reqs, x.r < nd0.threads.length)
    (hheld : ∀ port, heldN nd0 (aa n0) port = (if port = r then ds.map (·.1) else []) ++ heldN nd' a' port)
    (hx : LogExt g.log lg' k) (ho : lg'.owner = g.log.owner)
    (hlb : ∀ id, g.next ≤ id → Unlogged lg' id)
    (hk : g.next ≤ k ∨ ∃ τ, aget g.log.owner k = some τ ∧ τ / 64 = n0)
    (hds : ∀ d ∈ ds, RA lg' d.1 d.2)
    (hsq : (gw ws' srcKey).queue = []) (hwq0 : ∀ key, getL links key = [] → (gw ws' key).queue = [])
    (hwk : ∀ key, getL links key ≠ [] → WKG lg' (gw ws' key) (getL links key)
      (pendH (updA aa n0 a') g.roots g.resp.length key) (hbOfH D0 aa g.nodes g.sinks g.fifo key))
    (hordk : OrdAt lg' k g.next) :
    HI kinds links (updA aa n0 a') (updD D0 (rkeyOf (.node n0 r)) ds)
      { g with nodes := setNode g.nodes n0 nd', log := lg', writers := ws' } := by
  have hn0N : n0 < kinds.length := (h.nodesLen n0).mp (by rw [hn0]; rfl)
  have hN := hwf.small
  have hn1000 : n0 < 1000 := Nat.lt_of_lt_of_le hn0N hN
  have hheldD : ∀ t, TgtOK t →
      heldDH (updD D0 (rkeyOf (.node n0 r)) ds) (updA aa n0 a') (setNode g.nodes n0 nd') g.sinks t =
        heldDH D0 aa g.nodes g.sinks t := by
    intro t htok
    cases t with
    | sink j =>
      have : rkeyOf (.sink j) ≠ rkeyOf (.node n0 r) := by simp only [rkeyOf]; omega
      simp [heldDH, heldAtH, updD, this, D0]
    | node m port =>
      obtain ⟨hp63, hm1000⟩ := htok
      by_cases e : m = n0
      · subst e
        by_cases ep : port = r
        · subst ep
          simp only [heldDH, heldAtH, updD, if_true, getNode_set g m nd0 nd' hn0 m, updA, hn0, D0, List.map_nil,
            List.nil_append]
          rw [hheld port]; simp
        · have : rkeyOf (.node m port) ≠ rkeyOf (.node m r) := by simp only [rkeyOf]; omega
          simp only [heldDH, heldAtH, updD, this, if_false, getNode_set g m nd0 nd' hn0 m, if_true, updA, hn0, D0,
            List.map_nil, List.nil_append]
          rw [hheld port]; simp [ep]
      · have : rkeyOf (.node m port) ≠ rkeyOf (.node n0 r) := by simp only [rkeyOf]; omega
        simp [heldDH, heldAtH, updD, this, D0, getNode_set g n0 nd0 nd' hn0 m, e, updA]
  have hown : ∀ id, id < g.next → aget lg'.owner id = aget g.log.owner id := fun id _ => by rw [ho]
  refine { glinks := h.glinks, nodesLen := nodesLen_set g _ n0 nd0 nd' hn0 h.nodesLen, kindOK := ?_, kindEq := ?_, thr := ?_, rdr := ?_, jb := ?_,
           nl := ?_, dflt := ?_, sinkOK := ?_, debtOK := ?_, wk := ?_, srcq := hsq, fifoLen := ?_,
           fifoKeys := h.fifoKeys, respOK := ?_, logBound := hlb, rootsB := h.rootsB, wq0 := hwq0,
           logOrd := logOrd_ext g.log lg' k g.next g.next h.logOrd hx (Nat.le_refl _) hordk }
  · intro n nd hn
    rw [getNode_set g n0 nd0 nd' hn0 n] at hn
    by_cases e : n = n0
    · simp only [e, if_true, Option.some.injEq] at hn; subst hn; rw [hkind]; exact h.kindOK n0 nd0 hn0
    · simp only [e, if_false] at hn; exact h.kindOK n nd hn
  · intro n nd hn
    rw [getNode_set g n0 nd0 nd' hn0 n] at hn
    by_cases e : n = n0
    · simp only [e, if_true, Option.some.injEq] at hn; subst hn; rw [hkind, e]; exact h.kindEq n0 nd0 hn0
    · simp only [e, if_false] at hn; exact h.kindEq n nd hn
  · intro n nd hn
    rw [getNode_set g n0 nd0 nd' hn0 n] at hn
    by_cases e : n = n0
    · simp only [e, if_true, Option.some.injEq] at hn; subst hn; rw [hthr', hkind]; exact h.thr n0 nd0 hn0
    · simp only [e, if_false] at hn; exact h.thr n nd hn
  · intro n nd hn
    rw [getNode_set g n0 nd0 nd' hn0 n] at hn
    by_cases e : n = n0
    · simp only [e, if_true, Option.some.injEq] at hn; subst hn; simp only [updA, e, if_true]
      rw [hthr']; exact hrdr'
    · simp only [e, if_false] at hn; simp only [updA, e, if_false]; exact h.rdr n nd hn
  · intro n nd hn
    rw [getNode_set g n0 nd0 nd' hn0 n] at hn
    by_cases e : n = n0
    · simp only [e, if_true, Option.some.injEq] at hn; subst hn; simp only [updA, e, if_true]; exact hjb'
    · simp only [e, if_false] at hn; simp only [updA, e, if_false]; exact h.jb n nd hn
  · intro n nd hn
    rw [getNode_set g n0 nd0 nd' hn0 n] at hn
    by_cases e : n = n0
    · simp only [e, if_true, Option.some.injEq] at hn; subst hn; simp only [updA, e, if_true]
      exact hnl'
    · simp only [e, if_false] at hn; simp only [updA, e, if_false]
      apply nlm_keep g.log lg' k hx n nd (aa n) g.next (h.jb n nd hn)
        (by rw [h.thr n nd hn]; exact nIn_le _ (h.kindOK n nd hn)) (h.nl n nd hn) hown
      rcases hk with hk | ⟨τ, h1, h2⟩
      · exact Or.inl hk
      · exact Or.inr ⟨τ, h1, by rw [h2]; exact fun e2 => e e2.symm⟩
  · intro n hn
    have : n ≠ n0 := by omega
    simp only [updA, this, if_false]; exact h.dflt n hn
  · intro j
    obtain ⟨h1, h2⟩ := h.sinkOK j
    refine ⟨h1, ?_⟩
    intro c hc
    obtain ⟨u1, u2, u3⟩ := h2 c hc
    refine ⟨unlogged_ext g.log lg' k hx c ?_ u1, u2, by simp only; rw [ho]; exact u3⟩
    intro e
    rcases hk with hk | ⟨τ, t1, t3⟩
    · rw [e] at u2; exact Nat.lt_irrefl _ (Nat.lt_of_lt_of_le u2 hk)
    · rw [e, t1] at u3
      simp only [rkeyOf, Option.some.injEq] at u3
      omega
  · intro rk x hx'
    simp only [updD] at hx'
    split at hx'
    · exact hds x hx'
    · simp [D0] at hx'
  · intro key hl
    apply wkg_congr lg' _ _ _ _ _ (hwk key hl)
    intro i t ht
    have htok := tgtOK_mem5 kinds links hwf key t (List.mem_of_getElem? ht)
    show hbOfH _ _ (setNode g.nodes n0 nd') g.sinks g.fifo key t = _
    simp only [hbOfH, hheldD t htok]
  · intro t htok
    show (getL g.fifo (rkeyOf t)).length = _
    rw [hheldD t htok]; exact h.fifoLen t htok
  · exact ⟨h.respOK.1, all2_mono _ _ (fun p a => ra_ext g.log lg' k hx p a) _ _ h.respOK.2⟩

/-- `HI_debt` followed by the routing of the replies -/
theorem HI_debt_route (kinds : List Kind) (links : List (Nat × List Tgt)) (hwf : GraphWF5 kinds links) (aa : Nat → A) (g : G)
    (h : HI kinds links aa D0 g) (n0 : Nat) (nd0 nd' : Node) (a' : A) (lg' : Log) (k : Pid)
    (ws' : List (Nat × Flow.Writer)) (ds : List (Pid × Ans)) (r : Nat) (hr : r < 63)
    (hn0 : getNode g.nodes n0 = some nd0) (hkind : nd'.kind = nd0.kind)
    (hjb' : JBm nd' a' g.next) (hnl' : NLm lg' n0 nd' a') (hthr' : nd'.threads.length = nd0.threads.length)
    (hrdr' : ∀ x ∈ a'.reqs, x.r < nd0.threads.length)
    (hheld : ∀ port, heldN nd0 (aa n0) port = (if port = r then ds.map (·.1) else []) ++ heldN nd' a' port)
    (hx : LogExt g.log lg' k) (ho : lg'.owner = g.log.owner)
    (hlb : ∀ id, g.next ≤ id → Unlogged lg' id)
    (hk : g.next ≤ k ∨ ∃ τ, aget g.log.owner k = some τ ∧ τ / 64 = n0)
    (hds : ∀ d ∈ ds, RA lg' d.1 d.2)
    (hsq : (gw ws' srcKey).queue = []) (hwq0 : ∀ key, getL links key = [] → (gw ws' key).queue = [])
    (hwk : ∀ key, getL links key ≠ [] → WKG lg' (gw ws' key) (getL links key)
      (pendH (updA aa n0 a') g.roots g.resp.length key) (hbOfH D0 aa g.nodes g.sinks g.fifo key))
    (hordk : OrdAt lg' k g.next) :
    HI kinds links (updA aa n0 a') D0
      (putNode { g with log := lg', writers := ws' } n0 nd' (ds.map (fun d => Ev.reply r d.2))) := by
  have h1 := HI_debt kinds links hwf aa g h n0 nd0 nd' a' lg' k ws' ds r hr hn0 hkind hjb' hnl' hthr' hrdr' hheld hx ho
    hlb hk hds hsq hwq0 hwk hordk
  have hn0N : n0 < kinds.length := (h.nodesLen n0).mp (by rw [hn0]; rfl)
  have h2 := HI_route kinds links hwf _ n0 r (Nat.lt_of_lt_of_le hn0N hwf.small) hr ds _ _ h1 (by simp [updD])
  rw [updD_updD, updD_D0] at h2
  exact h2

theorem HI_sinkAns (kinds : List Kind) (links : List (Nat × List Tgt)) (hwf : GraphWF5 kinds links) (aa : Nat → A) (g : G)
    (h : HI kinds links aa D0 g) (j : Nat) (c : Pid) (v : Val) (rest : List (Pid × Val)) (a : Ans)
    (hs : getL g.sinks j = (c, v) :: rest) :
    HI kinds links aa D0
      (gReply { g with sinks := setOrDel g.sinks j rest,
                       log := { g.log with sinkAns := aset g.log.sinkAns c a } } (rkeyOf (.sink j)) a) := by
  let lg' : Log := { g.log with sinkAns := aset g.log.sinkAns c a }
  let g' : G := { g with sinks := setOrDel g.sinks j rest, log := lg' }
  let D' := updD D0 (rkeyOf (.sink j)) [(c, a)]
  have hN := hwf.small
  obtain ⟨hnd, hall⟩ := h.sinkOK j
  have hcm : c ∈ (getL g.sinks j).map (·.1) := by rw [hs]; simp
  obtain ⟨hcu, hclt, hco⟩ := hall c hcm
  have hx : LogExt g.log lg' c := by
    refine ⟨hcu, fun x hxne => ⟨rfl, rfl, rfl, ?_⟩⟩
    show aget (aset g.log.sinkAns c a) x = _
    rw [aget_aset]; simp [hxne]
  have hsk : ∀ j', getL g'.sinks j' = if j' = j then rest else getL g.sinks j' := by
    intro j'; show getL (setOrDel g.sinks j rest) j' = _; rw [getL_setOrDel]
  have hheld : ∀ t, TgtOK t → heldDH D' aa g.nodes g'.sinks t = heldDH D0 aa g.nodes g.sinks t := by
    intro t htok
    cases t with
    | node m port =>
      simp only [TgtOK] at htok
      have : rkeyOf (.node m port) ≠ rkeyOf (.sink j) := by
        simp only [rkeyOf]; omega
      simp [heldDH, heldAtH, D', updD, this, D0]
    | sink j' =>
      by_cases e : j' = j
      · subst e
        simp [heldDH, heldAtH, D', updD, D0, hsk, hs]
      · have : rkeyOf (.sink j') ≠ rkeyOf (.sink j) := by simp only [rkeyOf]; omega
        simp [heldDH, heldAtH, D', updD, this, D0, hsk, e]
  have h1 : HI kinds links aa D' g' := by
    refine { glinks := h.glinks, nodesLen := h.nodesLen, kindOK := h.kindOK, kindEq := h.kindEq, thr := h.thr, rdr := h.rdr, jb := h.jb, nl := ?_, dflt := h.dflt,
             sinkOK := ?_, debtOK := ?_, wk := ?_, srcq := h.srcq, fifoLen := ?_, fifoKeys := h.fifoKeys,
             respOK := ?_, logBound := ?_, rootsB := h.rootsB, wq0 := h.wq0,
             logOrd := logOrd_ext g.log lg' c g.next g.next h.logOrd hx (Nat.le_refl _)
               (ordAt_none lg' c g.next hcu.2.1 hcu.1) }
    · intro n nd hn
      have hnN : n < kinds.length := (h.nodesLen n).mp (by rw [hn]; rfl)
      apply nlm_keep g.log lg' c hx n nd (aa n) g.next (h.jb n nd hn)
        (by rw [h.thr n nd hn]; exact nIn_le _ (h.kindOK n nd hn)) (h.nl n nd hn) (fun _ _ => rfl)
      right
      refine ⟨_, hco, ?_⟩
      simp only [rkeyOf]; omega
    · intro j'
      rw [hsk j']
      by_cases e : j' = j
      · subst e
        simp only [if_true]
        rw [hs] at hnd hall
        simp only [List.map_cons, List.nodup_cons] at hnd
        refine ⟨hnd.2, fun x hxm => ?_⟩
        obtain ⟨u1, u2, u3⟩ := hall x (by simp [hxm])
        refine ⟨unlogged_ext g.log lg' c hx x (fun e => hnd.1 (e ▸ hxm)) u1, u2, u3⟩
      · simp only [e, if_false]
        obtain ⟨n1, n2⟩ := h.sinkOK j'
        refine ⟨n1, fun x hxm => ?_⟩
        obtain ⟨u1, u2, u3⟩ := n2 x hxm
        refine ⟨unlogged_ext g.log lg' c hx x ?_ u1, u2, u3⟩
        intro e2; subst e2
        rw [hco] at u3
        simp only [rkeyOf, Option.some.injEq] at u3; omega
    · intro rk x hxm
      simp only [D', updD] at hxm
      split at hxm
      · simp only [List.mem_singleton] at hxm
        subst hxm
        apply ra_sink
        · exact hcu.2.2.1
        · show aget (aset g.log.sinkAns c a) c = _
          rw [aget_aset]; simp
      · simp [D0] at hxm
    · intro key hl
      apply wkg_congr lg' _ _ _ _ _ (wkg_ext g.log lg' c hx _ _ _ _ (h.wk key hl))
      intro i t ht
      have htok := tgtOK_mem5 kinds links hwf key t (List.mem_of_getElem? ht)
      show hbOfH D' aa g.nodes g'.sinks g.fifo key t = _
      simp only [hbOfH, hheld t htok]
    · intro t htok; show (getL g.fifo (rkeyOf t)).length = _; rw [hheld t htok]; exact h.fifoLen t htok
    · exact ⟨h.respOK.1, all2_mono _ _ (fun p a => ra_ext g.log lg' c hx p a) _ _ h.respOK.2⟩
    · intro id hid
      exact unlogged_ext g.log lg' c hx id (fun e => by rw [e] at hid; exact Nat.lt_irrefl _ (Nat.lt_of_lt_of_le hclt hid))
        (h.logBound id hid)
  have h2 := HI_gReply kinds links hwf aa D' g' (.sink j) c a [] h1 True.intro (by simp [D', updD])
  rw [updD_updD, updD_D0] at h2
  exact h2

end Uniflow.FlowN
