/-
The store model refines the reference store with unique constraints (Spec/RefStoreU.lean) on every history whose `Index`
operations are over field names, with well-formed filters, and – when unique – over at least one key
(Props/C10.lean `store_refines_unique`). Core Lean only.
-/
import Uniflow.Proofs.Refine
import Uniflow.Spec.RefStoreU

namespace Uniflow.Index
open Uniflow.Value Uniflow.Store Uniflow.Plan Uniflow.Query Uniflow.RefStore Uniflow.RefStoreU

/-! ### the declared shapes do not change under data operations -/

def desc3 (i : Index) : List Val × Bool × Option Val := (i.keys, i.unique, i.filter)

def descs (s : State) : List (List Val × Bool × Option Val) := s.indexes.map desc3

theorem desc3_same {a b : Index} (h : Same a b) : desc3 a = desc3 b := by
  unfold desc3; rw [h.1, h.2.1, h.2.2]

theorem mapIdx_descs {f : Index → Res Index} (hf : ∀ idx i', f idx = .ok i' → Same i' idx) :
    ∀ {idxs r : List Index} {e : Option (Res Unit)}, mapIdx f idxs = (r, e) → r.map desc3 = idxs.map desc3
  | [], r, e, h => by simp [mapIdx] at h; obtain ⟨rfl, _⟩ := h; rfl
  | i :: rest, r, e, h => by
    simp only [mapIdx] at h
    split at h
    · next i1 hf1 =>
      cases hm : mapIdx f rest with
      | mk r' e' =>
        rw [hm] at h
        simp only [Prod.mk.injEq] at h
        obtain ⟨rfl, _⟩ := h
        simp only [List.map_cons, mapIdx_descs hf hm, desc3_same (hf i _ hf1)]
    · simp only [Prod.mk.injEq] at h; obtain ⟨rfl, _⟩ := h; rfl
    · simp only [Prod.mk.injEq] at h; obtain ⟨rfl, _⟩ := h; rfl

theorem descs_segStore (s : State) (d : PList) : descs (segStore s d).1 = descs s := by
  unfold segStore
  simp only
  split
  · rfl
  · split
    · rfl
    · split
      · rfl
      · cases hm : mapIdx (fun idx => index idx d) s.indexes with
        | mk idxs e => exact mapIdx_descs (fun idx i' h => index_same h) hm

theorem descs_segSwap (s : State) (d : PList) : descs (segSwap s d).1 = descs s := by
  unfold segSwap
  simp only
  split
  · rfl
  · split
    · rfl
    · next old _ =>
      split
      · rfl
      · cases hm : mapIdx (fun idx => (unindex idx old).bind fun idx' => index idx' d) s.indexes with
        | mk idxs e =>
          refine mapIdx_descs (fun idx i' h => ?_) hm
          cases hu : unindex idx old with
          | ok i1 => rw [hu] at h; exact (index_same h).trans (unindex_same hu)
          | err e => rw [hu] at h; simp [Res.bind] at h
          | panic => rw [hu] at h; simp [Res.bind] at h

theorem descs_segDelete (s : State) (id : Val) : descs (segDelete s id).1 = descs s := by
  unfold segDelete
  split
  · rfl
  · next old _ =>
    cases hm : mapIdx (fun idx => unindex idx old) s.indexes with
    | mk idxs e => exact mapIdx_descs (fun idx i' h => unindex_same h) hm

/-! ### the abstraction -/

/-- the unique constraints a state declares -/
def uniqOf (s : State) : List Cst := (s.indexes.filter (·.unique)).map fun i => { keys := i.keys, filter := i.filter }

theorem uniqOf_descs (s : State) :
    uniqOf s = ((descs s).filter (·.2.1)).map fun t => { keys := t.1, filter := t.2.2 } := by
  unfold uniqOf descs
  induction s.indexes with
  | nil => rfl
  | cons i rest ih =>
    by_cases hu : i.unique = true
    · simp [hu, desc3, ih]
    · simp [hu, desc3, ih]

theorem uniqOf_of_descs {s s' : State} (h : descs s' = descs s) : uniqOf s' = uniqOf s := by
  rw [uniqOf_descs, uniqOf_descs, h]

def absOf (s : State) : RState := { docs := s.docs, uniq := uniqOf s }

/-- shape hypotheses on the indexes of a state -/
def GoodU (s : State) : Prop := ∀ idx ∈ s.indexes, GoodIdx idx ∧ (idx.unique = true → idx.keys ≠ [])

def GoodOpU : Op → Prop
  | .index keys u f => ((∀ k ∈ keys, FieldKey k) ∧ ∀ φ, f = some φ → wf φ = true) ∧ (u = true → keys ≠ [])
  | _ => True

theorem GoodOpU_good {op : Op} (h : GoodOpU op) : GoodOp op := by
  cases op <;> first | exact h.1 | trivial

theorem GoodU_step {s : State} {op : Op} (hs : GoodU s) (ho : GoodOpU op) : GoodU (step s op).1 := by
  intro i' hi'
  rcases step_shape s op i' hi' with ⟨idx, hi, hsame⟩ | ⟨keys, u, f, rfl, hk, hu, hf⟩
  · refine ⟨GoodIdx_same hsame (hs idx hi).1, fun h => ?_⟩
    rw [hsame.1]; exact (hs idx hi).2 (by rw [← hsame.2.1]; exact h)
  · refine ⟨?_, fun h => ?_⟩
    · unfold GoodIdx; rw [hk, hf]; exact ho.1
    · rw [hk]; exact ho.2 (by rw [← hu]; exact h)

theorem GoodU_of_descs {s s' : State} (h : descs s' = descs s) (hs : GoodU s) : GoodU s' := by
  intro i' hi'
  have : desc3 i' ∈ descs s := by rw [← h]; exact List.mem_map_of_mem hi'
  obtain ⟨idx, hi, he⟩ := List.mem_map.mp this
  have hsame : Same i' idx := by
    simp only [desc3, Prod.mk.injEq] at he
    exact ⟨he.1.symm, he.2.1.symm, he.2.2.symm⟩
  refine ⟨GoodIdx_same hsame (hs idx hi).1, fun hu => ?_⟩
  rw [hsame.1]; exact (hs idx hi).2 (by rw [← hsame.2.1]; exact hu)

/-! ### a unique index objects exactly when its constraint would be violated -/

theorem admits_cst {idx : Index} (hg : GoodIdx idx) (d : PList) :
    idx.admits d = Cst.admits { keys := idx.keys, filter := idx.filter } d := by
  unfold Index.admits Cst.admits
  cases hf : idx.filter with
  | none => rfl
  | some φ =>
    simp only
    unfold holds
    have := matchV_ref φ (hg.2 φ hf) (some (.map d))
    simp only [valOf, Option.getD_some, Option.isSome_some] at this
    rw [this]

theorem conflict_cases (idx : Index) (d : PList) : conflict idx d = none ∨ conflict idx d = some .keyDuplicate := by
  unfold conflict
  split
  · exact Or.inl rfl
  · simp only
    split
    · exact Or.inr rfl
    · exact Or.inl rfl

theorem firstConflict_any (d : PList) : ∀ idxs : List Index,
    firstConflict d idxs = if idxs.any (fun i => (conflict i d).isSome) then some .keyDuplicate else none
  | [] => rfl
  | i :: rest => by
    simp only [firstConflict, List.any_cons]
    rcases conflict_cases i d with h | h
    · simp [h, firstConflict_any d rest]
    · simp [h]

theorem conflict_violates {s : State} (hf : Full s) {idx : Index} (hi : idx ∈ s.indexes) (hg : GoodIdx idx)
    (hu : idx.unique = true) (hk : idx.keys ≠ []) (d : PList) :
    (conflict idx d).isSome = violates { keys := idx.keys, filter := idx.filter } s.docs d := by
  have hadm := admits_cst hg
  unfold conflict violates
  simp only [hu, Bool.not_true, Bool.false_or]
  rw [← hadm d]
  by_cases ha : idx.admits d = true
  · simp only [ha, Bool.not_true, Bool.false_eq_true, if_false, Bool.true_and]
    have key : (idx.entries.any fun e => decide (tupCmp e.1 (idx.tuple d) = 0) && (cmp e.2 (mget d keyId) != 0)) =
        (s.docs.any fun p => cmp p.1 (mget d keyId) != 0 &&
          Cst.admits { keys := idx.keys, filter := idx.filter } p.2 &&
          decide (tupCmp (Cst.tuple { keys := idx.keys, filter := idx.filter } p.2)
            (Cst.tuple { keys := idx.keys, filter := idx.filter } d) = 0)) := by
      rw [Bool.eq_iff_iff]
      simp only [List.any_eq_true, Bool.and_eq_true, decide_eq_true_eq, bne_iff_ne, ne_eq]
      constructor
      · rintro ⟨e, he, ht, hne⟩
        obtain ⟨d', hd', ht'⟩ := hf.cons.exact idx hi e he
        have had := hf.admitted idx hi e he d' hd'
        obtain ⟨i, him, hci⟩ := getDoc_mem hd'
        refine ⟨(i, d'), him, ⟨⟨fun h0 => hne (cmp_zero_trans (cmp_zero_symm hci) h0), ?_⟩, ?_⟩⟩
        · rw [← hadm]; exact had
        · exact tupCmp_zero_trans (tupCmp_zero_symm ht') ht
      · rintro ⟨p, hp, ⟨hne, hpa⟩, ht⟩
        rw [← hadm] at hpa
        obtain ⟨e, he, h1, h2⟩ := hf.complete idx hi hk p hp hpa
        exact ⟨e, he, tupCmp_zero_trans h2 ht, fun h0 => hne (cmp_zero_trans (cmp_zero_symm h1) h0)⟩
    rw [key]
    cases (s.docs.any fun p => cmp p.1 (mget d keyId) != 0 &&
          Cst.admits { keys := idx.keys, filter := idx.filter } p.2 &&
          decide (tupCmp (Cst.tuple { keys := idx.keys, filter := idx.filter } p.2)
            (Cst.tuple { keys := idx.keys, filter := idx.filter } d) = 0)) <;> rfl
  · simp only [Bool.not_eq_true] at ha
    simp [ha]

theorem conflict_nonunique {idx : Index} (hu : idx.unique = false) (d : PList) : conflict idx d = none := by
  unfold conflict; simp [hu]

/-- `firstConflict` is the reference's `rejects` -/
theorem firstConflict_rejects {s : State} (hf : Full s) (hg : GoodU s) (d : PList) :
    firstConflict d s.indexes = if rejects (absOf s) d then some .keyDuplicate else none := by
  have hany : (s.indexes.any fun i => (conflict i d).isSome) = rejects (absOf s) d := by
    rw [Bool.eq_iff_iff]
    unfold rejects absOf uniqOf
    simp only [List.any_eq_true, List.mem_map, List.mem_filter]
    constructor
    · rintro ⟨i, hi, hc⟩
      by_cases hu : i.unique = true
      · exact ⟨_, ⟨i, ⟨hi, hu⟩, rfl⟩, by rw [← conflict_violates hf hi (hg i hi).1 hu ((hg i hi).2 hu)]; exact hc⟩
      · rw [conflict_nonunique (by simpa using hu)] at hc; simp at hc
    · rintro ⟨c, ⟨i, ⟨hi, hu⟩, rfl⟩, hv⟩
      exact ⟨i, hi, by rw [conflict_violates hf hi (hg i hi).1 hu ((hg i hi).2 hu)]; exact hv⟩
  rw [firstConflict_any, hany]

end Uniflow.Index

namespace Uniflow.Index
open Uniflow.Value Uniflow.Store Uniflow.Plan Uniflow.Query Uniflow.RefStore Uniflow.RefStoreU

structure InvU (s : State) : Prop where
  full : Full s
  good : GoodU s

theorem RState_ext {a b : RState} (h1 : a.docs = b.docs) (h2 : a.uniq = b.uniq) : a = b := by
  cases a; cases b; simp_all

theorem InvU_of_descs {s s' : State} (h : InvU s) (hf : Full s') (hd : descs s' = descs s) : InvU s' :=
  ⟨hf, GoodU_of_descs hd h.good⟩

theorem InvU_goodState {s : State} (h : InvU s) : GoodState s := fun idx hi => (h.good idx hi).1

theorem find_docsU {s : State} (h : InvU s) (f : Option Val) : find s f = rFind s.docs f := by
  cases f with
  | none => rfl
  | some g =>
    cases hv : validate g with
    | some e => simp [find, rFind, hv]
    | none =>
      have hw : wf g = true := by have := validate_wf g; rw [hv] at this; simpa using this.symm
      rw [find_ref h.full (InvU_goodState h) hw]
      simp [rFind, hv]

/-! ### one document -/

theorem segStore_refU {s : State} (h : InvU s) (d : PList) :
    (segStore s d).2 = (uInsertOne (absOf s) d).2 ∧ absOf (segStore s d).1 = (uInsertOne (absOf s) d).1 := by
  have c := segStore_char h.full.cons d
  rw [firstConflict_rejects h.full h.good] at c
  have hu : uniqOf (segStore s d).1 = uniqOf s := uniqOf_of_descs (descs_segStore s d)
  unfold uInsertOne
  simp only [absOf] at c ⊢
  by_cases h1 : isNil (mget d keyId) = true
  · simp only [h1, if_true]
    exact ⟨by rw [c.1]; simp [storeRes, h1], RState_ext (by rw [c.2]; simp [storeDocs, storeRes, h1]) hu⟩
  · by_cases h2 : (getDoc s.docs (mget d keyId)).isSome = true
    · simp only [h1, h2, Bool.false_eq_true, if_false, if_true]
      exact ⟨by rw [c.1]; simp [storeRes, h1, h2], RState_ext (by rw [c.2]; simp [storeDocs, storeRes, h1, h2]) hu⟩
    · by_cases h3 : rejects { docs := s.docs, uniq := uniqOf s } d = true
      · simp only [h1, h2, h3, Bool.false_eq_true, if_false, if_true]
        exact ⟨by rw [c.1]; simp [storeRes, h1, h2, h3],
          RState_ext (by rw [c.2]; simp [storeDocs, storeRes, h1, h2, h3]) hu⟩
      · simp only [h1, h2, h3, Bool.false_eq_true, if_false]
        exact ⟨by rw [c.1]; simp [storeRes, h1, h2, h3],
          RState_ext (by rw [c.2]; simp [storeDocs, storeRes, h1, h2, h3]) hu⟩

theorem segSwap_refU {s : State} (h : InvU s) (d : PList) :
    (segSwap s d).2 = (uReplaceOne (absOf s) d).2 ∧ absOf (segSwap s d).1 = (uReplaceOne (absOf s) d).1 := by
  have c := segSwap_char h.full.cons d
  rw [firstConflict_rejects h.full h.good] at c
  have hu : uniqOf (segSwap s d).1 = uniqOf s := uniqOf_of_descs (descs_segSwap s d)
  unfold uReplaceOne
  simp only [absOf] at c ⊢
  by_cases h1 : isNil (mget d keyId) = true
  · simp only [h1, if_true]
    exact ⟨by rw [c.1]; simp [swapRes, h1], RState_ext (by rw [c.2]; simp [swapDocs, swapRes, h1]) hu⟩
  · by_cases h2 : (getDoc s.docs (mget d keyId)).isNone = true
    · simp only [h1, h2, Bool.false_eq_true, if_false, if_true]
      exact ⟨by rw [c.1]; simp [swapRes, h1, h2], RState_ext (by rw [c.2]; simp [swapDocs, swapRes, h1, h2]) hu⟩
    · by_cases h3 : rejects { docs := s.docs, uniq := uniqOf s } d = true
      · simp only [h1, h2, h3, Bool.false_eq_true, if_false, if_true]
        exact ⟨by rw [c.1]; simp [swapRes, h1, h2, h3],
          RState_ext (by rw [c.2]; simp [swapDocs, swapRes, h1, h2, h3]) hu⟩
      · simp only [h1, h2, h3, Bool.false_eq_true, if_false]
        exact ⟨by rw [c.1]; simp [swapRes, h1, h2, h3],
          RState_ext (by rw [c.2]; simp [swapDocs, swapRes, h1, h2, h3]) hu⟩

theorem segDelete_refU {s : State} (h : InvU s) (id : Val) :
    (segDelete s id).2 = (uRemoveOne (absOf s) id).2 ∧ absOf (segDelete s id).1 = (uRemoveOne (absOf s) id).1 := by
  have c := segDelete_char h.full.cons id
  have hu : uniqOf (segDelete s id).1 = uniqOf s := uniqOf_of_descs (descs_segDelete s id)
  unfold uRemoveOne
  simp only [absOf] at c ⊢
  by_cases h2 : (getDoc s.docs id).isNone = true
  · simp only [h2, if_true]
    exact ⟨by rw [c.1]; simp [h2], RState_ext (by rw [c.2]; simp [h2]) hu⟩
  · simp only [h2, Bool.false_eq_true, if_false]
    exact ⟨by rw [c.1]; simp [h2], RState_ext (by rw [c.2]; simp [h2]) hu⟩

theorem InvU_segStore {s : State} (h : InvU s) (d : PList) : InvU (segStore s d).1 :=
  InvU_of_descs h (Full_segStore d h.full) (descs_segStore s d)
theorem InvU_segSwap {s : State} (h : InvU s) (d : PList) : InvU (segSwap s d).1 :=
  InvU_of_descs h (Full_segSwap d h.full) (descs_segSwap s d)
theorem InvU_segDelete {s : State} (h : InvU s) (id : Val) : InvU (segDelete s id).1 :=
  InvU_of_descs h (Full_segDelete id h.full) (descs_segDelete s id)

/-! ### the loops -/

theorem storeInsert_refU : ∀ (ds : List PList) {s : State}, InvU s →
    (storeInsert s ds).2 = (uInsert (absOf s) ds).2 ∧ absOf (storeInsert s ds).1 = (uInsert (absOf s) ds).1
  | [], _, _ => ⟨rfl, rfl⟩
  | d :: ds, s, h => by
    have href := segStore_refU h d
    have hi := InvU_segStore h d
    simp only [storeInsert, uInsert]
    cases r1 : segStore s d with
    | mk a1 e1 =>
      cases r2 : uInsertOne (absOf s) d with
      | mk a2 e2 =>
        rw [r1, r2] at href
        rw [r1] at hi
        simp only at href
        obtain ⟨he, hd⟩ := href
        subst he
        cases e1 with
        | none =>
          have := storeInsert_refU ds hi
          simp only at this ⊢
          rw [hd] at this
          exact this
        | some r => exact ⟨rfl, hd⟩

theorem swapAll_refU : ∀ (ds : List PList) {s : State}, InvU s →
    (swapAll s ds).2 = (uReplaceAll (absOf s) ds).2 ∧ absOf (swapAll s ds).1 = (uReplaceAll (absOf s) ds).1
  | [], _, _ => ⟨rfl, rfl⟩
  | d :: ds, s, h => by
    have href := segSwap_refU h d
    have hi := InvU_segSwap h d
    simp only [swapAll, uReplaceAll]
    cases r1 : segSwap s d with
    | mk a1 e1 =>
      cases r2 : uReplaceOne (absOf s) d with
      | mk a2 e2 =>
        rw [r1, r2] at href
        rw [r1] at hi
        simp only at href
        obtain ⟨he, hd⟩ := href
        subst he
        cases e1 with
        | none =>
          have := swapAll_refU ds hi
          simp only at this ⊢
          rw [hd] at this
          exact this
        | some r => exact ⟨rfl, hd⟩

theorem deleteAll_refU : ∀ (ds : List PList) {s : State}, InvU s →
    (deleteAll s ds).2 = (uRemoveAll (absOf s) ds).2 ∧ absOf (deleteAll s ds).1 = (uRemoveAll (absOf s) ds).1
  | [], _, _ => ⟨rfl, rfl⟩
  | d :: ds, s, h => by
    have href := segDelete_refU h (mget d keyId)
    have hi := InvU_segDelete h (mget d keyId)
    simp only [deleteAll, uRemoveAll]
    cases r1 : segDelete s (mget d keyId) with
    | mk a1 e1 =>
      cases r2 : uRemoveOne (absOf s) (mget d keyId) with
      | mk a2 e2 =>
        rw [r1, r2] at href
        rw [r1] at hi
        simp only at href
        obtain ⟨he, hd⟩ := href
        subst he
        cases e1 with
        | none =>
          have := deleteAll_refU ds hi
          simp only at this ⊢
          rw [hd] at this
          exact this
        | some r => exact ⟨rfl, hd⟩

theorem liftN_refU {m : Mut} {m' : RState × Option (Res Unit)} (n : Nat) (h : m.2 = m'.2 ∧ absOf m.1 = m'.1) :
    (liftN m n).2 = (liftU m' n).2 ∧ absOf (liftN m n).1 = (liftU m' n).1 := by
  obtain ⟨a1, e1⟩ := m
  obtain ⟨a2, e2⟩ := m'
  simp only at h
  obtain ⟨rfl, hd⟩ := h
  cases e1 with
  | none => exact ⟨rfl, hd⟩
  | some r => cases r <;> exact ⟨rfl, hd⟩

theorem storeUpdate_refU {s : State} (h : InvU s) (f : Option Val) (u : PList) (up : Bool) :
    (storeUpdate s f u up).2 = (uUpdate (absOf s) f u up).2 ∧
      absOf (storeUpdate s f u up).1 = (uUpdate (absOf s) f u up).1 := by
  unfold storeUpdate uUpdate
  rw [find_docsU h]
  simp only [absOf]
  cases rFind s.docs f with
  | err e => exact ⟨rfl, rfl⟩
  | panic => exact ⟨rfl, rfl⟩
  | ok docs =>
    simp only
    cases patch .nil u with
    | err e => exact ⟨rfl, rfl⟩
    | panic => exact ⟨rfl, rfl⟩
    | ok _ =>
      simp only
      by_cases hup : (up && docs.isEmpty) = true
      · simp only [hup, if_true]
        cases f with
        | none => exact ⟨rfl, rfl⟩
        | some g =>
          simp only
          cases extract g with
          | err e => exact ⟨rfl, rfl⟩
          | panic => exact ⟨rfl, rfl⟩
          | ok v =>
            cases v with
            | map d =>
              simp only
              cases patch d u with
              | ok d' => exact liftN_refU 1 (segStore_refU h d')
              | err e => exact ⟨rfl, rfl⟩
              | panic => exact ⟨rfl, rfl⟩
            | _ => exact ⟨rfl, rfl⟩
      · simp only [hup, Bool.false_eq_true, if_false]
        cases patchAll u docs with
        | ok ds => exact liftN_refU _ (swapAll_refU ds h)
        | err e => exact ⟨rfl, rfl⟩
        | panic => exact ⟨rfl, rfl⟩

theorem storeDelete_refU {s : State} (h : InvU s) (f : Option Val) :
    (storeDelete s f).2 = (uDelete (absOf s) f).2 ∧ absOf (storeDelete s f).1 = (uDelete (absOf s) f).1 := by
  unfold storeDelete uDelete
  rw [find_docsU h]
  simp only [absOf]
  cases rFind s.docs f with
  | err e => exact ⟨rfl, rfl⟩
  | panic => exact ⟨rfl, rfl⟩
  | ok docs => exact liftN_refU _ (deleteAll_refU docs h)

end Uniflow.Index

namespace Uniflow.Index
open Uniflow.Value Uniflow.Store Uniflow.Plan Uniflow.Query Uniflow.RefStore Uniflow.RefStoreU

/-! ### `Index` -/

theorem any_putEnt (x : List Val × Val) (xs : List (List Val × Val)) (t : List Val) :
    ((putEnt xs x).any fun e => decide (tupCmp e.1 t = 0)) =
      (decide (tupCmp x.1 t = 0) || xs.any fun e => decide (tupCmp e.1 t = 0)) := by
  rw [Bool.eq_iff_iff]
  simp only [List.any_eq_true, decide_eq_true_eq, Bool.or_eq_true]
  constructor
  · rintro ⟨e, he, ht⟩
    rcases mem_putEnt he with rfl | he
    · exact Or.inl ht
    · exact Or.inr ⟨e, he, ht⟩
  · rintro (ht | ⟨e, he, ht⟩)
    · exact ⟨x, mem_putEnt_self x xs, ht⟩
    · obtain ⟨e', he', h1, _⟩ := putEnt_keep x xs e he
      exact ⟨e', he', tupCmp_zero_trans h1 ht⟩

theorem index_skip {idx : Index} {d : PList} (hid : isNil (mget d keyId) = false) (ha : idx.admits d = false) :
    index idx d = .ok idx := by
  unfold index; simp [hid, ha]

theorem index_dup {idx : Index} {d : PList} (hid : isNil (mget d keyId) = false) (ha : idx.admits d = true)
    (hk : idx.keys ≠ []) (hu : idx.unique = true)
    (hany : (idx.entries.any fun e => decide (tupCmp e.1 (idx.tuple d) = 0)) = true) :
    index idx d = .err .keyDuplicate := by
  unfold index
  have hk' : idx.keys.isEmpty = false := by cases h : idx.keys <;> simp_all
  simp [hid, ha, hk', hu, hany]

theorem index_add {idx : Index} {d : PList} (hid : isNil (mget d keyId) = false) (ha : idx.admits d = true)
    (hk : idx.keys ≠ []) (hany : (idx.entries.any fun e => decide (tupCmp e.1 (idx.tuple d) = 0)) = false) :
    index idx d = .ok { idx with entries := putEnt idx.entries (idx.tuple d, mget d keyId) } := by
  unfold index
  have hk' : idx.keys.isEmpty = false := by cases h : idx.keys <;> simp_all
  simp [hid, ha, hk', hany]

/-- the build loop of a unique index fails exactly when the reference scan finds a repeated key tuple -/
theorem build_scan (c : Cst) : ∀ (docs : List (Val × PList)) (idx : Index) (seen : List (List Val)),
    idx.keys = c.keys → idx.filter = c.filter → idx.unique = true → idx.keys ≠ [] → GoodIdx idx →
    (∀ p ∈ docs, isNil (mget p.2 keyId) = false) →
    (∀ t, (idx.entries.any fun e => decide (tupCmp e.1 t = 0)) = seen.any fun u => decide (tupCmp u t = 0)) →
      (dupScan c seen docs = true → build idx docs = .err .keyDuplicate) ∧
      (dupScan c seen docs = false → ∃ idx', build idx docs = .ok idx')
  | [], idx, seen, _, _, _, _, _, _, _ => ⟨fun h => by simp [dupScan] at h, fun _ => ⟨idx, rfl⟩⟩
  | p :: rest, idx, seen, hkc, hfc, hu, hk, hg, hid, hseen => by
    have hidp := hid p (by simp)
    have hadm : idx.admits p.2 = c.admits p.2 := by
      rw [admits_cst hg]; unfold Cst.admits; rw [hfc]
    have htup : idx.tuple p.2 = c.tuple p.2 := by unfold Index.tuple Cst.tuple; rw [hkc]
    simp only [dupScan, build]
    by_cases ha : c.admits p.2 = true
    · simp only [ha, if_true]
      by_cases hs : (seen.any fun t => decide (tupCmp t (c.tuple p.2) = 0)) = true
      · simp only [hs, if_true]
        have := index_dup hidp (by rw [hadm]; exact ha) hk hu (by rw [hseen, htup]; exact hs)
        exact ⟨fun _ => by rw [this]; rfl, fun h => by simp at h⟩
      · simp only [hs, Bool.false_eq_true, if_false]
        have hadd := index_add hidp (by rw [hadm]; exact ha) hk (by rw [hseen, htup]; simpa using hs)
        rw [hadd]
        simp only [Res.bind]
        refine build_scan c rest _ (c.tuple p.2 :: seen) hkc hfc hu hk hg (fun q hq => hid q (by simp [hq])) ?_
        intro t
        simp only [any_putEnt, List.any_cons, hseen, htup]
    · simp only [ha, Bool.false_eq_true, if_false]
      rw [index_skip hidp (by rw [hadm]; simpa using ha)]
      simp only [Res.bind]
      exact build_scan c rest idx seen hkc hfc hu hk hg (fun q hq => hid q (by simp [hq])) hseen

theorem uniqOf_replace (s : State) (keys : List Val) (i : Index) (hk : i.keys = keys) :
    uniqOf { s with indexes := (s.indexes.filter fun x => !keysEq x.keys keys) ++ [i] } =
      ((uniqOf s).filter fun x => !keysEq x.keys keys) ++
        (if i.unique then [{ keys := keys, filter := i.filter }] else []) := by
  unfold uniqOf
  simp only [List.filter_append, List.map_append]
  congr 1
  · induction s.indexes with
    | nil => rfl
    | cons x rest ih =>
      by_cases h1 : (!keysEq x.keys keys) = true <;> by_cases h2 : x.unique = true <;>
        simp_all
  · by_cases hu : i.unique = true <;> simp [hu, hk]

theorem storeIndex_refU {s : State} (h : InvU s) (keys : List Val) (unique : Bool) (f : Option Val)
    (hop : GoodOpU (.index keys unique f)) :
    (storeIndex s keys unique f).2 = (uIndex (absOf s) keys unique f).2 ∧
      absOf (storeIndex s keys unique f).1 = (uIndex (absOf s) keys unique f).1 := by
  have hids : ∀ p ∈ s.docs, isNil (mget p.2 keyId) = false := fun p hp => (h.full.cons.stored p hp).1
  have ok_case : ∀ idx', build { keys := keys, unique := unique, filter := f, entries := [] } s.docs = .ok idx' →
      (unique && !keys.isEmpty && dupScan { keys := keys, filter := f } [] s.docs) = false →
      (storeIndex s keys unique f).2 = (uIndex (absOf s) keys unique f).2 ∧
        absOf (storeIndex s keys unique f).1 = (uIndex (absOf s) keys unique f).1 := by
    intro idx' hb hcond
    obtain ⟨hsame, _⟩ := build_full s.docs hb
    have hk : idx'.keys = keys := hsame.1
    have hun : idx'.unique = unique := hsame.2.1
    have hfl : idx'.filter = f := hsame.2.2
    unfold storeIndex uIndex
    simp only [hb, absOf, hcond, Bool.false_eq_true, if_false]
    refine ⟨by first | rfl | trivial, RState_ext rfl ?_⟩
    have := uniqOf_replace s keys idx' hk
    simp only [hun, hfl] at this
    exact this
  cases hu : unique with
  | false =>
    obtain ⟨idx', hb⟩ := build_nonunique_ok s.docs { keys := keys, unique := false, filter := f, entries := [] } rfl hids
    subst hu
    exact ok_case idx' hb (by simp)
  | true =>
    subst hu
    have hkeys : keys ≠ [] := hop.2 rfl
    have hke : keys.isEmpty = false := by cases hh : keys <;> simp_all
    have hg : GoodIdx { keys := keys, unique := true, filter := f, entries := [] } := hop.1
    have hscan := build_scan { keys := keys, filter := f } s.docs
      { keys := keys, unique := true, filter := f, entries := [] } [] rfl rfl rfl hkeys hg hids (fun t => by simp)
    cases hd : dupScan { keys := keys, filter := f } [] s.docs with
    | true =>
      have hb := hscan.1 hd
      unfold storeIndex uIndex
      simp only [hb, absOf, hd, hke, Bool.not_false, Bool.and_self, if_true, failE]
      exact ⟨by first | rfl | trivial, by first | rfl | trivial⟩
    | false =>
      obtain ⟨idx', hb⟩ := hscan.2 hd
      exact ok_case idx' hb (by simp [hd])

theorem storeUnindex_refU (s : State) (keys : List Val) : absOf (storeUnindex s keys).1 = uUnindex (absOf s) keys := by
  unfold storeUnindex uUnindex absOf
  refine RState_ext rfl ?_
  simp only [uniqOf]
  induction s.indexes with
  | nil => rfl
  | cons x rest ih =>
    by_cases h1 : (!keysEq x.keys keys) = true <;> by_cases h2 : x.unique = true <;> simp_all

/-! ### histories -/

theorem uStep_find (r : RState) (f : Option Val) (sort : Option PList) (skip limit : Nat) :
    uStep r (.find f sort skip limit) = (r, findOut (rFindAll r.docs f sort skip limit)) := by
  simp only [uStep]; split <;> simp_all [findOut]

theorem storeFind_refU {s : State} (h : InvU s) (f : Option Val) (sort : Option PList) (skip limit : Nat) :
    storeFind s f sort skip limit = rFindAll s.docs f sort skip limit := by
  simp only [storeFind, rFindAll]
  rw [find_docsU h]
  cases sort <;> rfl

theorem step_refU {s : State} (h : InvU s) {op : Op} (hop : GoodOpU op) :
    (step s op).2 = (uStep (absOf s) op).2 ∧ absOf (step s op).1 = (uStep (absOf s) op).1 := by
  cases op with
  | insert ds =>
    have := storeInsert_refU ds h
    simp only [step, uStep]; rw [this.1]; exact ⟨rfl, this.2⟩
  | update f u up =>
    have := storeUpdate_refU h f u up
    simp only [step, uStep]; rw [this.1]; exact ⟨rfl, this.2⟩
  | delete f =>
    have := storeDelete_refU h f
    simp only [step, uStep]; rw [this.1]; exact ⟨rfl, this.2⟩
  | find f sort skip limit =>
    have e1 : (step s (.find f sort skip limit)).1 = s := by simp only [step]; split <;> rfl
    have e2 : (step s (.find f sort skip limit)).2 = findOut (storeFind s f sort skip limit) := by
      simp only [step]; split <;> simp_all [findOut]
    rw [e1, e2, uStep_find, storeFind_refU h]
    exact ⟨rfl, rfl⟩
  | index keys u f =>
    have := storeIndex_refU h keys u f hop
    simp only [step, uStep]; rw [this.1]; exact ⟨rfl, this.2⟩
  | unindex keys =>
    simp only [step, uStep]
    exact ⟨rfl, storeUnindex_refU s keys⟩

theorem InvU_step {s : State} (h : InvU s) {op : Op} (hop : GoodOpU op) : InvU (step s op).1 :=
  ⟨Full_step op h.full, GoodU_step h.good hop⟩

theorem run_refU : ∀ (ops : List Op) {s : State}, InvU s → (∀ op ∈ ops, GoodOpU op) →
    allOuts s ops = uOuts (absOf s) ops ∧ absOf (run s ops) = uRun (absOf s) ops
  | [], _, _, _ => ⟨rfl, rfl⟩
  | op :: ops, s, h, hops => by
    have hs := step_refU h (hops op (by simp))
    have := run_refU ops (InvU_step h (hops op (by simp))) (fun o ho => hops o (by simp [ho]))
    simp only [allOuts, uOuts, run, uRun]
    rw [hs.1, this.1, this.2, hs.2]
    exact ⟨rfl, rfl⟩

theorem InvU_init : InvU init := by
  refine ⟨Full_init, ?_⟩
  intro idx hi
  simp [init] at hi
  subst hi
  exact ⟨GoodState_init _ (by simp [init]), fun _ => by simp⟩

theorem absOf_init : absOf init = rInit := rfl

end Uniflow.Index
