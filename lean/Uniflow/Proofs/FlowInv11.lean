/-
C02, joint model, part 11 of the invariant proof: the abstract step lemmas applied to the functions of
`Model/Flow.lean` – internal steps (`threadStep`, `backStep`, `settle`).
-/
import Uniflow.Proofs.FlowInv10

namespace Uniflow.FlowInv
open Uniflow.Tracer Uniflow.Node Uniflow.Flow
open Uniflow.NodeSpec (S EReq ESt Cur Rel curRead writesOf allIds flushS flushT markDone)
open Uniflow.ATracer (getL_setOrDel getL_aset)

theorem settleStep_cases' (g g' : G) (h : settleStep g = some g') :
    ∃ n nd, getNode g.nodes n = some nd ∧
      ((∃ i, threadStep g n nd i = some g') ∨ (∃ w, w < maxW ∧ backStep g n nd w = some g')) := by
  obtain ⟨n, _, hn⟩ := findSome_some _ _ _ h
  simp only [nodeStep] at hn
  cases hg : getNode g.nodes n with
  | none => simp [hg] at hn
  | some nd =>
    simp only [hg] at hn
    cases ht : (List.range nd.threads.length).findSome? (threadStep g n nd) with
    | some g1 =>
      simp only [ht, Option.some.injEq] at hn; subst hn
      obtain ⟨i, _, hi⟩ := findSome_some _ _ _ ht
      exact ⟨n, nd, hg, Or.inl ⟨i, hi⟩⟩
    | none =>
      simp only [ht] at hn
      obtain ⟨w, hwm, hw⟩ := findSome_some _ _ _ hn
      exact ⟨n, nd, hg, Or.inr ⟨w, List.mem_range.mp hwm, hw⟩⟩

theorem gWrite_sink (g : G) (key : Nat) (qid : Pid) (v : Val) (k : Nat) (hl : getL g.links key = [.sink k])
    (hd : aget g.log.dels qid = none) :
    gWrite g key qid v =
      ({ g with writers := aset g.writers key (Flow.Writer.mk ((gw g.writers key).rows ++ [[none]]) (gw g.writers key).queue),
                fifo := aset g.fifo (rkeyOf (.sink k)) (getL g.fifo (rkeyOf (.sink k)) ++ [key]),
                sinks := aset g.sinks k (getL g.sinks k ++ [(g.next, v)]),
                arrived := g.arrived ++ [(k, v)],
                next := g.next + 1,
                log := { g.log with owner := aset g.log.owner g.next (rkeyOf (.sink k)),
                                    dels := aset g.log.dels qid [g.next] } }, true) := by
  have hd' : getL g.log.dels qid = [] := by simp [getL, hd]
  simp only [gWrite, hl, deliverAll, deliver, List.length_singleton, List.replicate, getWriter_eq, hd', List.nil_append]

theorem gWrite_node (g : G) (key : Nat) (qid : Pid) (v : Val) (m port : Nat) (ndm ndm' : Node) (ev : List Ev)
    (hl : getL g.links key = [.node m port]) (hn : getNode g.nodes m = some ndm)
    (hs : Node.step ndm (.deliver port ⟨g.next, v⟩) = some (ndm', ev))
    (hd : aget g.log.dels qid = none) :
    gWrite g key qid v =
      ({ g with writers := aset g.writers key (Flow.Writer.mk ((gw g.writers key).rows ++ [[none]]) (gw g.writers key).queue),
                fifo := aset g.fifo (rkeyOf (.node m port)) (getL g.fifo (rkeyOf (.node m port)) ++ [key]),
                nodes := setNode g.nodes m ndm',
                next := g.next + 1,
                log := { g.log with owner := aset g.log.owner g.next (rkeyOf (.node m port)),
                                    dels := aset g.log.dels qid [g.next] } }, true) := by
  have hd' : getL g.log.dels qid = [] := by simp [getL, hd]
  simp only [gWrite, hl, deliverAll, deliver, List.length_singleton, List.replicate, getWriter_eq, hn, hs, hd', List.nil_append]

theorem gWrite_none (g : G) (key : Nat) (qid : Pid) (v : Val) (hl : getL g.links key = []) :
    gWrite g key qid v = (g, false) := by
  simp only [gWrite, hl]

end Uniflow.FlowInv
