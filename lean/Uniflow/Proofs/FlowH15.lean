/-
C02, joint model, one-in-port node kinds, part 15: the shape of the thread's remaining program (from `J`),
the frame of the invariant, `gWrite` computed.
-/
import Uniflow.Proofs.FlowH14

namespace Uniflow.FlowH
open Uniflow.Tracer Uniflow.Node Uniflow.Flow Uniflow.FlowInv Uniflow.FlowG Uniflow.ATracer
open Uniflow.ATracer (getL_setOrDel getL_aset)

theorem remOps_writes (p : Pid) : ∀ (wr : List (Wid × Pkt)), remOps p (wr.map (fun x => Op.write (some x.1) x.2)) = []
  | [] => rfl
  | x :: xs => by simp only [List.map_cons, remOps]; exact remOps_writes p xs

theorem ops_head_link (rs : List Req) (s t : Pid) (ops : List Op) (h : OpsOK rs 0 (.link s t :: ops)) :
    ∃ cs, (⟨s, 0, .cells cs⟩ : Req) ∈ rs := by
  obtain ⟨p, cs, hX, hsh⟩ := h
  rcases hsh with ⟨_, w, q, e, _⟩ | ⟨lk, wr, e, _, _, _⟩
  · simp at e
  · cases lk with
    | nil =>
      simp only [mkOps, List.map_nil, List.nil_append] at e
      cases wr with
      | nil => simp at e
      | cons x xs => simp at e
    | cons t' lk' =>
      simp only [mkOps, List.map_cons, List.cons_append, List.cons.injEq, Op.link.injEq] at e
      rw [e.1.1]; exact ⟨cs, hX⟩

theorem ops_head_write (rs : List Req) (w : Option Wid) (q : Pkt) (ops : List Op)
    (h : OpsOK rs 0 (.write w q :: ops)) :
    ∃ p cs, (⟨p, 0, .cells cs⟩ : Req) ∈ rs ∧
      ((cs = [] ∧ q.id = p ∧ ops = []) ∨
       ∃ rest, linkedIds cs = q.id :: rest ∧ remOps p (.write w q :: ops) = []) := by
  obtain ⟨p, cs, hX, hsh⟩ := h
  refine ⟨p, cs, hX, ?_⟩
  rcases hsh with ⟨e0, w', q', e, e2⟩ | ⟨lk, wr, e, e2, _, _⟩
  · left
    simp only [List.cons.injEq, Op.write.injEq] at e
    exact ⟨e0, by rw [e.1.2]; exact e2, e.2⟩
  · right
    cases lk with
    | cons t' lk' => simp [mkOps] at e
    | nil =>
      simp only [mkOps, List.map_nil, List.nil_append] at e
      cases wr with
      | nil => simp at e
      | cons x xs =>
        simp only [List.map_cons, List.cons.injEq, Op.write.injEq] at e
        simp only [List.map_cons, List.append_nil] at e2
        refine ⟨xs.map (·.2.id), ?_, ?_⟩
        · rw [← e2, e.1.2]
        · simp only [remOps]; rw [e.2]; exact remOps_writes p xs

/-- `HI` reads only these fields of the state -/
theorem HI_congr (kinds : List Kind) (links : List (Nat × List Tgt)) (aa : Nat → A) (D : Nat → List (Pid × Ans)) (g g' : G)
    (h : HI kinds links aa D g) (e1 : g'.links = g.links) (e2 : g'.nodes = g.nodes) (e3 : g'.next = g.next)
    (e4 : g'.log = g.log) (e5 : g'.sinks = g.sinks) (e6 : g'.writers = g.writers) (e7 : g'.fifo = g.fifo)
    (e8 : g'.roots = g.roots) (e9 : g'.resp = g.resp) : HI kinds links aa D g' := by
  obtain ⟨a1, a2, a3, a4, a5, a6, a7, a8, a9, a10, a11, a12, a13, a14, a15, a16, a17, a18⟩ := h
  constructor
  · rw [e1]; exact a1
  · rw [e2]; exact a2
  · rw [e2]; exact a3
  · rw [e2]; exact a4
  · rw [e2, e3]; exact a5
  · rw [e2, e4]; exact a6
  · exact a7
  · rw [e4, e5, e3]; exact a8
  · rw [e4]; exact a9
  · rw [e4, e5, e6, e7, e8, e9, e2]; exact a10
  · rw [e6]; exact a11
  · rw [e5, e7, e2]; exact a12
  · rw [e7]; exact a13
  · rw [e4, e8, e9]; exact a14
  · rw [e4, e3]; exact a15
  · rw [e3, e8]; exact a16
  · rw [e6]; exact a17
  · rw [e4, e3]; exact a18

theorem gWrite_eqH (N : Nat) (hN : N ≤ 1000) (aa : Nat → A) (g : G) (key : Nat) (qid : Pid) (v : Val)
    (hni : NIH N aa g.nodes g.next) (hl : getL g.links key ≠ []) (hts : ∀ t ∈ getL g.links key, TOK N t)
    (hd : aget g.log.dels qid = none) :
    gWrite g key qid v =
      ({ pushAllG key v (getL g.links key) (rowPush g key) with
          log := pushedLog (rowPush g key) key v (getL g.links key) qid }, true) := by
  obtain ⟨e1, _, _⟩ := deliverAll_eqH N hN aa key v (getL g.links key) (rowPush g key) hni hts
  obtain ⟨_, _, _, _, _, _, f_dels, _, _⟩ := pushAllG_frame key v (getL g.links key) (rowPush g key)
  have hd' : getL (pushAllG key v (getL g.links key) (rowPush g key)).log.dels qid = [] := by
    rw [f_dels]; show getL g.log.dels qid = []; simp [getL, hd]
  cases hL : getL g.links key with
  | nil => exact absurd hL hl
  | cons t ts =>
    rw [hL] at e1 hd'
    have hrp : rowPush g key = { g with writers := aset g.writers key (newRow g key (t :: ts).length) } := by
      simp only [rowPush, hL]
    simp only [gWrite, hL, getWriter_eq]
    simp only [newRow] at hrp
    rw [← hrp, e1]
    simp only [pushedLog, hd', List.nil_append]

end Uniflow.FlowH
