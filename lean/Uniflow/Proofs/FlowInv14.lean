/-
C02, joint model, part 14 of the invariant proof: liveness at quiescence – when nothing is left to do,
every request of the source has its response.
-/
import Uniflow.Proofs.FlowInv13

namespace Uniflow.FlowInv
open Uniflow.Tracer Uniflow.Node Uniflow.Flow
open Uniflow.NodeSpec (S EReq ESt Cur Rel curRead writesOf allIds flushS flushT markDone)

theorem rel_quiet (s : S) (nd : Node) (nx : Nat) (hr : Rel s nd nx)
    (hq : (isEmpty nd.tr && nd.threads.all threadQuiet) = true) :
    s.reqs = [] ∧ s.cur = .idle ∧ s.inbox = [] := by
  simp only [Bool.and_eq_true] at hq
  obtain ⟨he, ht⟩ := hq
  rw [hr.threads] at ht
  simp only [List.all_cons, List.all_nil, Bool.and_true] at ht
  have hci : s.cur = .idle ∧ s.inbox = [] := by
    cases hc : s.cur <;> cases hi : s.inbox <;> simp [hc, hi, threadQuiet, NodeSpec.pcOf] at ht ⊢
  refine ⟨?_, hci.1, hci.2⟩
  simp only [isEmpty, Bool.and_eq_true, List.isEmpty_iff] at he
  have hrd := hr.trel.reads 0
  rw [he.1.1.2] at hrd
  simp only [aget, if_true, NodeSpec.optL, NodeSpec.readsOf, hci.1, curRead, List.append_nil] at hrd
  split at hrd
  · rename_i e; simpa using e
  · cases hrd

theorem all_getNode (f : Node → Bool) : ∀ (ns : List Node) (n : Nat) (nd : Node), ns.all f = true →
    getNode ns n = some nd → f nd = true
  | [], _, _, _, h => by simp [getNode] at h
  | x :: xs, 0, nd, ha, h => by
    simp only [getNode, Option.some.injEq] at h; subst h
    simp only [List.all_cons, Bool.and_eq_true] at ha; exact ha.1
  | x :: xs, n + 1, nd, ha, h => by
    simp only [getNode] at h
    simp only [List.all_cons, Bool.and_eq_true] at ha
    exact all_getNode f xs n nd ha.2 h

theorem all_getL {β : Type} : ∀ (m : List (Nat × List β)) (j : Nat), m.all (fun s => s.2.isEmpty) = true → getL m j = []
  | [], _, _ => rfl
  | (k, l) :: m, j, h => by
    simp only [List.all_cons, Bool.and_eq_true, List.isEmpty_iff] at h
    have ih := all_getL m j h.2
    simp only [getL, aget] at ih ⊢
    split
    · rename_i hx
      split at hx
      · simp only [Option.some.injEq] at hx; rw [← hx]; exact h.1
      · rw [hx] at ih; exact ih
    · rfl

/-- at quiescence every request has a response -/
theorem FIe_quiescent (N : Nat) (links : List (Nat × List Tgt)) (hwf : TreeWF N links) (g : G)
    (h : FIe N links g) (hq : quiescent g = true) :
    g.resp.length = g.roots.length ∧ All2 (fun p a => ∃ f, refAns g.log f p = some a) g.roots g.resp := by
  obtain ⟨ss, h⟩ := h
  simp only [quiescent, quiescentEmpty, Bool.and_eq_true] at hq
  obtain ⟨⟨hqn, hqs⟩, _⟩ := hq
  have hnode : ∀ m, heldAt ss g.sinks (.node m 0) = [] := by
    intro m
    by_cases hm : m < N
    · cases hg : getNode g.nodes m with
      | none => have := (h.nodesLen m).mpr hm; rw [hg] at this; cases this
      | some nd =>
        obtain ⟨e1, e2, e3⟩ := rel_quiet (ss m) nd g.next (h.rel m nd hg) (all_getNode _ g.nodes m nd hqn hg)
        simp [heldAt, e1, e2, e3, curRead]
    · simp [heldAt, h.dflt m (Nat.le_of_not_lt hm), curRead]
  cases hs : getL links srcKey with
  | nil => exact absurd hs hwf.src
  | cons t ts =>
    have hl1 := links_single N links hwf srcKey t (by rw [hs]; simp)
    have hheld : heldD D0 ss g.sinks t = [] := by
      cases t with
      | sink j => simp [heldD, D0, heldAt, all_getL g.sinks j hqs]
      | node m port =>
        obtain ⟨_, hp0⟩ := hwf.tnode srcKey m port (by rw [hl1]; simp)
        subst hp0
        simp [heldD, D0, hnode m]
    obtain ⟨⟨⟨qs, rs, e1, e2, e3, e4⟩, _⟩, hq0⟩ := h.wkS t hl1
    rw [hq0] at e2
    rw [hheld] at e4
    have hqs0 : qs = [] := by cases qs with | nil => rfl | cons _ _ => simp [All2] at e2
    have hrs0 : rs = [] := by cases rs with | nil => rfl | cons _ _ => simp [All2] at e4
    rw [hqs0, hrs0] at e1
    have hlen : g.roots.length ≤ g.resp.length := by
      have := congrArg List.length e1
      simp only [List.length_drop, List.append_nil, List.length_nil] at this
      omega
    have hle := h.respOK.1
    have heq : g.resp.length = g.roots.length := Nat.le_antisymm hle hlen
    refine ⟨heq, ?_⟩
    have := h.respOK.2
    rw [heq, List.take_length] at this
    exact this

theorem refAns_fuel_le (lg : Log) (p : Pid) (a : Ans) (f : Nat) (h : refAns lg f p = some a) :
    ∀ d, refAns lg (f + d) p = some a := by
  intro d
  induction d with
  | zero => exact h
  | succ d ih => exact refAns_fuel_mono lg (f + d) p a ih

theorem refAns_det (lg : Log) (p : Pid) (a b : Ans) (f f' : Nat) (h : refAns lg f p = some a)
    (h' : refAns lg f' p = some b) : a = b := by
  have h1 := refAns_fuel_le lg p a f h f'
  have h2 := refAns_fuel_le lg p b f' h' f
  rw [Nat.add_comm] at h2
  rw [h1] at h2
  exact Option.some.inj h2

theorem allSome_all2 (lg : Log) (F : Nat) : ∀ (roots : List Pid) (resp l : List Ans),
    All2 (fun p a => ∃ f, refAns lg f p = some a) roots resp →
    allSome (roots.map (refAns lg F)) = some l → l = resp
  | [], [], l, _, h => by simp [allSome] at h; exact h
  | p :: ps, a :: as, l, h2, h => by
    simp only [List.map_cons] at h
    cases hp : refAns lg F p with
    | none => rw [hp] at h; simp [allSome] at h
    | some b =>
      rw [hp] at h
      cases hr : allSome (ps.map (refAns lg F)) with
      | none => simp [allSome, hr] at h
      | some l' =>
        simp only [allSome, hr, Option.some.injEq] at h
        obtain ⟨f, hf⟩ := h2.1
        have := refAns_det lg p a b f F hf hp
        rw [← h, allSome_all2 lg F ps as l' h2.2 hr, this]
  | [], _ :: _, _, h2, _ => absurd h2 (by simp [All2])
  | _ :: _, [], _, h2, _ => absurd h2 (by simp [All2])


/-- at quiescence every request has exactly one response, and whenever the executable reference
(`refAnswers`, fuel `next + 1`) is determined it IS the list of responses -/
theorem FIe_quiescent_ref (N : Nat) (links : List (Nat × List Tgt)) (hwf : TreeWF N links) (g : G)
    (h : FIe N links g) (hq : quiescent g = true) :
    g.resp.length = g.roots.length ∧ ∀ l, refAnswers g = some l → l = g.resp :=
  ⟨(FIe_quiescent N links hwf g h hq).1,
   fun l hl => allSome_all2 g.log (g.next + 1) g.roots g.resp l (FIe_quiescent N links hwf g h hq).2 hl⟩

end Uniflow.FlowInv
