/-
C02, joint model, part 2 of the invariant proof: lemmas about one writer (`WK`), about the log, and
the routing of one reply (`gReply`) under the invariant.
-/
import Uniflow.Proofs.FlowInv1

namespace Uniflow.FlowInv
open Uniflow.Tracer Uniflow.Node Uniflow.Flow
open Uniflow.NodeSpec (S EReq ESt Cur Rel curRead writesOf allIds)
open Uniflow.ATracer (getL_setOrDel getL_aset)

theorem sim_some (s : S) (n n' : Node) (st : Step) (nx' : Nat) (ev : List Ev)
    (h : NodeSpec.SimStep s n st nx') (hs : Node.step n st = some (n', ev)) :
    ∃ s', NodeSpec.step s st = some (s', ev) ∧ Rel s' n' nx' := by
  rcases h with ⟨h1, _⟩ | ⟨n2, s2, ev2, h1, h2, h3⟩
  · rw [h1] at hs; cases hs
  · rw [h1] at hs
    simp only [Option.some.injEq, Prod.mk.injEq] at hs
    obtain ⟨rfl, rfl⟩ := hs
    exact ⟨s2, h2, h3⟩

/-! ### one writer -/

theorem all2_snoc_inv {α β : Type} (P : α → β → Prop) : ∀ (l1 : List α) (l2 : List β) (y : β),
    All2 P l1 (y :: l2) → ∃ x l1', l1 = x :: l1' ∧ P x y ∧ All2 P l1' l2
  | [], _, _, h => absurd h (by simp [All2])
  | x :: xs, _, _, h => ⟨x, xs, rfl, h.1, h.2⟩

theorem all2_cons_inv' {α β : Type} (P : α → β → Prop) : ∀ (l1 : List α) (l2 : List β) (x : α),
    All2 P (x :: l1) l2 → ∃ y l2', l2 = y :: l2' ∧ P x y ∧ All2 P l1 l2'
  | _, [], _, h => absurd h (by simp [All2])
  | _, y :: ys, _, h => ⟨y, ys, rfl, h.1, h.2⟩

theorem all2_nil_left {α β : Type} (P : α → β → Prop) (l2 : List β) (h : All2 P [] l2) : l2 = [] := by
  cases l2 with
  | nil => rfl
  | cons y ys => exact absurd h (by simp [All2])

theorem all2_nil_right {α β : Type} (P : α → β → Prop) (l1 : List α) (h : All2 P l1 []) : l1 = [] := by
  cases l1 with
  | nil => rfl
  | cons y ys => exact absurd h (by simp [All2])

/-- a new write: a row `[none]`, its copy handed to the reader -/
theorem wk_push (lg : Log) (wr : Flow.Writer) (fifo : List Nat) (key : Nat) (pend held : List Pid) (q c : Pid)
    (h : WK lg wr fifo key pend held) (hq : WLogged lg q c) :
    WK lg { wr with rows := wr.rows ++ [[none]] } (fifo ++ [key]) key (pend ++ [q]) (held ++ [c]) := by
  obtain ⟨⟨qs, rs, h1, h2, h3, h4⟩, h5⟩ := h
  refine ⟨⟨qs, rs ++ [q], by rw [h1, List.append_assoc], h2, by simp [h3], all2_append _ _ _ _ _ h4 hq⟩, by simp [h5]⟩

/-- the reader answers its oldest held request -/
theorem wk_reply (lg : Log) (wr : Flow.Writer) (fifo : List Nat) (key : Nat) (pend held : List Pid) (c : Pid) (a : Ans)
    (h : WK lg wr fifo key pend (c :: held)) (ha : RA lg c a) :
    ∃ q rows' qs, wr.rows = [none] :: rows' ∧ fifo = key :: held.map (fun _ => key) ∧
      All2 (RA lg) qs wr.queue ∧ pend = qs ++ q :: (pend.drop (qs.length + 1)) ∧ RA lg q a ∧
      WK lg { rows := rows', queue := wr.queue ++ [a] } (held.map (fun _ => key)) key pend held := by
  obtain ⟨⟨qs, rs, h1, h2, h3, h4⟩, h5⟩ := h
  obtain ⟨q, rs', e1, e2, e3⟩ := all2_snoc_inv _ _ _ _ h4
  subst e1
  have hq : RA lg q a := ra_of_wlogged lg q c a e2 ha
  refine ⟨q, rs'.map (fun _ => [none]), qs, by simp [h3], by simp [h5], h2, ?_, hq, ?_⟩
  · rw [h1]; simp
  · refine ⟨⟨qs ++ [q], rs', by rw [h1]; simp, all2_append _ _ _ _ _ h2 hq, rfl, e3⟩, rfl⟩

/-- the node consumes the oldest queued answer -/
theorem wk_consume (lg : Log) (wr : Flow.Writer) (fifo : List Nat) (key : Nat) (pend held : List Pid) (a : Ans)
    (rest : List Ans) (h : WK lg wr fifo key pend held) (hq : wr.queue = a :: rest) :
    ∃ q pend', pend = q :: pend' ∧ RA lg q a ∧ WK lg { wr with queue := rest } fifo key pend' held := by
  obtain ⟨⟨qs, rs, h1, h2, h3, h4⟩, h5⟩ := h
  rw [hq] at h2
  obtain ⟨q, qs', e1, e2, e3⟩ := all2_snoc_inv _ _ _ _ h2
  subst e1
  exact ⟨q, qs' ++ rs, by rw [h1]; rfl, e2, ⟨⟨qs', rs, rfl, e3, h3, h4⟩, h5⟩⟩

theorem wk_ext (lg lg' : Log) (k : Pid) (hx : LogExt lg lg' k) (wr : Flow.Writer) (fifo : List Nat) (key : Nat)
    (pend held : List Pid) (h : WK lg wr fifo key pend held) : WK lg' wr fifo key pend held := by
  obtain ⟨⟨qs, rs, h1, h2, h3, h4⟩, h5⟩ := h
  exact ⟨⟨qs, rs, h1, all2_mono _ _ (fun p a => ra_ext lg lg' k hx p a) _ _ h2, h3,
    all2_mono _ _ (fun q c => wlogged_ext lg lg' k hx q c) _ _ h4⟩, h5⟩

theorem ra_owner (lg : Log) (o : List (Pid × Nat)) (p : Pid) (a : Ans) : RA { lg with owner := o } p a ↔ RA lg p a := by
  constructor
  · rintro ⟨f, hf⟩; exact ⟨f, by rw [refAns_owner] at hf; exact hf⟩
  · rintro ⟨f, hf⟩; exact ⟨f, by rw [refAns_owner]; exact hf⟩

theorem wk_owner (lg : Log) (o : List (Pid × Nat)) (wr : Flow.Writer) (fifo : List Nat) (key : Nat)
    (pend held : List Pid) (h : WK lg wr fifo key pend held) : WK { lg with owner := o } wr fifo key pend held := by
  obtain ⟨⟨qs, rs, h1, h2, h3, h4⟩, h5⟩ := h
  exact ⟨⟨qs, rs, h1, all2_mono _ _ (fun p a hpa => (ra_owner lg o p a).mpr hpa) _ _ h2, h3,
    all2_mono _ _ (fun q c hqc => hqc) _ _ h4⟩, h5⟩

theorem gReply_eq (g : G) (rk : Nat) (a : Ans) (key : Nat) (rest' : List Nat) (t : Tgt) (rows' : List (List (Option Ans)))
    (hf : getL g.fifo rk = key :: rest') (hl : getL g.links key = [t]) (ht : rkeyOf t = rk)
    (hr : (getWriter g key).rows = [none] :: rows') :
    gReply g rk a =
      if key = srcKey then
        { g with fifo := setOrDel g.fifo rk rest',
                 writers := aset g.writers key { getWriter g key with rows := rows' },
                 srcOut := g.srcOut ++ [a], resp := g.resp ++ [a] }
      else
        { g with fifo := setOrDel g.fifo rk rest',
                 writers := aset g.writers key { rows := rows', queue := (getWriter g key).queue ++ [a] } } := by
  have hw : ∀ f : List (Nat × List Nat), getWriter { g with fifo := f } key = getWriter g key := fun _ => rfl
  simp only [gReply, hf, hl, colOf, ht, if_true, hw, hr, fillCol, cellFree, Option.isNone_none, setCell, hasNil,
    joinCells, cellsOf, join, Bool.false_eq_true, if_false]

theorem wkey_inj (n w n' w' : Nat) (hw : w < 2) (hw' : w' < 2) (h : wkey n w = wkey n' w') : n = n' ∧ w = w' := by
  simp only [wkey] at h; omega

theorem wkey_ne_src (N n w : Nat) (hN : N ≤ 1000) (hn : n < N) (hw : w < 2) : wkey n w ≠ srcKey := by
  simp only [wkey, srcKey, srcNode]; omega

theorem getWriter_aset (g : G) (key key' : Nat) (wr : Flow.Writer) (f : List (Nat × List Nat)) (so : List Ans) (rs : List Ans) :
    getWriter { g with fifo := f, writers := aset g.writers key wr, srcOut := so, resp := rs } key' =
      if key' = key then wr else getWriter g key' := by
  simp only [getWriter, aget_aset]; by_cases e : key' = key <;> simp [e]

/-- the source's writer: a reply completes the oldest pending request -/
theorem wk_reply_src (lg : Log) (wr : Flow.Writer) (fifo : List Nat) (key : Nat) (pend held : List Pid) (c : Pid) (a : Ans)
    (h : WK lg wr fifo key pend (c :: held)) (hq : wr.queue = []) (ha : RA lg c a) :
    ∃ q pend' rows', pend = q :: pend' ∧ wr.rows = [none] :: rows' ∧ fifo = key :: held.map (fun _ => key) ∧ RA lg q a ∧
      WK lg { wr with rows := rows' } (held.map (fun _ => key)) key pend' held := by
  obtain ⟨⟨qs, rs, h1, h2, h3, h4⟩, h5⟩ := h
  rw [hq] at h2
  have hqs := all2_nil_right _ _ h2; subst hqs
  obtain ⟨q, rs', e1, e2, e3⟩ := all2_snoc_inv _ _ _ _ h4
  subst e1
  refine ⟨q, rs', rs'.map (fun _ => [none]), by rw [h1]; rfl, by simp [h3], by simp [h5], ra_of_wlogged lg q c a e2 ha, ?_⟩
  exact ⟨⟨[], rs', rfl, by rw [hq]; trivial, rfl, e3⟩, rfl⟩

theorem links_single (N : Nat) (links : List (Nat × List Tgt)) (hwf : TreeWF N links) (key : Nat) (t : Tgt)
    (h : t ∈ getL links key) : getL links key = [t] := by
  have := hwf.single key
  cases hl : getL links key with
  | nil => rw [hl] at h; simp at h
  | cons x xs =>
    rw [hl] at this h
    cases xs with
    | nil => simp at h; rw [h]
    | cons y ys => simp at this

theorem heldD_updD_ne (D : Nat → List (Pid × Ans)) (ss : Nat → S) (g : List (Nat × List (Pid × Val))) (rk : Nat) (l : List (Pid × Ans)) (t : Tgt)
    (h : rkeyOf t ≠ rk) : heldD (updD D rk l) ss g t = heldD D ss g t := by
  simp [heldD, updD, h]

/-- routing one reply: the reader with key `rkeyOf t` answers the request `c` it has held longest -/
theorem FI_gReply (N : Nat) (links : List (Nat × List Tgt)) (hwf : TreeWF N links) (ss : Nat → S)
    (D : Nat → List (Pid × Ans)) (g : G) (t : Tgt) (c : Pid) (a : Ans) (rest : List (Pid × Ans))
    (h : FI N links ss D g) (htok : TgtOK t) (hD : D (rkeyOf t) = (c, a) :: rest) :
    FI N links ss (updD D (rkeyOf t) rest) (gReply g (rkeyOf t) a) := by
  have hra : RA g.log c a := h.debtOK (rkeyOf t) (c, a) (by rw [hD]; simp)
  have hheld : heldD D ss g.sinks t = c :: (rest.map (·.1) ++ heldAt ss g.sinks t) := by simp [heldD, hD]
  -- the feeding writer
  have hfeed : ∃ key, t ∈ getL links key := by
    apply Classical.byContradiction
    intro hno
    have := h.nofeed t htok (fun key hk => hno ⟨key, hk⟩)
    rw [hheld] at this; cases this
  obtain ⟨key, hkt⟩ := hfeed
  have hl : getL links key = [t] := links_single N links hwf key t hkt
  have hD' : heldD (updD D (rkeyOf t) rest) ss g.sinks t = rest.map (·.1) ++ heldAt ss g.sinks t := by simp [heldD, updD]
  have hother : ∀ key' t', key' ≠ key → getL links key' = [t'] → rkeyOf t' ≠ rkeyOf t := by
    intro key' t' hne hl' e
    exact hne (hwf.feeder key' key t' t (by rw [hl']; simp) hkt e)
  -- frame facts of the result, by case on the writer
  rcases hwf.keys key (by rw [hl]; simp) with hsrc | ⟨n, w, hn, hw, hkey⟩
  · -- the source's writer
    subst hsrc
    obtain ⟨hwk, hq0⟩ := h.wkS t hl
    rw [hheld] at hwk
    obtain ⟨q, pend', rows', e1, e2, e3, e4, e5⟩ := wk_reply_src _ _ _ _ _ _ c a hwk hq0 hra
    have heq := gReply_eq g (rkeyOf t) a srcKey _ t rows' e3 (by rw [h.glinks]; exact hl) rfl e2
    simp only [if_true] at heq
    rw [heq]
    have hlen : g.resp.length < g.roots.length := by
      have : (g.roots.drop g.resp.length).length = (q :: pend').length := by rw [e1]
      simp only [List.length_drop, List.length_cons] at this; omega
    have htake : g.roots.take (g.resp.length + 1) = g.roots.take g.resp.length ++ [q] := by
      have hq : g.roots[g.resp.length]? = some q := by
        have := congrArg List.head? e1
        simpa [List.head?_drop] using this
      rw [List.take_succ, hq]; rfl
    have hdrop : g.roots.drop (g.resp.length + 1) = pend' := by
      have := congrArg List.tail e1
      simpa [List.tail_drop] using this
    refine { glinks := h.glinks, nodesLen := h.nodesLen, rel := h.rel, dflt := h.dflt, reqsOK := h.reqsOK,
             curOK := h.curOK, inboxOK := h.inboxOK, ownNode := h.ownNode, sinkOK := h.sinkOK,
             debtOK := ?_, wkN := ?_, wkS := ?_, respOK := ?_, nofeed := ?_, logBound := h.logBound,
             rootsB := h.rootsB, wq0 := ?_, logOrd := h.logOrd }
    · intro rk x hx
      simp only [updD] at hx
      split at hx
      · rename_i e; exact h.debtOK (rkeyOf t) x (by rw [hD]; simp [hx])
      · exact h.debtOK rk x hx
    · intro n' w' t' hn' hw' hl'
      have hne : wkey n' w' ≠ srcKey := wkey_ne_src N n' w' hwf.small hn' hw'
      have hrk := hother (wkey n' w') t' hne hl'
      have := h.wkN n' w' t' hn' hw' hl'
      simp only [gw_aset, hne, if_false, getL_setOrDel, hrk, heldD_updD_ne D ss g.sinks _ rest t' hrk]
      exact this
    · intro t' hl'
      have ett : t' = t := by rw [hl] at hl'; simp at hl'; exact hl'.symm
      subst ett
      simp only [gw_aset, if_true, getL_setOrDel, List.length_append, List.length_cons, List.length_nil]
      rw [hD', hdrop]
      exact ⟨e5, hq0⟩
    · simp only [List.length_append, List.length_cons, List.length_nil]
      refine ⟨hlen, ?_⟩
      rw [htake]
      exact all2_append _ _ _ _ _ h.respOK.2 e4
    · intro t' htok' hno
      have := h.nofeed t' htok' hno
      by_cases e : rkeyOf t' = rkeyOf t
      · simp only [heldD, e, hD] at this; simp at this
      · rw [heldD_updD_ne D ss g.sinks _ rest t' e]; exact this
    · intro key' hl'
      have hne : key' ≠ srcKey := by intro e; rw [e, hl] at hl'; cases hl'
      simp only [gw_aset, hne, if_false]
      exact h.wq0 key' hl'
  · -- a node's writer
    subst hkey
    have hns : wkey n w ≠ srcKey := wkey_ne_src N n w hwf.small hn hw
    have hwk := h.wkN n w t hn hw hl
    rw [hheld] at hwk
    obtain ⟨q, rows', qs, e1, e2, e3, e4, e5, e6⟩ := wk_reply _ _ _ _ _ _ c a hwk hra
    have heq := gReply_eq g (rkeyOf t) a (wkey n w) _ t rows' e2 (by rw [h.glinks]; exact hl) rfl e1
    simp only [hns, if_false] at heq
    rw [heq]
    refine { glinks := h.glinks, nodesLen := h.nodesLen, rel := h.rel, dflt := h.dflt, reqsOK := h.reqsOK,
             curOK := h.curOK, inboxOK := h.inboxOK, ownNode := h.ownNode, sinkOK := h.sinkOK,
             debtOK := ?_, wkN := ?_, wkS := ?_, respOK := h.respOK, nofeed := ?_, logBound := h.logBound,
             rootsB := h.rootsB, wq0 := ?_, logOrd := h.logOrd }
    · intro rk x hx
      simp only [updD] at hx
      split at hx
      · exact h.debtOK (rkeyOf t) x (by rw [hD]; simp [hx])
      · exact h.debtOK rk x hx
    · intro n' w' t' hn' hw' hl'
      by_cases e : wkey n' w' = wkey n w
      · obtain ⟨rfl, rfl⟩ := wkey_inj n' w' n w hw' hw e
        have ett : t' = t := by rw [hl] at hl'; simp at hl'; exact hl'.symm
        subst ett
        simp only [gw_aset, if_true, getL_setOrDel]
        rw [hD']; exact e6
      · have hrk := hother (wkey n' w') t' e hl'
        simp only [gw_aset, e, if_false, getL_setOrDel, hrk, heldD_updD_ne D ss g.sinks _ rest t' hrk]
        exact h.wkN n' w' t' hn' hw' hl'
    · intro t' hl'
      have hne : srcKey ≠ wkey n w := fun e => hns e.symm
      have hrk := hother srcKey t' hne hl'
      simp only [gw_aset, hne, if_false, getL_setOrDel, hrk, heldD_updD_ne D ss g.sinks _ rest t' hrk]
      exact h.wkS t' hl'
    · intro t' htok' hno
      have := h.nofeed t' htok' hno
      by_cases e : rkeyOf t' = rkeyOf t
      · simp only [heldD, e, hD] at this; simp at this
      · rw [heldD_updD_ne D ss g.sinks _ rest t' e]; exact this
    · intro key' hl'
      have hne : key' ≠ wkey n w := by intro e; rw [e, hl] at hl'; cases hl'
      simp only [gw_aset, hne, if_false]
      exact h.wq0 key' hl'

end Uniflow.FlowInv
