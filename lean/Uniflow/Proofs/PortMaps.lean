/-
Invariants of `Uniflow.PortMaps` (model of the per-process endpoint maps of pkg/port) and their
preservation by every step. Used by `Props/C05.lean`.

* `ResInv`    – a map entry for `(q, p)` has a witness that a removal of `(q, p)` is still owed
* `ProcInv`   – endpoints named by a gap thread or a registered hook belong to that process
* `ClosedInv` – an endpoint that is not closed has a witness that its `Close()` is still owed
* `PMuInv`    – the owner field of every port mutex agrees with the program counters
* `PInv`      – endpoint ids in use are below `nep`; the pump counter equals the number of created and not
                closed endpoints; no thread is at the program point of the allocate-before-lock variant
-/
import Uniflow.Model.PortMaps

namespace Uniflow.PortMaps

@[simp] theorem upd_same {β : Type} (f : Nat → β) (k : Nat) (v : β) : upd f k v k = v := by simp [upd]
theorem upd_other {β : Type} (f : Nat → β) (k : Nat) (v : β) (i : Nat) (h : i ≠ k) : upd f k v i = f i := by simp [upd, h]

def kHasQ (q : Port) : Kont → Bool
  | .ret => false
  | .exit rest => rest.any (fun x => x.1 = q)

def kHasE (e : Eid) : Kont → Bool
  | .ret => false
  | .exit rest => rest.any (fun x => x.2 = e)

/-- Thread at `pc` still owes a removal of the entry `(q, p)`. -/
def pendsOn (q : Port) (p : Pid) : Pc → Bool
  | .openGap q' p' _ => q' = q && p' = p
  | .hookWant q' p' _ k => p' = p && (q' = q || kHasQ q k)
  | .hookHold q' p' _ k => p' = p && (q' = q || kHasQ q k)
  | .hookClose p' _ k => p' = p && kHasQ q k
  | .exitRun p' hs => p' = p && hs.any (fun x => x.1 = q)
  | _ => false

/-- Thread at `pc` still owes a `Close()` of endpoint `e`. -/
def willClose (e : Eid) : Pc → Bool
  | .openGap _ _ e' => e' = e
  | .hookWant _ _ e' k => e' = e || kHasE e k
  | .hookHold _ _ e' k => e' = e || kHasE e k
  | .hookClose _ e' k => e' = e || kHasE e k
  | .exitRun _ hs => hs.any (fun x => x.2 = e)
  | .closeAll es => es.contains e
  | _ => false

def Witness (s : State) (q : Port) (p : Pid) : Prop :=
  (s.term p = false ∧ ∃ e, (q, e) ∈ s.hooks p) ∨ ∃ t, pendsOn q p (s.thr t) = true

def ResInv (s : State) : Prop := ∀ q p, s.ents q p ≠ none → Witness s q p

structure ProcInv (s : State) : Prop where
  gap : ∀ t q p e, s.thr t = .openGap q p e → e < s.nep ∧ s.eproc e = p
  hk : ∀ p q e, (q, e) ∈ s.hooks p → e < s.nep ∧ s.eproc e = p

def EWitness (s : State) (e : Eid) : Prop :=
  (∃ p, s.term p = false ∧ ∃ q, (q, e) ∈ s.hooks p) ∨ ∃ t, willClose e (s.thr t) = true

def ClosedInv (s : State) : Prop := ∀ e, e < s.nep → s.closed e = false → EWitness s e

structure AllInv (s : State) : Prop where
  res : ResInv s
  prc : ProcInv s
  cls : ClosedInv s

/-! ### frames -/

theorem witness_frame (s s' : State) (t : Tid) (q : Port) (p : Pid)
    (hterm : s'.term = s.term) (hhooks : s'.hooks = s.hooks)
    (hthr : ∀ t', t' ≠ t → s'.thr t' = s.thr t')
    (hself : pendsOn q p (s.thr t) = true → pendsOn q p (s'.thr t) = true)
    (w : Witness s q p) : Witness s' q p := by
  rcases w with ⟨h1, h2⟩ | ⟨t', ht'⟩
  · left; rw [hterm, hhooks]; exact ⟨h1, h2⟩
  · right
    by_cases e : t' = t
    · subst e; exact ⟨t', hself ht'⟩
    · exact ⟨t', by rw [hthr t' e]; exact ht'⟩

theorem ewitness_frame (s s' : State) (t : Tid) (e : Eid)
    (hterm : s'.term = s.term) (hhooks : s'.hooks = s.hooks)
    (hthr : ∀ t', t' ≠ t → s'.thr t' = s.thr t')
    (hself : willClose e (s.thr t) = true → willClose e (s'.thr t) = true)
    (w : EWitness s e) : EWitness s' e := by
  rcases w with ⟨p, h1, h2⟩ | ⟨t', ht'⟩
  · left; rw [hterm, hhooks]; exact ⟨p, h1, h2⟩
  · right
    by_cases e : t' = t
    · subst e; exact ⟨t', hself ht'⟩
    · exact ⟨t', by rw [hthr t' e]; exact ht'⟩

/-- A step that only moves thread `t` (maps, processes and endpoints untouched) and keeps what
`t` owes. -/
theorem all_move (s s' : State) (t : Tid) (pc' : Pc) (h : AllInv s)
    (he : s'.ents = s.ents) (hterm : s'.term = s.term) (hhooks : s'.hooks = s.hooks)
    (hn : s'.nep = s.nep) (hep : s'.eproc = s.eproc) (hcl : s'.closed = s.closed)
    (hthr : s'.thr = upd s.thr t pc')
    (hgap : ∀ q p e, pc' = .openGap q p e → s.thr t = .openGap q p e)
    (h1 : ∀ q p, pendsOn q p (s.thr t) = true → pendsOn q p pc' = true)
    (h2 : ∀ e, willClose e (s.thr t) = true → willClose e pc' = true) : AllInv s' := by
  have ho : ∀ t', t' ≠ t → s'.thr t' = s.thr t' := fun t' ht' => by rw [hthr, upd_other _ _ _ _ ht']
  have hs : s'.thr t = pc' := by rw [hthr, upd_same]
  refine ⟨?_, ⟨?_, ?_⟩, ?_⟩
  · intro q p hp
    rw [he] at hp
    exact witness_frame s s' t q p hterm hhooks ho (by rw [hs]; exact h1 q p) (h.res q p hp)
  · intro t' q p e hpc
    rw [hn, hep]
    by_cases e1 : t' = t
    · subst e1; rw [hs] at hpc; exact h.prc.gap t' q p e (hgap q p e hpc)
    · rw [ho t' e1] at hpc; exact h.prc.gap t' q p e hpc
  · intro p q e hm; rw [hn, hep]; rw [hhooks] at hm; exact h.prc.hk p q e hm
  · intro e hlt hc
    rw [hn] at hlt; rw [hcl] at hc
    exact ewitness_frame s s' t e hterm hhooks ho (by rw [hs]; exact h2 e) (h.cls e hlt hc)

theorem all_step (s s' : State) (t : Tid) (ev : Ev) (h : AllInv s) (hs : step s t = some (s', ev)) : AllInv s' := by
  have ho : ∀ (pc' : Pc) (t' : Tid), t' ≠ t → upd s.thr t pc' t' = s.thr t' := fun pc' t' ht' => upd_other _ _ _ _ ht'
  cases hpc : s.thr t with
  | idle => simp [step, hpc] at hs
  | openChk q p =>
    simp only [step, hpc] at hs
    split at hs <;>
    · cases hs
      exact all_move s _ t _ h rfl rfl rfl rfl rfl rfl rfl (by intro _ _ _ x; cases x)
        (by intro q' p'; rw [hpc]; simp [pendsOn]) (by intro e; rw [hpc]; simp [willClose])
  | openRd q p =>
    simp only [step, hpc] at hs
    split at hs
    · split at hs <;>
      · cases hs
        exact all_move s _ t _ h rfl rfl rfl rfl rfl rfl rfl (by intro _ _ _ x; cases x)
          (by intro q' p'; rw [hpc]; simp [pendsOn]) (by intro e; rw [hpc]; simp [willClose])
    · cases hs
  | openWant q p =>
    simp only [step, hpc] at hs
    split at hs
    · cases hs
      exact all_move s _ t _ h rfl rfl rfl rfl rfl rfl rfl (by intro _ _ _ x; cases x)
        (by intro q' p'; rw [hpc]; simp [pendsOn]) (by intro e; rw [hpc]; simp [willClose])
    · cases hs
  | openHold q p =>
    simp only [step, hpc] at hs
    split at hs
    · cases hs
      exact all_move s _ t _ h rfl rfl rfl rfl rfl rfl rfl (by intro _ _ _ x; cases x)
        (by intro q' p'; rw [hpc]; simp [pendsOn]) (by intro e; rw [hpc]; simp [willClose])
    · -- a fresh endpoint `s.nep` is inserted
      cases hs
      refine ⟨?_, ⟨?_, ?_⟩, ?_⟩
      · intro q' p' hp
        by_cases e1 : q' = q ∧ p' = p
        · obtain ⟨rfl, rfl⟩ := e1
          exact Or.inr ⟨t, by show pendsOn q' p' (upd s.thr t _ t) = true; simp [pendsOn]⟩
        · have hp' : s.ents q' p' ≠ none := by
            intro hx; apply hp
            show upd s.ents q (upd (s.ents q) p (some s.nep)) q' p' = none
            by_cases eq : q' = q
            · subst eq
              have : p' ≠ p := fun x => e1 ⟨rfl, x⟩
              simp only [upd_same, upd_other _ _ _ _ this]; exact hx
            · simp only [upd_other _ _ _ _ eq]; exact hx
          exact witness_frame s _ t q' p' rfl rfl (ho _) (by rw [hpc]; simp [pendsOn]) (h.res q' p' hp')
      · intro t' q' p' e hg
        by_cases e1 : t' = t
        · subst e1
          simp only [upd_same] at hg
          injection hg with a b c; subst a b c
          exact ⟨Nat.lt_succ_self _, by simp⟩
        · simp only [ho _ t' e1] at hg
          obtain ⟨a, b⟩ := h.prc.gap t' q' p' e hg
          exact ⟨Nat.lt_succ_of_lt a, by simp only [upd_other _ _ _ _ (Nat.ne_of_lt a)]; exact b⟩
      · intro p' q' e hm
        obtain ⟨a, b⟩ := h.prc.hk p' q' e hm
        exact ⟨Nat.lt_succ_of_lt a, by simp only [upd_other _ _ _ _ (Nat.ne_of_lt a)]; exact b⟩
      · intro e hlt hc
        by_cases e1 : e = s.nep
        · subst e1
          exact Or.inr ⟨t, by show willClose _ (upd s.thr t _ t) = true; simp [willClose]⟩
        · simp only [upd_other _ _ _ _ e1] at hc
          have hlt' : e < s.nep := by
            have : e < s.nep + 1 := hlt
            omega
          exact ewitness_frame s _ t e rfl rfl (ho _) (by rw [hpc]; simp [willClose]) (h.cls e hlt' hc)
  | openGap q p e =>
    simp only [step, hpc] at hs
    split at hs
    · cases hs
      exact all_move s _ t _ h rfl rfl rfl rfl rfl rfl rfl (by intro _ _ _ x; cases x)
        (by intro q' p'; rw [hpc]; simp [pendsOn]; intro a b; exact ⟨b, Or.inl a⟩)
        (by intro e'; rw [hpc]; simp [willClose]; intro a; exact Or.inl a)
    · -- the hook is registered
      rename_i hterm
      have hterm' : s.term p = false := by simpa using hterm
      obtain ⟨hb, hp⟩ := h.prc.gap t q p e hpc
      cases hs
      refine ⟨?_, ⟨?_, ?_⟩, ?_⟩
      · intro q' p' hq
        have hq' : s.ents q' p' ≠ none := hq
        rcases h.res q' p' hq' with ⟨a, e', b⟩ | ⟨t', ht'⟩
        · left; refine ⟨a, e', ?_⟩
          show (q', e') ∈ upd s.hooks p ((q, e) :: s.hooks p) p'
          by_cases e1 : p' = p
          · subst e1; simp [b]
          · rw [upd_other _ _ _ _ e1]; exact b
        · by_cases e1 : t' = t
          · subst e1
            rw [hpc] at ht'
            simp [pendsOn] at ht'
            obtain ⟨rfl, rfl⟩ := ht'
            left
            exact ⟨hterm', e, by show (q, e) ∈ upd s.hooks p ((q, e) :: s.hooks p) p; simp⟩
          · right; exact ⟨t', by show pendsOn q' p' (upd s.thr t _ t') = true; rw [ho _ t' e1]; exact ht'⟩
      · intro t' q' p' e' hg
        by_cases e1 : t' = t
        · subst e1; simp at hg
        · simp only [ho _ t' e1] at hg; exact h.prc.gap t' q' p' e' hg
      · intro p' q' e' hm
        have hm' : (q', e') ∈ upd s.hooks p ((q, e) :: s.hooks p) p' := hm
        by_cases e1 : p' = p
        · subst e1
          simp only [upd_same, List.mem_cons, Prod.mk.injEq] at hm'
          rcases hm' with ⟨rfl, rfl⟩ | hm'
          · exact ⟨hb, hp⟩
          · exact h.prc.hk p' q' e' hm'
        · rw [upd_other _ _ _ _ e1] at hm'; exact h.prc.hk p' q' e' hm'
      · intro e' hlt hc
        rcases h.cls e' hlt hc with ⟨p', a, q', b⟩ | ⟨t', ht'⟩
        · left; refine ⟨p', a, q', ?_⟩
          show (q', e') ∈ upd s.hooks p ((q, e) :: s.hooks p) p'
          by_cases e1 : p' = p
          · subst e1; simp [b]
          · rw [upd_other _ _ _ _ e1]; exact b
        · by_cases e1 : t' = t
          · subst e1
            rw [hpc] at ht'
            simp [willClose] at ht'
            subst ht'
            left
            exact ⟨p, hterm', q, by show (q, e) ∈ upd s.hooks p ((q, e) :: s.hooks p) p; simp⟩
          · right; exact ⟨t', by show willClose e' (upd s.thr t _ t') = true; rw [ho _ t' e1]; exact ht'⟩
  | hookWant q p e k =>
    simp only [step, hpc] at hs
    split at hs
    · cases hs
      exact all_move s _ t _ h rfl rfl rfl rfl rfl rfl rfl (by intro _ _ _ x; cases x)
        (by intro q' p'; rw [hpc]; simp [pendsOn]) (by intro e'; rw [hpc]; simp [willClose])
    · cases hs
  | hookHold q p e k =>
    simp only [step, hpc] at hs
    cases hs
    refine ⟨?_, ⟨?_, ?_⟩, ?_⟩
    · intro q' p' hq
      by_cases e1 : q' = q ∧ p' = p
      · obtain ⟨rfl, rfl⟩ := e1
        exact absurd (by show upd s.ents q' (upd (s.ents q') p' none) q' p' = none; simp) hq
      · have hq' : s.ents q' p' ≠ none := by
          intro hx; apply hq
          show upd s.ents q (upd (s.ents q) p none) q' p' = none
          by_cases eq : q' = q
          · subst eq
            have : p' ≠ p := fun x => e1 ⟨rfl, x⟩
            simp only [upd_same, upd_other _ _ _ _ this]; exact hx
          · simp only [upd_other _ _ _ _ eq]; exact hx
        refine witness_frame s _ t q' p' rfl rfl (ho _) ?_ (h.res q' p' hq')
        rw [hpc]
        show pendsOn q' p' (Pc.hookHold q p e k) = true → pendsOn q' p' (upd s.thr t (Pc.hookClose p e k) t) = true
        simp only [upd_same, pendsOn, Bool.and_eq_true, Bool.or_eq_true, decide_eq_true_eq]
        rintro ⟨a, b | b⟩
        · exact absurd ⟨b.symm, a.symm⟩ e1
        · exact ⟨a, b⟩
    · intro t' q' p' e' hg
      by_cases e1 : t' = t
      · subst e1; simp at hg
      · simp only [ho _ t' e1] at hg; exact h.prc.gap t' q' p' e' hg
    · exact h.prc.hk
    · intro e' hlt hc
      exact ewitness_frame s _ t e' rfl rfl (ho _) (by rw [hpc]; simp [willClose]) (h.cls e' hlt hc)
  | hookClose p e k =>
    simp only [step, hpc] at hs
    cases hs
    have hk1 : ∀ q' p', pendsOn q' p' (Pc.hookClose p e k) = true → pendsOn q' p' (k.next p e).1 = true := by
      intro q' p'; cases k <;> simp [pendsOn, Kont.next, kHasQ]
    have hk2 : ∀ e', e' ≠ e → willClose e' (Pc.hookClose p e k) = true → willClose e' (k.next p e).1 = true := by
      intro e' hne; cases k <;> simp [willClose, Kont.next, kHasE, hne.symm]
    have hk3 : ∀ q' p' e', (k.next p e).1 ≠ Pc.openGap q' p' e' := by
      intro q' p' e'; cases k <;> simp [Kont.next]
    refine ⟨?_, ⟨?_, ?_⟩, ?_⟩
    · intro q' p' hq
      exact witness_frame s _ t q' p' rfl rfl (ho _) (by rw [hpc]; simpa using hk1 q' p') (h.res q' p' hq)
    · intro t' q' p' e' hg
      by_cases e1 : t' = t
      · subst e1; simp only [upd_same] at hg; exact absurd hg (hk3 q' p' e')
      · simp only [ho _ t' e1] at hg; exact h.prc.gap t' q' p' e' hg
    · exact h.prc.hk
    · intro e' hlt hc
      by_cases e1 : e' = e
      · subst e1; simp at hc
      · simp only [upd_other _ _ _ _ e1] at hc
        exact ewitness_frame s _ t e' rfl rfl (ho _) (by rw [hpc]; simpa using hk2 e' e1) (h.cls e' hlt hc)
  | closeWant q =>
    simp only [step, hpc] at hs
    split at hs
    · cases hs
      exact all_move s _ t _ h rfl rfl rfl rfl rfl rfl rfl (by intro _ _ _ x; cases x)
        (by intro q' p'; rw [hpc]; simp [pendsOn]) (by intro e; rw [hpc]; simp [willClose])
    · cases hs
  | closeHold q =>
    simp only [step, hpc] at hs
    cases hs
    refine ⟨?_, ⟨?_, ?_⟩, ?_⟩
    · intro q' p' hq
      have hq' : s.ents q' p' ≠ none := by
        intro hx; apply hq
        show upd s.ents q (fun _ => none) q' p' = none
        by_cases eq : q' = q
        · subst eq; simp
        · simp only [upd_other _ _ _ _ eq]; exact hx
      exact witness_frame s _ t q' p' rfl rfl (ho _) (by rw [hpc]; simp [pendsOn]) (h.res q' p' hq')
    · intro t' q' p' e' hg
      by_cases e1 : t' = t
      · subst e1; simp at hg
      · simp only [ho _ t' e1] at hg; exact h.prc.gap t' q' p' e' hg
    · exact h.prc.hk
    · intro e' hlt hc
      exact ewitness_frame s _ t e' rfl rfl (ho _) (by rw [hpc]; simp [willClose]) (h.cls e' hlt hc)
  | closeAll es =>
    match es with
    | [] =>
      simp only [step, hpc] at hs
      cases hs
      exact all_move s _ t _ h rfl rfl rfl rfl rfl rfl rfl (by intro _ _ _ x; cases x)
        (by intro q' p'; rw [hpc]; simp [pendsOn]) (by intro e; rw [hpc]; simp [willClose])
    | e :: rest =>
      simp only [step, hpc] at hs
      cases hs
      refine ⟨?_, ⟨?_, ?_⟩, ?_⟩
      · intro q' p' hq
        exact witness_frame s _ t q' p' rfl rfl (ho _) (by rw [hpc]; simp [pendsOn]) (h.res q' p' hq)
      · intro t' q' p' e' hg
        by_cases e1 : t' = t
        · subst e1; simp at hg
        · simp only [ho _ t' e1] at hg; exact h.prc.gap t' q' p' e' hg
      · exact h.prc.hk
      · intro e' hlt hc
        by_cases e1 : e' = e
        · subst e1; simp at hc
        · simp only [upd_other _ _ _ _ e1] at hc
          refine ewitness_frame s _ t e' rfl rfl (ho _) ?_ (h.cls e' hlt hc)
          rw [hpc]
          show willClose e' (Pc.closeAll (e :: rest)) = true → willClose e' (upd s.thr t (Pc.closeAll rest) t) = true
          simp only [upd_same, willClose, List.contains_cons]
          intro hx
          have : (e' == e) = false := by simpa using e1
          simpa [this] using hx
  | openHoldE q p e => simp [step, hpc] at hs
  | exitFlip p =>
    simp only [step, hpc] at hs
    split at hs
    · cases hs
      exact all_move s _ t _ h rfl rfl rfl rfl rfl rfl rfl (by intro _ _ _ x; cases x)
        (by intro q' p'; rw [hpc]; simp [pendsOn]) (by intro e; rw [hpc]; simp [willClose])
    · rename_i hterm
      cases hs
      refine ⟨?_, ⟨?_, ?_⟩, ?_⟩
      · intro q' p' hq
        have hq' : s.ents q' p' ≠ none := hq
        rcases h.res q' p' hq' with ⟨a, e', b⟩ | ⟨t', ht'⟩
        · by_cases e1 : p' = p
          · subst e1
            right; refine ⟨t, ?_⟩
            show pendsOn q' p' (upd s.thr t _ t) = true
            simp only [upd_same, pendsOn, decide_true, Bool.true_and, List.any_eq_true]
            exact ⟨(q', e'), b, by simp⟩
          · left
            show upd s.term p true p' = false ∧ ∃ e, (q', e) ∈ upd s.hooks p [] p'
            rw [upd_other _ _ _ _ e1, upd_other _ _ _ _ e1]; exact ⟨a, e', b⟩
        · by_cases e1 : t' = t
          · subst e1; rw [hpc] at ht'; simp [pendsOn] at ht'
          · right; exact ⟨t', by show pendsOn q' p' (upd s.thr t _ t') = true; rw [ho _ t' e1]; exact ht'⟩
      · intro t' q' p' e' hg
        by_cases e1 : t' = t
        · subst e1; simp at hg
        · simp only [ho _ t' e1] at hg; exact h.prc.gap t' q' p' e' hg
      · intro p' q' e' hm
        have hm' : (q', e') ∈ upd s.hooks p [] p' := hm
        by_cases e1 : p' = p
        · subst e1; simp at hm'
        · rw [upd_other _ _ _ _ e1] at hm'; exact h.prc.hk p' q' e' hm'
      · intro e' hlt hc
        rcases h.cls e' hlt hc with ⟨p', a, q', b⟩ | ⟨t', ht'⟩
        · by_cases e1 : p' = p
          · subst e1
            right; refine ⟨t, ?_⟩
            show willClose e' (upd s.thr t _ t) = true
            simp only [upd_same, willClose, List.any_eq_true]
            exact ⟨(q', e'), b, by simp⟩
          · left; refine ⟨p', ?_, q', ?_⟩
            · show upd s.term p true p' = false
              rw [upd_other _ _ _ _ e1]; exact a
            · show (q', e') ∈ upd s.hooks p [] p'
              rw [upd_other _ _ _ _ e1]; exact b
        · by_cases e1 : t' = t
          · subst e1; rw [hpc] at ht'; simp [willClose] at ht'
          · right; exact ⟨t', by show willClose e' (upd s.thr t _ t') = true; rw [ho _ t' e1]; exact ht'⟩
  | exitRun p hks =>
    match hks with
    | [] =>
      simp only [step, hpc] at hs
      cases hs
      exact all_move s _ t _ h rfl rfl rfl rfl rfl rfl rfl (by intro _ _ _ x; cases x)
        (by intro q' p'; rw [hpc]; simp [pendsOn]) (by intro e; rw [hpc]; simp [willClose])
    | (q, e) :: rest =>
      simp only [step, hpc] at hs
      cases hs
      exact all_move s _ t _ h rfl rfl rfl rfl rfl rfl rfl (by intro _ _ _ x; cases x)
        (by intro q' p'; rw [hpc]; simp [pendsOn, kHasQ]) (by intro e'; rw [hpc]; simp [willClose, kHasE])


theorem all_init : AllInv init := by
  refine ⟨?_, ⟨?_, ?_⟩, ?_⟩
  · intro q p h; simp [init] at h
  · intro t q p e h; simp [init] at h
  · intro p q e h; simp [init] at h
  · intro e h; simp [init] at h

theorem all_apply (s : State) (a : Act) (h : AllInv s) : AllInv (apply s a) := by
  cases a with
  | call t c =>
    simp only [apply]
    split
    · rename_i hidle
      exact all_move s _ t _ h rfl rfl rfl rfl rfl rfl rfl (by intro _ _ _ x; cases c <;> cases x)
        (by intro q' p'; rw [hidle]; simp [pendsOn]) (by intro e; rw [hidle]; simp [willClose])
    · exact h
  | step t =>
    simp only [apply]
    cases hst : step s t with
    | none => exact h
    | some pr => obtain ⟨s', e⟩ := pr; exact all_step s s' t e h hst

theorem all_run (s : State) (sched : List Act) (h : AllInv s) : AllInv (run s sched) := by
  induction sched generalizing s with
  | nil => exact h
  | cons a as ih => exact ih _ (all_apply s a h)

theorem all_reach (sched : List Act) : AllInv (run init sched) := all_run init sched all_init

/-! ### the port mutex -/

def holdsP (q : Port) : Pc → Bool
  | .openHold q' _ => q' = q
  | .hookHold q' _ _ _ => q' = q
  | .closeHold q' => q' = q
  | _ => false

def PMuInv (s : State) : Prop := ∀ q t, holdsP q (s.thr t) = true ↔ s.pmu q = some t

theorem pmu_move (s s' : State) (t : Tid) (pc' : Pc) (h : PMuInv s) (hmu : s'.pmu = s.pmu)
    (hthr : s'.thr = upd s.thr t pc') (hh : ∀ q, holdsP q pc' = holdsP q (s.thr t)) : PMuInv s' := by
  intro q t'
  rw [hmu, hthr]
  by_cases e : t' = t
  · subst e; rw [upd_same, hh q]; exact h q t'
  · rw [upd_other _ _ _ _ e]; exact h q t'

theorem pmu_acquire (s s' : State) (t : Tid) (q : Port) (pc' : Pc) (h : PMuInv s) (hfree : s.pmu q = none)
    (hmu : s'.pmu = upd s.pmu q (some t)) (hthr : s'.thr = upd s.thr t pc')
    (h0 : ∀ q', holdsP q' (s.thr t) = false) (h1 : ∀ q', holdsP q' pc' = decide (q = q')) : PMuInv s' := by
  intro q' t'
  rw [hmu, hthr]
  by_cases e : t' = t
  · subst e
    rw [upd_same, h1 q']
    by_cases eq : q' = q
    · subst eq; simp
    · rw [upd_other _ _ _ _ eq]
      have := h q' t'
      rw [h0 q'] at this
      constructor
      · intro hx; simp at hx; exact absurd hx.symm eq
      · intro hx; exact absurd (this.mpr hx) (by simp)
  · rw [upd_other _ _ _ _ e]
    by_cases eq : q' = q
    · subst eq
      rw [upd_same]
      constructor
      · intro hx; have := (h q' t').mp hx; rw [hfree] at this; cases this
      · intro hx; injection hx with hx; exact absurd hx.symm e
    · rw [upd_other _ _ _ _ eq]; exact h q' t'

theorem pmu_release (s s' : State) (t : Tid) (q : Port) (pc' : Pc) (h : PMuInv s)
    (hheld : ∀ q', holdsP q' (s.thr t) = decide (q = q'))
    (hmu : s'.pmu = upd s.pmu q none) (hthr : s'.thr = upd s.thr t pc')
    (h1 : ∀ q', holdsP q' pc' = false) : PMuInv s' := by
  have hown : s.pmu q = some t := (h q t).mp (by rw [hheld q]; simp)
  intro q' t'
  rw [hmu, hthr]
  by_cases e : t' = t
  · subst e
    rw [upd_same, h1 q']
    by_cases eq : q' = q
    · subst eq; simp
    · rw [upd_other _ _ _ _ eq]
      have := h q' t'
      rw [hheld q'] at this
      constructor
      · intro hx; cases hx
      · intro hx; have := this.mpr hx; simp at this; exact absurd this.symm eq
  · rw [upd_other _ _ _ _ e]
    by_cases eq : q' = q
    · subst eq
      rw [upd_same]
      constructor
      · intro hx; have := (h q' t').mp hx; rw [hown] at this; injection this with this; exact absurd this.symm e
      · intro hx; cases hx
    · rw [upd_other _ _ _ _ eq]; exact h q' t'

theorem pmu_step (s s' : State) (t : Tid) (ev : Ev) (h : PMuInv s) (hs : step s t = some (s', ev)) : PMuInv s' := by
  cases hpc : s.thr t with
  | idle => simp [step, hpc] at hs
  | openChk q p =>
    simp only [step, hpc] at hs
    split at hs <;> (cases hs; exact pmu_move s _ t _ h rfl rfl (by intro q'; rw [hpc]; rfl))
  | openRd q p =>
    simp only [step, hpc] at hs
    split at hs
    · split at hs <;> (cases hs; exact pmu_move s _ t _ h rfl rfl (by intro q'; rw [hpc]; rfl))
    · cases hs
  | openWant q p =>
    simp only [step, hpc] at hs
    split at hs
    · rename_i hfree
      cases hs
      exact pmu_acquire s _ t q _ h hfree rfl rfl (by intro q'; rw [hpc]; rfl) (by intro q'; rfl)
    · cases hs
  | openHold q p =>
    simp only [step, hpc] at hs
    split at hs <;>
    · cases hs
      exact pmu_release s _ t q _ h (by intro q'; rw [hpc]; rfl) rfl rfl (by intro q'; rfl)
  | openGap q p e =>
    simp only [step, hpc] at hs
    split at hs <;> (cases hs; exact pmu_move s _ t _ h rfl rfl (by intro q'; rw [hpc]; rfl))
  | hookWant q p e k =>
    simp only [step, hpc] at hs
    split at hs
    · rename_i hfree
      cases hs
      exact pmu_acquire s _ t q _ h hfree rfl rfl (by intro q'; rw [hpc]; rfl) (by intro q'; rfl)
    · cases hs
  | hookHold q p e k =>
    simp only [step, hpc] at hs
    cases hs
    exact pmu_release s _ t q _ h (by intro q'; rw [hpc]; rfl) rfl rfl (by intro q'; rfl)
  | hookClose p e k =>
    simp only [step, hpc] at hs
    cases hs
    exact pmu_move s _ t _ h rfl rfl (by intro q'; rw [hpc]; cases k <;> rfl)
  | closeWant q =>
    simp only [step, hpc] at hs
    split at hs
    · rename_i hfree
      cases hs
      exact pmu_acquire s _ t q _ h hfree rfl rfl (by intro q'; rw [hpc]; rfl) (by intro q'; rfl)
    · cases hs
  | closeHold q =>
    simp only [step, hpc] at hs
    cases hs
    exact pmu_release s _ t q _ h (by intro q'; rw [hpc]; rfl) rfl rfl (by intro q'; rfl)
  | closeAll es =>
    match es with
    | [] => simp only [step, hpc] at hs; cases hs; exact pmu_move s _ t _ h rfl rfl (by intro q'; rw [hpc]; rfl)
    | e :: rest => simp only [step, hpc] at hs; cases hs; exact pmu_move s _ t _ h rfl rfl (by intro q'; rw [hpc]; rfl)
  | openHoldE q p e => simp [step, hpc] at hs
  | exitFlip p =>
    simp only [step, hpc] at hs
    split at hs <;> (cases hs; exact pmu_move s _ t _ h rfl rfl (by intro q'; rw [hpc]; rfl))
  | exitRun p hks =>
    match hks with
    | [] => simp only [step, hpc] at hs; cases hs; exact pmu_move s _ t _ h rfl rfl (by intro q'; rw [hpc]; rfl)
    | (q, e) :: rest => simp only [step, hpc] at hs; cases hs; exact pmu_move s _ t _ h rfl rfl (by intro q'; rw [hpc]; rfl)

theorem pmu_init : PMuInv init := by intro q t; simp [init, holdsP]

theorem pmu_apply (s : State) (a : Act) (h : PMuInv s) : PMuInv (apply s a) := by
  cases a with
  | call t c =>
    simp only [apply]
    split
    · rename_i hidle
      exact pmu_move s _ t _ h rfl rfl (by intro q'; rw [hidle]; cases c <;> rfl)
    · exact h
  | step t =>
    simp only [apply]
    cases hst : step s t with
    | none => exact h
    | some pr => obtain ⟨s', e⟩ := pr; exact pmu_step s s' t e h hst

theorem pmu_reach (sched : List Act) : PMuInv (run init sched) := by
  suffices ∀ s, PMuInv s → PMuInv (run s sched) from this init pmu_init
  induction sched with
  | nil => intro s h; exact h
  | cons a as ih => intro s h; exact ih _ (pmu_apply s a h)

/-- The holder of a port's mutex always has a step. -/
theorem holder_enabled (s : State) (h : PMuInv s) (q : Port) (tm : Tid) (hm : s.pmu q = some tm) :
    enabled s tm = true := by
  have hh := (h q tm).mpr hm
  cases hpc : s.thr tm <;> simp [hpc, holdsP] at hh
  · simp only [enabled, step, hpc]; split <;> rfl
  · simp [enabled, step, hpc]
  · simp [enabled, step, hpc]



/-! ### pump accounting -/

def kEps : Kont → List Eid
  | .ret => []
  | .exit rest => rest.map (·.2)

/-- the endpoints a thread still holds in its hands -/
def mentions : Pc → List Eid
  | .openGap _ _ e => [e]
  | .hookWant _ _ e k => e :: kEps k
  | .hookHold _ _ e k => e :: kEps k
  | .hookClose _ e k => e :: kEps k
  | .closeAll es => es
  | .exitRun _ hs => hs.map (·.2)
  | .openHoldE _ _ e => [e]
  | _ => []

def isEarly : Pc → Bool
  | .openHoldE _ _ _ => true
  | _ => false

structure PInv (s : State) : Prop where
  thr : ∀ t e, e ∈ mentions (s.thr t) → e < s.nep
  hk : ∀ p q e, (q, e) ∈ s.hooks p → e < s.nep
  pumps : s.pumps = openBelow s.closed s.nep
  early : ∀ t, isEarly (s.thr t) = false

theorem openBelow_congr (c c' : Eid → Bool) (n : Nat) (h : ∀ i, i < n → c i = c' i) :
    openBelow c n = openBelow c' n := by
  induction n with
  | zero => rfl
  | succ n ih => simp only [openBelow]; rw [ih (fun i hi => h i (Nat.lt_succ_of_lt hi)), h n (Nat.lt_succ_self n)]

theorem openBelow_close (c : Eid → Bool) (n e : Nat) (he : e < n) :
    openBelow (upd c e true) n + (if c e then 0 else 1) = openBelow c n := by
  induction n with
  | zero => omega
  | succ n ih =>
    simp only [openBelow]
    by_cases e1 : e = n
    · subst e1
      have := openBelow_congr (upd c e true) c e (fun i hi => upd_other _ _ _ _ (Nat.ne_of_lt hi))
      rw [this, upd_same]; simp
    · have h1 := ih (by omega)
      rw [upd_other _ _ _ _ (fun x => e1 x.symm)]
      omega

theorem openBelow_zero (c : Eid → Bool) (n : Nat) (h : ∀ e, e < n → c e = true) : openBelow c n = 0 := by
  induction n with
  | zero => rfl
  | succ n ih => simp only [openBelow]; rw [ih (fun e he => h e (Nat.lt_succ_of_lt he)), h n (Nat.lt_succ_self n)]; rfl

/-- closing endpoint `e < nep`: the counter follows the count -/
theorem pumps_close (s : State) (e : Eid) (he : e < s.nep) (h : s.pumps = openBelow s.closed s.nep) :
    closePump s e = openBelow (upd s.closed e true) s.nep := by
  have := openBelow_close s.closed s.nep e he
  unfold closePump
  split <;> simp_all <;> omega

theorem pinv_move (s s' : State) (t : Tid) (pc' : Pc) (h : PInv s)
    (hhooks : s'.hooks = s.hooks) (hn : s'.nep = s.nep) (hcl : s'.closed = s.closed) (hp : s'.pumps = s.pumps)
    (hthr : s'.thr = upd s.thr t pc')
    (hm : ∀ e, e ∈ mentions pc' → e ∈ mentions (s.thr t)) (he : isEarly pc' = false) : PInv s' := by
  refine ⟨?_, ?_, ?_, ?_⟩
  · intro t' e hme
    rw [hn]; rw [hthr] at hme
    by_cases e1 : t' = t
    · subst e1; rw [upd_same] at hme; exact h.thr t' e (hm e hme)
    · rw [upd_other _ _ _ _ e1] at hme; exact h.thr t' e hme
  · intro p q e hme; rw [hn]; rw [hhooks] at hme; exact h.hk p q e hme
  · rw [hp, hcl, hn]; exact h.pumps
  · intro t'
    rw [hthr]
    by_cases e1 : t' = t
    · subst e1; rw [upd_same]; exact he
    · rw [upd_other _ _ _ _ e1]; exact h.early t'

theorem pinv_step (s s' : State) (t : Tid) (ev : Ev) (h : PInv s) (hs : step s t = some (s', ev)) : PInv s' := by
  have ho : ∀ (pc' : Pc) (t' : Tid), t' ≠ t → upd s.thr t pc' t' = s.thr t' := fun pc' t' ht' => upd_other _ _ _ _ ht'
  cases hpc : s.thr t with
  | idle => simp [step, hpc] at hs
  | openChk q p =>
    simp only [step, hpc] at hs
    split at hs <;> (cases hs; exact pinv_move s _ t _ h rfl rfl rfl rfl rfl (by intro e x; simp [mentions] at x) rfl)
  | openRd q p =>
    simp only [step, hpc] at hs
    split at hs
    · split at hs <;> (cases hs; exact pinv_move s _ t _ h rfl rfl rfl rfl rfl (by intro e x; simp [mentions] at x) rfl)
    · cases hs
  | openWant q p =>
    simp only [step, hpc] at hs
    split at hs
    · cases hs; exact pinv_move s _ t _ h rfl rfl rfl rfl rfl (by intro e x; simp [mentions] at x) rfl
    · cases hs
  | openHold q p =>
    simp only [step, hpc] at hs
    split at hs
    · cases hs; exact pinv_move s _ t _ h rfl rfl rfl rfl rfl (by intro e x; simp [mentions] at x) rfl
    · cases hs
      refine ⟨?_, ?_, ?_, ?_⟩
      · intro t' e hme
        by_cases e1 : t' = t
        · subst e1
          simp only [upd_same, mentions, List.mem_singleton] at hme
          subst hme; exact Nat.lt_succ_self _
        · simp only [ho _ t' e1] at hme; exact Nat.lt_succ_of_lt (h.thr t' e hme)
      · intro p' q' e hme; exact Nat.lt_succ_of_lt (h.hk p' q' e hme)
      · show s.pumps + 1 = openBelow (upd s.closed s.nep false) (s.nep + 1)
        simp only [openBelow, upd_same]
        rw [openBelow_congr (upd s.closed s.nep false) s.closed s.nep (fun i hi => upd_other _ _ _ _ (Nat.ne_of_lt hi)), h.pumps]
        simp
      · intro t'
        by_cases e1 : t' = t
        · subst e1; simp [isEarly]
        · simp only [ho _ t' e1]; exact h.early t'
  | openGap q p e =>
    simp only [step, hpc] at hs
    split at hs
    · cases hs; exact pinv_move s _ t _ h rfl rfl rfl rfl rfl (by intro e' x; rw [hpc]; simpa [mentions, kEps] using x) rfl
    · cases hs
      have hb : e < s.nep := h.thr t e (by rw [hpc]; simp [mentions])
      refine ⟨?_, ?_, h.pumps, ?_⟩
      · intro t' e' hme
        by_cases e1 : t' = t
        · subst e1; simp [mentions] at hme
        · simp only [ho _ t' e1] at hme; exact h.thr t' e' hme
      · intro p' q' e' hme
        have hme' : (q', e') ∈ upd s.hooks p ((q, e) :: s.hooks p) p' := hme
        by_cases e1 : p' = p
        · subst e1
          simp only [upd_same, List.mem_cons, Prod.mk.injEq] at hme'
          rcases hme' with ⟨_, rfl⟩ | hme'
          · exact hb
          · exact h.hk p' q' e' hme'
        · rw [upd_other _ _ _ _ e1] at hme'; exact h.hk p' q' e' hme'
      · intro t'
        by_cases e1 : t' = t
        · subst e1; simp [isEarly]
        · simp only [ho _ t' e1]; exact h.early t'
  | hookWant q p e k =>
    simp only [step, hpc] at hs
    split at hs
    · cases hs; exact pinv_move s _ t _ h rfl rfl rfl rfl rfl (by intro e' x; rw [hpc]; simpa [mentions] using x) rfl
    · cases hs
  | hookHold q p e k =>
    simp only [step, hpc] at hs
    cases hs; exact pinv_move s _ t _ h rfl rfl rfl rfl rfl (by intro e' x; rw [hpc]; simpa [mentions] using x) rfl
  | hookClose p e k =>
    simp only [step, hpc] at hs
    cases hs
    have hb : e < s.nep := h.thr t e (by rw [hpc]; simp [mentions])
    refine ⟨?_, h.hk, pumps_close s e hb h.pumps, ?_⟩
    · intro t' e' hme
      by_cases e1 : t' = t
      · subst e1
        simp only [upd_same] at hme
        refine h.thr t' e' ?_
        rw [hpc]
        cases k with
        | ret => simp [Kont.next, mentions] at hme
        | exit rest => simp only [Kont.next, mentions] at hme; simp only [mentions, kEps, List.mem_cons]; exact Or.inr hme
      · simp only [ho _ t' e1] at hme; exact h.thr t' e' hme
    · intro t'
      by_cases e1 : t' = t
      · subst e1; simp only [upd_same]; cases k <;> rfl
      · simp only [ho _ t' e1]; exact h.early t'
  | closeWant q =>
    simp only [step, hpc] at hs
    split at hs
    · cases hs; exact pinv_move s _ t _ h rfl rfl rfl rfl rfl (by intro e x; simp [mentions] at x) rfl
    · cases hs
  | closeHold q =>
    simp only [step, hpc] at hs
    cases hs
    refine ⟨?_, h.hk, h.pumps, ?_⟩
    · intro t' e' hme
      by_cases e1 : t' = t
      · subst e1
        simp only [upd_same, mentions, taken, List.mem_filter, List.mem_range] at hme
        exact hme.1
      · simp only [ho _ t' e1] at hme; exact h.thr t' e' hme
    · intro t'
      by_cases e1 : t' = t
      · subst e1; simp [isEarly]
      · simp only [ho _ t' e1]; exact h.early t'
  | closeAll es =>
    match es with
    | [] =>
      simp only [step, hpc] at hs
      cases hs; exact pinv_move s _ t _ h rfl rfl rfl rfl rfl (by intro e x; simp [mentions] at x) rfl
    | e :: rest =>
      simp only [step, hpc] at hs
      cases hs
      have hb : e < s.nep := h.thr t e (by rw [hpc]; simp [mentions])
      refine ⟨?_, h.hk, pumps_close s e hb h.pumps, ?_⟩
      · intro t' e' hme
        by_cases e1 : t' = t
        · subst e1
          simp only [upd_same, mentions] at hme
          exact h.thr t' e' (by rw [hpc]; simp [mentions, hme])
        · simp only [ho _ t' e1] at hme; exact h.thr t' e' hme
      · intro t'
        by_cases e1 : t' = t
        · subst e1; simp [isEarly]
        · simp only [ho _ t' e1]; exact h.early t'
  | exitFlip p =>
    simp only [step, hpc] at hs
    split at hs
    · cases hs; exact pinv_move s _ t _ h rfl rfl rfl rfl rfl (by intro e x; simp [mentions] at x) rfl
    · cases hs
      refine ⟨?_, ?_, h.pumps, ?_⟩
      · intro t' e' hme
        by_cases e1 : t' = t
        · subst e1
          simp only [upd_same, mentions, List.mem_map] at hme
          obtain ⟨⟨q', e''⟩, hm1, rfl⟩ := hme
          exact h.hk p q' e'' hm1
        · simp only [ho _ t' e1] at hme; exact h.thr t' e' hme
      · intro p' q' e' hme
        have hme' : (q', e') ∈ upd s.hooks p [] p' := hme
        by_cases e1 : p' = p
        · subst e1; simp at hme'
        · rw [upd_other _ _ _ _ e1] at hme'; exact h.hk p' q' e' hme'
      · intro t'
        by_cases e1 : t' = t
        · subst e1; simp [isEarly]
        · simp only [ho _ t' e1]; exact h.early t'
  | exitRun p hks =>
    match hks with
    | [] =>
      simp only [step, hpc] at hs
      cases hs; exact pinv_move s _ t _ h rfl rfl rfl rfl rfl (by intro e x; simp [mentions] at x) rfl
    | (q, e) :: rest =>
      simp only [step, hpc] at hs
      cases hs; exact pinv_move s _ t _ h rfl rfl rfl rfl rfl (by intro e' x; rw [hpc]; simpa [mentions, kEps] using x) rfl
  | openHoldE q p e => simp [step, hpc] at hs

theorem pinv_init : PInv init := by
  refine ⟨?_, ?_, rfl, ?_⟩
  · intro t e h; simp [init, mentions] at h
  · intro p q e h; simp [init] at h
  · intro t; rfl

theorem pinv_apply (s : State) (a : Act) (h : PInv s) : PInv (apply s a) := by
  cases a with
  | call t c =>
    simp only [apply]
    split
    · exact pinv_move s _ t _ h rfl rfl rfl rfl rfl (by intro e x; cases c <;> simp [Call.entry, mentions] at x) (by cases c <;> rfl)
    · exact h
  | step t =>
    simp only [apply]
    cases hst : step s t with
    | none => exact h
    | some pr => obtain ⟨s', e⟩ := pr; exact pinv_step s s' t e h hst

theorem pinv_reach (sched : List Act) : PInv (run init sched) := by
  suffices ∀ s, PInv s → PInv (run s sched) from this init pinv_init
  induction sched with
  | nil => intro s h; exact h
  | cons a as ih => intro s h; exact ih _ (pinv_apply s a h)

end Uniflow.PortMaps
