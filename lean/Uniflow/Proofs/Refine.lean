/-
The store model refines the reference store (Spec/RefStore.lean) on every history without unique `Index` operations
(Props/C10.lean `store_refines`). Core Lean only.
-/
import Uniflow.Proofs.Indep
import Uniflow.Spec.RefStore

namespace Uniflow.Index
open Uniflow.Value Uniflow.Store Uniflow.Plan Uniflow.Query Uniflow.RefStore

theorem findDocs_eq (docs : List (Val × PList)) (f : Option Val) : findDocs docs f = rFind docs f := by
  cases f <;> rfl

/-! ### one document -/

theorem segStore_ref {s : State} (h : Inv2 s) (d : PList) :
    (segStore s d).2 = (rInsertOne s.docs d).2 ∧ (segStore s d).1.docs = (rInsertOne s.docs d).1 := by
  have c := segStore_char h.full.cons d
  rw [firstConflict_builtin h.full.cons h.uniq] at c
  rw [c.1, c.2]
  unfold rInsertOne storeDocs storeRes
  simp only
  by_cases h1 : isNil (mget d keyId) = true
  · simp [h1]
  · by_cases h2 : (getDoc s.docs (mget d keyId)).isSome = true
    · simp [h1, h2]
    · simp [h1, h2]

theorem segSwap_ref {s : State} (h : Inv2 s) (d : PList) :
    (segSwap s d).2 = (rReplaceOne s.docs d).2 ∧ (segSwap s d).1.docs = (rReplaceOne s.docs d).1 := by
  have c := segSwap_char h.full.cons d
  rw [firstConflict_builtin h.full.cons h.uniq] at c
  rw [c.1, c.2]
  unfold rReplaceOne swapDocs swapRes
  simp only
  by_cases h1 : isNil (mget d keyId) = true
  · simp [h1]
  · by_cases h2 : (getDoc s.docs (mget d keyId)).isNone = true
    · simp [h1, h2]
    · simp [h1, h2]

theorem segDelete_ref {s : State} (h : Inv2 s) (id : Val) :
    (segDelete s id).2 = (rRemoveOne s.docs id).2 ∧ (segDelete s id).1.docs = (rRemoveOne s.docs id).1 := by
  have c := segDelete_char h.full.cons id
  rw [c.1, c.2]
  unfold rRemoveOne
  by_cases h2 : (getDoc s.docs id).isNone = true
  · simp [h2]
  · simp [h2]

/-! ### the loops -/

theorem storeInsert_ref : ∀ (ds : List PList) {s : State}, Inv2 s →
    (storeInsert s ds).2 = (rInsert s.docs ds).2 ∧ (storeInsert s ds).1.docs = (rInsert s.docs ds).1
  | [], _, _ => ⟨rfl, rfl⟩
  | d :: ds, s, h => by
    have href := segStore_ref h d
    have hi := Inv2_segStore h d
    simp only [storeInsert, rInsert]
    cases r1 : segStore s d with
    | mk a1 e1 =>
      cases r2 : rInsertOne s.docs d with
      | mk a2 e2 =>
        rw [r1, r2] at href
        rw [r1] at hi
        simp only at href
        obtain ⟨he, hd⟩ := href
        subst he
        cases e1 with
        | none =>
          have := storeInsert_ref ds hi
          simp only at this ⊢
          rw [hd] at this
          exact this
        | some r => exact ⟨rfl, hd⟩

theorem swapAll_ref : ∀ (ds : List PList) {s : State}, Inv2 s →
    (swapAll s ds).2 = (rReplaceAll s.docs ds).2 ∧ (swapAll s ds).1.docs = (rReplaceAll s.docs ds).1
  | [], _, _ => ⟨rfl, rfl⟩
  | d :: ds, s, h => by
    have href := segSwap_ref h d
    have hi := Inv2_segSwap h d
    simp only [swapAll, rReplaceAll]
    cases r1 : segSwap s d with
    | mk a1 e1 =>
      cases r2 : rReplaceOne s.docs d with
      | mk a2 e2 =>
        rw [r1, r2] at href
        rw [r1] at hi
        simp only at href
        obtain ⟨he, hd⟩ := href
        subst he
        cases e1 with
        | none =>
          have := swapAll_ref ds hi
          simp only at this ⊢
          rw [hd] at this
          exact this
        | some r => exact ⟨rfl, hd⟩

theorem deleteAll_ref : ∀ (ds : List PList) {s : State}, Inv2 s →
    (deleteAll s ds).2 = (rRemoveAll s.docs ds).2 ∧ (deleteAll s ds).1.docs = (rRemoveAll s.docs ds).1
  | [], _, _ => ⟨rfl, rfl⟩
  | d :: ds, s, h => by
    have href := segDelete_ref h (mget d keyId)
    have hi := Inv2_segDelete h (mget d keyId)
    simp only [deleteAll, rRemoveAll]
    cases r1 : segDelete s (mget d keyId) with
    | mk a1 e1 =>
      cases r2 : rRemoveOne s.docs (mget d keyId) with
      | mk a2 e2 =>
        rw [r1, r2] at href
        rw [r1] at hi
        simp only at href
        obtain ⟨he, hd⟩ := href
        subst he
        cases e1 with
        | none =>
          have := deleteAll_ref ds hi
          simp only at this ⊢
          rw [hd] at this
          exact this
        | some r => exact ⟨rfl, hd⟩

theorem liftN_ref {m : Mut} {m' : Docs × Option (Res Unit)} (n : Nat) (h : m.2 = m'.2 ∧ m.1.docs = m'.1) :
    (liftN m n).2 = (liftR m' n).2 ∧ (liftN m n).1.docs = (liftR m' n).1 := by
  obtain ⟨a1, e1⟩ := m
  obtain ⟨a2, e2⟩ := m'
  simp only at h
  obtain ⟨rfl, hd⟩ := h
  cases e1 with
  | none => exact ⟨rfl, hd⟩
  | some r => cases r <;> exact ⟨rfl, hd⟩

/-! ### the operations -/

theorem storeUpdate_ref {s : State} (h : Inv2 s) (f : Option Val) (u : PList) (up : Bool) :
    (storeUpdate s f u up).2 = (rUpdate s.docs f u up).2 ∧ (storeUpdate s f u up).1.docs = (rUpdate s.docs f u up).1 := by
  unfold storeUpdate rUpdate
  rw [find_docs h, findDocs_eq]
  cases rFind s.docs f with
  | err e => exact ⟨rfl, rfl⟩
  | panic => exact ⟨rfl, rfl⟩
  | ok docs =>
    simp only
    cases patch .nil u with
    | err e => exact ⟨rfl, rfl⟩
    | panic => exact ⟨rfl, rfl⟩
    | ok _ =>
      simp only
      by_cases hup : (up && docs.isEmpty) = true
      · simp only [hup, if_true]
        cases f with
        | none => exact ⟨rfl, rfl⟩
        | some g =>
          simp only
          cases extract g with
          | err e => exact ⟨rfl, rfl⟩
          | panic => exact ⟨rfl, rfl⟩
          | ok v =>
            cases v with
            | map d =>
              simp only
              cases patch d u with
              | ok d' => exact liftN_ref 1 (segStore_ref h d')
              | err e => exact ⟨rfl, rfl⟩
              | panic => exact ⟨rfl, rfl⟩
            | _ => exact ⟨rfl, rfl⟩
      · simp only [hup, Bool.false_eq_true, if_false]
        cases patchAll u docs with
        | ok ds => exact liftN_ref _ (swapAll_ref ds h)
        | err e => exact ⟨rfl, rfl⟩
        | panic => exact ⟨rfl, rfl⟩

theorem storeDelete_ref {s : State} (h : Inv2 s) (f : Option Val) :
    (storeDelete s f).2 = (rDelete s.docs f).2 ∧ (storeDelete s f).1.docs = (rDelete s.docs f).1 := by
  unfold storeDelete rDelete
  rw [find_docs h, findDocs_eq]
  cases rFind s.docs f with
  | err e => exact ⟨rfl, rfl⟩
  | panic => exact ⟨rfl, rfl⟩
  | ok docs => exact liftN_ref _ (deleteAll_ref docs h)

/-- building a non-unique index over documents that all carry an id cannot fail -/
theorem build_nonunique_ok : ∀ (docs : List (Val × PList)) (idx : Index), idx.unique = false →
    (∀ p ∈ docs, isNil (mget p.2 keyId) = false) → ∃ idx', build idx docs = .ok idx'
  | [], idx, _, _ => ⟨idx, rfl⟩
  | (i, d) :: rest, idx, hu, hid => by
    have hd := hid (i, d) (by simp)
    have : ∃ idx1, index idx d = .ok idx1 ∧ idx1.unique = false := by
      unfold index
      simp only [hd, Bool.false_eq_true, if_false, hu, Bool.false_and]
      split
      · exact ⟨idx, rfl, hu⟩
      · split
        · exact ⟨idx, rfl, hu⟩
        · exact ⟨_, rfl, rfl⟩
    obtain ⟨idx1, h1, hu1⟩ := this
    obtain ⟨idx', h'⟩ := build_nonunique_ok rest idx1 hu1 (fun p hp => hid p (by simp [hp]))
    exact ⟨idx', by simp [build, h1, Res.bind, h']⟩

theorem rStep_find (docs : Docs) (f : Option Val) (sort : Option PList) (skip limit : Nat) :
    rStep docs (.find f sort skip limit) = (docs, findOut (rFindAll docs f sort skip limit)) := by
  simp only [rStep]; split <;> simp_all [findOut]

theorem storeFind_ref {s : State} (h : Inv2 s) (f : Option Val) (sort : Option PList) (skip limit : Nat) :
    storeFind s f sort skip limit = rFindAll s.docs f sort skip limit := by
  simp only [storeFind, rFindAll]
  rw [find_docs h, findDocs_eq]
  cases sort <;> rfl

theorem step_ref {s : State} (h : Inv2 s) {op : Op} (hn : NonUniqueOp op) :
    (step s op).2 = (rStep s.docs op).2 ∧ (step s op).1.docs = (rStep s.docs op).1 := by
  cases op with
  | insert ds =>
    have := storeInsert_ref ds h
    simp only [step, rStep]; rw [this.1]; exact ⟨rfl, this.2⟩
  | update f u up =>
    have := storeUpdate_ref h f u up
    simp only [step, rStep]; rw [this.1]; exact ⟨rfl, this.2⟩
  | delete f =>
    have := storeDelete_ref h f
    simp only [step, rStep]; rw [this.1]; exact ⟨rfl, this.2⟩
  | find f sort skip limit =>
    have e1 : (step s (.find f sort skip limit)).1 = s := by simp only [step]; split <;> rfl
    have e2 : (step s (.find f sort skip limit)).2 = findOut (storeFind s f sort skip limit) := by
      simp only [step]; split <;> simp_all [findOut]
    rw [e1, e2, rStep_find, storeFind_ref h]
    exact ⟨rfl, rfl⟩
  | index keys u f =>
    simp only [NonUniqueOp] at hn
    subst hn
    obtain ⟨idx', hb⟩ := build_nonunique_ok s.docs { keys := keys, unique := false, filter := f, entries := [] } rfl
      (fun p hp => (h.full.cons.stored p hp).1)
    simp [step, rStep, storeIndex, hb, outOfMut]
  | unindex keys => exact ⟨rfl, rfl⟩

/-- the answers of a history, one per operation -/
def allOuts (s : State) : List Op → List Out
  | [] => []
  | op :: ops => (step s op).2 :: allOuts (step s op).1 ops

theorem run_ref : ∀ (ops : List Op) {s : State}, Inv2 s → (∀ op ∈ ops, GoodOp op ∧ NonUniqueOp op) →
    allOuts s ops = rOuts s.docs ops ∧ (run s ops).docs = rRun s.docs ops
  | [], _, _, _ => ⟨rfl, rfl⟩
  | op :: ops, s, h, hops => by
    have hop := hops op (by simp)
    have hs := step_ref h hop.2
    have := run_ref ops (Inv2_step h hop.1 hop.2) (fun o ho => hops o (by simp [ho]))
    simp only [allOuts, rOuts, run, rRun]
    rw [hs.1, this.1, this.2, hs.2]
    exact ⟨rfl, rfl⟩

end Uniflow.Index
