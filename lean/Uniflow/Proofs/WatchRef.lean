/-
The events of the store-with-watchers (Model/Watch.lean) in terms of the reference store with unique constraints
(Spec/RefStoreU.lean): which documents a store operation emits events for is decided by the reference store alone
(Props/C13Store.lean `store_events_ref`). Core Lean only.
-/
import Uniflow.Proofs.Watch
import Uniflow.Proofs.RefineU

namespace Uniflow.Watch
open Uniflow.Value Uniflow.Store Uniflow.Index Uniflow.Query Uniflow.RefStore Uniflow.RefStoreU

/-! ### the accepted documents of an operation, by the reference store -/

def uInsertEvents (r : RState) : List PList → List (PList × Nat)
  | [] => []
  | d :: ds =>
    match uInsertOne r d with
    | (r', none) => (d, opInsert) :: uInsertEvents r' ds
    | _ => []

def uReplaceEvents (r : RState) : List PList → List (PList × Nat)
  | [] => []
  | d :: ds =>
    match uReplaceOne r d with
    | (r', none) => (d, opUpdate) :: uReplaceEvents r' ds
    | _ => []

def uRemoveEvents (r : RState) : List PList → List (PList × Nat)
  | [] => []
  | d :: ds =>
    match uRemoveOne r (mget d keyId) with
    | (r', none) => (d, opDelete) :: uRemoveEvents r' ds
    | _ => []

/-- the documents of the successful mutations of one operation, with their op code, by the reference store: the inserted
documents up to the first rejected one; the patched versions of the matching documents up to the first rejected one (or
the inserted upsert document); the deleted documents -/
def uEvents (r : RState) : Index.Op → List (PList × Nat)
  | .insert ds => uInsertEvents r ds
  | .update filter u upsert =>
    match rFind r.docs filter with
    | .ok docs =>
      match patch .nil u with
      | .ok _ =>
        if upsert && docs.isEmpty then
          match (match filter with | some f => extract f | none => .ok .nil) with
          | .ok (.map d) =>
            match patch d u with
            | .ok d' =>
              match uInsertOne r d' with
              | (_, none) => [(d', opInsert)]
              | _ => []
            | _ => []
          | _ => []
        else
          match patchAll u docs with
          | .ok ds => uReplaceEvents r ds
          | _ => []
      | _ => []
    | _ => []
  | .delete filter =>
    match rFind r.docs filter with
    | .ok docs => uRemoveEvents r docs
    | _ => []
  | _ => []

theorem insertEvents_ref : ∀ (ds : List PList) {s : State}, InvU s → insertEvents s ds = uInsertEvents (absOf s) ds
  | [], _, _ => rfl
  | d :: ds, s, h => by
    have href := segStore_refU h d
    have hi := InvU_segStore h d
    simp only [insertEvents, uInsertEvents]
    cases r1 : segStore s d with
    | mk a1 e1 =>
      cases r2 : uInsertOne (absOf s) d with
      | mk a2 e2 =>
        rw [r1, r2] at href
        rw [r1] at hi
        simp only at href
        obtain ⟨he, hd⟩ := href
        subst he
        cases e1 with
        | none => simp only; rw [insertEvents_ref ds hi, hd]
        | some r => rfl

theorem swapEvents_ref : ∀ (ds : List PList) {s : State}, InvU s → swapEvents s ds = uReplaceEvents (absOf s) ds
  | [], _, _ => rfl
  | d :: ds, s, h => by
    have href := segSwap_refU h d
    have hi := InvU_segSwap h d
    simp only [swapEvents, uReplaceEvents]
    cases r1 : segSwap s d with
    | mk a1 e1 =>
      cases r2 : uReplaceOne (absOf s) d with
      | mk a2 e2 =>
        rw [r1, r2] at href
        rw [r1] at hi
        simp only at href
        obtain ⟨he, hd⟩ := href
        subst he
        cases e1 with
        | none => simp only; rw [swapEvents_ref ds hi, hd]
        | some r => rfl

theorem deleteEvents_ref : ∀ (ds : List PList) {s : State}, InvU s → deleteEvents s ds = uRemoveEvents (absOf s) ds
  | [], _, _ => rfl
  | d :: ds, s, h => by
    have href := segDelete_refU h (mget d keyId)
    have hi := InvU_segDelete h (mget d keyId)
    simp only [deleteEvents, uRemoveEvents]
    cases r1 : segDelete s (mget d keyId) with
    | mk a1 e1 =>
      cases r2 : uRemoveOne (absOf s) (mget d keyId) with
      | mk a2 e2 =>
        rw [r1, r2] at href
        rw [r1] at hi
        simp only at href
        obtain ⟨he, hd⟩ := href
        subst he
        cases e1 with
        | none => simp only; rw [deleteEvents_ref ds hi, hd]
        | some r => rfl

/-- the events of a store operation are the reference store's -/
theorem events_ref {s : State} (h : InvU s) (op : Index.Op) : events s op = uEvents (absOf s) op := by
  cases op with
  | insert ds => exact insertEvents_ref ds h
  | update f u up =>
    simp only [events, uEvents]
    rw [find_docsU h]
    simp only [absOf]
    cases rFind s.docs f with
    | err e => rfl
    | panic => rfl
    | ok docs =>
      simp only
      cases patch .nil u with
      | err e => rfl
      | panic => rfl
      | ok _ =>
        simp only
        by_cases hup : (up && docs.isEmpty) = true
        · simp only [hup, if_true]
          cases f with
          | none => rfl
          | some g =>
            simp only
            cases extract g with
            | err e => rfl
            | panic => rfl
            | ok v =>
              cases v with
              | map d =>
                simp only
                cases patch d u with
                | ok d' =>
                  simp only
                  have href := segStore_refU h d'
                  cases r1 : segStore s d' with
                  | mk a1 e1 =>
                    cases r2 : uInsertOne (absOf s) d' with
                    | mk a2 e2 =>
                      rw [r1, r2] at href
                      simp only at href
                      have he := href.1
                      subst he
                      simp only [absOf] at r2
                      rw [r2]
                      cases e1 <;> rfl
                | err e => rfl
                | panic => rfl
              | _ => rfl
        · simp only [hup, Bool.false_eq_true, if_false]
          cases patchAll u docs with
          | ok ds => exact swapEvents_ref ds h
          | err e => rfl
          | panic => rfl
  | delete f =>
    simp only [events, uEvents]
    rw [find_docsU h]
    simp only [absOf]
    cases rFind s.docs f with
    | err e => rfl
    | panic => rfl
    | ok docs => exact deleteEvents_ref docs h
  | find _ _ _ _ => rfl
  | index _ _ _ => rfl
  | unindex _ => rfl

end Uniflow.Watch
