/-
C02, joint model, nodes with several in-ports, part 3: the common part of the steps that update ONE request of
reader `i` (accepted `Write`, a filled cell, the echo) while the log changes at one key of that request; dropping
answered requests; `flushR` on reader `r`.
-/
import Uniflow.Proofs.FlowM2

namespace Uniflow.FlowM
open Uniflow.Tracer Uniflow.Node Uniflow.Flow Uniflow.FlowInv Uniflow.FlowG Uniflow.ATracer Uniflow.FlowH

/-- fewer requests, same log -/
theorem nlt_sub (lg : Log) (n : Nat) (i : Rid) (th : Thread) (a a' : A) (h : NLt lg n i th a)
    (hreq : ∀ y ∈ a'.reqs, y.r = i → y ∈ a.reqs) : NLt lg n i th a' :=
  ⟨h.inb, fun x hx hr => h.own x (hreq x hx hr) hr, fun x hx hr => h.req x (hreq x hx hr) hr,
   fun x hx hr hst => h.nz x (hreq x hx hr) hr hst, h.wb⟩

theorem mem_updReq_r (p : Pid) (f : RSt → RSt) : ∀ (rs : List Req) (y : Req), y ∈ updReq p f rs → ∃ x ∈ rs, x.r = y.r ∧ x.p = y.p
  | [], y, h => by simp [updReq] at h
  | z :: zs, y, h => by
    simp only [updReq] at h
    split at h
    · simp only [List.mem_cons] at h
      rcases h with e | h
      · exact ⟨z, List.mem_cons_self, by rw [e], by rw [e]⟩
      · exact ⟨y, List.mem_cons_of_mem _ h, rfl, rfl⟩
    · simp only [List.mem_cons] at h
      rcases h with e | h
      · exact ⟨z, List.mem_cons_self, by rw [e], by rw [e]⟩
      · obtain ⟨x, hx, e1, e2⟩ := mem_updReq_r p f zs y h
        exact ⟨x, List.mem_cons_of_mem _ hx, e1, e2⟩

/-- one request `x` of reader `i` is updated by `f`, the log changes at a key `k` that belongs to `x` -/
theorem nlt_upd (lg lg' : Log) (n : Nat) (i : Rid) (inbox : List Pkt) (pc pc' : PC) (a a' : A) (k : Pid)
    (h : NLt lg n i { inbox := inbox, pc := pc } a) (hnd : (ids a.reqs).Nodup)
    (x : Req) (hx : x ∈ a.reqs) (hxr : x.r = i) (hk : k ∈ idsR x) (f : RSt → RSt)
    (ha' : a'.reqs = updReq x.p f a.reqs)
    (t : Tr lg lg' k) (hpc : ∀ p', remFor pc' p' = remFor pc p')
    (hact : ∀ pk grp, pc = .action pk grp → pc' = .action pk grp)
    (hact2 : ∀ w q', (pc = .emit [.write w q'] ∨ pc = .emit [.link q'.id q'.id, .write w q']) →
      pc' = pc ∨ q'.id = x.p ∨ q'.id = k) (hwb' : wOK pc')
    (hki : ∀ y ∈ inbox, y.id ≠ k)
    (hkr : ∀ y ∈ a.reqs, y.r = i → y.p ≠ x.p → k ∉ remFor pc y.p)
    (ho : ∀ id ∈ nlIdsT i { inbox := inbox, pc := pc } a, aget lg'.owner id = aget lg.owner id)
    (hX' : ReqB lg' n pc' { x with st := f x.st }) (hXz : f x.st ≠ .cells []) :
    NLt lg' n i { inbox := inbox, pc := pc' } a' := by
  have hcases := mem_updReq_cases x.p f a.reqs
  have hoth : ∀ y ∈ a.reqs, y.p ≠ x.p → ∀ id ∈ idsR y, id ≠ k := by
    intro y hy hne id hid e
    have := mem_unique a.reqs y x k hnd hy hx (e ▸ hid) hk
    rw [this] at hne; exact hne rfl
  refine ⟨?_, ?_, ?_, ?_, hwb'⟩
  · intro y hy
    obtain ⟨u, o⟩ := h.inb y hy
    exact ⟨t.unl y.id (hki y hy) u, by rw [ho _ (nlT_inb i _ a y hy)]; exact o⟩
  · intro y hy hyr
    rw [ha'] at hy
    rcases hcases y (nodup_p _ hnd) hy with ⟨h1, _⟩ | ⟨z, h1, _, h3⟩
    · rw [ho _ (nlT_req i _ a y h1 hyr)]; exact h.own y h1 hyr
    · rw [h3] at hyr ⊢
      show aget lg'.owner z.p = _
      rw [ho _ (nlT_req i _ a z h1 hyr)]; exact h.own z h1 hyr
  · intro y hy hyr
    rw [ha'] at hy
    rcases hcases y (nodup_p _ hnd) hy with ⟨h1, h2⟩ | ⟨z, h1, h2, h3⟩
    · apply reqB_tr lg lg' k t n pc pc' y (hpc y.p) (hoth y h1 h2 y.p (by simp [idsR])) _ _ (h.req y h1 hyr)
      · intro q' hq'
        refine ⟨hoth y h1 h2 q' ?_, ho _ (nlT_linked i _ a y h1 hyr q' hq')⟩
        simp only [idsR, List.mem_cons]; right; exact linkedIds_sub_open _ q' hq'
      · intro q' hq'
        exact ⟨fun e => hkr y h1 hyr h2 (e ▸ hq'), ho _ (nlT_rem i _ a y h1 hyr q' hq')⟩
    · have hze : z = x := mem_unique a.reqs z x x.p hnd h1 hx (by simp [idsR, h2]) (by simp [idsR])
      subst hze
      rw [h3]; exact hX'
  · intro y hy hyr hst
    rw [ha'] at hy
    rcases hcases y (nodup_p _ hnd) hy with ⟨h1, h2⟩ | ⟨z, h1, h2, h3⟩
    · rcases h.nz y h1 hyr hst with e | ⟨pk, grp, e, e2⟩ | ⟨w, q', e, e2⟩
      · left; rw [hpc]; exact e
      · exact Or.inr (Or.inl ⟨pk, grp, hact pk grp e, e2⟩)
      · rcases hact2 w q' (by rw [e2]; exact e) with e3 | e3 | e3
        · exact Or.inr (Or.inr ⟨w, q', by rw [e3]; exact e, e2⟩)
        · exact absurd (e2.symm.trans e3) h2
        · exact absurd (e2.symm.trans e3) (hoth y h1 h2 y.p (by simp [idsR]))
    · have hze : z = x := mem_unique a.reqs z x x.p hnd h1 hx (by simp [idsR, h2]) (by simp [idsR])
      subst hze
      rw [h3] at hst
      exact absurd hst hXz

theorem replyEv_ansOfR (r : Rid) : ∀ (pre : List Req), pre.flatMap (replyEv r) = (pre.flatMap ansOf).map (fun d => Ev.reply r d.2)
  | [] => rfl
  | x :: xs => by
    simp only [List.flatMap_cons, List.map_append, replyEv_ansOfR r xs]
    congr 1
    simp only [replyEv, ansOf]
    cases reply x.st <;> rfl

/-- `flushR r`: a complete prefix of reader `r`'s requests leaves, one reply each; the others stay -/
theorem flush_dsR (r : Rid) (rs : List Req) :
    ∃ pre, rs.filter (fun x => x.r = r) = pre ++ (flushR r rs).1.filter (fun x => x.r = r) ∧
      (flushR r rs).2 = (pre.flatMap ansOf).map (fun d => Ev.reply r d.2) ∧
      (∀ x ∈ pre, ∃ b, reply x.st = some b) ∧ (∀ x ∈ pre, x ∈ rs ∧ x.r = r) := by
  obtain ⟨pre, h1, h2, h3, _⟩ := flushR_spec r rs
  refine ⟨pre, h1, by rw [h3, replyEv_ansOfR], h2, ?_⟩
  intro x hx
  have : x ∈ rs.filter (fun x => x.r = r) := by rw [h1]; exact List.mem_append_left _ hx
  simpa using List.mem_filter.mp this

end Uniflow.FlowM
