/-
Two invariants of the abstract tracer (`Uniflow.ATracer`) along every protocol-conforming call
history, and what follows from them once the loops of a process have ended. Used by `Props/C05.lean`.

* `HF` – the oldest request of every reader is incomplete (complete heads have been answered and left);
* `HC` – whatever a request still waits for (a `written q w` cell, a request written directly to `w`)
         is queued on that writer (`q ∈ wq w`) – the converse of `Inv.owed`;
* `no_request_left` – with both, if every request read on a reader of the process is settled (each
  derived packet written or answered) and nothing is queued on the writers of the process, no request
  of the process is left.
-/
import Uniflow.Proofs.ATracer
namespace Uniflow.ATracer
open Uniflow.Tracer
open Uniflow.NodeSpec (PInfo optL)

/-! ### generic facts about `updReq`, heads of readers -/

/-- the first request of reader `r` -/
def headOf (r : Rid) (rs : List Req) : Option Req := rs.find? (fun x => x.r = r)

/-- `HF`: the oldest request of every reader is incomplete (whatever is complete at the head of a
reader's queue has been answered and has left the state). -/
def HF (rs : List Req) : Prop := ∀ r x, headOf r rs = some x → reply x.st = none

theorem mem_updReq_inv (rs : List Req) (p : Pid) (f : RSt → RSt) (y : Req) (h : y ∈ updReq p f rs) :
    y ∈ rs ∨ ∃ y0, findReq p rs = some y0 ∧ y = { y0 with st := f y0.st } := by
  induction rs with
  | nil => simp [updReq] at h
  | cons z zs ih =>
    simp only [updReq] at h
    by_cases e : z.p = p
    · rw [if_pos e] at h
      rcases List.mem_cons.mp h with h1 | h1
      · right; exact ⟨z, by simp [findReq, e], h1⟩
      · left; simp [h1]
    · rw [if_neg e] at h
      rcases List.mem_cons.mp h with h1 | h1
      · left; simp [h1]
      · rcases ih h1 with h2 | ⟨y0, h2, h3⟩
        · left; simp [h2]
        · right; exact ⟨y0, by simp [findReq, e, h2], h3⟩

theorem headOf_updReq (rs : List Req) (p : Pid) (f : RSt → RSt) (r : Rid) (y : Req)
    (h : headOf r (updReq p f rs) = some y) :
    headOf r rs = some y ∨ ∃ y0, findReq p rs = some y0 ∧ y = { y0 with st := f y0.st } := by
  induction rs with
  | nil => simp [updReq, headOf] at h
  | cons z zs ih =>
    simp only [updReq] at h
    by_cases e : z.p = p
    · rw [if_pos e] at h
      simp only [headOf, List.find?_cons] at h ⊢
      by_cases hr : z.r = r
      · have hd : decide (z.r = r) = true := by simpa using hr
        simp only [hd, Option.some.injEq] at h
        right; exact ⟨z, by simp [findReq, e], h.symm⟩
      · simp only [hr, decide_false] at h ⊢
        left; exact h
    · rw [if_neg e] at h
      simp only [headOf, List.find?_cons] at h ⊢
      by_cases hr : z.r = r
      · simp only [hr, decide_true] at h ⊢; left; exact h
      · simp only [hr, decide_false] at h ⊢
        rcases ih h with h2 | ⟨y0, h2, h3⟩
        · left; exact h2
        · right; exact ⟨y0, by simp [findReq, e, h2], h3⟩

theorem hf_updReq (rs : List Req) (p : Pid) (f : RSt → RSt) (h : HF rs)
    (hf : ∀ y0, findReq p rs = some y0 → reply (f y0.st) = none) : HF (updReq p f rs) := by
  intro r y hy
  rcases headOf_updReq rs p f r y hy with h1 | ⟨y0, h1, h2⟩
  · exact h r y h1
  · subst h2; exact hf y0 h1

theorem headOf_filter (r : Rid) (rs : List Req) : headOf r rs = (rs.filter (fun x => x.r = r)).head? := by
  induction rs with
  | nil => rfl
  | cons z zs ih =>
    simp only [headOf, List.find?_cons, List.filter_cons] at ih ⊢
    by_cases hr : z.r = r
    · simp [hr]
    · simp only [hr, decide_false]; exact ih

theorem hf_flushR (r : Rid) (rs : List Req) (h : ∀ r', r' ≠ r → ∀ x, headOf r' rs = some x → reply x.st = none) :
    HF (flushR r rs).1 := by
  intro r' x hx
  by_cases e : r' = r
  · subst e
    rw [headOf_filter] at hx
    obtain ⟨_, _, _, _, h4⟩ := flushR_spec r' rs
    cases hf : (flushR r' rs).1.filter (fun x => x.r = r') with
    | nil => rw [hf] at hx; cases hx
    | cons y rest =>
      rw [hf] at hx; simp at hx; subst hx
      exact h4 y rest hf
  · apply h r' e x
    rw [headOf_filter] at hx ⊢
    rw [filter_flushR_other r r' rs e] at hx
    exact hx

theorem headOf_append (r : Rid) (rs : List Req) (x y : Req) (h : headOf r (rs ++ [x]) = some y) :
    headOf r rs = some y ∨ y = x := by
  simp only [headOf, List.find?_append] at h ⊢
  cases hf : rs.find? (fun x => decide (x.r = r)) with
  | some z => rw [hf] at h; left; simpa using h
  | none =>
    rw [hf] at h
    simp only [Option.none_or, List.find?_cons] at h
    split at h
    · right; simpa using h.symm
    · simp at h

theorem hasNil_append_none {β : Type} (l : List (Option β)) : hasNil (l ++ [none]) = true := by
  induction l with
  | nil => rfl
  | cons d ds ih => cases d <;> simp [hasNil, ih]

theorem reply_linked (cs : List Cell) (q : Pid) : reply (.cells (cs ++ [.linked q])) = none := by
  have hn : hasNil ((cs ++ [Cell.linked q]).map cellVal) = true := by
    simp only [List.map_append, List.map_cons, List.map_nil, cellVal]; exact hasNil_append_none _
  cases h : cs ++ [Cell.linked q] with
  | nil => simp at h
  | cons c cs' => rw [h] at hn; simp only [reply, hn, if_true]

theorem reply_written (cs : List Cell) (k : Pid) (w : Wid) (h : Cell.written k w ∈ cs) : reply (.cells cs) = none := by
  cases cs with
  | nil => simp at h
  | cons c cs' =>
    have := written_hasNil (c :: cs') k w h
    simp only [reply, this, if_true]

theorem headOf_r (r : Rid) (rs : List Req) (y : Req) (h : headOf r rs = some y) : y.r = r := by
  have := List.find?_some h
  simpa using this

/-- after a cell of request `p` was changed by `f`: `afterFill` restores `HF` -/
theorem hf_fill (a : A) (p : Pid) (f : RSt → RSt) (h : HF a.reqs) :
    HF (afterFill a (updReq p f a.reqs) p).1.reqs := by
  have H : ∀ r y, headOf r (updReq p f a.reqs) = some y →
      reply y.st = none ∨ findReq p (updReq p f a.reqs) = some y := by
    intro r y hy
    rcases headOf_updReq a.reqs p f r y hy with h1 | ⟨y0, h1, h2⟩
    · left; exact h r y h1
    · right; subst h2; exact findReq_upd a.reqs p f y0 h1
  unfold afterFill
  cases hx : findReq p (updReq p f a.reqs) with
  | none => exact h
  | some x =>
    simp only []
    cases hr : reply x.st with
    | none =>
      intro r y hy
      rcases H r y hy with h1 | h1
      · exact h1
      · rw [hx] at h1; injection h1 with h1; subst h1; exact hr
    | some ans =>
      simp only []
      apply hf_flushR
      intro r' hne y hy
      rcases H r' y hy with h1 | h1
      · exact h1
      · rw [hx] at h1; injection h1 with h1; subst h1
        exact absurd (headOf_r r' _ _ hy).symm hne

theorem hf_afill (a : A) (k : Pid) (ans : Ans) (h : HF a.reqs) : HF (afill a k ans).1.reqs := by
  unfold afill
  split
  · exact hf_fill a k _ h
  · exact hf_fill a k _ h
  · exact h
  · split
    · exact hf_fill a _ _ h
    · exact h

theorem hf_acall (a : A) (c : Call) (hi : Inv a) (h : HF a.reqs) : HF (acall a c).1.reqs := by
  cases c with
  | read r p =>
    intro r' y hy
    rcases headOf_append r' a.reqs _ y hy with h1 | h1
    · exact h r' y h1
    · subst h1; rfl
  | link p q =>
    simp only [acall, alink]
    split
    · exact h
    · split
      · rename_i x r0 cs hx
        apply hf_updReq _ _ _ h
        intro y0 hy0
        rw [hx] at hy0; injection hy0 with hy0; subst hy0
        exact reply_linked cs q
      · exact h
  | write w k pay acc =>
    simp only [acall, awrite]
    split
    · rename_i w0
      split
      · apply hf_updReq _ _ _ h
        intro y0 _; rfl
      · exact h
      · split
        · rename_i p r0 cs ho
          split
          · rename_i hl
            apply hf_updReq _ _ _ h
            intro y0 hy0
            obtain ⟨hm, cs', hst, _⟩ := ownerOf_spec k a.reqs _ ho
            have := findReq_of_mem a.reqs _ hi.nodup hm
            simp only at this
            rw [this] at hy0; injection hy0 with hy0; subst hy0
            exact reply_written _ k w0 (markWritten_mem k w0 cs hl)
          · exact h
        · exact h
    · exact hf_afill a k pay h
  | answer w ans =>
    simp only [acall, aanswer]
    split
    · exact h
    · exact hf_afill _ _ _ h


/-! ### `HC`: what a request still waits for is queued on its writer -/

def HCreq (wq : List (Wid × List Pid)) (x : Req) : Prop :=
  (∀ w, x.st = .direct w → x.p ∈ getL wq w) ∧
  (∀ cs q w, x.st = .cells cs → Cell.written q w ∈ cs → q ∈ getL wq w)

def HC (a : A) : Prop := ∀ x ∈ a.reqs, HCreq a.wq x

theorem written_fillCell_inv (k : Pid) (a : Ans) (cs : List Cell) (q : Pid) (w : Wid)
    (h : Cell.written q w ∈ fillCell k a cs) : Cell.written q w ∈ cs := by
  induction cs with
  | nil => simp [fillCell] at h
  | cons c cs ih =>
    cases c with
    | linked q' =>
      simp only [fillCell] at h
      split at h
      · simp at h; simp [h]
      · simp at h; simp [ih h]
    | written q' w' =>
      simp only [fillCell] at h
      split at h
      · simp at h; simp [h]
      · rcases List.mem_cons.mp h with e | h'
        · simp [e]
        · simp [ih h']
    | filled b =>
      simp only [fillCell] at h
      simp at h; simp [ih h]

theorem written_markWritten_inv (k : Pid) (w : Wid) (cs : List Cell) (q : Pid) (w' : Wid)
    (h : Cell.written q w' ∈ markWritten k w cs) : Cell.written q w' ∈ cs ∨ (q = k ∧ w' = w) := by
  induction cs with
  | nil => simp [markWritten] at h
  | cons c cs ih =>
    cases c with
    | linked q' =>
      simp only [markWritten] at h
      split at h
      · rename_i e
        rcases List.mem_cons.mp h with e1 | h'
        · right; injection e1 with e2 e3; exact ⟨e2.trans e, e3⟩
        · left; simp [h']
      · rcases List.mem_cons.mp h with e1 | h'
        · cases e1
        · rcases ih h' with h2 | h2
          · left; simp [h2]
          · right; exact h2
    | written q' w2 =>
      simp only [markWritten] at h
      rcases List.mem_cons.mp h with e1 | h'
      · left; simp [e1]
      · rcases ih h' with h2 | h2
        · left; simp [h2]
        · right; exact h2
    | filled b =>
      simp only [markWritten] at h
      rcases List.mem_cons.mp h with e1 | h'
      · cases e1
      · rcases ih h' with h2 | h2
        · left; simp [h2]
        · right; exact h2

/-- with unique request ids an update leaves every other request alone -/
theorem mem_updReq_nodup (rs : List Req) (p : Pid) (f : RSt → RSt) (y : Req) (hnd : (rs.map (·.p)).Nodup)
    (h : y ∈ updReq p f rs) :
    (y ∈ rs ∧ y.p ≠ p) ∨ ∃ y0, findReq p rs = some y0 ∧ y = { y0 with st := f y0.st } := by
  induction rs with
  | nil => simp [updReq] at h
  | cons z zs ih =>
    simp only [List.map_cons, List.nodup_cons] at hnd
    simp only [updReq] at h
    by_cases e : z.p = p
    · rw [if_pos e] at h
      rcases List.mem_cons.mp h with h1 | h1
      · right; exact ⟨z, by simp [findReq, e], h1⟩
      · left
        refine ⟨by simp [h1], ?_⟩
        intro hy
        apply hnd.1
        rw [e, ← hy]; exact List.mem_map_of_mem (f := fun x : Req => x.p) h1
    · rw [if_neg e] at h
      rcases List.mem_cons.mp h with h1 | h1
      · left; subst h1; exact ⟨by simp, e⟩
      · rcases ih hnd.2 h1 with ⟨h2, h3⟩ | ⟨y0, h2, h3⟩
        · left; exact ⟨by simp [h2], h3⟩
        · right; exact ⟨y0, by simp [findReq, e, h2], h3⟩

theorem nodup_p (a : A) (hi : Inv a) : (a.reqs.map (·.p)).Nodup :=
  List.Nodup.sublist (map_p_sublist a.reqs) hi.nodup

theorem hcreq_mono (wq wq' : List (Wid × List Pid)) (x : Req) (h : HCreq wq x)
    (hs : ∀ w q, q ∈ getL wq w → q ∈ getL wq' w) : HCreq wq' x :=
  ⟨fun w hw => hs w _ (h.1 w hw), fun cs q w hc hm => hs w q (h.2 cs q w hc hm)⟩

/-- `afterFill` only removes requests -/
theorem mem_afterFill (a : A) (reqs : List Req) (p : Pid) (y : Req) (h : y ∈ (afterFill a reqs p).1.reqs) :
    y ∈ reqs ∨ y ∈ a.reqs := by
  unfold afterFill at h
  split at h
  · split at h
    · left; exact (flushR_sublist _ reqs).subset h
    · left; exact h
  · right; exact h

theorem afterFill_wq (a : A) (reqs : List Req) (p : Pid) : (afterFill a reqs p).1.wq = a.wq := by
  unfold afterFill
  split
  · split <;> rfl
  · rfl

theorem afill_wq (a : A) (k : Pid) (ans : Ans) : (afill a k ans).1.wq = a.wq := by
  unfold afill
  split
  · exact afterFill_wq _ _ _
  · exact afterFill_wq _ _ _
  · rfl
  · split
    · exact afterFill_wq _ _ _
    · rfl

/-- Filling the cell of `k` (in a step that does not end in `bad`): every remaining request is an
old one that does not involve `k`, or the filled one. `Q` is any property of requests. -/
theorem afill_reqs_pred (a : A) (k : Pid) (ans : Ans) (hnd : (ids a.reqs).Nodup) (Q : Req → Prop)
    (hold : ∀ y ∈ a.reqs, k ∉ idsR y → Q y)
    (hnew1 : ∀ y0 ∈ a.reqs, y0.p = k → Q { y0 with st := .cells [.filled ans] })
    (hnew2 : ∀ y0 ∈ a.reqs, ∀ cs, y0.st = .cells cs → k ∈ openIds cs → Q { y0 with st := .cells (fillCell k ans cs) })
    (hgood : (afill a k ans).1.bad = false) :
    ∀ y ∈ (afill a k ans).1.reqs, Q y := by
  have hndp : (a.reqs.map (·.p)).Nodup := List.Nodup.sublist (map_p_sublist a.reqs) hnd
  -- after an update of request `p0` by `f`, when the updated requests all satisfy Q
  have after : ∀ (p0 : Pid) (f : RSt → RSt), (∀ y ∈ updReq p0 f a.reqs, Q y) →
      (afterFill a (updReq p0 f a.reqs) p0).1.bad = false →
      ∀ y ∈ (afterFill a (updReq p0 f a.reqs) p0).1.reqs, Q y := by
    intro p0 f hq hb y hy
    unfold afterFill at hy hb
    cases hf : findReq p0 (updReq p0 f a.reqs) with
    | none => rw [hf] at hb; simp at hb
    | some x =>
      rw [hf] at hy
      simp only at hy
      cases hr : reply x.st with
      | none => rw [hr] at hy; exact hq y hy
      | some v => rw [hr] at hy; exact hq y ((flushR_sublist _ _).subset hy)
  have req_case : ∀ (x : Req), findReq k a.reqs = some x →
      ∀ y ∈ updReq k (fun _ => RSt.cells [.filled ans]) a.reqs, Q y := by
    intro x hx y hy
    have hxm := findReq_mem k a.reqs _ hx
    rcases mem_updReq_nodup a.reqs k _ y hndp hy with ⟨h1, h2⟩ | ⟨y0, h1, h2⟩
    · apply hold y h1
      intro hk
      have := mem_unique a.reqs y x k hnd h1 hxm.1 hk (by simp [idsR, hxm.2])
      exact h2 (by rw [this]; exact hxm.2)
    · subst h2
      have := findReq_mem k a.reqs y0 h1
      exact hnew1 y0 this.1 this.2
  intro y hy
  cases hx : findReq k a.reqs with
  | some x =>
    obtain ⟨xp, xr, xst⟩ := x
    cases xst with
    | direct w0 =>
      simp only [afill, hx] at hy hgood
      exact after k _ (req_case _ hx) hgood y hy
    | cells cs0 =>
      cases cs0 with
      | nil =>
        simp only [afill, hx] at hy hgood
        exact after k _ (req_case _ hx) hgood y hy
      | cons c cs1 => simp [afill, hx] at hgood
  | none =>
    cases ho : ownerOf k a.reqs with
    | none => simp [afill, hx, ho] at hgood
    | some x =>
      simp only [afill, hx, ho] at hy hgood
      obtain ⟨hxm, cs, hst, hk⟩ := ownerOf_spec k a.reqs x ho
      have hfx := findReq_of_mem a.reqs x hnd hxm
      refine after x.p _ ?_ hgood y hy
      intro y hy
      rcases mem_updReq_nodup a.reqs x.p _ y hndp hy with ⟨h1, h2⟩ | ⟨y0, h1, h2⟩
      · apply hold y h1
        intro hk'
        have := mem_unique a.reqs y x k hnd h1 hxm hk' (by simp [idsR, hst, cellsOfSt, hk])
        exact h2 (by rw [this])
      · rw [hfx] at h1; injection h1 with h1; subst h1
        subst h2
        have := hnew2 x hxm cs hst hk
        simpa [fillSt, hst] using this

theorem written_open (cs : List Cell) (q : Pid) (w : Wid) (h : Cell.written q w ∈ cs) : q ∈ openIds cs :=
  written_mem_open cs q w h

/-- popping the head `k` of writer `w`'s queue keeps `HCreq` for requests that do not involve `k` -/
theorem hcreq_pop (wq : List (Wid × List Pid)) (w : Wid) (k : Pid) (rest : List Pid) (y : Req)
    (hq : getL wq w = k :: rest) (h : HCreq wq y) (hk : k ∉ idsR y) : HCreq (setOrDel wq w rest) y := by
  have key : ∀ w' q, q ∈ getL wq w' → q ≠ k → q ∈ getL (setOrDel wq w rest) w' := by
    intro w' q hm hne
    rw [getL_setOrDel]
    by_cases e : w' = w
    · subst e; simp only [if_true]; rw [hq] at hm
      rcases List.mem_cons.mp hm with e1 | h1
      · exact absurd e1 hne
      · exact h1
    · simp only [e, if_false]; exact hm
  refine ⟨?_, ?_⟩
  · intro w' hst
    apply key w' _ (h.1 w' hst)
    intro e; apply hk; simp [idsR, e]
  · intro cs q w' hst hm
    apply key w' q (h.2 cs q w' hst hm)
    intro e; apply hk
    subst e
    simp only [idsR, hst, cellsOfSt, List.mem_cons]
    right; exact written_open cs q w' hm

theorem hc_afill (a : A) (k : Pid) (ans : Ans) (hnd : (ids a.reqs).Nodup)
    (hgood : (afill a k ans).1.bad = false)
    (h : ∀ y ∈ a.reqs, k ∉ idsR y → HCreq a.wq y)
    (hown : ∀ y0 ∈ a.reqs, ∀ cs, y0.st = .cells cs → k ∈ openIds cs →
       ∀ q w, Cell.written q w ∈ cs → q ≠ k → q ∈ getL a.wq w) : HC (afill a k ans).1 := by
  intro y hy
  rw [afill_wq]
  refine afill_reqs_pred a k ans hnd (HCreq a.wq) h ?_ ?_ hgood y hy
  · intro y0 _ _
    exact ⟨fun w hw => (by cases hw), fun cs q w hc hm => by injection hc with hc; subst hc; simp at hm⟩
  · intro y0 hy0 cs hst hk
    refine ⟨fun w hw => (by cases hw), ?_⟩
    intro cs' q w hc hm
    injection hc with hc; subst hc
    have h1 := written_fillCell_inv k ans cs q w hm
    have hnd' : (openIds cs).Nodup := by
      have := idsR_nodup a.reqs y0 hnd hy0
      simp only [idsR, hst, cellsOfSt, List.nodup_cons] at this
      exact this.2
    have h2 : q ≠ k := ((openIds_fillCell_mem k ans cs hnd' q).mp (written_open _ q w hm)).2
    exact hown y0 hy0 cs hst hk q w h1 h2

theorem hc_acall (a : A) (c : Call) (hi : Inv a) (hi' : Inv (acall a c).1) (h : HC a) : HC (acall a c).1 := by
  cases c with
  | read r p =>
    intro y hy
    simp only [acall, aread] at hy ⊢
    rcases List.mem_append.mp hy with h1 | h1
    · exact h y h1
    · simp at h1; subst h1
      exact ⟨fun w hw => (by cases hw), fun cs q w hc hm => by injection hc with hc; subst hc; simp at hm⟩
  | link p q =>
    simp only [acall, alink]
    split
    · exact h
    · split
      · rename_i x r0 cs hx
        intro y hy
        simp only at hy ⊢
        rcases mem_updReq_inv a.reqs p _ y hy with h1 | ⟨y0, h1, h2⟩
        · exact h y h1
        · rw [hx] at h1; injection h1 with h1; subst h1; subst h2
          have hy0 := (findReq_mem p a.reqs _ hx).1
          refine ⟨fun w hw => (by cases hw), ?_⟩
          intro cs' q' w hc hm
          simp only at hc
          injection hc with hc; subst hc
          rcases List.mem_append.mp hm with h3 | h3
          · exact (h _ hy0).2 cs q' w rfl h3
          · simp at h3
      · exact h
  | write w k pay acc =>
    have hgood := hi'.good
    simp only [acall, awrite] at hgood ⊢
    split
    · rename_i w0
      split
      · rename_i x r0 hx
        have hsup : ∀ w' q, q ∈ getL a.wq w' → q ∈ getL (aset a.wq w0 (getL a.wq w0 ++ [k])) w' := by
          intro w' q hm; rw [getL_aset]; split
          · rename_i e; subst e; simp [hm]
          · exact hm
        intro y hy
        simp only at hy ⊢
        rcases mem_updReq_inv a.reqs k _ y hy with h1 | ⟨y0, h1, h2⟩
        · exact hcreq_mono _ _ y (h y h1) hsup
        · subst h2
          have hp := (findReq_mem k a.reqs y0 h1).2
          refine ⟨?_, fun cs q w hc _ => (by cases hc)⟩
          intro w' hw
          injection hw with hw; subst hw
          rw [getL_aset]; simp [hp]
      · exact h
      · split
        · rename_i p r0 cs ho
          split
          · rename_i hl
            have hsup : ∀ w' q, q ∈ getL a.wq w' → q ∈ getL (aset a.wq w0 (getL a.wq w0 ++ [k])) w' := by
              intro w' q hm; rw [getL_aset]; split
              · rename_i e; subst e; simp [hm]
              · exact hm
            obtain ⟨hm0, cs', hst, _⟩ := ownerOf_spec k a.reqs _ ho
            have hf0 := findReq_of_mem a.reqs _ hi.nodup hm0
            simp only at hst hf0
            injection hst with hst; subst hst
            intro y hy
            simp only at hy ⊢
            rcases mem_updReq_inv a.reqs p _ y hy with h1 | ⟨y0, h1, h2⟩
            · exact hcreq_mono _ _ y (h y h1) hsup
            · rw [hf0] at h1; injection h1 with h1; subst h1; subst h2
              refine ⟨fun w hw => (by cases hw), ?_⟩
              intro cs' q w' hc hm
              simp only at hc
              injection hc with hc; subst hc
              rcases written_markWritten_inv k w0 cs q w' hm with h3 | ⟨h3, h4⟩
              · exact hsup w' q ((h _ hm0).2 cs q w' rfl h3)
              · subst h3; subst h4; rw [getL_aset]; simp
          · exact h
        · exact h
    · apply hc_afill a k pay hi.nodup
      · have := hi'.good
        simp only [acall, awrite] at this
        exact this
      · intro y hy _; exact h y hy
      · intro y0 hy0 cs hst _ q w' hm _; exact (h y0 hy0).2 cs q w' hst hm
  | answer w ans =>
    have hgood := hi'.good
    simp only [acall, aanswer] at hgood ⊢
    cases hq : getL a.wq w with
    | nil => simp only [hq] at hgood ⊢; exact h
    | cons k rest =>
      simp only [hq] at hgood ⊢
      apply hc_afill { a with wq := setOrDel a.wq w rest } k ans hi.nodup hgood
      · intro y hy hk; exact hcreq_pop a.wq w k rest y hq (h y hy) hk
      · intro y0 hy0 cs hst hk q w' hm hne
        have := (h y0 hy0).2 cs q w' hst hm
        show q ∈ getL (setOrDel a.wq w rest) w'
        rw [getL_setOrDel]
        by_cases e : w' = w
        · subst e; simp only [if_true]; rw [hq] at this
          rcases List.mem_cons.mp this with e1 | h1
          · exact absurd e1 hne
          · exact h1
        · simp only [e, if_false]; exact this

/-! ### both invariants along every protocol-conforming history -/

theorem hf_hc_run (cs : List Call) : ∀ (a : A) (t : T), TRel a t → Inv a → HF a.reqs → HC a → Protocol a cs →
    HF (arun a cs).1.reqs ∧ HC (arun a cs).1 := by
  induction cs with
  | nil => intro a t _ _ h1 h2 _; exact ⟨h1, h2⟩
  | cons c cs ih =>
    intro a t h hi h1 h2 hp
    obtain ⟨_, g2, g3⟩ := call_refines a t c h hi hp.1
    simp only [arun]
    exact ih _ _ g2 g3 (hf_acall a c hi h1) (hc_acall a c hi g3 h2) hp.2

theorem hf_init : HF ({} : A).reqs := by intro r x h; simp [headOf] at h
theorem hc_init : HC ({} : A) := by intro x h; simp at h

/-! ### what "the loops of process p have ended" means -/

def cellOK (Wp : Wid → Bool) : Cell → Bool
  | .linked _ => false
  | .written _ w => Wp w
  | .filled _ => true

/-- every derived packet of the request has been written (to a writer of the process) or answered -/
def stOK (Wp : Wid → Bool) : RSt → Bool
  | .direct w => Wp w
  | .cells cs => !cs.isEmpty && cs.all (cellOK Wp)

/-- No request read on a reader of the process is between `Read` and the last `Write` of its
iteration, and what it still waits for was written to writers of the process. -/
def Settled (Rp : Rid → Bool) (Wp : Wid → Bool) (a : A) : Prop :=
  ∀ x ∈ a.reqs, Rp x.r = true → stOK Wp x.st = true

theorem headOf_exists (r : Rid) (rs : List Req) (x : Req) (hx : x ∈ rs) (hr : x.r = r) : ∃ y, headOf r rs = some y ∧ y ∈ rs := by
  induction rs with
  | nil => simp at hx
  | cons z zs ih =>
    simp only [headOf, List.find?_cons]
    by_cases e : z.r = r
    · exact ⟨z, by simp [e], by simp⟩
    · simp only [e, decide_false]
      rcases List.mem_cons.mp hx with e1 | h1
      · subst e1; exact absurd hr e
      · obtain ⟨y, h2, h3⟩ := ih h1
        exact ⟨y, h2, by simp [h3]⟩

theorem hasNil_cell (cs : List Cell) (h : hasNil (cs.map cellVal) = true) :
    ∃ c ∈ cs, cellVal c = none := by
  induction cs with
  | nil => simp [hasNil] at h
  | cons c cs ih =>
    cases hc : cellVal c with
    | none => exact ⟨c, by simp, hc⟩
    | some v =>
      simp only [List.map_cons, hc, hasNil] at h
      obtain ⟨c', h1, h2⟩ := ih h
      exact ⟨c', by simp [h1], h2⟩

/-- The abstract core: with the two invariants, if the requests of the process are settled and
nothing is queued on its writers, no request of the process is left. -/
theorem no_request_left (a : A) (Rp : Rid → Bool) (Wp : Wid → Bool) (h1 : HF a.reqs) (h2 : HC a)
    (hs : Settled Rp Wp a) (hw : ∀ w, Wp w = true → getL a.wq w = []) :
    ∀ x ∈ a.reqs, Rp x.r = false := by
  intro x hx
  cases hR : Rp x.r with
  | false => rfl
  | true =>
    exfalso
    obtain ⟨y, hy, hym⟩ := headOf_exists x.r a.reqs x hx rfl
    have hyr := headOf_r x.r a.reqs y hy
    have hrep := h1 x.r y hy
    have hok := hs y hym (by rw [hyr]; exact hR)
    cases hst : y.st with
    | direct w =>
      rw [hst] at hok
      have := (h2 y hym).1 w hst
      rw [hw w hok] at this; cases this
    | cells cs =>
      rw [hst] at hok hrep
      simp only [stOK, Bool.and_eq_true, Bool.not_eq_true', List.all_eq_true] at hok
      cases cs with
      | nil => simp at hok
      | cons c cs' =>
        simp only [reply] at hrep
        split at hrep
        · rename_i hn
          obtain ⟨c', hc1, hc2⟩ := hasNil_cell (c :: cs') hn
          have := hok.2 c' hc1
          cases c' with
          | linked q => simp [cellOK] at this
          | filled v => simp [cellVal] at hc2
          | written q w =>
            simp only [cellOK] at this
            have hq := (h2 y hym).2 (c :: cs') q w hst hc1
            rw [hw w this] at hq; cases hq
        · cases hrep


/-- a `reader` entry names the reader of a request that is still in the state -/
theorem rdr_of_info (a : A) (k : Pid) (r : Rid) (h : (info a k).rdr = some r) : ∃ x ∈ a.reqs, x.r = r := by
  simp only [info] at h
  cases hil : infoL a.reqs k with
  | none => rw [hil] at h; cases h
  | some i =>
    rw [hil] at h
    have hx : ∃ x ∈ a.reqs, infoR x k = some i := by
      clear h
      generalize a.reqs = rs at hil
      induction rs with
      | nil => simp [infoL] at hil
      | cons z zs ih =>
        simp only [infoL] at hil
        cases hz : infoR z k with
        | some j => rw [hz] at hil; exact ⟨z, by simp, by rw [hz]; exact hil⟩
        | none => rw [hz] at hil; obtain ⟨x, h1, h2⟩ := ih hil; exact ⟨x, by simp [h1], h2⟩
    obtain ⟨x, hxm, hxi⟩ := hx
    simp only [infoR] at hxi
    split at hxi
    · injection hxi with hxi; subst hxi
      simp only at h
      injection h with h
      exact ⟨x, hxm, h⟩
    · have key : ∀ (cs0 : List Cell) (j : PInfo), infoCells x.p cs0 k = some j → j.rdr = none := by
        intro cs0
        induction cs0 with
        | nil => intro j hj; simp [infoCells] at hj
        | cons c cs1 ih =>
          intro j hj
          cases c with
          | linked q =>
            simp only [infoCells] at hj
            split at hj
            · injection hj with hj; subst hj; rfl
            · exact ih j hj
          | written q w =>
            simp only [infoCells] at hj
            split at hj
            · injection hj with hj; subst hj; rfl
            · exact ih j hj
          | filled v => simp only [infoCells] at hj; exact ih j hj
      have := key _ i hxi
      rw [this] at h; cases h

end Uniflow.ATracer

/-! ### frame: `receive`, `discard`, `resolve` (every fuel level), `flush`, `fillSource` and the loop of
`Drop` never write the `writes` map -/

namespace Uniflow.Tracer

theorem flush_writes (strict : Bool) (r : Rid) (ps : List Pid) : ∀ t, (flush strict r ps t).2.1.writes = t.writes := by
  induction ps with
  | nil => intro t; rfl
  | cons p ps ih =>
    intro t
    simp only [flush]
    split
    · split
      · rfl
      · simp only []; rw [ih]
    · split
      · rfl
      · simp only []; rw [ih]

theorem fillSource_writes (t : T) (pck : Pid) (j : Ans) (s : Pid) : (fillSource t pck j s).writes = t.writes := by
  unfold fillSource
  split <;> rfl

theorem resolve_writes (strict : Bool) : ∀ (fuel : Nat) (t : T) (p : Pid), (resolve strict fuel t p).1.writes = t.writes := by
  intro fuel
  induction fuel with
  | zero => intro t p; rfl
  | succ n ih =>
    intro t p
    have hfold : ∀ (srcs : List Pid) (acc : T × List Ev) (pck : Pid) (j : Ans),
        (srcs.foldl (fun (acc : T × List Ev) s =>
          let (t1, e1) := resolve strict n (fillSource acc.1 pck j s) s
          (t1, acc.2 ++ e1)) acc).1.writes = acc.1.writes := by
      intro srcs
      induction srcs with
      | nil => intro acc pck j; rfl
      | cons s ss ihs =>
        intro acc pck j
        simp only [List.foldl_cons]
        rw [ihs]
        simp only [ih, fillSource_writes]
    simp only [resolve]
    repeat' split
    all_goals (first | rfl | (simp only [flush_writes, hfold]))

theorem receive_writes (t : T) (p : Pid) (a : Ans) : (receive t p a).writes = t.writes := rfl

theorem discard_writes (t : T) (p : Pid) : (discard t p).writes = t.writes := by
  unfold discard; split <;> rfl

/-- the loop of `Drop` never touches `writes` -/
theorem dropLoop_writes (strict : Bool) (ps : List Pid) : ∀ t, (dropLoop strict ps t).1.writes = t.writes := by
  induction ps with
  | nil => intro t; rfl
  | cons p ps ih =>
    intro t
    simp only [dropLoop]
    rw [ih, resolve_writes, receive_writes]

/-- **`Drop(w)` detaches the writer**, for every tracer state (no well-formedness needed), strict or not. -/
theorem dropW_detaches (strict : Bool) (t : T) (w : Wid) : aget (dropW strict t w).1.writes w = none := by
  unfold dropW
  rw [dropLoop_writes]
  simp [aget_adel]

/-- … and leaves every other writer's queue as it was. -/
theorem dropW_other (strict : Bool) (t : T) (w w' : Wid) (h : w' ≠ w) :
    aget (dropW strict t w).1.writes w' = aget t.writes w' := by
  unfold dropW
  rw [dropLoop_writes]
  simp [aget_adel, h]

/-- `Write` / `Receive` change `writes` only at their own writer (`resolve` never touches it). -/
theorem receiveW_writes_other (strict : Bool) (t : T) (w w' : Wid) (a : Option Ans) (h : w' ≠ w) :
    aget (receiveW strict t w a).1.writes w' = aget t.writes w' := by
  unfold receiveW
  split
  · rfl
  · simp only []
    rw [resolve_writes]
    cases a <;> simp [receive_writes, discard_writes, aget_setOrDel, h]

end Uniflow.Tracer

/-! ### `Drop` inside the refinement: `resolve` commutes with a replacement of the `writes` map, so
`Drop(w)` is "answer every packet still awaited on `w` with a dropped packet, then forget the queue" -/

namespace Uniflow.Tracer
/-- replace the `writes` map -/
def setW (t : T) (X : List (Wid × List Pid)) : T := { t with writes := X }

theorem flush_setW (strict : Bool) (r : Rid) (X : List (Wid × List Pid)) (ps : List Pid) :
    ∀ t, flush strict r ps (setW t X) = ((flush strict r ps t).1, setW (flush strict r ps t).2.1 X, (flush strict r ps t).2.2) := by
  induction ps with
  | nil => intro t; rfl
  | cons p ps ih =>
    intro t
    simp only [flush, setW] at ih ⊢
    split
    · split
      · rfl
      · simp only []
        have := ih { t with reader := adel t.reader p, receives := adel t.receives p }
        simp only [] at this
        rw [this]
    · split
      · rfl
      · simp only []
        have := ih { t with reader := adel t.reader p, receives := adel t.receives p }
        simp only [] at this
        rw [this]

theorem fillSource_setW (t : T) (X : List (Wid × List Pid)) (pck : Pid) (j : Ans) (s : Pid) :
    fillSource (setW t X) pck j s = setW (fillSource t pck j s) X := by
  unfold fillSource setW
  simp only []
  split <;> rfl

/-- one iteration of the `for _, source := range sources` loop of `resolve` -/
def rstep (strict : Bool) (n : Nat) (pck : Pid) (j : Ans) (acc : T × List Ev) (s : Pid) : T × List Ev :=
  ((resolve strict n (fillSource acc.1 pck j s) s).1, acc.2 ++ (resolve strict n (fillSource acc.1 pck j s) s).2)

theorem rstep_eq (strict : Bool) (n : Nat) (pck : Pid) (j : Ans) :
    (fun (acc : T × List Ev) s =>
      let (t1, e1) := resolve strict n (fillSource acc.1 pck j s) s
      (t1, acc.2 ++ e1)) = rstep strict n pck j := by
  funext acc s; rfl

/-- the hooks branch of `resolve` -/
def hookStep (t : T) (pck : Pid) : T × List Ev :=
  match aget t.hooks pck with
  | some (_ + 1) =>
    ({ t with hooks := adel t.hooks pck, receives := adel t.receives pck }, [Ev.hook pck (joinCells (getL t.receives pck))])
  | _ => (t, [])

/-- the sources branch -/
def srcStep (strict : Bool) (n : Nat) (t : T) (pck : Pid) : T × List Ev :=
  match aget t.sources pck with
  | none => (t, [])
  | some srcs =>
    srcs.foldl (rstep strict n pck (joinCells (getL t.receives pck))) ({ t with sources := adel t.sources pck }, [])

/-- the reader branch -/
def tailStep (strict : Bool) (t : T) (pck : Pid) (ev : List Ev) : T × List Ev :=
  match aget t.reader pck with
  | some r =>
    let f := flush strict r (getL t.reads r) t
    ({ f.2.1 with reads := setOrDel f.2.1.reads r f.1 }, ev ++ f.2.2)
  | none => ({ t with receives := adel t.receives pck }, ev)

theorem resolve_succ (strict : Bool) (n : Nat) (t : T) (pck : Pid) :
    resolve strict (n + 1) t pck =
      if hasNil (getL t.receives pck) then (t, []) else
      let h := hookStep t pck
      if hasNil (getL h.1.receives pck) then h else
      let s := srcStep strict n h.1 pck
      tailStep strict s.1 pck (h.2 ++ s.2) := by
  simp only [resolve, rstep_eq, hookStep, srcStep, tailStep]
  repeat' split
  all_goals first | rfl | simp_all

theorem hookStep_setW (t : T) (X : List (Wid × List Pid)) (pck : Pid) :
    hookStep (setW t X) pck = (setW (hookStep t pck).1 X, (hookStep t pck).2) := by
  unfold hookStep setW
  simp only []
  split <;> rfl

theorem tailStep_setW (strict : Bool) (t : T) (X : List (Wid × List Pid)) (pck : Pid) (ev : List Ev) :
    tailStep strict (setW t X) pck ev = (setW (tailStep strict t pck ev).1 X, (tailStep strict t pck ev).2) := by
  unfold tailStep
  show (match aget t.reader pck with | some r => _ | none => _) = _
  cases hr : aget t.reader pck with
  | none => rfl
  | some r =>
    simp only []
    show (let f := flush strict r (getL t.reads r) (setW t X); _) = _
    simp only [flush_setW]
    rfl

theorem resolve_setW (strict : Bool) (X : List (Wid × List Pid)) : ∀ (fuel : Nat) (t : T) (p : Pid),
    resolve strict fuel (setW t X) p = (setW (resolve strict fuel t p).1 X, (resolve strict fuel t p).2) := by
  intro fuel
  induction fuel with
  | zero => intro t p; rfl
  | succ n ih =>
    intro t p
    have hfold : ∀ (srcs : List Pid) (acc : T × List Ev) (pck : Pid) (j : Ans),
        srcs.foldl (rstep strict n pck j) (setW acc.1 X, acc.2) =
        (setW (srcs.foldl (rstep strict n pck j) acc).1 X, (srcs.foldl (rstep strict n pck j) acc).2) := by
      intro srcs
      induction srcs with
      | nil => intro acc pck j; rfl
      | cons s ss ihs =>
        intro acc pck j
        simp only [List.foldl_cons]
        have h1 : rstep strict n pck j (setW acc.1 X, acc.2) s =
            (setW (rstep strict n pck j acc s).1 X, (rstep strict n pck j acc s).2) := by
          simp only [rstep, fillSource_setW, ih]
        rw [h1]
        exact ihs _ pck j
    have hsrc : ∀ (t1 : T), srcStep strict n (setW t1 X) p =
        (setW (srcStep strict n t1 p).1 X, (srcStep strict n t1 p).2) := by
      intro t1
      unfold srcStep
      show (match aget t1.sources p with | none => _ | some srcs => _) = _
      cases hs : aget t1.sources p with
      | none => rfl
      | some srcs =>
        simp only []
        exact hfold srcs ({ t1 with sources := adel t1.sources p }, []) p _
    rw [resolve_succ, resolve_succ]
    show (if hasNil (getL t.receives p) = true then _ else _) = _
    by_cases h1 : hasNil (getL t.receives p) = true
    · simp [h1]
    · rw [hookStep_setW]
      by_cases h2 : hasNil (getL (hookStep t p).1.receives p) = true
      · have h2' : hasNil (getL (setW (hookStep t p).1 X).receives p) = true := h2
        simp [h1, h2, h2']
      · have h2' : ¬ hasNil (getL (setW (hookStep t p).1 X).receives p) = true := h2
        simp only [h1, h2, h2', if_false, Bool.false_eq_true]
        rw [hsrc, tailStep_setW]


theorem dropLoop_setW (strict : Bool) (X : List (Wid × List Pid)) (ps : List Pid) :
    ∀ t, dropLoop strict ps (setW t X) = (setW (dropLoop strict ps t).1 X, (dropLoop strict ps t).2) := by
  induction ps with
  | nil => intro t; rfl
  | cons p ps ih =>
    intro t
    simp only [dropLoop]
    have : receive (setW t X) p Ans.dropped = setW (receive t p Ans.dropped) X := rfl
    rw [this, resolve_setW]
    simp only [ih]

theorem dropW_core (strict : Bool) (t : T) (w : Wid) :
    dropW strict t w = (setW (dropLoop strict (getL t.writes w) t).1 (adel t.writes w), (dropLoop strict (getL t.writes w) t).2) := by
  unfold dropW
  exact dropLoop_setW strict _ _ t

theorem receiveW_core (t : T) (w : Wid) (p : Pid) (rest : List Pid) (a : Ans) (h : getL t.writes w = p :: rest) :
    receiveW true t w (some a) =
      (setW (resolve true defaultFuel (receive t p a) p).1 (setOrDel t.writes w rest),
       (resolve true defaultFuel (receive t p a) p).2) := by
  unfold receiveW
  rw [h]
  simp only []
  have : receive { t with writes := setOrDel t.writes w rest } p a = setW (receive t p a) (setOrDel t.writes w rest) := rfl
  rw [this, resolve_setW]

end Uniflow.Tracer

namespace Uniflow.ATracer
open Uniflow.Tracer
open Uniflow.NodeSpec (PInfo optL)

theorem trel_writes_congr (a : A) (t : T) (X : List (Wid × List Pid)) (h : TRel a t)
    (hx : ∀ k, aget X k = aget a.wq k) : TRel a (setW t X) :=
  ⟨h.panic, h.hooks, h.recv, h.src, h.tgt, h.rdr, h.reads, hx⟩

theorem trel_wq_congr (a : A) (t : T) (wq' : List (Wid × List Pid)) (h : TRel a t)
    (hx : ∀ k, aget t.writes k = aget wq' k) : TRel { a with wq := wq' } t :=
  ⟨h.panic, h.hooks, h.recv, h.src, h.tgt, h.rdr, h.reads, hx⟩

theorem inv_wq_congr (a : A) (wq' : List (Wid × List Pid)) (h : Inv a) (hx : ∀ k, getL wq' k = getL a.wq k) :
    Inv { a with wq := wq' } :=
  ⟨h.nodup, fun w k hk => h.owed w k (by rw [← hx w]; exact hk), fun w => by rw [hx w]; exact h.wnodup w,
   fun w w' k h1 h2 => h.wdisj w w' k (by rw [← hx w]; exact h1) (by rw [← hx w']; exact h2), h.good⟩

theorem hc_wq_congr (a : A) (wq' : List (Wid × List Pid)) (h : HC a) (hx : ∀ k, getL wq' k = getL a.wq k) :
    HC { a with wq := wq' } := by
  intro x hxm
  exact hcreq_mono a.wq wq' x (h x hxm) (fun w q hq => by rw [hx w]; exact hq)

theorem getL_adel_of_nil {β : Type} (m : List (Nat × List β)) (w k : Nat) (h : getL m w = []) :
    getL (adel m w) k = getL m k := by
  simp only [getL_eq, aget_adel]
  by_cases e : k = w
  · subst e; simp only [if_true]; rw [getL_eq] at h; exact h.symm
  · simp [e]

/-- **`Drop(w)` refines "answer every packet still awaited on `w` with a dropped packet, then forget the
queue".** From related states it leads to related states, keeps all invariants, and leaves nothing
queued on `w`; requests only leave or get cells filled (`stable`). -/
theorem drop_refines (w : Wid) (Q : Req → Prop)
    (hQ1 : ∀ (y0 : Req) (ans : Ans), Q y0 → Q { y0 with st := .cells [.filled ans] })
    (hQ2 : ∀ (y0 : Req) (cs : List Cell) (k : Pid) (ans : Ans), y0.st = .cells cs → Q y0 → Q { y0 with st := .cells (fillCell k ans cs) }) :
    ∀ (l : List Pid) (a : A) (t : T), TRel a t → Inv a → HF a.reqs → HC a → (∀ x ∈ a.reqs, Q x) → getL t.writes w = l →
      ∃ a', TRel a' (setW (dropLoop true l t).1 (adel t.writes w)) ∧ Inv a' ∧ HF a'.reqs ∧ HC a' ∧
        (∀ x ∈ a'.reqs, Q x) ∧ getL a'.wq w = [] ∧ (∀ k, k ≠ w → getL a'.wq k = getL a.wq k) := by
  intro l
  induction l with
  | nil =>
    intro a t h hi hf hc hq hl
    have hlw : getL a.wq w = [] := by
      have := h.writes w; rw [getL_eq, ← this, ← getL_eq]; exact hl
    refine ⟨{ a with wq := adel a.wq w }, ?_, ?_, hf, ?_, hq, ?_, ?_⟩
    · exact ⟨h.panic, h.hooks, h.recv, h.src, h.tgt, h.rdr, h.reads,
        fun k => by show aget (adel t.writes w) k = aget (adel a.wq w) k; rw [aget_adel, aget_adel, h.writes k]⟩
    · exact inv_wq_congr a _ hi (fun k => getL_adel_of_nil a.wq w k hlw)
    · exact hc_wq_congr a _ hc (fun k => getL_adel_of_nil a.wq w k hlw)
    · show getL (adel a.wq w) w = []
      simp [getL_eq, aget_adel]
    · intro k hk
      show getL (adel a.wq w) k = getL a.wq k
      simp [getL_eq, aget_adel, hk]
  | cons p rest ih =>
    intro a t h hi hf hc hq hl
    -- one `Receive(w, dropped)`
    obtain ⟨a1, t1, e1, e2, h1, hi1, _⟩ := trel_aanswer a t w Ans.dropped h hi
    have ea : (acall a (.answer w Ans.dropped)).1 = a1 := by simp only [acall]; rw [e1]
    have hi1' : Inv (acall a (.answer w Ans.dropped)).1 := by rw [ea]; exact hi1
    have hf1 : HF a1.reqs := by rw [← ea]; exact hf_acall a _ hi hf
    have hc1 : HC a1 := by rw [← ea]; exact hc_acall a _ hi hi1' hc
    have hcore := receiveW_core t w p rest Ans.dropped hl
    have et1 : t1 = setW (resolve true defaultFuel (receive t p Ans.dropped) p).1 (setOrDel t.writes w rest) := by
      rw [hcore] at e2; exact (Prod.mk.inj e2).1.symm
    -- Q survives the answer
    have hlw : getL a.wq w = p :: rest := by
      have := h.writes w; rw [getL_eq, ← this, ← getL_eq]; exact hl
    have hq1 : ∀ x ∈ a1.reqs, Q x := by
      have hgood : (aanswer a w Ans.dropped).1.bad = false := by rw [e1]; exact hi1.good
      have hre : (aanswer a w Ans.dropped).1.reqs = a1.reqs := by rw [e1]
      rw [← hre]
      simp only [aanswer, hlw] at hgood ⊢
      exact afill_reqs_pred { a with wq := setOrDel a.wq w rest } p Ans.dropped hi.nodup Q
        (fun y hy _ => hq y hy) (fun y0 hy0 _ => hQ1 y0 _ (hq y0 hy0))
        (fun y0 hy0 cs hst _ => hQ2 y0 cs p _ hst (hq y0 hy0)) hgood
    have hwq1 : ∀ k, getL a1.wq k = if k = w then rest else getL a.wq k := by
      intro k
      have : a1.wq = setOrDel a.wq w rest := by
        have := congrArg (fun x => x.1.wq) e1
        simp only [aanswer, hlw, afill_wq] at this
        exact this.symm
      rw [this, getL_setOrDel]
    have hl1 : getL t1.writes w = rest := by
      rw [et1]; show getL (setOrDel t.writes w rest) w = rest; rw [getL_setOrDel]; simp
    obtain ⟨a', g1, g2, g3, g4, g5, g6, g7⟩ := ih a1 t1 h1 hi1 hf1 hc1 hq1 hl1
    refine ⟨a', ?_, g2, g3, g4, g5, g6, ?_⟩
    · -- the tracer state reached by the loop of Drop, up to the `writes` map
      have hd : (dropLoop true (p :: rest) t).1 = (dropLoop true rest (resolve true defaultFuel (receive t p Ans.dropped) p).1).1 := by
        simp only [dropLoop]
      have hd1 : (dropLoop true rest t1).1 = setW (dropLoop true rest (resolve true defaultFuel (receive t p Ans.dropped) p).1).1 (setOrDel t.writes w rest) := by
        rw [et1, dropLoop_setW]
      rw [hd1] at g1
      rw [hd]
      refine ⟨g1.panic, g1.hooks, g1.recv, g1.src, g1.tgt, g1.rdr, g1.reads, ?_⟩
      intro k
      have := g1.writes k
      show aget (adel t.writes w) k = aget a'.wq k
      rw [← this]
      show aget (adel t.writes w) k = aget (adel t1.writes w) k
      rw [et1]
      show aget (adel t.writes w) k = aget (adel (setOrDel t.writes w rest) w) k
      rw [aget_adel, aget_adel, aget_setOrDel]
      by_cases e : k = w <;> simp [e]
    · intro k hk
      rw [g7 k hk, hwq1 k]; simp [hk]


/-- what a related, settled, drained state says about the tracer's maps -/
theorem residue_free_of_rel (a : A) (t : T) (Rp : Rid → Bool) (Wp : Wid → Bool) (hrel : TRel a t)
    (hf : HF a.reqs) (hc : HC a) (hset : Settled Rp Wp a) (hw : ∀ w, Wp w = true → getL a.wq w = []) :
    (∀ x ∈ a.reqs, Rp x.r = false) ∧
    (∀ r, Rp r = true → aget t.reads r = none) ∧
    (∀ k r, aget t.reader k = some r → Rp r = false) ∧
    (∀ k, k ∉ ids a.reqs → aget t.receives k = none ∧ aget t.sources k = none ∧ aget t.targets k = none ∧ aget t.reader k = none) ∧
    t.hooks = [] ∧ t.panic = false := by
  have hnone := no_request_left a Rp Wp hf hc hset hw
  refine ⟨hnone, ?_, ?_, ?_, hrel.hooks, hrel.panic⟩
  · intro r hr
    rw [hrel.reads r]
    have : readsOf a r = [] := by
      simp only [readsOf, List.map_eq_nil_iff, List.filter_eq_nil_iff]
      intro x hx hxr
      have := hnone x hx
      simp only [decide_eq_true_eq] at hxr
      rw [hxr, hr] at this; cases this
    rw [this]; rfl
  · intro k r hk
    rw [hrel.rdr k] at hk
    obtain ⟨x, hx, hxr⟩ := rdr_of_info _ k r hk
    rw [← hxr]; exact hnone x hx
  · intro k hk
    have hi := info_fresh a k hk
    exact ⟨by rw [hrel.recv k, hi], by rw [hrel.src k, hi], by rw [hrel.tgt k, hi], by rw [hrel.rdr k, hi]⟩

/-- the loop-end calls: `Tracer.Drop(w)` for each writer in `ws`, in that order -/
def dropAll (ws : List Wid) (t : T) : T := ws.foldl (fun t w => (dropW true t w).1) t

theorem stOK_fill (Wp : Wid → Bool) (k : Pid) (ans : Ans) (cs : List Cell)
    (h : stOK Wp (.cells cs) = true) : stOK Wp (.cells (fillCell k ans cs)) = true := by
  simp only [stOK, Bool.and_eq_true, Bool.not_eq_true', List.all_eq_true] at h ⊢
  refine ⟨?_, ?_⟩
  · cases cs with
    | nil => simp at h
    | cons c cs' => cases c <;> simp [fillCell] <;> split <;> simp
  · have h2 := h.2
    clear h
    induction cs with
    | nil => intro c hc; simp [fillCell] at hc
    | cons c cs' ih =>
      intro c' hc'
      have ih' := ih (fun x hx => h2 x (by simp [hx]))
      cases c with
      | linked q => have := h2 (.linked q) (by simp); simp [cellOK] at this
      | written q w =>
        simp only [fillCell] at hc'
        split at hc'
        · rcases List.mem_cons.mp hc' with e | e
          · subst e; rfl
          · exact h2 c' (by simp [e])
        · rcases List.mem_cons.mp hc' with e | e
          · subst e; exact h2 _ (by simp)
          · exact ih' c' e
      | filled b =>
        simp only [fillCell] at hc'
        rcases List.mem_cons.mp hc' with e | e
        · subst e; rfl
        · exact ih' c' e

/-- Any protocol-conforming history, then `Drop` for every writer in `ws`: the result is still
related to an abstract state satisfying all invariants, still settled, with nothing queued on any
writer in `ws`. -/
theorem dropAll_refines (Rp : Rid → Bool) (Wp : Wid → Bool) (ws : List Wid) :
    ∀ (a : A) (t : T), TRel a t → Inv a → HF a.reqs → HC a → Settled Rp Wp a →
      ∀ (done : List Wid), (∀ w ∈ done, getL a.wq w = []) →
      ∃ a', TRel a' (dropAll ws t) ∧ Inv a' ∧ HF a'.reqs ∧ HC a' ∧ Settled Rp Wp a' ∧
        (∀ w, w ∈ done ∨ w ∈ ws → getL a'.wq w = []) := by
  induction ws with
  | nil => intro a t h hi hf hc hs done hd; exact ⟨a, h, hi, hf, hc, hs, fun w hw => by rcases hw with h1 | h1; exact hd w h1; simp at h1⟩
  | cons w ws ih =>
    intro a t h hi hf hc hs done hd
    obtain ⟨a1, g1, g2, g3, g4, g5, g6, g7⟩ :=
      drop_refines w (fun x => Rp x.r = true → stOK Wp x.st = true)
        (fun y0 ans _ _ => by simp [stOK, cellOK])
        (fun y0 cs k ans hst hq hr => by
          have := hq hr
          rw [hst] at this
          exact stOK_fill Wp k ans cs this)
        (getL t.writes w) a t h hi hf hc hs rfl
    have g1' : TRel a1 (dropW true t w).1 := by rw [dropW_core]; exact g1
    have hd1 : ∀ w' ∈ w :: done, getL a1.wq w' = [] := by
      intro w' hw'
      rcases List.mem_cons.mp hw' with e | e
      · subst e; exact g6
      · by_cases e2 : w' = w
        · subst e2; exact g6
        · rw [g7 w' e2]; exact hd w' e
    obtain ⟨a', k1, k2, k3, k4, k5, k6⟩ := ih a1 (dropW true t w).1 g1' g2 g3 g4 g5 (w :: done) hd1
    refine ⟨a', k1, k2, k3, k4, k5, ?_⟩
    intro w' hw'
    apply k6 w'
    rcases hw' with e | e
    · left; simp [e]
    · rcases List.mem_cons.mp e with e2 | e2
      · left; simp [e2]
      · right; exact e2

end Uniflow.ATracer


namespace Uniflow.ATracer
open Uniflow.Tracer

theorem dropAll_writes_other (ws : List Wid) (w : Wid) (h : w ∉ ws) :
    ∀ t, aget (dropAll ws t).writes w = aget t.writes w := by
  induction ws with
  | nil => intro t; rfl
  | cons w0 ws ih =>
    intro t
    simp only [List.mem_cons, not_or] at h
    show aget (dropAll ws (dropW true t w0).1).writes w = _
    rw [ih h.2, dropW_other true t w0 w h.1]

theorem dropAll_writes_none (ws : List Wid) (w : Wid) (h : w ∈ ws) :
    ∀ t, aget (dropAll ws t).writes w = none := by
  induction ws with
  | nil => simp at h
  | cons w0 ws ih =>
    intro t
    show aget (dropAll ws (dropW true t w0).1).writes w = none
    by_cases e : w ∈ ws
    · exact ih e _
    · rcases List.mem_cons.mp h with e1 | e1
      · subst e1; rw [dropAll_writes_other ws w e]; exact dropW_detaches true t w
      · exact absurd e1 e

end Uniflow.ATracer
